// sonicsa: repository-specific static checker for bytedance/sonic.
// It type-checks /repo's current working tree and evaluates rule engines;
// it never builds, runs or symbolically executes sonic.
package main

import (
	"encoding/json"
	"flag"
	"fmt"
	"os"
	"sort"
	"strconv"
	"strings"

	"verif/sa/core"
	"verif/sa/rules"
)

func main() {
	prop := flag.String("prop", "", "property id (C01..C20), comma list, or 'all'")
	tier := flag.String("tier", "quick", "quick|thorough")
	repo := flag.String("repo", "/repo", "repository root to analyse")
	verif := flag.String("verif", "/verif", "verification directory (evidence, known findings)")
	replay := flag.String("replay", "", "violations file to replay")
	list := flag.Bool("list", false, "list properties and rules")
	dump := flag.Bool("dump", false, "print every obligation")
	dev := flag.String("dev", "", "developer dump (bituses, ...)")
	flag.Parse()

	if *list {
		for _, s := range rules.Props() {
			fmt.Printf("%s: %s\n", s.ID, strings.Join(s.Rules, " "))
		}
		for _, r := range rules.All() {
			fmt.Printf("%-6s min=%d thorough=%v arm64=%v  %s\n", r.ID, r.Min, r.Thorough, r.Arm64, r.Doc)
		}
		return
	}
	if *dev != "" {
		prog, err := core.Load(*repo, "amd64")
		if err != nil {
			fmt.Println(err)
			os.Exit(2)
		}
		rules.Dev(*dev, core.NewDevCtx(prog))
		return
	}
	var only map[string]bool
	if *replay != "" {
		b, err := os.ReadFile(*replay)
		if err != nil {
			fmt.Println("CHECK-ERROR cannot read replay file:", err)
			os.Exit(2)
		}
		var v struct {
			Property   string
			Tier       string
			Violations []core.Obligation
		}
		if err := json.Unmarshal(b, &v); err != nil {
			fmt.Println("CHECK-ERROR bad replay file:", err)
			os.Exit(2)
		}
		*prop, *tier = v.Property, v.Tier
		only = map[string]bool{}
		for _, o := range v.Violations {
			only[o.Key()] = true
		}
	}
	if *tier != "quick" && *tier != "thorough" {
		fmt.Println("CHECK-ERROR bad tier", *tier)
		os.Exit(2)
	}
	seed, _ := strconv.ParseInt(os.Getenv("VERIF_SEED"), 10, 64)
	specs := map[string]core.PropSpec{}
	var ids []string
	for _, s := range rules.Props() {
		specs[s.ID] = s
		ids = append(ids, s.ID)
	}
	sort.Strings(ids)
	var want []string
	if *prop == "all" {
		want = ids
	} else {
		for _, p := range strings.Split(*prop, ",") {
			if _, ok := specs[p]; !ok {
				fmt.Printf("CHECK-ERROR property %q is not claimed by this checker\n", p)
				os.Exit(2)
			}
			want = append(want, p)
		}
	}
	findings, err := core.LoadFindings(*verif + "/known_findings.json")
	if err != nil {
		fmt.Println("CHECK-ERROR", err)
		os.Exit(2)
	}
	progs := core.NewPrograms(*repo)
	rn := core.NewRunner(progs, rules.All(), *tier)
	code := 0
	for _, id := range want {
		res := rn.RunProperty(specs[id], seed)
		if only != nil {
			var keep []core.Obligation
			for _, o := range res.Obligations {
				if only[o.Key()] {
					keep = append(keep, o)
				}
			}
			res.Obligations = keep
		}
		if *dump {
			for _, o := range res.Obligations {
				fmt.Printf("  %-9s %-5s %s  %s  -- %s\n", o.Verdict, o.Rule, o.Construct, o.Pos, o.Reason)
			}
		}
		if c := res.Finish(*verif, findings); c > code {
			if code == 0 || c == 1 {
				code = c
			}
		}
	}
	os.Exit(code)
}
