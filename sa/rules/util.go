package rules

import (
	"go/ast"
	"go/token"
	"go/types"
	"sort"
	"strings"

	"golang.org/x/tools/go/packages"

	"verif/sa/core"
)

// bitFamily resolves constant expressions built from option constants down
// to canonical bit objects (alg.Bit*, consts.F_*), by object, never by value.
type bitFamily struct {
	p *core.Program
}

func isCanonBitPkg(pk *types.Package) bool {
	if pk == nil {
		return false
	}
	switch core.Rel(pk.Path()) {
	case "internal/encoder/alg", "internal/decoder/consts":
		return true
	}
	return false
}

// canonBit follows one constant object through alias initialisers and returns
// the canonical bit object it denotes and whether a "1 <<" was crossed.
// ok=false if the chain has an unrecognised shape.
func (b bitFamily) bitsOf(e ast.Expr, depth int) (bits []types.Object, shifted bool, ok bool) {
	if depth > 12 {
		return nil, false, false
	}
	e = ast.Unparen(e)
	switch x := e.(type) {
	case *ast.CallExpr: // conversion Options(x), int64(x), uint64(x)
		if len(x.Args) == 1 {
			if tv := b.p.TypeOf(x.Fun); tv != nil {
				if _, isSig := tv.Underlying().(*types.Signature); !isSig {
					return b.bitsOf(x.Args[0], depth+1)
				}
			}
		}
		return nil, false, false
	case *ast.BinaryExpr:
		switch x.Op {
		case token.SHL:
			if v, isc := b.p.ConstInt(x.X); isc && v == 1 {
				bits, sh, ok := b.bitsOf(x.Y, depth+1)
				if !ok || sh {
					return nil, false, false
				}
				return bits, true, true
			}
			return nil, false, false
		case token.OR:
			l, ls, lok := b.bitsOf(x.X, depth+1)
			r, rs, rok := b.bitsOf(x.Y, depth+1)
			if !lok || !rok || ls != rs {
				return nil, false, false
			}
			return append(l, r...), ls, true
		}
		return nil, false, false
	case *ast.Ident, *ast.SelectorExpr:
		o := b.p.ExprObj(e)
		c, isConst := o.(*types.Const)
		if !isConst {
			return nil, false, false
		}
		if isCanonBitPkg(c.Pkg()) && isBitName(c.Name()) {
			return []types.Object{c}, false, true
		}
		init := b.p.ConstInit(c)
		if init == nil {
			return nil, false, false
		}
		return b.bitsOf(init, depth+1)
	}
	return nil, false, false
}

func isBitName(n string) bool {
	return strings.HasPrefix(n, "Bit") || strings.HasPrefix(n, "F_")
}

func objNames(os []types.Object) []string {
	var out []string
	for _, o := range os {
		out = append(out, core.Rel(o.Pkg().Path())+"."+o.Name())
	}
	sort.Strings(out)
	return out
}

// enclosingFuncs maps each position range to its top-level declaration.
type funcIndex struct {
	pk    *packages.Package
	decls []*ast.FuncDecl
}

func enclosing(p *core.Program, pk *packages.Package, pos token.Pos) *ast.FuncDecl {
	for _, f := range pk.Syntax {
		if pos < f.Pos() || pos > f.End() {
			continue
		}
		for _, d := range f.Decls {
			if fd, ok := d.(*ast.FuncDecl); ok && fd.Pos() <= pos && pos <= fd.End() {
				return fd
			}
		}
	}
	return nil
}

// recvIdent returns the receiver identifier object of a method.
func recvObj(p *core.Program, fd *ast.FuncDecl) types.Object {
	if fd.Recv == nil || len(fd.Recv.List) == 0 || len(fd.Recv.List[0].Names) == 0 {
		return nil
	}
	return p.ObjectOf(fd.Recv.List[0].Names[0])
}

// isSelOn reports whether e is `<obj>.<name>` (possibly through embedded
// promotion) and returns the selected field/method name.
func selOn(p *core.Program, e ast.Expr, base types.Object) (string, bool) {
	s, ok := ast.Unparen(e).(*ast.SelectorExpr)
	if !ok {
		return "", false
	}
	id, ok := ast.Unparen(s.X).(*ast.Ident)
	if !ok || p.ObjectOf(id) != base || base == nil {
		return "", false
	}
	return s.Sel.Name, true
}

func sortedKeys(m map[string]bool) []string {
	var ks []string
	for k := range m {
		ks = append(ks, k)
	}
	sort.Strings(ks)
	return ks
}

func exprStr(e ast.Expr) string { return types.ExprString(e) }
