package rules

import (
	"go/ast"
	"go/token"
	"go/types"

	"verif/sa/core"
)

// O8: EncodeInto appends to a buffer the caller already owns. The finishing passes (HTML
// escaping, UTF-8 correction) rewrite their whole input, so in an appending entry point they
// may only be handed the region that this call produced: the caller's prefix is neither
// escaped nor "corrected".

func init() {
	register(&core.Rule{ID: "O8", Min: 1, Arm64: true,
		Doc: "Append-only entry points of internal/encoder (functions with a `buf *[]byte` parameter exported from the package: EncodeInto): every call, inside them, to a rewriting pass (a function of the package that reaches alg.HtmlEscape / utf8.CorrectWith / HTMLEscape, computed as a fixpoint over resolved callees) takes as its buffer argument a slice expression `(*buf)[n:]` whose low bound n is a local defined once as `len(*buf)` before the first other use of buf; handing it `*buf` whole rewrites the caller's prefix.",
		Run: runO8})
}

func runO8(c *core.Ctx) {
	p := c.Prog
	pk := p.Pkg("internal/encoder")
	if pk == nil {
		c.Undecided("internal/encoder", token.NoPos, "package not loaded")
		return
	}
	// rewriting passes: fixpoint over package functions
	rewr := map[types.Object]bool{}
	seedName := func(o types.Object) bool {
		if o == nil || o.Pkg() == nil {
			return false
		}
		switch core.Rel(o.Pkg().Path()) + "." + o.Name() {
		case "internal/encoder/alg.HtmlEscape", "utf8.CorrectWith", "internal/encoder.HTMLEscape":
			return true
		}
		return false
	}
	decls := core.FuncDecls(pk)
	for changed := true; changed; {
		changed = false
		for _, fd := range decls {
			if fd.Body == nil {
				continue
			}
			fo := p.ObjectOf(fd.Name)
			if fo == nil || rewr[fo] {
				continue
			}
			hit := false
			ast.Inspect(fd.Body, func(n ast.Node) bool {
				if call, ok := n.(*ast.CallExpr); ok {
					if o := p.Callee(call); seedName(o) || rewr[o] {
						hit = true
					}
				}
				return !hit
			})
			if hit {
				rewr[fo] = true
				changed = true
			}
		}
	}
	n := 0
	for _, fd := range decls {
		if fd.Body == nil || fd.Recv != nil || !fd.Name.IsExported() {
			continue
		}
		// a `buf *[]byte` parameter
		var buf types.Object
		for _, fl := range fd.Type.Params.List {
			for _, nm := range fl.Names {
				if o := p.ObjectOf(nm); o != nil {
					if pt, ok := o.Type().(*types.Pointer); ok {
						if sl, ok := pt.Elem().(*types.Slice); ok {
							if b, ok := sl.Elem().(*types.Basic); ok && b.Kind() == types.Byte {
								buf = o
							}
						}
					}
				}
			}
		}
		if buf == nil {
			continue
		}
		fn := core.FuncName(pk, fd)
		c.Analysed(fn)
		n++
		mentions := func(e ast.Node) bool {
			m := false
			ast.Inspect(e, func(x ast.Node) bool {
				if id, ok := x.(*ast.Ident); ok && p.ObjectOf(id) == buf {
					m = true
				}
				return !m
			})
			return m
		}
		// locals defined once as len(*buf), before any other use of buf
		entryLen := map[types.Object]bool{}
		firstUse := token.NoPos
		for _, st := range fd.Body.List {
			if as, ok := st.(*ast.AssignStmt); ok && as.Tok == token.DEFINE && len(as.Lhs) == 1 && len(as.Rhs) == 1 && firstUse == token.NoPos {
				if call, ok := as.Rhs[0].(*ast.CallExpr); ok && exprStr(call.Fun) == "len" && len(call.Args) == 1 {
					if se, ok := ast.Unparen(call.Args[0]).(*ast.StarExpr); ok {
						if id, ok := se.X.(*ast.Ident); ok && p.ObjectOf(id) == buf {
							if l, ok := as.Lhs[0].(*ast.Ident); ok {
								entryLen[p.ObjectOf(l)] = true
								continue
							}
						}
					}
				}
			}
			if firstUse == token.NoPos && mentions(st) {
				firstUse = st.Pos()
			}
		}
		// reassignment of an entry-length local disqualifies it
		ast.Inspect(fd.Body, func(x ast.Node) bool {
			if as, ok := x.(*ast.AssignStmt); ok && as.Tok != token.DEFINE {
				for _, l := range as.Lhs {
					if id, ok := l.(*ast.Ident); ok {
						delete(entryLen, p.ObjectOf(id))
					}
				}
			}
			if ie, ok := x.(*ast.IncDecStmt); ok {
				if id, ok := ie.X.(*ast.Ident); ok {
					delete(entryLen, p.ObjectOf(id))
				}
			}
			return true
		})
		calls := 0
		ast.Inspect(fd.Body, func(x ast.Node) bool {
			call, ok := x.(*ast.CallExpr)
			if !ok {
				return true
			}
			o := p.Callee(call)
			if !(seedName(o) || rewr[o]) {
				return true
			}
			for _, a := range call.Args {
				if !mentions(a) {
					continue
				}
				calls++
				cn := fn + "/finish-appended-only@" + o.Name()
				if se, ok := ast.Unparen(a).(*ast.SliceExpr); ok && se.Low != nil && se.High == nil {
					if id, ok := ast.Unparen(se.Low).(*ast.Ident); ok && entryLen[p.ObjectOf(id)] {
						c.OK(cn, call.Pos(), "%s is applied to %s: the region appended by this call", o.Name(), exprStr(a))
						continue
					}
				}
				c.Bad(cn, call.Pos(), "%s rewrites %s, which includes the bytes the caller already had in the buffer: with EscapeHTML / ValidateString the caller's prefix comes back escaped or \"corrected\" (the pass must be given (*%s)[n:] with n := len(*%s) taken on entry)", o.Name(), exprStr(a), buf.Name(), buf.Name())
			}
			return true
		})
		if calls == 0 {
			c.OK(fn+"/finish-appended-only", fd.Pos(), "no rewriting pass is applied to the caller's buffer")
		}
	}
	if n == 0 {
		c.Undecided("internal/encoder/append-entry", token.NoPos, "no exported function with a *[]byte parameter found")
	}
}
