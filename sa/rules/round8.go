package rules

import (
	"go/ast"
	"go/constant"
	"go/token"
	"go/types"
	"strings"

	"verif/sa/core"
)

// Rules written from the round-8 hunts (F-73, F-74).

func init() {
	register(&core.Rule{ID: "U11", Min: 1, Arm64: true,
		Doc: "Hashes of bulk-copied pairs (ast): in every function of package ast that copies a []Pair with the builtin `copy(dst, src)`, the hash of a pair the user built without one is computed into the destination - there is an assignment `dst[i].hash = ...` that does not stand under a condition on the table's index map - and no assignment writes `.hash` through the source slice only. BuildIndex and linkedPairs.Get read the hash of the *stored* pair; a stored hash of 0 for every member maps a whole object of more than 16 members to one index entry and Get finds no key.",
		Run: runU11})
	register(&core.Rule{ID: "K17", Min: 2,
		Doc: "Capacity of base64 destinations: the base64 routine also decodes a trailing group of fewer than four characters, so a destination sized for floor(len/4) groups is overrun by inputs whose length is not a multiple of 4. (a) In the emitted template of jitdec._asm_OP_bin the `SHRQ $2, r` that turns the text length into a group count is preceded, as the last writer of r, by `ADDQ $3, r`; (b) in rt.DecodeBase64 (both build variants that size the buffer themselves for the SIMD routine: the amd64 file) the argument of DecodedLen is `len(raw) + k` with constant k >= 3.",
		Run: runK17})
}

func runU11(c *core.Ctx) {
	p := c.Prog
	pk := p.Pkg("ast")
	if pk == nil {
		c.Undecided("ast", token.NoPos, "package not loaded")
		return
	}
	n := 0
	for _, fd := range core.FuncDecls(pk) {
		if fd.Body == nil || strings.HasSuffix(p.Fset.Position(fd.Pos()).Filename, "_test.go") {
			continue
		}
		var dst, src string
		ast.Inspect(fd.Body, func(nd ast.Node) bool {
			call, ok := nd.(*ast.CallExpr)
			if !ok || len(call.Args) != 2 {
				return true
			}
			if id, ok := call.Fun.(*ast.Ident); !ok || id.Name != "copy" {
				return true
			} else if _, isB := p.ObjectOf(id).(*types.Builtin); !isB {
				return true
			}
			if t := pk.TypesInfo.TypeOf(call.Args[0]); t != nil && strings.HasSuffix(t.String(), "ast.Pair") && strings.HasPrefix(t.String(), "[]") {
				if a, ok := ast.Unparen(call.Args[0]).(*ast.Ident); ok {
					if b, ok := ast.Unparen(call.Args[1]).(*ast.Ident); ok {
						dst, src = a.Name, b.Name
					}
				}
			}
			return true
		})
		if dst == "" {
			continue
		}
		n++
		fn := core.FuncName(pk, fd)
		c.Analysed(fn)
		cn := fn + "/hash-of-copied-pairs"
		// assignments to X[..].hash, with the conditions they stand under
		intoDst, intoDstUncond, intoSrc := false, false, token.NoPos
		var stack []ast.Node
		ast.Inspect(fd.Body, func(nd ast.Node) bool {
			if nd == nil {
				stack = stack[:len(stack)-1]
				return true
			}
			stack = append(stack, nd)
			as, ok := nd.(*ast.AssignStmt)
			if !ok {
				return true
			}
			for _, l := range as.Lhs {
				se, ok := ast.Unparen(l).(*ast.SelectorExpr)
				if !ok || se.Sel.Name != "hash" {
					continue
				}
				ix, ok := ast.Unparen(se.X).(*ast.IndexExpr)
				if !ok {
					continue
				}
				base, ok := ast.Unparen(ix.X).(*ast.Ident)
				if !ok {
					continue
				}
				underIndex := false
				for _, s := range stack {
					if is, ok := s.(*ast.IfStmt); ok && strings.Contains(exprStr(is.Cond), ".index") {
						underIndex = true
					}
				}
				switch base.Name {
				case dst:
					intoDst = true
					if !underIndex {
						intoDstUncond = true
					}
				case src:
					intoSrc = as.Pos()
				}
			}
			return true
		})
		switch {
		case intoDstUncond:
			c.OK(cn, fd.Pos(), "missing hashes are computed into %s, whatever the state of the index", dst)
		case intoDst:
			c.Bad(cn, fd.Pos(), "the hash of copied pairs is stored into %s only when the table already has an index: the fresh table NewObject fills has none, its pairs keep hash 0 and BuildIndex maps them all to one entry", dst)
		case intoSrc != token.NoPos:
			c.Bad(cn, intoSrc, "the missing hash is written into %s (the caller's slice) after the copy, the stored pairs in %s keep hash 0: BuildIndex maps every member of an object with more than 16 members to one entry and Get finds no key (Set then appends duplicates)", src, dst)
		default:
			c.Bad(cn, fd.Pos(), "pairs are copied into the table without computing the hash of pairs built as Pair{Key: .., Value: ..}: the stored hash stays 0 and keyed lookup through the index fails")
		}
	}
	if n == 0 {
		c.Undecided("ast bulk pair copies", token.NoPos, "no copy of a []Pair found")
	}
}

func runK17(c *core.Ctx) {
	p := c.Prog
	// (b) rt.DecodeBase64
	if pk := p.Pkg("internal/rt"); pk != nil {
		if fd := core.FuncDecl(pk, "", "DecodeBase64"); fd != nil && fd.Body != nil {
			fn := core.FuncName(pk, fd)
			c.Analysed(fn)
			simd := strings.HasSuffix(p.Fset.Position(fd.Pos()).Filename, "_amd64.go")
			found := false
			ast.Inspect(fd.Body, func(nd ast.Node) bool {
				call, ok := nd.(*ast.CallExpr)
				if !ok || len(call.Args) != 1 {
					return true
				}
				se, ok := call.Fun.(*ast.SelectorExpr)
				if !ok || se.Sel.Name != "DecodedLen" {
					return true
				}
				found = true
				cn := fn + "/destination-size"
				if !simd {
					c.OK(cn, call.Pos(), "encoding/base64 checks the destination itself (not the SIMD routine)")
					return true
				}
				okArg := false
				if be, ok := ast.Unparen(call.Args[0]).(*ast.BinaryExpr); ok && be.Op == token.ADD {
					for _, side := range []ast.Expr{be.X, be.Y} {
						if tv, ok := pk.TypesInfo.Types[side]; ok && tv.Value != nil {
							if v, ok := constant.Int64Val(tv.Value); ok && v >= 3 {
								okArg = true
							}
						}
					}
				}
				if okArg {
					c.OK(cn, call.Pos(), "DecodedLen(%s): the group count is rounded up", exprStr(call.Args[0]))
				} else {
					c.Bad(cn, call.Pos(), "the destination is sized DecodedLen(%s) = floor(len/4)*3, but the SIMD routine also writes the bytes of a trailing group of fewer than 4 characters: `\"aA=\"` writes 1 byte into a 0-byte buffer and the `ret[:n]` that follows panics (optdec []byte fields)", exprStr(call.Args[0]))
				}
				return true
			})
			if !found {
				c.Undecided(fn+"/destination-size", fd.Pos(), "no DecodedLen call found")
			}
		}
	}
	// (a) the JIT template
	if p.GOARCH != "amd64" {
		return
	}
	const rel = "internal/decoder/jitdec"
	a := newAsmCtx(p, rel, "_Assembler")
	if a.pk == nil {
		return
	}
	fd := core.FuncDecl(a.pk, "_Assembler", "_asm_OP_bin")
	cn := rel + "._asm_OP_bin/destination-size"
	if fd == nil {
		c.Undecided(cn, token.NoPos, "handler not found")
		return
	}
	seqs, ok := a.seqs(fd, asmEnv{}, 0)
	if !ok || len(seqs) == 0 {
		c.Undecided(cn, fd.Pos(), "template not modelled")
		return
	}
	c.Analysed(handlerName(a.pk, fd))
	sites, bad := 0, token.NoPos
	for _, sq := range seqs {
		ops := realOps(sq.Ops)
		for i, o := range ops {
			if !(o.Kind == "Emit" && o.Mnem == "SHRQ" && len(o.Ops) == 2 && o.Ops[0].Kind == "imm" && o.Ops[0].ImmOK && o.Ops[0].Imm == 2 && o.Ops[1].Kind == "reg") {
				continue
			}
			sites++
			r := o.Ops[1].Reg
			rounded := false
			for j := i - 1; j >= 0; j-- {
				w := ops[j]
				if w.Kind != "Emit" || len(w.Ops) == 0 || nonWriting[w.Mnem] {
					if w.Kind == "Link" || w.Kind == "CALL" {
						break
					}
					continue
				}
				if d := w.Ops[len(w.Ops)-1]; d.Kind == "reg" && d.Reg == r {
					rounded = w.Mnem == "ADDQ" && len(w.Ops) == 2 && w.Ops[0].Kind == "imm" && w.Ops[0].ImmOK && w.Ops[0].Imm >= 3
					break
				}
			}
			if !rounded && bad == token.NoPos {
				bad = o.Pos
			}
		}
	}
	switch {
	case sites == 0:
		c.Undecided(cn, fd.Pos(), "no `SHRQ $2, r` (length to group count) found in the template")
	case bad != token.NoPos:
		c.Bad(cn, bad, "the destination of the base64 decode is sized floor(len/4)*3 (no `ADDQ $3` before the `SHRQ $2`): for a text whose length is not a multiple of 4 the native routine writes past the allocation (`\"aA=\"`: 1 byte into a 0-byte object, the slice comes back with len 1 and cap 0)")
	default:
		c.OK(cn, fd.Pos(), "group count rounded up (ADDQ $3 before SHRQ $2) at %d site(s)", sites)
	}
}
