package rules

import (
	"go/ast"
	"go/token"
	"go/types"
	"strings"

	"verif/sa/core"
)

// Rules of the ninth round.

func init() {
	register(&core.Rule{ID: "G9", Min: 4, Arm64: true,
		Doc: "Resumable container readers of package ast (functions that fill a *linkedNodes / *linkedPairs they did not create: Parser.decodeArray, Parser.decodeObject, Node.skipNextNode, Node.skipNextPair): the if-statement that accepts the closing byte `]` / `}` as an *empty* container (a comparison of the byte at the cursor with ']' or '}' outside the separator switch) has a conjunct `<table>.Len() == 0` on that table. These functions are re-entered behind a comma when a lazy container is read step by step, so an unconditional test accepts `[1,]` and `{\"a\":1,}` (and, resumed through loadAll*, returns an empty container, dropping the children already read).",
		Run: runG9})
}

func isLinkedTable(t types.Type) bool {
	if t == nil {
		return false
	}
	if pt, ok := t.(*types.Pointer); ok {
		t = pt.Elem()
	}
	n, ok := t.(*types.Named)
	if !ok || n.Obj().Pkg() == nil || !strings.HasSuffix(n.Obj().Pkg().Path(), "sonic/ast") {
		return false
	}
	return n.Obj().Name() == "linkedNodes" || n.Obj().Name() == "linkedPairs"
}

func runG9(c *core.Ctx) {
	p := c.Prog
	pk := p.Pkg("ast")
	if pk == nil {
		c.Undecided("ast", token.NoPos, "package not loaded")
		return
	}
	closer := func(e ast.Expr) (string, bool) {
		be, ok := ast.Unparen(e).(*ast.BinaryExpr)
		if !ok || be.Op != token.EQL {
			return "", false
		}
		for _, pair := range [][2]ast.Expr{{be.X, be.Y}, {be.Y, be.X}} {
			lit, ok := ast.Unparen(pair[1]).(*ast.BasicLit)
			if !ok || lit.Kind != token.CHAR || (lit.Value != "']'" && lit.Value != "'}'") {
				continue
			}
			if _, ok := ast.Unparen(pair[0]).(*ast.IndexExpr); ok {
				return lit.Value, true
			}
		}
		return "", false
	}
	n := 0
	for _, fd := range core.FuncDecls(pk) {
		if fd.Body == nil || strings.HasSuffix(p.Fset.Position(fd.Pos()).Filename, "_test.go") {
			continue
		}
		// tables the function fills but did not create: parameters, or locals bound to the address of /
		// a pointer to something that exists outside (not a composite literal, not new/make)
		tables := map[types.Object]bool{}
		if fd.Type.Params != nil {
			for _, f := range fd.Type.Params.List {
				for _, nm := range f.Names {
					if o := p.ObjectOf(nm); o != nil && isLinkedTable(o.Type()) {
						tables[o] = true
					}
				}
			}
		}
		ast.Inspect(fd.Body, func(nd ast.Node) bool {
			as, ok := nd.(*ast.AssignStmt)
			if !ok || as.Tok != token.DEFINE || len(as.Lhs) != len(as.Rhs) {
				return true
			}
			for i, l := range as.Lhs {
				id, ok := l.(*ast.Ident)
				if !ok {
					continue
				}
				o := p.ObjectOf(id)
				if o == nil || !isLinkedTable(o.Type()) {
					continue
				}
				if _, isPtr := o.Type().(*types.Pointer); !isPtr {
					continue
				}
				r := ast.Unparen(as.Rhs[i])
				if ue, ok := r.(*ast.UnaryExpr); ok && ue.Op == token.AND {
					if _, lit := ast.Unparen(ue.X).(*ast.CompositeLit); lit {
						continue // fresh
					}
					tables[o] = true
				}
			}
			return true
		})
		if len(tables) == 0 {
			continue
		}
		// does the function push into one of them?
		pushes := false
		ast.Inspect(fd.Body, func(nd ast.Node) bool {
			call, ok := nd.(*ast.CallExpr)
			if !ok {
				return true
			}
			if se, ok := call.Fun.(*ast.SelectorExpr); ok && se.Sel.Name == "Push" {
				if id, ok := ast.Unparen(se.X).(*ast.Ident); ok && tables[p.ObjectOf(id)] {
					pushes = true
				}
			}
			return true
		})
		if !pushes {
			continue
		}
		fn := core.FuncName(pk, fd)
		c.Analysed(fn)
		found := false
		ast.Inspect(fd.Body, func(nd ast.Node) bool {
			is, ok := nd.(*ast.IfStmt)
			if !ok {
				return true
			}
			var which string
			guarded := false
			for _, cj := range conjuncts(is.Cond) {
				if ch, ok := closer(cj); ok {
					which = ch
					continue
				}
				// <table>.Len() == 0
				be, ok := ast.Unparen(cj).(*ast.BinaryExpr)
				if !ok || be.Op != token.EQL {
					continue
				}
				for _, pair := range [][2]ast.Expr{{be.X, be.Y}, {be.Y, be.X}} {
					if v, ok := p.ConstInt(pair[1]); !ok || v != 0 {
						continue
					}
					call, ok := ast.Unparen(pair[0]).(*ast.CallExpr)
					if !ok || len(call.Args) != 0 {
						continue
					}
					se, ok := call.Fun.(*ast.SelectorExpr)
					if !ok || se.Sel.Name != "Len" {
						continue
					}
					if id, ok := ast.Unparen(se.X).(*ast.Ident); ok && tables[p.ObjectOf(id)] {
						guarded = true
					}
				}
			}
			if which == "" {
				return true
			}
			found = true
			n++
			cn := fn + "/empty-container-test " + which
			if guarded {
				c.OK(cn, is.Pos(), "the closing byte is taken for an empty container only while the table is empty")
			} else {
				c.Bad(cn, is.Pos(), "the closing byte %s is accepted as an empty container whatever the table already holds: re-entered behind a comma this accepts a trailing comma (`[1,]`, `{\"a\":1,}`) and a resumed load returns an empty container", which)
			}
			return true
		})
		if !found {
			c.Undecided(fn+"/empty-container-test", fd.Pos(), "a resumable container reader without a recognisable empty-container test")
		}
	}
	if n == 0 {
		c.Undecided("ast resumable readers", token.NoPos, "no resumable container reader found")
	}
}

// N7: strconv's number grammar is a superset of JSON's. Wherever the alternative decoder converts text with
// strconv.ParseFloat / ParseInt / ParseUint, the same text must first have passed a JSON-number test.
func init() {
	register(&core.Rule{ID: "N7", Min: 3, Arm64: true,
		Doc: "optdec converts number text with strconv only after a JSON-number test: every call of strconv.ParseFloat / ParseInt / ParseUint in internal/decoder/optdec whose text argument is a variable v is preceded, in the same function and outside any branch the call is not in, by `if !G(v) { return ... }` where G (directly or through its callees in optdec) reaches utils.SkipNumber - the Go-level scanner of the JSON number grammar. strconv accepts \"NaN\", \"inf\", hex floats, a leading '+', \".5\", \"1_0\"; the JIT decoder re-parses quoted number text with the native JSON number parser and rejects them.",
		Run: runN7})
}

func runN7(c *core.Ctx) {
	p := c.Prog
	pk := p.Pkg("internal/decoder/optdec")
	if pk == nil {
		c.Undecided("internal/decoder/optdec", token.NoPos, "package not loaded")
		return
	}
	decls := core.FuncDecls(pk)
	// functions of optdec that reach utils.SkipNumber (fixpoint over direct calls)
	reaches := map[types.Object]bool{}
	for changed := true; changed; {
		changed = false
		for _, fd := range decls {
			o := p.ObjectOf(fd.Name)
			if fd.Body == nil || o == nil || reaches[o] {
				continue
			}
			ast.Inspect(fd.Body, func(nd ast.Node) bool {
				call, ok := nd.(*ast.CallExpr)
				if !ok {
					return true
				}
				if p.IsCallTo(call, "internal/utils", "SkipNumber") {
					reaches[o] = true
				} else if co := p.Callee(call); co != nil && reaches[co] {
					reaches[o] = true
				}
				return true
			})
			if reaches[o] {
				changed = true
			}
		}
	}
	n := 0
	for _, fd := range decls {
		if fd.Body == nil || strings.HasSuffix(p.Fset.Position(fd.Pos()).Filename, "_test.go") {
			continue
		}
		fn := core.FuncName(pk, fd)
		// top-level statements of the body, in order: guards seen so far
		guarded := map[types.Object]bool{}
		for _, st := range fd.Body.List {
			// a guard: if !G(v) { ... return }
			if is, ok := st.(*ast.IfStmt); ok && is.Init == nil && is.Else == nil {
				if ue, ok := ast.Unparen(is.Cond).(*ast.UnaryExpr); ok && ue.Op == token.NOT {
					if call, ok := ast.Unparen(ue.X).(*ast.CallExpr); ok && len(call.Args) == 1 {
						if co := p.Callee(call); co != nil && reaches[co] && len(is.Body.List) > 0 {
							if _, isRet := is.Body.List[len(is.Body.List)-1].(*ast.ReturnStmt); isRet {
								if id, ok := ast.Unparen(call.Args[0]).(*ast.Ident); ok {
									guarded[p.ObjectOf(id)] = true
								}
							}
						}
					}
				}
			}
			ast.Inspect(st, func(nd ast.Node) bool {
				call, ok := nd.(*ast.CallExpr)
				if !ok || len(call.Args) == 0 {
					return true
				}
				which := ""
				for _, nm := range []string{"ParseFloat", "ParseInt", "ParseUint"} {
					if p.IsCallTo(call, "strconv", nm) {
						which = nm
					}
				}
				if which == "" {
					return true
				}
				n++
				c.Analysed(fn)
				cn := fn + "/strconv." + which
				id, ok := ast.Unparen(call.Args[0]).(*ast.Ident)
				switch {
				case !ok:
					c.Bad(cn, call.Pos(), "strconv.%s converts `%s`, an expression no JSON-number test was applied to", which, exprStr(call.Args[0]))
				case guarded[p.ObjectOf(id)]:
					c.OK(cn, call.Pos(), "`%s` passed the JSON number scanner before it is converted", id.Name)
				default:
					c.Bad(cn, call.Pos(), "strconv.%s converts `%s` without a preceding JSON-number test: text from inside quotes (`,string` fields, map keys) such as \"NaN\", \"inf\", \"0x1p-2\", \"+1.5\", \".5\" is accepted by the alternative decoder and rejected by the JIT decoder", which, id.Name)
				}
				return true
			})
		}
	}
	if n == 0 {
		c.Undecided("optdec strconv conversions", token.NoPos, "no strconv.Parse* call found in optdec")
	}
}

// E10: the decoder's position is a value boundary only after a successful decode.
func init() {
	register(&core.Rule{ID: "E10", Min: 1, Arm64: true,
		Doc: "StreamDecoder.Decode: every use of Decoder.Pos() after the inner Decoder.Decode call stands under a condition that the decode error is nil (`if err == nil { ... Pos() ... }`, or the else-arm of `err != nil`). When an unmarshaler refuses a nested member the decoder stops on the spot and Pos() lies inside the framed value; moving the stream cursor there makes the next Decode start in the middle of the refused value and loses the values behind it.",
		Run: runE10})
}

func runE10(c *core.Ctx) {
	p := c.Prog
	pk := p.Pkg("internal/decoder/api")
	fd := core.FuncDecl(pk, "StreamDecoder", "Decode")
	cn := "internal/decoder/api.(StreamDecoder).Decode/pos-after-success"
	if fd == nil || fd.Body == nil {
		c.Undecided(cn, token.NoPos, "not found")
		return
	}
	c.Analysed(core.FuncName(pk, fd))
	// the variable bound to the inner decode's error
	var errObj types.Object
	var decPos token.Pos
	ast.Inspect(fd.Body, func(n ast.Node) bool {
		as, ok := n.(*ast.AssignStmt)
		if !ok || len(as.Rhs) != 1 || len(as.Lhs) != 1 || errObj != nil {
			return true
		}
		call, ok := ast.Unparen(as.Rhs[0]).(*ast.CallExpr)
		if !ok {
			return true
		}
		if se, ok := call.Fun.(*ast.SelectorExpr); ok && se.Sel.Name == "Decode" && strings.HasSuffix(exprStr(se.X), ".Decoder") {
			if id, ok := as.Lhs[0].(*ast.Ident); ok {
				errObj = p.ObjectOf(id)
				decPos = call.Pos()
			}
		}
		return true
	})
	if errObj == nil {
		c.Undecided(cn, fd.Pos(), "the inner Decoder.Decode call bound to an error variable was not found")
		return
	}
	isErrCmp := func(e ast.Expr, op token.Token) bool {
		be, ok := ast.Unparen(e).(*ast.BinaryExpr)
		if !ok || be.Op != op {
			return false
		}
		for _, pr := range [][2]ast.Expr{{be.X, be.Y}, {be.Y, be.X}} {
			id, ok := ast.Unparen(pr[0]).(*ast.Ident)
			nl, ok2 := ast.Unparen(pr[1]).(*ast.Ident)
			if ok && ok2 && p.ObjectOf(id) == errObj && nl.Name == "nil" {
				return true
			}
		}
		return false
	}
	n, bad := 0, token.NoPos
	var walk func(nd ast.Node, underSuccess bool)
	walk = func(nd ast.Node, underSuccess bool) {
		ast.Inspect(nd, func(m ast.Node) bool {
			switch x := m.(type) {
			case *ast.IfStmt:
				if x.Init != nil {
					walk(x.Init, underSuccess)
				}
				succThen, succElse := underSuccess, underSuccess
				for _, cj := range conjuncts(x.Cond) {
					if isErrCmp(cj, token.EQL) {
						succThen = true
					}
				}
				if isErrCmp(x.Cond, token.NEQ) {
					succElse = true
				}
				walk(x.Cond, underSuccess)
				walk(x.Body, succThen)
				if x.Else != nil {
					walk(x.Else, succElse)
				}
				return false
			case *ast.CallExpr:
				if se, ok := x.Fun.(*ast.SelectorExpr); ok && se.Sel.Name == "Pos" && strings.HasSuffix(exprStr(se.X), ".Decoder") && x.Pos() > decPos {
					n++
					if !underSuccess && bad == token.NoPos {
						bad = x.Pos()
					}
				}
			}
			return true
		})
	}
	walk(fd.Body, false)
	switch {
	case n == 0:
		c.Undecided(cn, fd.Pos(), "no use of Decoder.Pos() after the inner decode (E5 decides whether it is consulted at all)")
	case bad != token.NoPos:
		c.Bad(cn, bad, "Decoder.Pos() moves the stream cursor also after a failed decode: when a nested json.Unmarshaler / TextUnmarshaler refuses a member the position lies inside the framed value, the next Decode starts in the middle of it and the values behind are lost")
	default:
		c.OK(cn, fd.Pos(), "%d use(s) of Decoder.Pos(), all under `err == nil`", n)
	}
}

// W13: output that bypasses the compiled program ignores every option bit.
func init() {
	register(&core.Rule{ID: "W13", Min: 2,
		Doc: "Both EncodeTypedPointer twins (internal/encoder/vm and internal/encoder/x86) write output themselves - a call of prim.EncodeNil - only in the arm of `if vt == nil` (the untyped nil). Every typed value, a nil pointer or nil map included, goes through the compiled program, which is where the option bits (NoNullSliceOrMap: a nil map is `{}`) and the type's marshalers are honoured.",
		Run: runW13})
}

func runW13(c *core.Ctx) {
	p := c.Prog
	for _, rel := range []string{"internal/encoder/vm", "internal/encoder/x86"} {
		pk := p.Pkg(rel)
		fd := core.FuncDecl(pk, "", "EncodeTypedPointer")
		cn := rel + ".EncodeTypedPointer/direct-output"
		if fd == nil || fd.Body == nil {
			if p.GOARCH != "amd64" && rel == "internal/encoder/x86" {
				continue
			}
			c.Undecided(cn, token.NoPos, "not found")
			continue
		}
		c.Analysed(core.FuncName(pk, fd))
		// the *rt.GoType parameter
		var vt types.Object
		for _, f := range fd.Type.Params.List {
			for _, nm := range f.Names {
				if o := p.ObjectOf(nm); o != nil && strings.HasSuffix(o.Type().String(), "rt.GoType") {
					vt = o
				}
			}
		}
		isVtNil := func(e ast.Expr) bool {
			be, ok := ast.Unparen(e).(*ast.BinaryExpr)
			if !ok || be.Op != token.EQL {
				return false
			}
			for _, pr := range [][2]ast.Expr{{be.X, be.Y}, {be.Y, be.X}} {
				a, ok := ast.Unparen(pr[0]).(*ast.Ident)
				b, ok2 := ast.Unparen(pr[1]).(*ast.Ident)
				if ok && ok2 && vt != nil && p.ObjectOf(a) == vt && b.Name == "nil" {
					return true
				}
			}
			return false
		}
		n, bad := 0, token.NoPos
		var walk func(nd ast.Node, untyped bool)
		walk = func(nd ast.Node, untyped bool) {
			ast.Inspect(nd, func(m ast.Node) bool {
				switch x := m.(type) {
				case *ast.IfStmt:
					if x.Init != nil {
						walk(x.Init, untyped)
					}
					walk(x.Cond, untyped)
					walk(x.Body, isVtNil(x.Cond))
					if x.Else != nil {
						walk(x.Else, false)
					}
					return false
				case *ast.CallExpr:
					if p.IsCallTo(x, "internal/encoder/prim", "EncodeNil") {
						n++
						if !untyped && bad == token.NoPos {
							bad = x.Pos()
						}
					}
				}
				return true
			})
		}
		walk(fd.Body, false)
		switch {
		case bad != token.NoPos:
			c.Bad(cn, bad, "EncodeTypedPointer writes `null` itself for a typed value: the compiled program is bypassed, so NoNullSliceOrMap (a nil map behind an interface must be `{}`) and the type's own marshalers are ignored on every dynamically dispatched route")
		case n == 0:
			c.OK(cn, fd.Pos(), "no direct output at all")
		default:
			c.OK(cn, fd.Pos(), "the only direct output is the untyped nil")
		}
	}
}
