package rules

import (
	"go/ast"
	"go/token"
	"go/types"
	"strings"

	"verif/sa/core"
)

// Rules of the ninth round.

func init() {
	register(&core.Rule{ID: "G9", Min: 4, Arm64: true,
		Doc: "Resumable container readers of package ast (functions that fill a *linkedNodes / *linkedPairs they did not create: Parser.decodeArray, Parser.decodeObject, Node.skipNextNode, Node.skipNextPair): the if-statement that accepts the closing byte `]` / `}` as an *empty* container (a comparison of the byte at the cursor with ']' or '}' outside the separator switch) has a conjunct `<table>.Len() == 0` on that table. These functions are re-entered behind a comma when a lazy container is read step by step, so an unconditional test accepts `[1,]` and `{\"a\":1,}` (and, resumed through loadAll*, returns an empty container, dropping the children already read).",
		Run: runG9})
}

func isLinkedTable(t types.Type) bool {
	if t == nil {
		return false
	}
	if pt, ok := t.(*types.Pointer); ok {
		t = pt.Elem()
	}
	n, ok := t.(*types.Named)
	if !ok || n.Obj().Pkg() == nil || !strings.HasSuffix(n.Obj().Pkg().Path(), "sonic/ast") {
		return false
	}
	return n.Obj().Name() == "linkedNodes" || n.Obj().Name() == "linkedPairs"
}

func runG9(c *core.Ctx) {
	p := c.Prog
	pk := p.Pkg("ast")
	if pk == nil {
		c.Undecided("ast", token.NoPos, "package not loaded")
		return
	}
	closer := func(e ast.Expr) (string, bool) {
		be, ok := ast.Unparen(e).(*ast.BinaryExpr)
		if !ok || be.Op != token.EQL {
			return "", false
		}
		for _, pair := range [][2]ast.Expr{{be.X, be.Y}, {be.Y, be.X}} {
			lit, ok := ast.Unparen(pair[1]).(*ast.BasicLit)
			if !ok || lit.Kind != token.CHAR || (lit.Value != "']'" && lit.Value != "'}'") {
				continue
			}
			if _, ok := ast.Unparen(pair[0]).(*ast.IndexExpr); ok {
				return lit.Value, true
			}
		}
		return "", false
	}
	n := 0
	for _, fd := range core.FuncDecls(pk) {
		if fd.Body == nil || strings.HasSuffix(p.Fset.Position(fd.Pos()).Filename, "_test.go") {
			continue
		}
		// tables the function fills but did not create: parameters, or locals bound to the address of /
		// a pointer to something that exists outside (not a composite literal, not new/make)
		tables := map[types.Object]bool{}
		if fd.Type.Params != nil {
			for _, f := range fd.Type.Params.List {
				for _, nm := range f.Names {
					if o := p.ObjectOf(nm); o != nil && isLinkedTable(o.Type()) {
						tables[o] = true
					}
				}
			}
		}
		ast.Inspect(fd.Body, func(nd ast.Node) bool {
			as, ok := nd.(*ast.AssignStmt)
			if !ok || as.Tok != token.DEFINE || len(as.Lhs) != len(as.Rhs) {
				return true
			}
			for i, l := range as.Lhs {
				id, ok := l.(*ast.Ident)
				if !ok {
					continue
				}
				o := p.ObjectOf(id)
				if o == nil || !isLinkedTable(o.Type()) {
					continue
				}
				if _, isPtr := o.Type().(*types.Pointer); !isPtr {
					continue
				}
				r := ast.Unparen(as.Rhs[i])
				if ue, ok := r.(*ast.UnaryExpr); ok && ue.Op == token.AND {
					if _, lit := ast.Unparen(ue.X).(*ast.CompositeLit); lit {
						continue // fresh
					}
					tables[o] = true
				}
			}
			return true
		})
		if len(tables) == 0 {
			continue
		}
		// does the function push into one of them?
		pushes := false
		ast.Inspect(fd.Body, func(nd ast.Node) bool {
			call, ok := nd.(*ast.CallExpr)
			if !ok {
				return true
			}
			if se, ok := call.Fun.(*ast.SelectorExpr); ok && se.Sel.Name == "Push" {
				if id, ok := ast.Unparen(se.X).(*ast.Ident); ok && tables[p.ObjectOf(id)] {
					pushes = true
				}
			}
			return true
		})
		if !pushes {
			continue
		}
		fn := core.FuncName(pk, fd)
		c.Analysed(fn)
		found := false
		ast.Inspect(fd.Body, func(nd ast.Node) bool {
			is, ok := nd.(*ast.IfStmt)
			if !ok {
				return true
			}
			var which string
			guarded := false
			for _, cj := range conjuncts(is.Cond) {
				if ch, ok := closer(cj); ok {
					which = ch
					continue
				}
				// <table>.Len() == 0
				be, ok := ast.Unparen(cj).(*ast.BinaryExpr)
				if !ok || be.Op != token.EQL {
					continue
				}
				for _, pair := range [][2]ast.Expr{{be.X, be.Y}, {be.Y, be.X}} {
					if v, ok := p.ConstInt(pair[1]); !ok || v != 0 {
						continue
					}
					call, ok := ast.Unparen(pair[0]).(*ast.CallExpr)
					if !ok || len(call.Args) != 0 {
						continue
					}
					se, ok := call.Fun.(*ast.SelectorExpr)
					if !ok || se.Sel.Name != "Len" {
						continue
					}
					if id, ok := ast.Unparen(se.X).(*ast.Ident); ok && tables[p.ObjectOf(id)] {
						guarded = true
					}
				}
			}
			if which == "" {
				return true
			}
			found = true
			n++
			cn := fn + "/empty-container-test " + which
			if guarded {
				c.OK(cn, is.Pos(), "the closing byte is taken for an empty container only while the table is empty")
			} else {
				c.Bad(cn, is.Pos(), "the closing byte %s is accepted as an empty container whatever the table already holds: re-entered behind a comma this accepts a trailing comma (`[1,]`, `{\"a\":1,}`) and a resumed load returns an empty container", which)
			}
			return true
		})
		if !found {
			c.Undecided(fn+"/empty-container-test", fd.Pos(), "a resumable container reader without a recognisable empty-container test")
		}
	}
	if n == 0 {
		c.Undecided("ast resumable readers", token.NoPos, "no resumable container reader found")
	}
}
