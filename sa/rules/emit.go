package rules

import (
	"go/ast"
	"go/token"
	"go/types"
	"strconv"
	"strings"

	"verif/sa/core"
)

// Abstract model of the x86 emitter DSL (internal/jit BaseAssembler):
//   self.Emit(mnemonic, operands...)   self.Sjmp(mnemonic, label)   self.Link(label)
//   self.Xjmp(mnemonic, pc)            self.Sref(label, d)          self.Xref(pc, d)
// plus calls to helper methods on the same receiver.

type Operand struct {
	Kind    string // "reg" | "imm" | "mem" | "other"
	Name    string // identifier naming the operand (e.g. _CX, _ARG_fv), if any
	Reg     string // register name (reg) or base register (mem)
	Index   string // index register (mem)
	Disp    int64
	DispOK  bool
	Imm     int64
	ImmOK   bool
	Objs    []types.Object // constant/var objects referenced by the operand expression
	Expr    ast.Expr
	ImmExpr ast.Expr
	DispExp ast.Expr
	BaseExp ast.Expr // mem: base register expression (for parameters bound at inlining time)
	IdxExp  ast.Expr // mem: index register expression
}

func (o Operand) String() string {
	switch o.Kind {
	case "reg":
		return o.Reg
	case "imm":
		if o.ImmOK {
			return "$" + strconv.FormatInt(o.Imm, 10)
		}
		return "$(" + types.ExprString(o.ImmExpr) + ")"
	case "mem":
		d := "?"
		if o.DispOK {
			d = strconv.FormatInt(o.Disp, 10)
		}
		if o.Index != "" {
			return d + "(" + o.Reg + ")(" + o.Index + ")"
		}
		return d + "(" + o.Reg + ")"
	}
	if o.Expr != nil {
		return types.ExprString(o.Expr)
	}
	return "?"
}

type EmitOp struct {
	Kind    string // Emit | Sjmp | Sref | Xjmp | Xref | Link | Helper | Call
	Mnem    string
	Ops     []Operand
	Label   string       // Sjmp/Sref/Link: label text
	LblObj  types.Object // label constant object, if the label is a named constant
	Callee  types.Object // Helper/Call
	Call    *ast.CallExpr
	Pos     token.Pos
	ArgVals []envVal // Helper: argument values under the caller's bindings
	ArgOK   []bool
}

func (e EmitOp) String() string {
	var os []string
	for _, o := range e.Ops {
		os = append(os, o.String())
	}
	switch e.Kind {
	case "Emit":
		return e.Mnem + " " + strings.Join(os, ", ")
	case "Sjmp", "Sref":
		return e.Kind + " " + e.Mnem + " " + e.Label
	case "Link":
		return e.Label + ":"
	case "Helper", "Call":
		if e.Callee != nil {
			return "<" + e.Callee.Name() + ">"
		}
	}
	return e.Kind + " " + e.Mnem
}

type emitModel struct {
	p *core.Program
}

func isJitFunc(o types.Object, name string) bool {
	return o != nil && o.Pkg() != nil && core.Rel(o.Pkg().Path()) == "internal/jit" && o.Name() == name
}

// operand resolves an expression to an abstract operand.
func (m emitModel) operand(e ast.Expr, depth int) Operand {
	op := Operand{Kind: "other", Expr: e}
	if depth > 6 {
		return op
	}
	e = ast.Unparen(e)
	switch x := e.(type) {
	case *ast.Ident, *ast.SelectorExpr:
		o := m.p.ExprObj(x)
		if v, ok := o.(*types.Var); ok && !v.IsField() {
			if init := m.p.VarInit(v); init != nil {
				r := m.operand(init, depth+1)
				r.Name = v.Name()
				r.Expr = e
				r.Objs = append(r.Objs, v)
				return r
			}
			// a local that only names an operand expression (`cur := jit.Sib(_IP, _IC, 1, 0)`)
			if init := m.p.LocalInit(v); init != nil {
				if call, ok := ast.Unparen(init).(*ast.CallExpr); ok {
					if c := m.p.Callee(call); c != nil && c.Pkg() != nil && core.Rel(c.Pkg().Path()) == "internal/jit" {
						r := m.operand(init, depth+1)
						r.Objs = append(r.Objs, v)
						return r
					}
				}
			}
		}
		op.Name = exprStr(e)
		if o != nil {
			op.Objs = append(op.Objs, o)
		}
		return op
	case *ast.CallExpr:
		callee := m.p.Callee(x)
		switch {
		case isJitFunc(callee, "Reg") && len(x.Args) == 1:
			if s, ok := x.Args[0].(*ast.BasicLit); ok {
				op.Kind = "reg"
				op.Reg = strings.Trim(s.Value, "\"`")
			}
			return op
		case isJitFunc(callee, "Imm") && len(x.Args) == 1, isJitFunc(callee, "ImmPtr") && len(x.Args) == 1:
			op.Kind = "imm"
			op.ImmExpr = x.Args[0]
			op.Imm, op.ImmOK = m.p.ConstInt(x.Args[0])
			op.Objs = m.objsIn(x.Args[0])
			return op
		case isJitFunc(callee, "Ptr") && len(x.Args) == 2:
			b := m.operand(x.Args[0], depth+1)
			op.Kind = "mem"
			op.Reg = b.Reg
			op.BaseExp = x.Args[0]
			op.DispExp = x.Args[1]
			op.Disp, op.DispOK = m.p.ConstInt(x.Args[1])
			op.Objs = m.objsIn(x.Args[1])
			return op
		case isJitFunc(callee, "Sib") && len(x.Args) == 4:
			b := m.operand(x.Args[0], depth+1)
			i := m.operand(x.Args[1], depth+1)
			op.Kind = "mem"
			op.Reg, op.Index = b.Reg, i.Reg
			op.BaseExp, op.IdxExp = x.Args[0], x.Args[1]
			op.DispExp = x.Args[3]
			op.Disp, op.DispOK = m.p.ConstInt(x.Args[3])
			op.Objs = m.objsIn(x.Args[3])
			return op
		}
	}
	return op
}

func (m emitModel) objsIn(e ast.Expr) []types.Object {
	var out []types.Object
	ast.Inspect(e, func(n ast.Node) bool {
		switch x := n.(type) {
		case *ast.SelectorExpr:
			if o := m.p.ObjectOf(x.Sel); o != nil {
				if _, isPkg := m.p.ObjectOf(identOf(x.X)).(*types.PkgName); isPkg {
					out = append(out, o)
					return false
				}
			}
		case *ast.Ident:
			if o := m.p.ObjectOf(x); o != nil {
				switch o.(type) {
				case *types.Const, *types.Var:
					out = append(out, o)
				}
			}
		}
		return true
	})
	return out
}

func identOf(e ast.Expr) *ast.Ident {
	id, _ := ast.Unparen(e).(*ast.Ident)
	return id
}

// labelText renders a label argument: named constant -> its name; literal -> text;
// concatenations such as "_x_{n}" + suffix keep their expression string.
func (m emitModel) labelText(e ast.Expr) (string, types.Object) {
	e = ast.Unparen(e)
	if o, ok := m.p.ExprObj(e).(*types.Const); ok {
		return o.Name(), o
	}
	if v := m.p.ConstOf(e); v != nil {
		return strings.Trim(v.ExactString(), "\""), nil
	}
	return exprStr(e), nil
}

// classify turns a call on the emitter receiver into an EmitOp (ok=false if
// the call is not on the receiver).
func (m emitModel) classify(call *ast.CallExpr, recv types.Object) (EmitOp, bool) {
	se, ok := ast.Unparen(call.Fun).(*ast.SelectorExpr)
	if !ok {
		return EmitOp{Kind: "Call", Callee: m.p.Callee(call), Call: call, Pos: call.Pos()}, false
	}
	id := identOf(se.X)
	if id == nil || m.p.ObjectOf(id) != recv || recv == nil {
		return EmitOp{Kind: "Call", Callee: m.p.Callee(call), Call: call, Pos: call.Pos()}, false
	}
	op := EmitOp{Call: call, Pos: call.Pos(), Callee: m.p.ObjectOf(se.Sel)}
	str := func(i int) string {
		if i < len(call.Args) {
			if v := m.p.ConstOf(call.Args[i]); v != nil {
				return strings.Trim(v.ExactString(), "\"")
			}
			return "?" + exprStr(call.Args[i])
		}
		return ""
	}
	switch se.Sel.Name {
	case "Emit":
		op.Kind = "Emit"
		op.Mnem = str(0)
		for _, a := range call.Args[1:] {
			op.Ops = append(op.Ops, m.operand(a, 0))
		}
	case "Sjmp":
		op.Kind = "Sjmp"
		op.Mnem = str(0)
		if len(call.Args) > 1 {
			op.Label, op.LblObj = m.labelText(call.Args[1])
		}
	case "Sref":
		op.Kind = "Sref"
		if len(call.Args) > 0 {
			op.Label, op.LblObj = m.labelText(call.Args[0])
		}
	case "Xjmp":
		op.Kind = "Xjmp"
		op.Mnem = str(0)
	case "Xref":
		op.Kind = "Xref"
	case "Link":
		op.Kind = "Link"
		if len(call.Args) > 0 {
			op.Label, op.LblObj = m.labelText(call.Args[0])
		}
	default:
		op.Kind = "Helper"
	}
	return op, true
}

// seqOfPath projects a Go-level path onto the emitter operations it performs.
func (m emitModel) seqOfPath(ev []Event, recv types.Object) []EmitOp {
	var out []EmitOp
	for _, e := range ev {
		if e.Call == nil {
			continue
		}
		op, _ := m.classify(e.Call, recv)
		out = append(out, op)
	}
	return out
}

// emitPaths enumerates the emitted sequences of one emitter method.
func (m emitModel) emitPaths(fd *ast.FuncDecl, unroll int) ([][]EmitOp, bool, string) {
	paths, ok, why := EnumPaths(m.p, fd, unroll, 4096)
	if !ok {
		return nil, false, why
	}
	recv := recvObj(m.p, fd)
	var out [][]EmitOp
	for _, pt := range paths {
		out = append(out, m.seqOfPath(pt, recv))
	}
	return out, true, ""
}

func hasObj(os []types.Object, pkgRel, name string) bool {
	for _, o := range os {
		if o.Name() == name && o.Pkg() != nil && core.Rel(o.Pkg().Path()) == pkgRel {
			return true
		}
	}
	return false
}
