package rules

import (
	"fmt"
	"go/ast"
	"go/token"
	"go/types"
	"reflect"
	"strings"

	"verif/sa/core"
)

// S26: the generic conversions of a node come in pairs that differ only in how a number is
// rendered (Interface / InterfaceUseNumber). Which members end up in the result - every
// element, the last occurrence of a duplicated key as in encoding/json - must not depend on
// the variant: a twin that skips, filters or reorders is a different answer to the same path.

func init() {
	register(&core.Rule{ID: "S26", Min: 2, Arm64: true,
		Doc: "Twin parity of the generic conversions in package ast: (toGenericObject, toGenericObjectUseNumber) and (toGenericArray, toGenericArrayUseNumber) have the same body up to the names of local variables and the one conversion method they call on a child (Interface vs InterfaceUseNumber): the syntax trees are compared node by node after renaming locals by order of first appearance. The UseNumber twin is the reference for member selection (it is also what Map/ArrayUseNumber and the encoding/json comparison of C14 observe), so a skip, filter or early exit added to one twin only is reported.",
		Run: runS26})
}

// shapeOf renders a syntax tree as a token list with local variables renamed v0, v1, ...
func shapeOf(p *core.Program, fd *ast.FuncDecl, rename map[string]string) []string {
	var out []string
	local := map[types.Object]string{}
	var walk func(v reflect.Value)
	walk = func(v reflect.Value) {
		if !v.IsValid() {
			return
		}
		switch v.Kind() {
		case reflect.Interface, reflect.Ptr:
			if v.IsNil() {
				out = append(out, "nil")
				return
			}
			if id, ok := v.Interface().(*ast.Ident); ok {
				o := p.ObjectOf(id)
				if o != nil && o.Pos() >= fd.Pos() && o.Pos() < fd.End() {
					if _, seen := local[o]; !seen {
						local[o] = fmt.Sprintf("v%d", len(local))
					}
					out = append(out, local[o])
					return
				}
				nm := id.Name
				if r, ok := rename[nm]; ok {
					nm = r
				}
				out = append(out, nm)
				return
			}
			if _, ok := v.Interface().(*ast.Object); ok {
				return
			}
			if _, ok := v.Interface().(*ast.CommentGroup); ok {
				return
			}
			walk(v.Elem())
		case reflect.Struct:
			out = append(out, v.Type().Name())
			for i := 0; i < v.NumField(); i++ {
				f := v.Type().Field(i)
				if f.Type == reflect.TypeOf(token.Pos(0)) {
					continue
				}
				walk(v.Field(i))
			}
		case reflect.Slice:
			out = append(out, fmt.Sprintf("[%d", v.Len()))
			for i := 0; i < v.Len(); i++ {
				walk(v.Index(i))
			}
		case reflect.String:
			out = append(out, v.String())
		case reflect.Int, reflect.Int64, reflect.Bool:
			out = append(out, fmt.Sprint(v.Interface()))
		}
	}
	walk(reflect.ValueOf(fd.Body))
	return out
}

func runS26(c *core.Ctx) {
	p := c.Prog
	pk := p.Pkg("ast")
	if pk == nil {
		c.Undecided("ast", token.NoPos, "package not loaded")
		return
	}
	for _, pair := range [][2]string{{"toGenericObject", "toGenericObjectUseNumber"}, {"toGenericArray", "toGenericArrayUseNumber"}} {
		a, b := core.FuncDecl(pk, "Node", pair[0]), core.FuncDecl(pk, "Node", pair[1])
		cn := "ast.(Node)." + pair[0] + "~" + pair[1]
		if a == nil || b == nil || a.Body == nil || b.Body == nil {
			c.Undecided(cn, token.NoPos, "twin not found")
			continue
		}
		c.Analysed(core.FuncName(pk, a))
		c.Analysed(core.FuncName(pk, b))
		sa := shapeOf(p, a, nil)
		sb := shapeOf(p, b, map[string]string{"InterfaceUseNumber": "Interface"})
		if strings.Join(sa, " ") == strings.Join(sb, " ") {
			c.OK(cn, a.Pos(), "bodies equal up to local names and the conversion method (%d syntax tokens)", len(sa))
			continue
		}
		// locate the first differing statement of the shorter description
		i := 0
		for i < len(sa) && i < len(sb) && sa[i] == sb[i] {
			i++
		}
		ctx := func(s []string) string {
			lo, hi := i-4, i+6
			if lo < 0 {
				lo = 0
			}
			if hi > len(s) {
				hi = len(s)
			}
			return strings.Join(s[lo:hi], " ")
		}
		c.Bad(cn, a.Pos(), "%s and %s no longer have the same body (first difference at syntax token %d: `%s` vs `%s`): the two conversions select or order the members of one value differently, so Interface()/Map() and their UseNumber forms describe different values for the same node (encoding/json keeps every element and the last occurrence of a duplicated key)", pair[0], pair[1], i, ctx(sa), ctx(sb))
	}
}
