package rules

import (
	"go/ast"
	"go/constant"
	"go/token"
	"go/types"
	"sort"
	"strings"

	"verif/sa/core"
)

// W9: the option word travels whole. The encoder's flag word is handed from frame to frame
// (OP_recurse, interface values, EncodeTypedPointer). Masking it on the way is only sound when
// the mask keeps every option bit (alg.Bit* below the state bits); a mask that drops one makes
// that option silently ineffective below the first recursion.

func init() {
	register(&core.Rule{ID: "W9", Min: 2, Arm64: true,
		Doc: "Masks applied to the encoder's option word keep every option: (VM) in internal/encoder/vm and internal/encoder, wherever `flags & K` with a constant K is assigned or passed on as a flag word (not compared with 0), K contains 1<<b for every option bit b declared in alg (all Bit* constants except BitPointerValue); (x86) in every handler template an `ANDQ/ANDL $imm, r` on a register loaded from the flag argument keeps them too. The number of flag-word hand-overs examined is recorded.",
		Run: runW9})
}

func runW9(c *core.Ctx) {
	p := c.Prog
	alg := p.Pkg("internal/encoder/alg")
	if alg == nil {
		c.Undecided("internal/encoder/alg", token.NoPos, "package not loaded")
		return
	}
	var all int64
	var names []string
	for _, n := range alg.Types.Scope().Names() {
		k, ok := alg.Types.Scope().Lookup(n).(*types.Const)
		if !ok || !strings.HasPrefix(n, "Bit") || n == "BitPointerValue" {
			continue
		}
		if v, exact := constant.Int64Val(constant.ToInt(k.Val())); exact && v >= 0 && v < 62 {
			all |= 1 << uint(v)
			names = append(names, n)
		}
	}
	sort.Strings(names)
	if len(names) < 5 {
		c.Undecided("alg.Bit*", token.NoPos, "only %d option bits found", len(names))
		return
	}
	missing := func(mask int64) []string {
		var out []string
		for _, n := range names {
			k := alg.Types.Scope().Lookup(n).(*types.Const)
			v, _ := constant.Int64Val(constant.ToInt(k.Val()))
			if mask&(1<<uint(v)) == 0 {
				out = append(out, n)
			}
		}
		return out
	}
	// --- Go side
	for _, rel := range []string{"internal/encoder/vm", "internal/encoder"} {
		pk := p.Pkg(rel)
		if pk == nil {
			continue
		}
		for _, fd := range core.FuncDecls(pk) {
			if fd.Body == nil {
				continue
			}
			fn := core.FuncName(pk, fd)
			handovers, k := 0, 0
			var parents []ast.Node
			ast.Inspect(fd.Body, func(nd ast.Node) bool {
				if nd == nil {
					parents = parents[:len(parents)-1]
					return true
				}
				parents = append(parents, nd)
				be, ok := nd.(*ast.BinaryExpr)
				if !ok || be.Op != token.AND {
					return true
				}
				isFlags := func(e ast.Expr) bool {
					id, ok := ast.Unparen(e).(*ast.Ident)
					if !ok {
						return false
					}
					if id.Name != "flags" && id.Name != "f" && id.Name != "fv" && id.Name != "opts" {
						return false
					}
					t := pk.TypesInfo.TypeOf(id)
					if t == nil {
						return false
					}
					b, ok := t.Underlying().(*types.Basic)
					return ok && b.Kind() == types.Uint64
				}
				var kexp ast.Expr
				if isFlags(be.X) {
					kexp = be.Y
				} else if isFlags(be.Y) {
					kexp = be.X
				} else {
					return true
				}
				tv, ok := pk.TypesInfo.Types[kexp]
				if !ok || tv.Value == nil {
					return true
				}
				// used as a condition (compared with 0)? then it is a bit test
				if len(parents) >= 2 {
					par := parents[len(parents)-2]
					if pe, ok := par.(*ast.ParenExpr); ok && len(parents) >= 3 {
						_ = pe
						par = parents[len(parents)-3]
					}
					if pb, ok := par.(*ast.BinaryExpr); ok && (pb.Op == token.NEQ || pb.Op == token.EQL) {
						return true
					}
				}
				mask, exact := constant.Uint64Val(constant.ToInt(tv.Value))
				if !exact {
					return true
				}
				handovers++
				if ms := missing(int64(mask)); len(ms) > 0 {
					k++
					c.Analysed(fn)
					c.Bad(fn+"/flag-mask#"+itoa(k), be.Pos(), "the option word is masked with %s = %#x before it is handed on, which drops %s: that option has no effect in the frames below (e.g. EncodeNullForInfOrNan is lost inside a recursive type)", exprStr(kexp), mask, strings.Join(ms, ", "))
				}
				return true
			})
			if handovers > 0 && k == 0 {
				c.Analysed(fn)
				c.OK(fn+"/flag-mask", fd.Pos(), "%d masked hand-over(s) of the option word keep every option bit", handovers)
			}
		}
	}
	// --- x86 side
	if p.GOARCH != "amd64" {
		return
	}
	a := newAsmCtx(p, "internal/encoder/x86", "Assembler")
	nh := 0
	for _, fd := range sortedFuncDecls(a.methods()) {
		if !strings.HasPrefix(fd.Name.Name, "_asm_OP_") {
			continue
		}
		seqs, ok := a.seqs(fd, asmEnv{}, 0)
		if !ok || anyTrunc(seqs) {
			continue
		}
		fn := handlerName(a.pk, fd)
		loads, bad := 0, ""
		var badPos token.Pos
		for _, sq := range seqs {
			holds := map[string]bool{} // registers holding the flag word
			for _, o := range sq.Ops {
				if o.Kind != "Emit" || len(o.Ops) < 1 {
					continue
				}
				dst := o.Ops[len(o.Ops)-1]
				src := o.Ops[0]
				switch {
				case o.Mnem == "MOVQ" && len(o.Ops) == 2 && dst.Kind == "reg" && src.Kind == "mem" && src.Name == "_ARG_fv":
					holds[dst.Reg] = true
					loads++
				case (o.Mnem == "ANDQ" || o.Mnem == "ANDL") && len(o.Ops) == 2 && dst.Kind == "reg" && holds[dst.Reg] && src.Kind == "imm" && src.ImmOK:
					if ms := missing(src.Imm); len(ms) > 0 && bad == "" {
						bad = "the flag word in " + dst.Reg + " is masked with " + o.String() + ", which drops " + strings.Join(ms, ", ")
						badPos = o.Pos
					}
				case dst.Kind == "reg" && !nonWriting[o.Mnem] && o.Mnem != "BTSQ" && o.Mnem != "ORQ":
					delete(holds, dst.Reg)
				}
			}
		}
		if loads == 0 {
			continue
		}
		nh++
		c.Analysed(fn)
		if bad != "" {
			c.Bad(fn+"/flag-mask", badPos, "%s before it is passed to the nested encoder: that option has no effect below this frame", bad)
		} else {
			c.OK(fn+"/flag-mask", fd.Pos(), "the flag word is loaded %d time(s) and never masked incompletely", loads)
		}
	}
	if nh == 0 {
		c.Undecided("internal/encoder/x86/flag-mask", token.NoPos, "no handler loads the flag argument")
	}
}
