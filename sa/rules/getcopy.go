package rules

import (
	"go/ast"
	"go/token"

	"verif/sa/core"
)

// O11: the copying search hands out nothing that refers to the input. sonic.Get([]byte) views
// the caller's buffer as a string and relies on Searcher.getByPath with CopyReturn set to
// detach whatever it returns - the located text *and* the SyntaxError, whose Src field is the
// parser's source string and is read lazily by Error().

func init() {
	register(&core.Rule{ID: "O11", Min: 2, Arm64: true,
		Doc: "Results of ast.(*Searcher).getByPath under CopyReturn: for every return statement of the function, each result that retains the parser's source string - an expression reaching `self.parser.s` through slicing, composite literals or field selection (not through a call), a call of a Parser method whose own returned value retains `self.s` the same way (syntaxError), or a local variable assigned such a value - must be a local variable that is given a fresh copy (`rt.Mem2Str([]byte(..))`, `string([]byte(..))`, strings.Clone; to the variable or to one of its fields) inside the then-branch of an `if self.CopyReturn` that precedes the return. Results produced by other calls (ExportError formats a new string) do not retain. sonic.Get is checked to reach this function through GetByPathCopy by S-rules of C14; here only the ownership of what comes back is decided.",
		Run: runO11})
}

func runO11(c *core.Ctx) {
	p := c.Prog
	pk := p.Pkg("ast")
	if pk == nil {
		c.Undecided("ast", token.NoPos, "package not loaded")
		return
	}
	fd := core.FuncDecl(pk, "Searcher", "getByPath")
	if fd == nil || fd.Body == nil {
		c.Undecided("ast.(Searcher).getByPath", token.NoPos, "function not found")
		return
	}
	fn := core.FuncName(pk, fd)
	c.Analysed(fn)

	// does e reach <recv>.s (recvSel e.g. "self.parser.s") without passing through a call?
	var reaches func(e ast.Expr, src string) bool
	reaches = func(e ast.Expr, src string) bool {
		switch x := ast.Unparen(e).(type) {
		case *ast.SelectorExpr:
			return exprStr(x) == src || reaches(x.X, src)
		case *ast.SliceExpr:
			return reaches(x.X, src)
		case *ast.CompositeLit:
			for _, el := range x.Elts {
				if kv, ok := el.(*ast.KeyValueExpr); ok {
					el = kv.Value
				}
				if reaches(el, src) {
					return true
				}
			}
		case *ast.UnaryExpr:
			return reaches(x.X, src)
		case *ast.StarExpr:
			return reaches(x.X, src)
		}
		return false
	}
	// Parser methods whose result retains self.s
	retainingMethod := map[string]bool{}
	for _, m := range core.FuncDecls(pk) {
		if m.Body == nil || core.RecvName(m) != "Parser" || m.Recv == nil || len(m.Recv.List[0].Names) == 0 {
			continue
		}
		rn := m.Recv.List[0].Names[0].Name
		ast.Inspect(m.Body, func(nd ast.Node) bool {
			if _, lit := nd.(*ast.FuncLit); lit {
				return false
			}
			if rs, ok := nd.(*ast.ReturnStmt); ok {
				for _, r := range rs.Results {
					if reaches(r, rn+".s") {
						retainingMethod[m.Name.Name] = true
					}
				}
			}
			return true
		})
	}
	const src = "self.parser.s"
	retains := func(e ast.Expr) bool {
		if reaches(e, src) {
			return true
		}
		if call, ok := ast.Unparen(e).(*ast.CallExpr); ok {
			if se, ok := call.Fun.(*ast.SelectorExpr); ok && exprStr(se.X) == "self.parser" && retainingMethod[se.Sel.Name] {
				return true
			}
		}
		return false
	}
	isCopy := func(e ast.Expr) bool {
		call, ok := ast.Unparen(e).(*ast.CallExpr)
		if !ok || len(call.Args) != 1 {
			return false
		}
		f := exprStr(call.Fun)
		if f == "strings.Clone" {
			return true
		}
		if f == "rt.Mem2Str" || f == "string" {
			if in, ok := ast.Unparen(call.Args[0]).(*ast.CallExpr); ok && exprStr(in.Fun) == "[]byte" {
				return true
			}
		}
		return false
	}
	// locals: retaining assignments, and guarded copies
	retVar := map[string]bool{}
	copied := map[string]token.Pos{} // var -> position of the guarded copy
	var walk func(nd ast.Node, inCopy bool)
	walk = func(nd ast.Node, inCopy bool) {
		ast.Inspect(nd, func(x ast.Node) bool {
			switch s := x.(type) {
			case *ast.FuncLit:
				return false
			case *ast.IfStmt:
				if exprStr(s.Cond) == "self.CopyReturn" {
					if s.Init != nil {
						walk(s.Init, inCopy)
					}
					walk(s.Body, true)
					if s.Else != nil {
						walk(s.Else, inCopy)
					}
					return false
				}
			case *ast.AssignStmt:
				if len(s.Lhs) != len(s.Rhs) {
					return true
				}
				for i, r := range s.Rhs {
					base := s.Lhs[i]
					if se, ok := base.(*ast.SelectorExpr); ok {
						base = se.X
					}
					id, ok := base.(*ast.Ident)
					if !ok {
						continue
					}
					if retains(r) && !inCopy {
						retVar[id.Name] = true
					}
					if retains(r) && inCopy {
						retVar[id.Name] = true
						delete(copied, id.Name)
					}
					if inCopy && isCopy(r) {
						copied[id.Name] = s.Pos()
					}
				}
			}
			return true
		})
	}
	walk(fd.Body, false)

	n := 0
	ast.Inspect(fd.Body, func(nd ast.Node) bool {
		if _, lit := nd.(*ast.FuncLit); lit {
			return false
		}
		rs, ok := nd.(*ast.ReturnStmt)
		if !ok {
			return true
		}
		for _, r := range rs.Results {
			// results built around a local (newRawNode(raw, ..)) count through that local
			var ids []string
			direct := retains(r)
			ast.Inspect(r, func(x ast.Node) bool {
				if id, ok := x.(*ast.Ident); ok && retVar[id.Name] {
					ids = append(ids, id.Name)
				}
				return true
			})
			if !direct && len(ids) == 0 {
				continue
			}
			n++
			cn := fn + "/returns " + exprStr(r)
			if direct {
				c.Bad(cn, rs.Pos(), "this result keeps the parser's source string (the caller's buffer when called from sonic.Get) and is returned as is even when CopyReturn is set: what Get([]byte) hands back - here the error's Src, read lazily by Error() - changes when the caller reuses its buffer")
				continue
			}
			okAll := true
			for _, v := range ids {
				if cp, has := copied[v]; !has || cp > rs.Pos() {
					okAll = false
					c.Bad(cn, rs.Pos(), "%s refers to the parser's source string and is not replaced by a fresh copy under `if self.CopyReturn` before this return: the copying search returns data aliasing the caller's input", v)
					break
				}
			}
			if okAll {
				c.OK(cn, rs.Pos(), "the retained text is replaced by a copy under `if self.CopyReturn` before the return")
			}
		}
		return true
	})
	if n == 0 {
		c.Undecided(fn+"/returns", fd.Pos(), "no result retaining the source string found")
	}
}
