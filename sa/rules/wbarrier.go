package rules

import (
	"go/token"
	"sort"
	"strings"

	"verif/sa/core"
)

// K10: GC write barrier. Generated code that stores a heap pointer into memory the collector
// scans must do it through the barrier helpers (WriteRecNotAX / WritePtrAX / WritePtr), which
// test runtime.writeBarrier and call gcWriteBarrier first. A plain MOVQ of a freshly allocated
// object (or of a pointer into the input) into a destination slot during a marking phase hides
// the object from the collector.

var wbAllocFns = []string{"mallocgc", "makeslice", "growslice", "makemap", "mapassign", "convT", "newobject", "memclrHasPointers", "mapaccess"}

func init() {
	register(&core.Rule{ID: "K10", Min: 10,
		Doc: "Pointer stores of generated code go through the GC write barrier: forward dataflow over the emitted templates of the three emitters tracks registers holding heap pointers (AX after call_go of an allocating / map runtime function, LEAQ d(IP)(r) pointers into the input, and copies of them); a store `MOVQ R, mem` of such a register to memory not based on SP must lie inside a write-barrier helper (WriteRecNotAX, WritePtrAX, WritePtr); listed exceptions carry their reason.",
		Run: runK10})
}

var k10Waivers = map[string]string{}

func runK10(c *core.Ctx) {
	p := c.Prog
	if p.GOARCH != "amd64" {
		return
	}
	wbHelper := map[string]bool{"WriteRecNotAX": true, "WritePtrAX": true, "WritePtr": true}
	total := 0
	for _, tg := range []struct {
		rel, recv string
		only      map[string]bool
		ip        string
	}{
		{"internal/decoder/jitdec", "_Assembler", nil, "_IP"},
		{"internal/decoder/jitdec", "_ValueDecoder", map[string]bool{"compile": true}, "_IP"},
		{"internal/encoder/x86", "Assembler", nil, ""},
	} {
		a := newAsmCtx(p, tg.rel, tg.recv)
		IP := ""
		if tg.ip != "" {
			IP = regOf(p, tg.rel, tg.ip)
		}
		// registers that hold a Go pointer throughout (the encoder's value / auxiliary pointers)
		always := map[string]string{}
		if tg.rel == "internal/encoder/x86" {
			for _, nm := range []string{"_SP_p", "_SP_q"} {
				if r := regOf(p, tg.rel, nm); r != "" {
					always[r] = "state pointer " + nm
				}
			}
		}
		for _, fd := range sortedFuncDecls(a.methods()) {
			if tg.only != nil && !tg.only[fd.Name.Name] {
				continue
			}
			if tg.only == nil && !strings.HasPrefix(fd.Name.Name, "_asm_OP_") {
				continue
			}
			fn := handlerName(a.pk, fd)
			seqs, ok := a.seqs(fd, asmEnv{}, 0)
			if !ok {
				c.Undecided(fn+"/write-barrier", fd.Pos(), "cannot enumerate emitted sequences")
				continue
			}
			if anyTrunc(seqs) {
				c.Undecided(fn+"/write-barrier", fd.Pos(), "a helper could not be inlined within the path budget")
				continue
			}
			nstores := 0
			bad := map[string]token.Pos{}
			for _, sq := range seqs {
				g := buildSeqCFG(sq.Ops)
				// helper regions
				inWB := make([]bool, len(g.ops))
				depth := 0
				var st []bool
				for i, o := range g.ops {
					switch o.Kind {
					case "Helper":
						w := o.Callee != nil && wbHelper[o.Callee.Name()]
						st = append(st, w)
						if w {
							depth++
						}
					case "HelperEnd":
						if len(st) > 0 {
							if st[len(st)-1] {
								depth--
							}
							st = st[:len(st)-1]
						}
					}
					inWB[i] = depth > 0
				}
				// pointer-register dataflow (may)
				in := make([]map[string]string, len(g.ops)+1)
				reached := make([]bool, len(g.ops)+1)
				in[0] = map[string]string{}
				reached[0] = true
				work := []int{0}
				meet := func(dst int, src map[string]string) bool {
					if !reached[dst] {
						reached[dst] = true
						in[dst] = map[string]string{}
						for k, v := range src {
							in[dst][k] = v
						}
						return true
					}
					ch := false
					for k, v := range src {
						if _, ok := in[dst][k]; !ok {
							in[dst][k] = v
							ch = true
						}
					}
					return ch
				}
				for {
					if len(work) == 0 {
						for i, o := range g.ops {
							if o.Kind == "Link" && !reached[i] {
								reached[i] = true
								in[i] = map[string]string{}
								work = append(work, i)
								break
							}
						}
						if len(work) == 0 {
							break
						}
					}
					i := work[len(work)-1]
					work = work[:len(work)-1]
					if i >= len(g.ops) {
						continue
					}
					o := g.ops[i]
					out := map[string]string{}
					for k, v := range in[i] {
						out[k] = v
					}
					switch o.Kind {
					case "Emit":
						if len(o.Ops) >= 1 && !nonWriting[o.Mnem] {
							dst := o.Ops[len(o.Ops)-1]
							if dst.Kind == "reg" {
								src := o.Ops[0]
								switch {
								case IP != "" && o.Mnem == "LEAQ" && src.Kind == "mem" && src.Reg == IP && src.Index != "":
									out[dst.Reg] = "pointer into the input"
								case o.Mnem == "MOVQ" && len(o.Ops) == 2 && src.Kind == "reg" && out[src.Reg] != "":
									out[dst.Reg] = out[src.Reg]
								case o.Mnem == "LEAQ" && src.Kind == "mem" && src.Index == "" && out[src.Reg] != "" && src.Reg != dst.Reg:
									out[dst.Reg] = out[src.Reg] + " (+offset)"
								case (o.Mnem == "ADDQ" || o.Mnem == "SUBQ") && src.Kind == "imm":
								default:
									delete(out, dst.Reg)
								}
							}
						}
					case "Helper":
						if o.Callee != nil && (o.Callee.Name() == "call_go" || o.Callee.Name() == "call_c" || o.Callee.Name() == "callc") {
							delete(out, "AX")
							delete(out, "BX")
							if o.Callee.Name() == "call_go" && len(o.ArgVals) > 0 && o.ArgVals[0].sym != nil {
								nm := o.ArgVals[0].sym.Name()
								for _, f := range wbAllocFns {
									if strings.Contains(nm, f) {
										out["AX"] = "result of " + nm
									}
								}
							}
						}
					}
					for _, s := range g.succ[i] {
						if meet(s, out) {
							work = append(work, s)
						}
					}
					if o.Kind == "Sjmp" {
						if t, ok := g.label[o.Label]; ok && t == i+1 {
							if meet(i+1, out) {
								work = append(work, i+1)
							}
						}
					}
				}
				for i, o := range g.ops {
					if !reached[i] || o.Kind != "Emit" || o.Mnem != "MOVQ" || len(o.Ops) != 2 {
						continue
					}
					src, dst := o.Ops[0], o.Ops[1]
					if src.Kind != "reg" || dst.Kind != "mem" || dst.Reg == "SP" || dst.Reg == "" {
						continue
					}
					why := in[i][src.Reg]
					if why == "" {
						why = always[src.Reg]
					}
					if why == "" {
						continue
					}
					nstores++
					if !inWB[i] {
						bad[o.String()+" ("+why+")"] = o.Pos
					}
				}
			}
			if nstores == 0 {
				continue
			}
			total += nstores
			c.Analysed(fn)
			cn := fn + "/write-barrier"
			if len(bad) == 0 {
				c.OK(cn, fd.Pos(), "%d heap-pointer store(s), all inside a write-barrier helper", nstores)
				continue
			}
			var ks []string
			for k := range bad {
				ks = append(ks, k)
			}
			sort.Strings(ks)
			if w, ok := k10Waivers[fn]; ok {
				c.OK(cn, fd.Pos(), "waived (%s): %s", w, strings.Join(ks, "; "))
				continue
			}
			c.Bad(cn, bad[ks[0]], "pointer store outside the write-barrier helpers: %s - during a GC marking phase the collector is not told about the new reference and may free the object", strings.Join(ks, "; "))
		}
	}
	if total < 10 {
		c.Undecided("jit/write-barrier", token.NoPos, "only %d heap-pointer stores found", total)
	}
}
