package rules

import (
	"go/ast"
	"go/token"
	"go/types"

	"verif/sa/core"
)

// L6: Load reaches the children that already exist. A lazy node's earlier Get/Index created
// children without a mutex (newRawNode(..., false)); Load's parser run only creates the
// children behind them. Unless Load also walks the existing slots and installs a mutex on the
// ones that have none, those children stay unsafe for the concurrent reads Load promises.

func init() {
	register(&core.Rule{ID: "L6", Min: 2, Arm64: true,
		Doc: "Load visits the existing children: within Node.Load and the Node methods it calls (two levels), there is, for each container representation (linkedNodes for arrays, linkedPairs for objects), a loop over the slots (`.At(i)`) whose body calls a method that installs a mutex on the child (a Node method assigning the receiver's m, e.g. loadSelf / Load); without it the children created before Load() have no mutex.",
		Run: runL6})
}

func runL6(c *core.Ctx) {
	p := c.Prog
	pk := p.Pkg("ast")
	load := core.FuncDecl(pk, "Node", "Load")
	if load == nil || load.Body == nil {
		c.Undecided("ast.(Node).Load", token.NoPos, "not found")
		return
	}
	c.Analysed(core.FuncName(pk, load))
	// methods that install a mutex on their receiver (directly, or by calling one that does)
	installs := map[string]bool{}
	for changed := true; changed; {
		changed = false
		for _, fd := range core.FuncDecls(pk) {
			if fd.Body == nil || core.RecvName(fd) != "Node" || installs[fd.Name.Name] {
				continue
			}
			recv := recvObj(p, fd)
			hit := false
			ast.Inspect(fd.Body, func(n ast.Node) bool {
				switch x := n.(type) {
				case *ast.AssignStmt:
					if len(x.Lhs) == 1 {
						if f, ok := selOn(p, x.Lhs[0], recv); ok && f == "m" {
							hit = true
						}
					}
				case *ast.CallExpr:
					if se, ok := x.Fun.(*ast.SelectorExpr); ok && installs[se.Sel.Name] {
						if id, ok := ast.Unparen(se.X).(*ast.Ident); ok && p.ObjectOf(id) == recv {
							hit = true
						}
					}
				}
				return !hit
			})
			if hit {
				installs[fd.Name.Name] = true
				changed = true
			}
		}
	}
	// loops over slots in Load's closure
	found := map[string]token.Pos{}
	seen := map[string]bool{}
	var walk func(fd *ast.FuncDecl, depth int)
	walk = func(fd *ast.FuncDecl, depth int) {
		if seen[fd.Name.Name] {
			return
		}
		seen[fd.Name.Name] = true
		ast.Inspect(fd.Body, func(n ast.Node) bool {
			switch x := n.(type) {
			case *ast.ForStmt:
				kind := ""
				locks := false
				ast.Inspect(x.Body, func(y ast.Node) bool {
					call, ok := y.(*ast.CallExpr)
					if !ok {
						return true
					}
					se, ok := call.Fun.(*ast.SelectorExpr)
					if !ok {
						return true
					}
					if se.Sel.Name == "At" {
						if t := p.TypeOf(se.X); t != nil {
							if pt, ok := t.(*types.Pointer); ok {
								t = pt.Elem()
							}
							if nt, ok := t.(*types.Named); ok {
								kind = nt.Obj().Name()
							}
						}
					}
					if installs[se.Sel.Name] {
						locks = true
					}
					return true
				})
				if kind != "" && locks {
					found[kind] = x.Pos()
				}
			case *ast.CallExpr:
				if depth < 2 {
					if o := p.Callee(x); o != nil && o.Pkg() == pk.Types {
						if callee := core.FuncDecl(pk, "Node", o.Name()); callee != nil && callee.Body != nil {
							walk(callee, depth+1)
						}
					}
				}
			}
			return true
		})
	}
	walk(load, 0)
	for _, kind := range []string{"linkedNodes", "linkedPairs"} {
		cn := "ast.(Node).Load/visits-existing-children/" + kind
		if pos, ok := found[kind]; ok {
			c.OK(cn, pos, "a loop over the %s slots installs a mutex on children that lack one", kind)
		} else {
			c.Bad(cn, load.Pos(), "Load never walks the existing %s slots: children created by an earlier Get/Index (raw or lazy nodes without a mutex) stay unsafe for concurrent reads after Load() returned, although Load promises that all children can be read concurrently", kind)
		}
	}
}
