package rules

import (
	"go/ast"
	"go/constant"
	"go/token"
	"go/types"
	"strings"

	"verif/sa/core"
)

func init() {
	register(&core.Rule{ID: "T1", Min: 8,
		Doc: "Trailing rule: every API entry point that consumes one JSON value (alg.Valid, frozenConfig.UnmarshalFromString, ast._ValidSyntax, ast.NewRaw, ast.NewRawConcurrentRead, Searcher.getByPath) reaches, on its success path after the consuming call, a trailing check (space-mask loop up to len; CheckTrailings returned; skipBlank == -ERR_EOF) whose failure is reported; Decoder.CheckTrailings returns nil only under pos == len(buf). Validating native: Valid uses ValidateOne; Parser.skip / api.Skip call SkipOne with a constant-zero flag word (F_NO_VALIDATE cannot be set), never SkipOneFast.",
		Run: runT1})
	register(&core.Rule{ID: "V1", Min: 1, Arm64: true,
		Doc: "String contents are validated where validity is promised: alg.Valid (sonic.Valid, encoder.Valid and the check applied to json.Marshaler output) calls native.ValidateOne with a constant flag word that includes F_VALIDATE_STRING; without it the native scanner only searches for the closing quote, so control characters and malformed escapes inside a string pass.",
		Run: runV1})
	register(&core.Rule{ID: "W6", Min: 9,
		Doc: "Entry-point equivalence as call structure: sonic.Marshal/MarshalString/MarshalIndent/Unmarshal/UnmarshalString/Valid/ValidString each delegate to the corresponding method of ConfigDefault with their arguments in order; frozenConfig.Unmarshal delegates to UnmarshalFromString; frozenConfig.Valid to encoder.Valid; ConfigDefault is Config{}.Froze().",
		Run: runW6})
}

type trailRow struct {
	rel, recv, name string
	consumer        string // callee name of the consuming call
	kind            string // "loop" | "CheckTrailings" | "skipBlank"
}

var trailTable = []trailRow{
	{"internal/encoder/alg", "", "Valid", "ValidateOne", "loop"},
	{"", "frozenConfig", "UnmarshalFromString", "Decode", "CheckTrailings"},
	{"ast", "", "_ValidSyntax", "skip", "skipBlank"},
	{"ast", "", "NewRaw", "skip", "any"},
	{"ast", "", "NewRawConcurrentRead", "skip", "any"},
	{"ast", "Searcher", "getByPath", "getByPath", "any"},
}

// trailingCheckPos finds a trailing-check construct in fd and returns its position.
func trailingCheckPos(p *core.Program, fd *ast.FuncDecl, after token.Pos) (token.Pos, string) {
	var pos token.Pos
	kind := ""
	ast.Inspect(fd.Body, func(n ast.Node) bool {
		if n == nil || pos.IsValid() {
			return false
		}
		switch x := n.(type) {
		case *ast.ForStmt:
			if x.Pos() < after {
				return true
			}
			// loop bounded by len/n whose body tests SPACE_MASK and returns failure
			mask, ret := false, false
			ast.Inspect(x, func(m ast.Node) bool {
				switch y := m.(type) {
				case *ast.SelectorExpr:
					if y.Sel.Name == "SPACE_MASK" {
						mask = true
					}
				case *ast.Ident:
					if y.Name == "SPACE_MASK" {
						mask = true
					}
				case *ast.ReturnStmt:
					ret = true
				}
				return true
			})
			if mask && ret && x.Cond != nil {
				pos, kind = x.Pos(), "loop"
			}
		case *ast.ReturnStmt:
			if x.Pos() < after {
				return true
			}
			for _, r := range x.Results {
				if call, ok := ast.Unparen(r).(*ast.CallExpr); ok {
					if o := p.Callee(call); o != nil && o.Name() == "CheckTrailings" {
						pos, kind = x.Pos(), "CheckTrailings"
					}
				}
			}
		case *ast.IfStmt:
			if x.Pos() < after {
				return true
			}
			// if skipBlank(...) != -int(ERR_EOF) { return false }
			be, ok := ast.Unparen(x.Cond).(*ast.BinaryExpr)
			if !ok || be.Op != token.NEQ {
				return true
			}
			call, ok := ast.Unparen(be.X).(*ast.CallExpr)
			if !ok {
				return true
			}
			if o := p.Callee(call); o == nil || o.Name() != "skipBlank" {
				return true
			}
			if !strings.Contains(exprStr(be.Y), "ERR_EOF") {
				return true
			}
			for _, s := range x.Body.List {
				if _, ok := s.(*ast.ReturnStmt); ok {
					pos, kind = x.Pos(), "skipBlank"
				}
			}
		}
		return true
	})
	return pos, kind
}

func runT1(c *core.Ctx) {
	p := c.Prog
	for _, row := range trailTable {
		pk := p.Pkg(row.rel)
		fd := core.FuncDecl(pk, row.recv, row.name)
		var cn string
		if fd != nil {
			cn = core.FuncName(pk, fd) + "/trailing"
		} else {
			cn = row.rel + "." + row.name + "/trailing"
		}
		if fd == nil || fd.Body == nil {
			c.Undecided(cn, token.NoPos, "entry point not found")
			continue
		}
		c.Analysed(core.FuncName(pk, fd))
		// consuming call
		var cpos token.Pos
		ast.Inspect(fd.Body, func(n ast.Node) bool {
			if call, ok := n.(*ast.CallExpr); ok && !cpos.IsValid() {
				if o := p.Callee(call); o != nil && o.Name() == row.consumer {
					cpos = call.Pos()
				}
			}
			return true
		})
		if !cpos.IsValid() {
			c.Undecided(cn, fd.Pos(), "consuming call %s not found", row.consumer)
			continue
		}
		tpos, kind := trailingCheckPos(p, fd, cpos)
		if !tpos.IsValid() {
			c.Bad(cn, fd.Pos(), "no trailing check after %s: bytes after the JSON value are accepted (e.g. `1 x`)", row.consumer)
			continue
		}
		if row.kind != "any" && kind != row.kind {
			c.Undecided(cn, tpos, "trailing check of kind %s found, table expects %s", kind, row.kind)
			continue
		}
		// no success return between the consumer and the trailing check
		var early token.Pos
		ast.Inspect(fd.Body, func(n ast.Node) bool {
			r, ok := n.(*ast.ReturnStmt)
			if !ok || r.Pos() <= cpos || r.Pos() >= tpos {
				return true
			}
			// error arm? enclosed by an if between cpos and here
			inErrArm := false
			for _, ic := range enclosingIfs(fd, r.Pos()) {
				if ic.stmt.Pos() > cpos && ic.inThen {
					inErrArm = true
				}
			}
			if !inErrArm {
				early = r.Pos()
			}
			return true
		})
		if early.IsValid() {
			c.Bad(cn, early, "a return between %s and the trailing check skips the check", row.consumer)
		} else {
			c.OK(cn, tpos, "%s followed by trailing check (%s) on the success path", row.consumer, kind)
		}
	}
	// CheckTrailings shape
	api := p.Pkg("internal/decoder/api")
	if fd := core.FuncDecl(api, "Decoder", "CheckTrailings"); fd != nil {
		c.Analysed("internal/decoder/api.(Decoder).CheckTrailings")
		cn := "internal/decoder/api.(Decoder).CheckTrailings/shape"
		nilReturns, guarded := 0, 0
		ast.Inspect(fd.Body, func(n ast.Node) bool {
			r, ok := n.(*ast.ReturnStmt)
			if !ok || len(r.Results) != 1 || exprStr(r.Results[0]) != "nil" {
				return true
			}
			nilReturns++
			for _, ic := range enclosingIfs(fd, r.Pos()) {
				if be, ok := ast.Unparen(ic.stmt.Cond).(*ast.BinaryExpr); ok && be.Op == token.EQL && ic.inThen {
					if call, ok := ast.Unparen(be.Y).(*ast.CallExpr); ok && exprStr(call.Fun) == "len" {
						guarded++
					}
				}
			}
			return true
		})
		mask := false
		ast.Inspect(fd.Body, func(n ast.Node) bool {
			if se, ok := n.(*ast.SelectorExpr); ok && se.Sel.Name == "SPACE_MASK" {
				mask = true
			}
			return true
		})
		c.Check(nilReturns >= 1 && nilReturns == guarded && mask, cn, fd.Pos(), "returns nil only when the cursor reached len(buf) after skipping SPACE_MASK bytes", "CheckTrailings can return nil without the cursor having reached the end of the input")
	} else {
		c.Undecided("internal/decoder/api.(Decoder).CheckTrailings", token.NoPos, "not found")
	}
	// validating natives
	type vrow struct{ rel, recv, name, native string }
	for _, r := range []vrow{
		{"internal/encoder/alg", "", "Valid", "ValidateOne"},
		{"ast", "Parser", "skip", "SkipOne"},
		{"internal/decoder/api", "", "Skip", "SkipOne"},
	} {
		pk := p.Pkg(r.rel)
		fd := core.FuncDecl(pk, r.recv, r.name)
		if fd == nil {
			c.Undecided(r.rel+"."+r.name+"/validating-native", token.NoPos, "not found")
			continue
		}
		cn := core.FuncName(pk, fd) + "/validating-native"
		c.Analysed(core.FuncName(pk, fd))
		var found *ast.CallExpr
		var other string
		ast.Inspect(fd.Body, func(n ast.Node) bool {
			call, ok := n.(*ast.CallExpr)
			if !ok {
				return true
			}
			o := p.Callee(call)
			if o == nil || o.Pkg() == nil || core.Rel(o.Pkg().Path()) != "internal/native" {
				return true
			}
			if o.Name() == r.native {
				found = call
			} else if strings.HasPrefix(o.Name(), "Skip") || strings.HasPrefix(o.Name(), "Validate") {
				other = o.Name()
			}
			return true
		})
		switch {
		case found == nil:
			c.Bad(cn, fd.Pos(), "does not call native.%s (calls %s): structural validation is skipped", r.native, other)
		case other != "":
			c.Bad(cn, fd.Pos(), "also calls native.%s", other)
		default:
			v, ok := p.ConstInt(found.Args[len(found.Args)-1])
			nv, ok2 := constIntOf(p, "internal/native/types", "B_NO_VALIDATE_JSON")
			vs, ok3 := constIntOf(p, "internal/native/types", "B_VALIDATE_STRING")
			switch {
			case !ok2 || !ok3:
				c.Undecided(cn, found.Pos(), "types.B_NO_VALIDATE_JSON / B_VALIDATE_STRING not found")
			case !ok:
				c.Bad(cn, found.Pos(), "native.%s is called with a flag word that is not a constant (%s): NO_VALIDATE may be set", r.native, exprStr(found.Args[len(found.Args)-1]))
			case v&(1<<uint(nv)) != 0:
				c.Bad(cn, found.Pos(), "native.%s is called with the NO_VALIDATE_JSON bit set (%s)", r.native, exprStr(found.Args[len(found.Args)-1]))
			case v&^(1<<uint(vs)) != 0:
				c.Bad(cn, found.Pos(), "native.%s is called with flag word %#x: only VALIDATE_STRING is a known strictness-preserving flag", r.native, v)
			default:
				c.OK(cn, found.Pos(), "native.%s with constant flag word %#x (NO_VALIDATE_JSON clear)", r.native, v)
			}
		}
	}
}

func runV1(c *core.Ctx) {
	p := c.Prog
	pk := p.Pkg("internal/encoder/alg")
	fd := core.FuncDecl(pk, "", "Valid")
	cn := "internal/encoder/alg.Valid/validates-string-contents"
	if fd == nil {
		c.Undecided(cn, token.NoPos, "not found")
		return
	}
	c.Analysed(core.FuncName(pk, fd))
	vs, ok3 := constIntOf(p, "internal/native/types", "B_VALIDATE_STRING")
	n := 0
	ast.Inspect(fd.Body, func(nd ast.Node) bool {
		call, ok := nd.(*ast.CallExpr)
		if !ok {
			return true
		}
		o := p.Callee(call)
		if o == nil || o.Pkg() == nil || core.Rel(o.Pkg().Path()) != "internal/native" || o.Name() != "ValidateOne" {
			return true
		}
		n++
		v, ok := p.ConstInt(call.Args[len(call.Args)-1])
		if !ok || !ok3 {
			c.Undecided(cn, call.Pos(), "flag word %s is not a constant", exprStr(call.Args[len(call.Args)-1]))
			return true
		}
		c.Check(v&(1<<uint(vs)) != 0, cn, call.Pos(),
			"flag word includes F_VALIDATE_STRING: control characters and malformed escapes inside strings are rejected",
			"native.ValidateOne is called without F_VALIDATE_STRING: the scanner then only searches for the closing quote, so `\"\\x\"`, `\"\\u12\"` or a raw newline inside a string pass Valid and the json.Marshaler output check")
		return true
	})
	if n == 0 {
		c.Undecided(cn, fd.Pos(), "no call of native.ValidateOne in Valid")
	}
}

func constIntOf(p *core.Program, rel, name string) (int64, bool) {
	k, ok := core.Obj(p.Pkg(rel), name).(*types.Const)
	if !ok {
		return 0, false
	}
	v, exact := constant.Int64Val(constant.ToInt(k.Val()))
	return v, exact
}

func runW6(c *core.Ctx) {
	p := c.Prog
	root := p.Pkg("")
	cd := core.Obj(root, "ConfigDefault")
	if cd == nil {
		c.Undecided("sonic.ConfigDefault", token.NoPos, "not found")
		return
	}
	// ConfigDefault = Config{}.Froze()
	if init := p.VarInit(cd); init != nil {
		good := false
		if call, ok := init.(*ast.CallExpr); ok {
			if se, ok := call.Fun.(*ast.SelectorExpr); ok && se.Sel.Name == "Froze" {
				if cl, ok := se.X.(*ast.CompositeLit); ok && len(cl.Elts) == 0 {
					good = true
				}
			}
		}
		c.Check(good, "sonic.ConfigDefault/init", cd.Pos(), "Config{}.Froze()", "ConfigDefault is no longer the zero Config frozen")
	} else {
		c.Undecided("sonic.ConfigDefault/init", cd.Pos(), "no initialiser")
	}
	type shim struct{ fn, method string }
	for _, s := range []shim{{"Marshal", "Marshal"}, {"MarshalString", "MarshalToString"}, {"MarshalIndent", "MarshalIndent"},
		{"Unmarshal", "Unmarshal"}, {"UnmarshalString", "UnmarshalFromString"}, {"Valid", "Valid"}, {"ValidString", "Valid"}} {
		fd := core.FuncDecl(root, "", s.fn)
		cn := "sonic." + s.fn + "/delegates"
		if fd == nil || fd.Body == nil {
			c.Undecided(cn, token.NoPos, "not found")
			continue
		}
		c.Analysed("sonic." + s.fn)
		if len(fd.Body.List) != 1 {
			c.Bad(cn, fd.Pos(), "shim body is no longer a single delegating return")
			continue
		}
		r, ok := fd.Body.List[0].(*ast.ReturnStmt)
		if !ok || len(r.Results) != 1 {
			c.Bad(cn, fd.Pos(), "shim body is no longer a single delegating return")
			continue
		}
		call, ok := r.Results[0].(*ast.CallExpr)
		if !ok {
			c.Bad(cn, fd.Pos(), "shim does not return a call")
			continue
		}
		se, ok := call.Fun.(*ast.SelectorExpr)
		if !ok || p.ExprObj(se.X) != cd || se.Sel.Name != s.method {
			c.Bad(cn, call.Pos(), "delegates to %s, expected ConfigDefault.%s", exprStr(call.Fun), s.method)
			continue
		}
		// arguments in order (ValidString converts its argument)
		var params []types.Object
		for _, f := range fd.Type.Params.List {
			for _, n := range f.Names {
				params = append(params, p.ObjectOf(n))
			}
		}
		good := len(params) == len(call.Args)
		for i := range call.Args {
			if !good {
				break
			}
			a := ast.Unparen(call.Args[i])
			if inner, ok := a.(*ast.CallExpr); ok && len(inner.Args) == 1 {
				a = ast.Unparen(inner.Args[0])
			}
			if id, ok := a.(*ast.Ident); !ok || p.ObjectOf(id) != params[i] {
				good = false
			}
		}
		c.Check(good, cn, call.Pos(), "ConfigDefault."+s.method+" with the arguments in order", "arguments are not handed to ConfigDefault."+s.method+" in order")
	}
	// frozenConfig.Unmarshal -> UnmarshalFromString; Valid -> encoder.Valid
	if fd := core.FuncDecl(root, "frozenConfig", "Unmarshal"); fd != nil {
		good := false
		ast.Inspect(fd.Body, func(n ast.Node) bool {
			if call, ok := n.(*ast.CallExpr); ok {
				if o := p.Callee(call); o != nil && o.Name() == "UnmarshalFromString" {
					good = true
				}
			}
			return true
		})
		c.Check(good, "sonic.(frozenConfig).Unmarshal/delegates", fd.Pos(), "delegates to UnmarshalFromString (trailing check included)", "Unmarshal no longer goes through UnmarshalFromString: the trailing check and option word may be bypassed")
	}
	if fd := core.FuncDecl(root, "frozenConfig", "Valid"); fd != nil {
		good := false
		ast.Inspect(fd.Body, func(n ast.Node) bool {
			if call, ok := n.(*ast.CallExpr); ok {
				if o := p.Callee(call); o != nil && o.Name() == "Valid" && o.Pkg() != nil && strings.HasSuffix(o.Pkg().Path(), "/encoder") {
					good = true
				}
			}
			return true
		})
		c.Check(good, "sonic.(frozenConfig).Valid/delegates", fd.Pos(), "delegates to encoder.Valid", "Valid no longer delegates to encoder.Valid")
	}
}
