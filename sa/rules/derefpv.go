package rules

import (
	"go/ast"
	"go/token"
	"go/types"

	"verif/sa/core"
)

// G6: addressability follows the dereference. The encoder compiler threads a flag `pv`
// ("the value is addressable, pointer-receiver marshalers apply") through compileOne. Whatever
// is reached by dereferencing a pointer is addressable, so once a compile function has
// emitted OP_deref, the pointee must be compiled with pv == true - not with the flag of the
// enclosing value (self.pv), which is false when the outer struct was passed by value.

func init() {
	register(&core.Rule{ID: "G6", Min: 2, Arm64: true,
		Doc: "Addressability after a dereference in the encoder compiler: in every function of internal/encoder that emits ir.OP_deref, each later call (source order) of compileOne / compileRec passes as its pv argument either the literal true or a local variable that is assigned true in the block that emits the OP_deref; passing self.pv (the enclosing value's flag) compiles the pointee as non-addressable and skips its pointer-receiver MarshalJSON / MarshalText.",
		Run: runG6})
}

func runG6(c *core.Ctx) {
	p := c.Prog
	pk := p.Pkg("internal/encoder")
	if pk == nil {
		c.Undecided("internal/encoder", token.NoPos, "package not loaded")
		return
	}
	n := 0
	for _, fd := range core.FuncDecls(pk) {
		if fd.Body == nil {
			continue
		}
		// deref emissions and the locals set true next to them
		var derefs []token.Pos
		setTrue := map[types.Object]bool{}
		ast.Inspect(fd.Body, func(nd ast.Node) bool {
			blk, ok := nd.(*ast.BlockStmt)
			if !ok {
				return true
			}
			emits := false
			for _, st := range blk.List {
				if es, ok := st.(*ast.ExprStmt); ok {
					if call, ok := es.X.(*ast.CallExpr); ok && len(call.Args) >= 1 {
						if k, ok := p.ExprObj(call.Args[0]).(*types.Const); ok && k.Name() == "OP_deref" {
							emits = true
							derefs = append(derefs, call.Pos())
						}
					}
				}
			}
			if emits {
				for _, st := range blk.List {
					if as, ok := st.(*ast.AssignStmt); ok && len(as.Lhs) == 1 && len(as.Rhs) == 1 && exprStr(as.Rhs[0]) == "true" {
						if id, ok := as.Lhs[0].(*ast.Ident); ok {
							if o := p.ObjectOf(id); o != nil {
								setTrue[o] = true
							}
						}
					}
				}
			}
			return true
		})
		if len(derefs) == 0 {
			continue
		}
		fn := core.FuncName(pk, fd)
		k := 0
		ast.Inspect(fd.Body, func(nd ast.Node) bool {
			call, ok := nd.(*ast.CallExpr)
			if !ok {
				return true
			}
			o := p.Callee(call)
			if o == nil || (o.Name() != "compileOne" && o.Name() != "compileRec") || len(call.Args) < 4 {
				return true
			}
			after := false
			for _, d := range derefs {
				if d < call.Pos() {
					after = true
				}
			}
			if !after {
				return true
			}
			k++
			n++
			c.Analysed(fn)
			cn := fn + "/pv-after-deref#" + itoa(k)
			arg := ast.Unparen(call.Args[3])
			okArg := exprStr(arg) == "true"
			if id, isId := arg.(*ast.Ident); isId && setTrue[p.ObjectOf(id)] {
				okArg = true
			}
			if okArg {
				c.OK(cn, call.Pos(), "the pointee is compiled with pv = %s", exprStr(arg))
			} else {
				c.Bad(cn, call.Pos(), "after emitting OP_deref the value is compiled with pv = %s: what a pointer leads to is addressable, so with the enclosing value's flag a by-value outer struct makes the encoder skip the pointer-receiver MarshalJSON / MarshalText of fields promoted through an embedded pointer (encoding/json calls them)", exprStr(arg))
			}
			return true
		})
	}
	if n == 0 {
		c.Undecided("internal/encoder/pv-after-deref", token.NoPos, "no compileOne call after an OP_deref emission found")
	}
}
