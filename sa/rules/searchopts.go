package rules

import (
	"go/ast"
	"go/token"
	"go/types"

	"verif/sa/core"
)

// T3: the default search entry points validate. ast.NewSearcher turns ValidateJSON on; the
// convenience functions sonic.Get / GetFromString / GetCopyFromString must keep that default:
// routing them through GetWithOptions with a hand-written option literal silently replaces
// the whole option set and drops the validation of the located value.

func init() {
	register(&core.Rule{ID: "T3", Min: 4,
		Doc: "Default search validates: ast.NewSearcher's option literal sets ValidateJSON: true, and the bodies of sonic.Get, sonic.GetFromString and sonic.GetCopyFromString (following calls within packages sonic and ast, depth 3; NewSearcher itself excluded) install no ast.SearchOptions literal without ValidateJSON: true and never assign ValidateJSON a value other than true; otherwise malformed values (`[1 2]`, `{\"b\":1,}`) at the searched path are returned without error.",
		Run: runT3})
}

func runT3(c *core.Ctx) {
	p := c.Prog
	astPk := p.Pkg("ast")
	root := p.Pkg("")
	isSearchOpts := func(t types.Type) bool {
		nt, ok := t.(*types.Named)
		return ok && nt.Obj().Name() == "SearchOptions" && nt.Obj().Pkg() != nil && core.Rel(nt.Obj().Pkg().Path()) == "ast"
	}
	litValidates := func(cl *ast.CompositeLit) bool {
		for _, el := range cl.Elts {
			if kv, ok := el.(*ast.KeyValueExpr); ok && exprStr(kv.Key) == "ValidateJSON" && exprStr(kv.Value) == "true" {
				return true
			}
		}
		return false
	}
	// (a) NewSearcher
	if fd := core.FuncDecl(astPk, "", "NewSearcher"); fd != nil && fd.Body != nil {
		c.Analysed("ast.NewSearcher")
		ok := false
		ast.Inspect(fd.Body, func(n ast.Node) bool {
			if cl, isCl := n.(*ast.CompositeLit); isCl {
				if t := p.TypeOf(cl); t != nil && isSearchOpts(t) && litValidates(cl) {
					ok = true
				}
			}
			return true
		})
		c.Check(ok, "ast.NewSearcher/validates-by-default", fd.Pos(), "SearchOptions{ValidateJSON: true}", "NewSearcher no longer turns ValidateJSON on: every default search skips the located value without validating it")
	} else {
		c.Undecided("ast.NewSearcher", token.NoPos, "not found")
	}
	// (b) the convenience entry points
	for _, name := range []string{"Get", "GetFromString", "GetCopyFromString"} {
		fd := core.FuncDecl(root, "", name)
		cn := "sonic." + name + "/keeps-validation"
		if fd == nil || fd.Body == nil {
			c.Undecided(cn, token.NoPos, "not found")
			continue
		}
		c.Analysed("sonic." + name)
		bad := ""
		var bpos token.Pos
		seen := map[*ast.FuncDecl]bool{}
		var visit func(f *ast.FuncDecl, depth int)
		visit = func(f *ast.FuncDecl, depth int) {
			if seen[f] || depth > 3 {
				return
			}
			seen[f] = true
			ast.Inspect(f.Body, func(n ast.Node) bool {
				switch x := n.(type) {
				case *ast.CompositeLit:
					if t := p.TypeOf(x); t != nil && isSearchOpts(t) && !litValidates(x) && bad == "" {
						bad, bpos = "installs the option literal "+exprStr(x)+" (ValidateJSON is off in it)", x.Pos()
					}
				case *ast.AssignStmt:
					for i, l := range x.Lhs {
						if se, ok := ast.Unparen(l).(*ast.SelectorExpr); ok && se.Sel.Name == "ValidateJSON" && i < len(x.Rhs) && exprStr(x.Rhs[i]) != "true" && bad == "" {
							bad, bpos = "assigns "+exprStr(l)+" = "+exprStr(x.Rhs[i]), x.Pos()
						}
					}
				case *ast.CallExpr:
					if o := p.Callee(x); o != nil && o.Pkg() != nil && (core.Rel(o.Pkg().Path()) == "" || (core.Rel(o.Pkg().Path()) == "ast" && o.Name() != "NewSearcher")) {
						if d := p.DeclOf(o); d != nil && d.Body != nil {
							// a callee that takes the options as a parameter is fine in itself; the literal passed is judged here
							visit(d, depth+1)
						}
					}
				}
				return true
			})
		}
		visit(fd, 0)
		if bad != "" {
			c.Bad(cn, bpos, "sonic.%s %s: the searcher's default ValidateJSON=true is lost, so a malformed value at the path is returned as if it were valid", name, bad)
		} else {
			c.OK(cn, fd.Pos(), "keeps the searcher's validating default")
		}
	}
}
