package rules

import (
	"go/ast"
	"go/token"
	"go/types"
	"strings"

	"verif/sa/core"
)

// N3: float32 limits are compared in single precision. A JSON literal destined for a float32
// is in range when it *rounds* to a finite float32; literals between MaxFloat32 and the
// rounding midpoint (3.4028235e+38, the text of MaxFloat32 itself, is one) round to
// MaxFloat32. Comparing the un-narrowed float64 with math.MaxFloat32 rejects them. The JIT
// decoder narrows first (CVTSD2SS) and compares with UCOMISS against float32 limits; Go code
// must narrow first as well.

func init() {
	register(&core.Rule{ID: "N3", Min: 2, Arm64: true,
		Doc: "Uses of math.MaxFloat32 in non-test code of the main module: in a comparison the other operand has type float32 (the value was narrowed before the range test); in an assignment or composite the destination has type float32 (the limit the generated code compares against with UCOMISS is a float32 cell). A float64 operand or destination means the range is tested before narrowing.",
		Run: runN3})
}

func runN3(c *core.Ctx) {
	p := c.Prog
	n := 0
	isMax := func(pk interface{ ObjectOf(*ast.Ident) types.Object }, e ast.Expr) bool {
		found := false
		ast.Inspect(e, func(x ast.Node) bool {
			if se, ok := x.(*ast.SelectorExpr); ok && se.Sel.Name == "MaxFloat32" {
				if id, ok := se.X.(*ast.Ident); ok && id.Name == "math" {
					found = true
				}
			}
			return !found
		})
		return found
	}
	for _, pk := range p.Pkgs {
		for _, f := range pk.Syntax {
			if strings.HasSuffix(p.Fset.Position(f.Pos()).Filename, "_test.go") {
				continue
			}
			for _, d := range f.Decls {
				fd, ok := d.(*ast.FuncDecl)
				if !ok || fd.Body == nil {
					continue
				}
				fn := core.FuncName(pk, fd)
				k := 0
				isF32 := func(e ast.Expr) bool {
					t := pk.TypesInfo.TypeOf(e)
					if t == nil {
						return false
					}
					b, ok := t.Underlying().(*types.Basic)
					return ok && b.Kind() == types.Float32
				}
				ast.Inspect(fd.Body, func(nd ast.Node) bool {
					switch x := nd.(type) {
					case *ast.BinaryExpr:
						switch x.Op {
						case token.LSS, token.LEQ, token.GTR, token.GEQ, token.EQL, token.NEQ:
						default:
							return true
						}
						var other ast.Expr
						if isMax(nil, x.Y) && !isMax(nil, x.X) {
							other = x.X
						} else if isMax(nil, x.X) && !isMax(nil, x.Y) {
							other = x.Y
						} else {
							return true
						}
						k++
						n++
						c.Analysed(fn)
						cn := fn + "/f32-limit#" + itoa(k)
						if isF32(other) {
							c.OK(cn, x.Pos(), "compared with a float32 operand")
						} else {
							c.Bad(cn, x.Pos(), "`%s` tests the float32 range on a value that has not been narrowed yet: literals between MaxFloat32 and the rounding midpoint (e.g. 3.4028235e+38, the text of MaxFloat32) are rejected although they round to MaxFloat32 (the JIT decoder and encoding/json accept them)", exprStr(x))
						}
						return false
					case *ast.AssignStmt:
						for i, r := range x.Rhs {
							if !isMax(nil, r) || i >= len(x.Lhs) {
								continue
							}
							k++
							n++
							c.Analysed(fn)
							cn := fn + "/f32-limit#" + itoa(k)
							if isF32(x.Lhs[i]) {
								c.OK(cn, x.Pos(), "stored into a float32")
							} else {
								c.Bad(cn, x.Pos(), "the float32 limit is stored into a %s: whatever compares against it compares un-narrowed values", types.TypeString(pk.TypesInfo.TypeOf(x.Lhs[i]), nil))
							}
						}
					}
					return true
				})
			}
		}
	}
	if n == 0 && p.GOARCH == "amd64" {
		// (the portable build has no generated-code limit cells; after the repair of F-42 it has no use at all)
		c.Undecided("f32-limit", token.NoPos, "no use of math.MaxFloat32 found")
	}
}
