package rules

import (
	"go/ast"
	"go/token"
	"go/types"
	"sort"

	"verif/sa/core"
)

// S20: stale length across a lazy load. A lazily parsed Node knows only the children parsed
// so far: len() grows when a loader (skipAllIndex, skipAllKey, loadAllIndex, ... - anything
// that reaches skipNextNode / skipNextPair / parseRaw) runs. A length taken before such a
// call and used after it describes the node as it was, not as it is.

func init() {
	register(&core.Rule{ID: "S20", Min: 5, Arm64: true,
		Doc: "No stale length across a lazy load in package ast: the loaders are computed as the functions that transitively reach Node.skipNextNode, Node.skipNextPair, Node.parseRaw or a Node method that replaces the node by a parser result (`*self, err = parser.decodeArray(...)`) (resolved callees, fixpoint); in every function, a local variable defined from len()/Len()/Cap() of a node expression E must not be used after a later call of a loader on the same E (source order within the function); re-reading the length after the load is the accepted idiom, and so is seeding an index with the old length in the very statement that performs a single-step load (`for last, i := self.skipNextPair(), nb; ...`).",
		Run: runS20})
}

func runS20(c *core.Ctx) {
	p := c.Prog
	pk := p.Pkg("ast")
	if pk == nil {
		c.Undecided("ast", token.NoPos, "package not loaded")
		return
	}
	decls := core.FuncDecls(pk)
	byObj := map[types.Object]*ast.FuncDecl{}
	for _, fd := range decls {
		if fd.Body != nil {
			if o := p.ObjectOf(fd.Name); o != nil {
				byObj[o] = fd
			}
		}
	}
	loader := map[types.Object]bool{}
	for o, fd := range byObj {
		if core.RecvName(fd) == "Node" {
			switch fd.Name.Name {
			case "skipNextNode", "skipNextPair", "parseRaw":
				loader[o] = true
			}
			// a method that replaces the whole node (`*self, err = parser.decodeArray(...)`) loads too
			ast.Inspect(fd.Body, func(n ast.Node) bool {
				if as, ok := n.(*ast.AssignStmt); ok {
					for _, l := range as.Lhs {
						if st, ok := ast.Unparen(l).(*ast.StarExpr); ok {
							if id, ok := st.X.(*ast.Ident); ok && fd.Recv != nil && len(fd.Recv.List[0].Names) == 1 && id.Name == fd.Recv.List[0].Names[0].Name {
								for _, r := range as.Rhs {
									if _, isCall := ast.Unparen(r).(*ast.CallExpr); isCall {
										loader[o] = true
									}
								}
							}
						}
					}
				}
				return true
			})
		}
	}
	if len(loader) < 3 {
		c.Undecided("ast/loaders", token.NoPos, "skipNextNode / skipNextPair / parseRaw not all found")
		return
	}
	for changed := true; changed; {
		changed = false
		for o, fd := range byObj {
			if loader[o] {
				continue
			}
			hit := false
			ast.Inspect(fd.Body, func(n ast.Node) bool {
				if call, ok := n.(*ast.CallExpr); ok && loader[p.Callee(call)] {
					hit = true
				}
				return !hit
			})
			if hit {
				loader[o] = true
				changed = true
			}
		}
	}
	observer := map[string]bool{"len": true, "Len": true, "Cap": true}
	recvExpr := func(call *ast.CallExpr) (string, string) {
		se, ok := ast.Unparen(call.Fun).(*ast.SelectorExpr)
		if !ok {
			return "", ""
		}
		return exprStr(se.X), se.Sel.Name
	}
	nfun := 0
	var names []string
	fds := map[string]*ast.FuncDecl{}
	for _, fd := range byObj {
		names = append(names, core.FuncName(pk, fd))
		fds[core.FuncName(pk, fd)] = fd
	}
	sort.Strings(names)
	for _, fn := range names {
		fd := fds[fn]
		// length snapshots: var -> (receiver expr, def pos)
		type snap struct {
			recv string
			pos  token.Pos
		}
		snaps := map[types.Object]snap{}
		ast.Inspect(fd.Body, func(n ast.Node) bool {
			as, ok := n.(*ast.AssignStmt)
			if !ok || len(as.Lhs) != len(as.Rhs) {
				return true
			}
			for i, r := range as.Rhs {
				id, ok := as.Lhs[i].(*ast.Ident)
				if !ok {
					continue
				}
				ast.Inspect(r, func(x ast.Node) bool {
					if call, ok := x.(*ast.CallExpr); ok {
						if re, m := recvExpr(call); observer[m] && re != "" {
							if callee := p.Callee(call); callee != nil && callee.Pkg() == pk.Types {
								if o := p.ObjectOf(id); o != nil {
									snaps[o] = snap{re, as.End()}
								}
							}
						}
					}
					return true
				})
			}
			return true
		})
		if len(snaps) == 0 {
			continue
		}
		// loader calls per receiver expression
		type lcall struct {
			recv string
			pos  token.Pos
			name string
		}
		var loads []lcall
		ast.Inspect(fd.Body, func(n ast.Node) bool {
			if call, ok := n.(*ast.CallExpr); ok && loader[p.Callee(call)] {
				re, m := recvExpr(call)
				loads = append(loads, lcall{re, call.Pos(), m})
			}
			return true
		})
		// simple statements (an assignment that calls the loader and seeds an index with the old
		// length in one go, `for last, i := self.skipNextPair(), nb; ...`, is the accepted idiom)
		var simple []ast.Stmt
		ast.Inspect(fd.Body, func(n ast.Node) bool {
			switch st := n.(type) {
			case *ast.AssignStmt:
				simple = append(simple, st)
			case *ast.ExprStmt:
				simple = append(simple, st)
			}
			return true
		})
		sameStmt := func(a, b token.Pos) bool {
			for _, st := range simple {
				if st.Pos() <= a && a < st.End() && st.Pos() <= b && b < st.End() {
					return true
				}
			}
			return false
		}
		nfun++
		c.Analysed(fn)
		bad := ""
		var badPos token.Pos
		ast.Inspect(fd.Body, func(n ast.Node) bool {
			id, ok := n.(*ast.Ident)
			if !ok || !p.IsUse(id) {
				return true
			}
			sn, ok := snaps[p.ObjectOf(id)]
			if !ok || id.Pos() < sn.pos {
				return true
			}
			for _, l := range loads {
				if l.recv == sn.recv && l.pos > sn.pos && l.pos < id.Pos() && !sameStmt(l.pos, id.Pos()) {
					if bad == "" {
						bad = "`" + id.Name + "` holds the length of " + sn.recv + " taken at " + p.Pos(sn.pos) + ", before " + sn.recv + "." + l.name + "() loaded further children at " + p.Pos(l.pos) + "; its use here describes the node before the load (on a partially parsed node the wrong element is selected)"
						badPos = id.Pos()
					}
				}
			}
			return true
		})
		cn := fn + "/length-snapshot"
		if bad != "" {
			c.Bad(cn, badPos, "%s", bad)
		} else {
			c.OK(cn, fd.Pos(), "%d length snapshot(s), none used across a lazy load of the same node", len(snaps))
		}
	}
	if nfun == 0 {
		c.Undecided("ast/length-snapshot", token.NoPos, "no length snapshot found")
	}
}
