package rules

import (
	"go/ast"
	"go/token"
	"go/types"
	"strings"

	"golang.org/x/tools/go/cfg"

	"verif/sa/core"
)

func init() {
	register(&core.Rule{ID: "B2", Min: 6,
		Doc: "Go-side raw-pointer reads are bounds-guarded: in ast/decode.go and internal/utils/skip.go every `*(*byte)(unsafe.Pointer(p))` is reached only on go/cfg paths on which, since p was last modified, p < end was established (loop or if condition `p < se`, early return on `p >= se` / `p == se`, or, for the first access, the index guard `pos+k >= len(src)` that precedes p := IndexChar(src, pos)). Short-circuit order matters: `f(*p) && p < se` reads first.",
		Run: runB2})
}

// derefVar recognises *(*byte)(unsafe.Pointer(X [+/- k])) and returns X and the offset sign.
func derefVar(p *core.Program, e ast.Expr) (types.Object, int) {
	st, ok := ast.Unparen(e).(*ast.StarExpr)
	if !ok {
		return nil, 0
	}
	conv, ok := ast.Unparen(st.X).(*ast.CallExpr)
	if !ok || len(conv.Args) != 1 {
		return nil, 0
	}
	inner, ok := ast.Unparen(conv.Args[0]).(*ast.CallExpr)
	if !ok || len(inner.Args) != 1 || exprStr(inner.Fun) != "unsafe.Pointer" {
		return nil, 0
	}
	arg := ast.Unparen(inner.Args[0])
	sign := 0
	if be, ok := arg.(*ast.BinaryExpr); ok {
		if be.Op == token.SUB {
			sign = -1
		} else {
			sign = 1
		}
		arg = ast.Unparen(be.X)
	}
	id, ok := arg.(*ast.Ident)
	if !ok {
		return nil, 0
	}
	return p.ObjectOf(id), sign
}

func runB2(c *core.Ctx) {
	p := c.Prog
	n := 0
	for _, rel := range []string{"ast", "internal/utils"} {
		pk := p.Pkg(rel)
		if pk == nil {
			continue
		}
		for _, fd := range core.FuncDecls(pk) {
			if fd.Body == nil {
				continue
			}
			has := false
			ast.Inspect(fd.Body, func(nd ast.Node) bool {
				if e, ok := nd.(ast.Expr); ok {
					if o, _ := derefVar(p, e); o != nil {
						has = true
					}
				}
				return !has
			})
			if !has {
				continue
			}
			fn := core.FuncName(pk, fd)
			c.Analysed(fn)
			g := funcCFG(p, fd.Body)
			type facts map[types.Object]bool
			clone := func(f facts) facts {
				n := facts{}
				for k, v := range f {
					n[k] = v
				}
				return n
			}
			in := map[*cfg.Block]facts{}
			reached := map[*cfg.Block]bool{}
			if len(g.Blocks) == 0 {
				continue
			}
			in[g.Blocks[0]] = facts{}
			reached[g.Blocks[0]] = true
			// cmp classifies `X op E`: returns X and whether the TRUE edge proves X < end, and whether the FALSE edge does
			cmp := func(e ast.Expr) (types.Object, bool, bool) {
				be, ok := ast.Unparen(e).(*ast.BinaryExpr)
				if !ok {
					return nil, false, false
				}
				lhs := ast.Unparen(be.X)
				// uintptr(sp) >= se
				if call, ok := lhs.(*ast.CallExpr); ok && len(call.Args) == 1 {
					lhs = ast.Unparen(call.Args[0])
				}
				// pos+1 >= len(src)
				if b2, ok := lhs.(*ast.BinaryExpr); ok && b2.Op == token.ADD {
					lhs = ast.Unparen(b2.X)
				}
				id, ok := lhs.(*ast.Ident)
				if !ok {
					return nil, false, false
				}
				o := p.ObjectOf(id)
				switch be.Op {
				case token.LSS:
					return o, true, false
				case token.GEQ, token.EQL:
					return o, false, true
				}
				return nil, false, false
			}
			bad := map[string]token.Pos{}
			nder := 0
			work := []*cfg.Block{g.Blocks[0]}
			for iter := 0; len(work) > 0 && iter < 10000; iter++ {
				b := work[len(work)-1]
				work = work[:len(work)-1]
				f := clone(in[b])
				for _, nd := range b.Nodes {
					// derefs in this node (evaluated with the facts before the node's own writes);
					// inside a short-circuit condition the right operand sees the left operand's outcome
					var checkIn func(m ast.Node, fx facts)
					checkIn = func(m ast.Node, fx facts) {
						if be, ok := m.(*ast.BinaryExpr); ok && (be.Op == token.LAND || be.Op == token.LOR) {
							checkIn(be.X, fx)
							fy := clone(fx)
							if o, onTrue, onFalse := cmp(be.X); o != nil {
								if (be.Op == token.LAND && onTrue) || (be.Op == token.LOR && onFalse) {
									fy[o] = true
								}
							}
							checkIn(be.Y, fy)
							return
						}
						ast.Inspect(m, func(x ast.Node) bool {
							if x == m {
								return true
							}
							if be, ok := x.(*ast.BinaryExpr); ok && (be.Op == token.LAND || be.Op == token.LOR) {
								checkIn(be, fx)
								return false
							}
							if e, ok := x.(ast.Expr); ok {
								if o, sign := derefVar(p, e); o != nil && sign >= 0 && !fx[o] {
									bad[p.Pos(e.Pos())] = e.Pos()
								}
							}
							return true
						})
						if e, ok := m.(ast.Expr); ok {
							if o, sign := derefVar(p, e); o != nil && sign >= 0 && !fx[o] {
								bad[p.Pos(e.Pos())] = e.Pos()
							}
						}
					}
					checkIn(nd, f)
					// writes
					switch s := nd.(type) {
					case *ast.AssignStmt:
						for i, l := range s.Lhs {
							id, ok := ast.Unparen(l).(*ast.Ident)
							if !ok {
								continue
							}
							o := p.ObjectOf(id)
							f[o] = false
							// p := uintptr(rt.IndexChar(src, pos)) inherits the index guard on pos
							if i < len(s.Rhs) && s.Tok != token.ADD_ASSIGN && s.Tok != token.SUB_ASSIGN {
								r := exprStr(s.Rhs[i])
								if strings.Contains(r, "IndexChar(") && !strings.Contains(r, "len(") {
									ast.Inspect(s.Rhs[i], func(m ast.Node) bool {
										if id2, ok := m.(*ast.Ident); ok {
											if o2 := p.ObjectOf(id2); o2 != nil && f[o2] {
												f[o] = true
											}
										}
										return true
									})
								}
								// ss := uintptr(sp)
								if id2, ok := ast.Unparen(s.Rhs[i]).(*ast.Ident); ok && f[p.ObjectOf(id2)] {
									f[o] = true
								}
							}
						}
					case *ast.IncDecStmt:
						if id, ok := ast.Unparen(s.X).(*ast.Ident); ok {
							f[p.ObjectOf(id)] = false
						}
					}
				}
				// edges
				var tf, ff facts = f, f
				if len(b.Nodes) > 0 && len(b.Succs) == 2 {
					if e, ok := b.Nodes[len(b.Nodes)-1].(ast.Expr); ok {
						tf, ff = clone(f), clone(f)
						var apply func(e ast.Expr, outcome bool, dst facts)
						apply = func(e ast.Expr, outcome bool, dst facts) {
							e = ast.Unparen(e)
							switch x := e.(type) {
							case *ast.UnaryExpr:
								if x.Op == token.NOT {
									apply(x.X, !outcome, dst)
								}
								return
							case *ast.BinaryExpr:
								if x.Op == token.LOR {
									if !outcome {
										apply(x.X, false, dst)
										apply(x.Y, false, dst)
									}
									return
								}
								if x.Op == token.LAND {
									if outcome {
										apply(x.X, true, dst)
										apply(x.Y, true, dst)
									}
									return
								}
							}
							if o, onTrue, onFalse := cmp(e); o != nil {
								if (outcome && onTrue) || (!outcome && onFalse) {
									dst[o] = true
								}
							}
						}
						apply(e, true, tf)
						apply(e, false, ff)
					}
				}
				for i, s := range b.Succs {
					out := f
					if len(b.Succs) == 2 {
						if i == 0 {
							out = tf
						} else {
							out = ff
						}
					}
					if !reached[s] {
						reached[s] = true
						in[s] = clone(out)
						work = append(work, s)
						continue
					}
					changed := false
					for k, v := range in[s] {
						if v && !out[k] {
							in[s][k] = false
							changed = true
						}
					}
					if changed {
						work = append(work, s)
					}
				}
			}
			ast.Inspect(fd.Body, func(nd ast.Node) bool {
				if e, ok := nd.(ast.Expr); ok {
					if o, sign := derefVar(p, e); o != nil && sign >= 0 {
						nder++
					}
				}
				return true
			})
			n += nder
			if len(bad) > 0 {
				for _, pos := range bad {
					c.Bad(fn+"/raw-read", pos, "%s dereferences a raw input pointer on a path where `p < end` has not been established since p last changed: one byte past the input is read (faults when the input ends at the edge of mapped memory)", fn)
					break
				}
			} else {
				c.OK(fn+"/raw-read", fd.Pos(), "%d raw byte read(s), each dominated by a bound test", nder)
			}
		}
	}
	if n < 8 {
		c.Undecided("ast,utils/raw-read", token.NoPos, "only %d raw byte reads found", n)
	}
}
