package rules

import (
	"go/ast"
	"go/token"
	"go/types"

	"verif/sa/core"
)

// S21: a raw node holds the text the skipper framed, which the non-validating skipper may
// frame loosely (trailing blanks after a number, unchecked contents). Turning it into a typed
// node is the parser's job: parseRaw hands the text to a Parser and stores what the parser
// returns. Building the typed node directly from the text bypasses the parser's framing and
// validation, so the located value then depends on how it was skipped.

func init() {
	register(&core.Rule{ID: "S21", Min: 1, Arm64: true,
		Doc: "Raw text reaches the typed node only through the parser: in ast.(*Node).parseRaw the local that receives self.toString() is used only as the argument of a Parser constructor (NewParserObj / NewParser), and every store into the node (`*self = ...`, `self.assign(...)`) takes a result of a method of that parser object (Parse, syntaxError wrapped by newSyntaxError).",
		Run: runS21})
}

func runS21(c *core.Ctx) {
	p := c.Prog
	pk := p.Pkg("ast")
	fd := core.FuncDecl(pk, "Node", "parseRaw")
	if fd == nil || fd.Body == nil {
		c.Undecided("ast.(Node).parseRaw", token.NoPos, "not found")
		return
	}
	fn := core.FuncName(pk, fd)
	c.Analysed(fn)
	var raws []types.Object
	ast.Inspect(fd.Body, func(n ast.Node) bool {
		as, ok := n.(*ast.AssignStmt)
		if !ok || len(as.Lhs) != 1 || len(as.Rhs) != 1 {
			return true
		}
		if call, ok := ast.Unparen(as.Rhs[0]).(*ast.CallExpr); ok {
			if se, ok := call.Fun.(*ast.SelectorExpr); ok && se.Sel.Name == "toString" {
				if id, ok := as.Lhs[0].(*ast.Ident); ok {
					raws = append(raws, p.ObjectOf(id))
				}
			}
		}
		return true
	})
	if len(raws) == 0 {
		c.Undecided(fn+"/raw-text", fd.Pos(), "no local receives self.toString()")
		return
	}
	isRaw := func(e ast.Expr) bool {
		id, ok := ast.Unparen(e).(*ast.Ident)
		if !ok {
			return false
		}
		for _, r := range raws {
			if p.ObjectOf(id) == r {
				return true
			}
		}
		return false
	}
	// every use of raw is an argument of a parser constructor; inline toString() uses elsewhere count too
	var parents []ast.Node
	bad := token.NoPos
	what := ""
	ast.Inspect(fd.Body, func(n ast.Node) bool {
		if n == nil {
			parents = parents[:len(parents)-1]
			return true
		}
		parents = append(parents, n)
		id, ok := n.(*ast.Ident)
		if !ok || !p.IsUse(id) || !isRaw(id) {
			return true
		}
		okUse := false
		if len(parents) >= 2 {
			if call, ok := parents[len(parents)-2].(*ast.CallExpr); ok {
				if o := p.Callee(call); o != nil && (o.Name() == "NewParserObj" || o.Name() == "NewParser") {
					okUse = true
				}
			}
		}
		if !okUse && bad == token.NoPos {
			bad = id.Pos()
			if len(parents) >= 2 {
				if call, ok := parents[len(parents)-2].(*ast.CallExpr); ok {
					what = exprStr(call)
				}
			}
		}
		return true
	})
	if bad != token.NoPos {
		c.Bad(fn+"/raw-text", bad, "the raw text of the node is used outside the parser (%s): the typed node is built from text as the skipper framed it (the non-validating skipper leaves trailing blanks after a number and checks nothing), so the value depends on which skipper located it", what)
	} else {
		c.OK(fn+"/raw-text", fd.Pos(), "the raw text is only handed to the parser constructor")
	}
}

// L8: a failed parse is published once. In the locked branch of parseRaw (nodes that other
// goroutines may be reading) the node is updated with atomic stores; the parser's result is the
// zero Node when it failed, so it must not be stored before the error is examined - readers
// would see an empty, valid-looking node until the error node replaces it.
//
// S24: castNumber is the bool -> "0"/"1" helper; handing it `v != 0` for a numeric v turns every
// non-zero number into 1.

func init() {
	register(&core.Rule{ID: "L8", Min: 1, Arm64: true,
		Doc: "In ast.(*Node).parseRaw every `self.assign(n)` whose argument is a variable assigned from a parser run (`n, e = parser.Parse()`) stands under a test that the error of that run is zero (`if e == 0`); the error node is the only thing published otherwise.",
		Run: runL8})
	register(&core.Rule{ID: "S24", Min: 1, Arm64: true,
		Doc: "castNumber (bool to \"0\"/\"1\") is never applied to a comparison of a numeric value with zero in package ast: `castNumber(v != 0)` in a numeric arm of Number() returns \"1\" for every non-zero value instead of the number.",
		Run: runS24})
}

func runL8(c *core.Ctx) {
	p := c.Prog
	pk := p.Pkg("ast")
	fd := core.FuncDecl(pk, "Node", "parseRaw")
	cn := "ast.(Node).parseRaw/publish-on-success"
	if fd == nil || fd.Body == nil {
		c.Undecided(cn, token.NoPos, "not found")
		return
	}
	c.Analysed(core.FuncName(pk, fd))
	// variables assigned from parser.Parse() together with their error variable
	type pr struct{ n, e types.Object }
	var runs []pr
	ast.Inspect(fd.Body, func(nd ast.Node) bool {
		as, ok := nd.(*ast.AssignStmt)
		if !ok || len(as.Lhs) != 2 || len(as.Rhs) != 1 {
			return true
		}
		call, ok := as.Rhs[0].(*ast.CallExpr)
		if !ok {
			return true
		}
		if se, ok := call.Fun.(*ast.SelectorExpr); !ok || se.Sel.Name != "Parse" {
			return true
		}
		n, ok1 := as.Lhs[0].(*ast.Ident)
		e, ok2 := as.Lhs[1].(*ast.Ident)
		if ok1 && ok2 {
			runs = append(runs, pr{p.ObjectOf(n), p.ObjectOf(e)})
		}
		return true
	})
	var stack []ast.Node
	sites := 0
	var bad token.Pos
	ast.Inspect(fd.Body, func(nd ast.Node) bool {
		if nd == nil {
			stack = stack[:len(stack)-1]
			return true
		}
		stack = append(stack, nd)
		call, ok := nd.(*ast.CallExpr)
		if !ok || len(call.Args) != 1 {
			return true
		}
		if se, ok := call.Fun.(*ast.SelectorExpr); !ok || se.Sel.Name != "assign" {
			return true
		}
		id, ok := ast.Unparen(call.Args[0]).(*ast.Ident)
		if !ok {
			return true
		}
		for _, r := range runs {
			if p.ObjectOf(id) != r.n {
				continue
			}
			sites++
			guarded := false
			for _, a := range stack {
				if is, ok := a.(*ast.IfStmt); ok {
					if be, ok := ast.Unparen(is.Cond).(*ast.BinaryExpr); ok && be.Op == token.EQL && exprStr(be.Y) == "0" {
						if eid, ok := ast.Unparen(be.X).(*ast.Ident); ok && p.ObjectOf(eid) == r.e {
							guarded = true
						}
					}
				}
			}
			if !guarded && bad == token.NoPos {
				bad = call.Pos()
			}
		}
		return true
	})
	switch {
	case bad != token.NoPos:
		c.Bad(cn, bad, "the parser's result is published with assign() before its error is examined: when the parse failed the result is the zero Node, so concurrent readers of this node see V_NONE (Check() and Valid() succeed, Len() is 0, Get() says unsupported type) until the error node replaces it")
	case sites == 0:
		c.OK(cn, fd.Pos(), "no parser result is published through assign()")
	default:
		c.OK(cn, fd.Pos(), "%d assign() of a parser result, each under `e == 0`", sites)
	}
}

func runS24(c *core.Ctx) {
	p := c.Prog
	pk := p.Pkg("ast")
	n := 0
	for _, fd := range core.FuncDecls(pk) {
		if fd.Body == nil {
			continue
		}
		fn := core.FuncName(pk, fd)
		calls, k := 0, 0
		ast.Inspect(fd.Body, func(nd ast.Node) bool {
			call, ok := nd.(*ast.CallExpr)
			if !ok || len(call.Args) != 1 {
				return true
			}
			if id, ok := call.Fun.(*ast.Ident); !ok || id.Name != "castNumber" {
				return true
			}
			calls++
			be, ok := ast.Unparen(call.Args[0]).(*ast.BinaryExpr)
			if !ok || (be.Op != token.NEQ && be.Op != token.EQL) {
				return true
			}
			t := pk.TypesInfo.TypeOf(be.X)
			if t == nil {
				return true
			}
			if b, ok := t.Underlying().(*types.Basic); ok && b.Info()&types.IsNumeric != 0 {
				k++
				c.Analysed(fn)
				c.Bad(fn+"/bool-cast-of-number#"+itoa(k), call.Pos(), "castNumber(%s) reduces the %s value to \"0\" or \"1\": ast.NewAny(42).Number() returns \"1\" (Int64 and Float64 of the same node return 42)", exprStr(call.Args[0]), types.TypeString(t, nil))
			}
			return true
		})
		if calls > 0 {
			n++
			if k == 0 {
				c.Analysed(fn)
				c.OK(fn+"/bool-cast", fd.Pos(), "%d use(s) of castNumber, all on boolean values", calls)
			}
		}
	}
	if n == 0 {
		c.Undecided("ast/castNumber", token.NoPos, "castNumber is not used")
	}
}
