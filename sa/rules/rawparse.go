package rules

import (
	"go/ast"
	"go/token"
	"go/types"

	"verif/sa/core"
)

// S21: a raw node holds the text the skipper framed, which the non-validating skipper may
// frame loosely (trailing blanks after a number, unchecked contents). Turning it into a typed
// node is the parser's job: parseRaw hands the text to a Parser and stores what the parser
// returns. Building the typed node directly from the text bypasses the parser's framing and
// validation, so the located value then depends on how it was skipped.

func init() {
	register(&core.Rule{ID: "S21", Min: 1, Arm64: true,
		Doc: "Raw text reaches the typed node only through the parser: in ast.(*Node).parseRaw the local that receives self.toString() is used only as the argument of a Parser constructor (NewParserObj / NewParser), and every store into the node (`*self = ...`, `self.assign(...)`) takes a result of a method of that parser object (Parse, syntaxError wrapped by newSyntaxError).",
		Run: runS21})
}

func runS21(c *core.Ctx) {
	p := c.Prog
	pk := p.Pkg("ast")
	fd := core.FuncDecl(pk, "Node", "parseRaw")
	if fd == nil || fd.Body == nil {
		c.Undecided("ast.(Node).parseRaw", token.NoPos, "not found")
		return
	}
	fn := core.FuncName(pk, fd)
	c.Analysed(fn)
	var raws []types.Object
	ast.Inspect(fd.Body, func(n ast.Node) bool {
		as, ok := n.(*ast.AssignStmt)
		if !ok || len(as.Lhs) != 1 || len(as.Rhs) != 1 {
			return true
		}
		if call, ok := ast.Unparen(as.Rhs[0]).(*ast.CallExpr); ok {
			if se, ok := call.Fun.(*ast.SelectorExpr); ok && se.Sel.Name == "toString" {
				if id, ok := as.Lhs[0].(*ast.Ident); ok {
					raws = append(raws, p.ObjectOf(id))
				}
			}
		}
		return true
	})
	if len(raws) == 0 {
		c.Undecided(fn+"/raw-text", fd.Pos(), "no local receives self.toString()")
		return
	}
	isRaw := func(e ast.Expr) bool {
		id, ok := ast.Unparen(e).(*ast.Ident)
		if !ok {
			return false
		}
		for _, r := range raws {
			if p.ObjectOf(id) == r {
				return true
			}
		}
		return false
	}
	// every use of raw is an argument of a parser constructor; inline toString() uses elsewhere count too
	var parents []ast.Node
	bad := token.NoPos
	what := ""
	ast.Inspect(fd.Body, func(n ast.Node) bool {
		if n == nil {
			parents = parents[:len(parents)-1]
			return true
		}
		parents = append(parents, n)
		id, ok := n.(*ast.Ident)
		if !ok || !p.IsUse(id) || !isRaw(id) {
			return true
		}
		okUse := false
		if len(parents) >= 2 {
			if call, ok := parents[len(parents)-2].(*ast.CallExpr); ok {
				if o := p.Callee(call); o != nil && (o.Name() == "NewParserObj" || o.Name() == "NewParser") {
					okUse = true
				}
			}
		}
		if !okUse && bad == token.NoPos {
			bad = id.Pos()
			if len(parents) >= 2 {
				if call, ok := parents[len(parents)-2].(*ast.CallExpr); ok {
					what = exprStr(call)
				}
			}
		}
		return true
	})
	if bad != token.NoPos {
		c.Bad(fn+"/raw-text", bad, "the raw text of the node is used outside the parser (%s): the typed node is built from text as the skipper framed it (the non-validating skipper leaves trailing blanks after a number and checks nothing), so the value depends on which skipper located it", what)
	} else {
		c.OK(fn+"/raw-text", fd.Pos(), "the raw text is only handed to the parser constructor")
	}
}
