package rules

import (
	"go/ast"
	"go/token"
	"go/types"
	"strings"

	"verif/sa/core"
)

func init() {
	register(&core.Rule{ID: "O3", Min: 6,
		Doc: "Copy-before-retain instances: frozenConfig.Unmarshal hands UnmarshalFromString an allocating string([]byte) conversion of the caller's buffer on every path (never rt.Mem2Str); sonic.Get([]byte) reaches the copying search (GetCopyFromString -> GetByPathCopy); GetByPathCopy sets CopyReturn before searching; Searcher.getByPath's CopyReturn arm builds the raw text through an allocating []byte(string) conversion; search options are consumed at their one site (ValidateJSON -> parser.getByPath, ConcurrentRead -> newRawNode).",
		Run: runO3})
}

// isAllocatingConv: string([]byte) or []byte(string) conversion expression.
func isAllocatingConv(p *core.Program, e ast.Expr) bool {
	call, ok := ast.Unparen(e).(*ast.CallExpr)
	if !ok || len(call.Args) != 1 {
		return false
	}
	tv := p.TypeOf(call.Fun)
	if tv == nil {
		return false
	}
	if _, isSig := tv.Underlying().(*types.Signature); isSig {
		return false
	}
	at := p.TypeOf(call.Args[0])
	if at == nil {
		return false
	}
	isStr := func(t types.Type) bool {
		b, ok := t.Underlying().(*types.Basic)
		return ok && b.Info()&types.IsString != 0
	}
	isBytes := func(t types.Type) bool {
		s, ok := t.Underlying().(*types.Slice)
		if !ok {
			return false
		}
		b, ok := s.Elem().Underlying().(*types.Basic)
		return ok && b.Kind() == types.Byte
	}
	return (isStr(tv) && isBytes(at)) || (isBytes(tv) && isStr(at))
}

func runO3(c *core.Ctx) {
	p := c.Prog
	root := p.Pkg("")
	astp := p.Pkg("ast")
	// 1. frozenConfig.Unmarshal
	if fd := core.FuncDecl(root, "frozenConfig", "Unmarshal"); fd != nil {
		c.Analysed("sonic.(frozenConfig).Unmarshal")
		bufPar := p.ObjectOf(fd.Type.Params.List[0].Names[0])
		n, bad := 0, token.NoPos
		badWhat := ""
		ast.Inspect(fd.Body, func(nd ast.Node) bool {
			call, ok := nd.(*ast.CallExpr)
			if !ok {
				return true
			}
			o := p.Callee(call)
			if o == nil || (o.Name() != "UnmarshalFromString" && o.Name() != "NewDecoder" && o.Name() != "Reset") || len(call.Args) == 0 {
				return true
			}
			n++
			if !isAllocatingConv(p, call.Args[0]) {
				bad, badWhat = call.Pos(), exprStr(call.Args[0])
			}
			return true
		})
		// any other use of buf that could alias (Mem2Str etc.)
		ast.Inspect(fd.Body, func(nd ast.Node) bool {
			call, ok := nd.(*ast.CallExpr)
			if !ok {
				return true
			}
			if o := p.Callee(call); o != nil && (o.Name() == "Mem2Str" || o.Name() == "StrFrom") {
				for _, a := range call.Args {
					if id, ok := ast.Unparen(a).(*ast.Ident); ok && p.ObjectOf(id) == bufPar {
						bad, badWhat = call.Pos(), exprStr(call)
					}
				}
			}
			return true
		})
		switch {
		case n == 0:
			c.Undecided("sonic.(frozenConfig).Unmarshal/copies-input", fd.Pos(), "no decode call found")
		case bad.IsValid():
			c.Bad("sonic.(frozenConfig).Unmarshal/copies-input", bad, "Unmarshal([]byte) hands the decoder %s, a view of the caller's buffer, instead of a string([]byte) copy: decoded values (RawMessage, json.Number, ast.Node, strings without CopyString) alias memory the caller may reuse", badWhat)
		default:
			c.OK("sonic.(frozenConfig).Unmarshal/copies-input", fd.Pos(), "decoder receives string(buf) on every path")
		}
	} else {
		c.Undecided("sonic.(frozenConfig).Unmarshal", token.NoPos, "not found")
	}
	// 2. sonic.Get -> GetCopyFromString -> GetByPathCopy
	chain := [][3]string{{"", "Get", "GetCopyFromString"}, {"", "GetCopyFromString", "GetByPathCopy"}}
	for _, ch := range chain {
		fd := core.FuncDecl(root, "", ch[1])
		cn := "sonic." + ch[1] + "/copying-search"
		if fd == nil {
			c.Undecided(cn, token.NoPos, "not found")
			continue
		}
		c.Analysed("sonic." + ch[1])
		ok := false
		other := ""
		ast.Inspect(fd.Body, func(nd ast.Node) bool {
			if call, isCall := nd.(*ast.CallExpr); isCall {
				if o := p.Callee(call); o != nil {
					if o.Name() == ch[2] {
						ok = true
					} else if o.Name() == "GetByPath" || o.Name() == "GetFromString" {
						other = o.Name()
					}
				}
			}
			return true
		})
		c.Check(ok && other == "", cn, fd.Pos(), "reaches "+ch[2], "sonic."+ch[1]+" no longer reaches the copying search "+ch[2]+" (calls "+other+"): the returned node aliases the caller's []byte")
	}
	// 3. GetByPathCopy sets CopyReturn before getByPath
	if fd := core.FuncDecl(astp, "Searcher", "GetByPathCopy"); fd != nil {
		c.Analysed("ast.(Searcher).GetByPathCopy")
		var setPos, callPos token.Pos
		ast.Inspect(fd.Body, func(nd ast.Node) bool {
			switch x := nd.(type) {
			case *ast.AssignStmt:
				if se, ok := x.Lhs[0].(*ast.SelectorExpr); ok && se.Sel.Name == "CopyReturn" && exprStr(x.Rhs[0]) == "true" {
					setPos = x.Pos()
				}
			case *ast.CallExpr:
				if o := p.Callee(x); o != nil && o.Name() == "getByPath" {
					callPos = x.Pos()
				}
			}
			return true
		})
		c.Check(setPos.IsValid() && callPos.IsValid() && setPos < callPos, "ast.(Searcher).GetByPathCopy/sets-CopyReturn", fd.Pos(), "CopyReturn = true before the search", "GetByPathCopy does not set CopyReturn before searching")
	} else {
		c.Undecided("ast.(Searcher).GetByPathCopy", token.NoPos, "not found")
	}
	// 4. getByPath: CopyReturn arm copies; options consumed
	if fd := core.FuncDecl(astp, "Searcher", "getByPath"); fd != nil {
		c.Analysed("ast.(Searcher).getByPath")
		copyArm, valid, conc := false, false, false
		rawArg := map[string]bool{} // variables passed as the text of the returned node
		ast.Inspect(fd.Body, func(nd ast.Node) bool {
			if call, ok := nd.(*ast.CallExpr); ok && len(call.Args) == 3 {
				if o := p.Callee(call); o != nil && o.Name() == "newRawNode" {
					if id, ok := ast.Unparen(call.Args[0]).(*ast.Ident); ok {
						rawArg[id.Name] = true
					}
				}
			}
			return true
		})
		ast.Inspect(fd.Body, func(nd ast.Node) bool {
			switch x := nd.(type) {
			case *ast.IfStmt:
				if se, ok := ast.Unparen(x.Cond).(*ast.SelectorExpr); ok && se.Sel.Name == "CopyReturn" {
					// then-branch assigns the variable handed to newRawNode from an expression
					// containing an allocating conversion (a copy of something else - the
					// error's Src, F-70 - is not the copy of the located text)
					ast.Inspect(x.Body, func(m ast.Node) bool {
						as, ok := m.(*ast.AssignStmt)
						if !ok || len(as.Lhs) != 1 || len(as.Rhs) != 1 {
							return true
						}
						if id, ok := as.Lhs[0].(*ast.Ident); !ok || !rawArg[id.Name] {
							return true
						}
						ast.Inspect(as.Rhs[0], func(r ast.Node) bool {
							if e, ok := r.(ast.Expr); ok && isAllocatingConv(p, e) {
								copyArm = true
							}
							return true
						})
						return true
					})
				}
			case *ast.CallExpr:
				if o := p.Callee(x); o != nil {
					if o.Name() == "getByPath" && len(x.Args) >= 1 {
						if se, ok := ast.Unparen(x.Args[0]).(*ast.SelectorExpr); ok && se.Sel.Name == "ValidateJSON" {
							valid = true
						}
					}
					if o.Name() == "newRawNode" && len(x.Args) == 3 {
						if se, ok := ast.Unparen(x.Args[2]).(*ast.SelectorExpr); ok && se.Sel.Name == "ConcurrentRead" {
							conc = true
						}
					}
				}
			}
			return true
		})
		c.Check(copyArm, "ast.(Searcher).getByPath/copy-arm", fd.Pos(), "CopyReturn arm copies the located text ([]byte(string) conversion)", "the CopyReturn arm of getByPath no longer copies the located text: Get([]byte) returns a node aliasing the caller's buffer")
		c.Check(valid, "ast.(Searcher).getByPath/ValidateJSON", fd.Pos(), "ValidateJSON handed to parser.getByPath", "SearchOptions.ValidateJSON is not handed to the parser: the option has no effect")
		c.Check(conc, "ast.(Searcher).getByPath/ConcurrentRead", fd.Pos(), "ConcurrentRead handed to newRawNode", "SearchOptions.ConcurrentRead is not handed to newRawNode: returned nodes are not lockable")
	} else {
		c.Undecided("ast.(Searcher).getByPath", token.NoPos, "not found")
	}
}

func init() {
	register(&core.Rule{ID: "O5", Min: 3,
		Doc: "Instruction pool of the assembler: jit.(*Backend).Release (which returns every *obj.Prog to the process-wide pool) is called only from (*BaseAssembler).release; in build() release() is the last step, after assemble() and resolve() (which still read the progs through the xrefs/labels maps); release() drops the maps that reference the progs. Recycling earlier lets a concurrent compilation zero and reuse instructions that are still to be patched.",
		Run: runO5})
}

func runO5(c *core.Ctx) {
	p := c.Prog
	jit := p.Pkg("internal/jit")
	if jit == nil || core.FuncDecl(jit, "Backend", "Release") == nil {
		if p.GOARCH != "amd64" {
			return
		}
		c.Undecided("jit.(Backend).Release", token.NoPos, "not found")
		return
	}
	rel := p.ObjectOf(core.FuncDecl(jit, "Backend", "Release").Name)
	callers, _, _ := callersOf(p, rel)
	var names []string
	for n := range callers {
		names = append(names, n)
	}
	c.Check(len(callers) == 1 && callers["internal/jit.(BaseAssembler).release"], "jit.(Backend).Release/callers", rel.Pos(), "called only from (*BaseAssembler).release", "Backend.Release (recycles every instruction of this assembly into the shared pool) is called from "+strings.Join(names, ", ")+": the progs are still referenced afterwards")
	if fd := core.FuncDecl(jit, "BaseAssembler", "build"); fd != nil {
		c.Analysed("internal/jit.(BaseAssembler).build")
		var order []string
		ast.Inspect(fd.Body, func(n ast.Node) bool {
			if es, ok := n.(*ast.ExprStmt); ok {
				if call, ok := es.X.(*ast.CallExpr); ok {
					if se, ok := call.Fun.(*ast.SelectorExpr); ok {
						order = append(order, se.Sel.Name)
					}
				}
			}
			return true
		})
		idx := func(n string) int {
			for i, x := range order {
				if x == n {
					return i
				}
			}
			return -1
		}
		good := idx("release") == len(order)-1 && idx("assemble") >= 0 && idx("resolve") > idx("assemble") && idx("release") > idx("resolve")
		c.Check(good, "jit.(BaseAssembler).build/release-last", fd.Pos(), "assemble, resolve, then release as the last step", "build() does not run release() last, after assemble() and resolve(): order is "+strings.Join(order, ","))
	} else {
		c.Undecided("jit.(BaseAssembler).build", token.NoPos, "not found")
	}
	if fd := core.FuncDecl(jit, "BaseAssembler", "release"); fd != nil {
		cleared := map[string]bool{}
		ast.Inspect(fd.Body, func(n ast.Node) bool {
			if as, ok := n.(*ast.AssignStmt); ok && len(as.Lhs) == 1 && exprStr(as.Rhs[0]) == "nil" {
				if se, ok := as.Lhs[0].(*ast.SelectorExpr); ok {
					cleared[se.Sel.Name] = true
				}
			}
			return true
		})
		c.Check(cleared["xrefs"] && cleared["labels"] && cleared["pb"], "jit.(BaseAssembler).release/drops-references", fd.Pos(), "pb, xrefs and labels dropped with the progs", "release() keeps references (pb/xrefs/labels) to instructions that were returned to the pool")
	}
}
