package rules

import (
	"go/ast"
	"go/build"
	"go/parser"
	"go/token"
	"os"
	"os/exec"
	"path/filepath"
	"strings"

	"verif/sa/core"
)

// S11: sonic's struct-field resolver is a copy of encoding/json's (typeFields and its helpers).
// The sibling is available: the standard library source of the toolchain that runs the analysis.
// Cross-check: the sequence of branch conditions and calls that encoding/json's function makes
// (function literals excluded) is a subsequence of the sequence in sonic's copy, i.e. sonic takes
// every decision encoding/json takes, in the same order. sonic may do more (omitzero on older
// toolchains, its own HTML escaper); the renames and the calls that have no counterpart are listed.

type stdPair struct {
	stdRecv, name string // function in GOROOT/src/encoding/json
	rel, recv     string // sonic package / receiver
}

var stdPairs = []stdPair{
	{"", "typeFields", "internal/resolver", ""},
	{"", "dominantField", "internal/resolver", ""},
	{"", "parseTag", "internal/resolver", ""},
	{"", "isValidTag", "internal/resolver", ""},
	{"tagOptions", "Contains", "internal/resolver", "tagOptions"},
	{"", "foldName", "internal/resolver", ""},
	{"", "appendFoldedName", "internal/resolver", ""},
	{"", "foldRune", "internal/resolver", ""},
}

// std event -> sonic event
var stdRename = map[string]string{
	"call appendHTMLEscape": "call alg.HtmlEscape", // sonic's escaper (same contract, decided under C04)
	"call slices.SortFunc":  "call sort.Slice",     // comparator closures are not compared
}

// std events with no counterpart in sonic (one line of reason each)
var stdIgnore = map[string]string{
	"call typeEncoder": "encoding/json caches a reflect encoder per field; sonic compiles programs instead",
	"call typeByIndex": "argument of typeEncoder",
}

func decisionEvents(body *ast.BlockStmt) []string {
	var out []string
	ast.Inspect(body, func(n ast.Node) bool {
		switch x := n.(type) {
		case *ast.FuncLit:
			return false
		case *ast.IfStmt:
			out = append(out, "if "+exprStr(x.Cond))
		case *ast.CallExpr:
			out = append(out, "call "+exprStr(x.Fun))
		case *ast.CaseClause:
			s := "case"
			for _, e := range x.List {
				s += " " + exprStr(e)
			}
			out = append(out, s)
		}
		return true
	})
	return out
}

func stdJSONFuncs() (map[string]*ast.FuncDecl, string, error) {
	root := build.Default.GOROOT
	if _, err := os.Stat(filepath.Join(root, "src", "encoding", "json")); err != nil {
		if out, err := exec.Command("go", "env", "GOROOT").Output(); err == nil {
			root = strings.TrimSpace(string(out))
		}
	}
	dir := filepath.Join(root, "src", "encoding", "json")
	fset := token.NewFileSet()
	pkgs, err := parser.ParseDir(fset, dir, func(fi os.FileInfo) bool { return !strings.HasSuffix(fi.Name(), "_test.go") }, 0)
	if err != nil {
		return nil, dir, err
	}
	out := map[string]*ast.FuncDecl{}
	for _, p := range pkgs {
		for _, f := range p.Files {
			for _, d := range f.Decls {
				if fd, ok := d.(*ast.FuncDecl); ok && fd.Body != nil {
					out[recvTypeName(fd)+"."+fd.Name.Name] = fd
				}
			}
		}
	}
	return out, dir, nil
}

func recvTypeName(fd *ast.FuncDecl) string {
	if fd.Recv == nil || len(fd.Recv.List) == 0 {
		return ""
	}
	t := fd.Recv.List[0].Type
	if s, ok := t.(*ast.StarExpr); ok {
		t = s.X
	}
	if id, ok := t.(*ast.Ident); ok {
		return id.Name
	}
	return ""
}

func init() {
	register(&core.Rule{ID: "S11", Min: 8,
		Doc: "Sibling cross-check against the standard library: for sonic's copies of encoding/json's field-resolution functions (typeFields, dominantField, parseTag, isValidTag, tagOptions.Contains, foldName, appendFoldedName, foldRune), the sequence of branch conditions and calls of the encoding/json function in the analysing toolchain's GOROOT is a subsequence of the sequence in sonic's function (function literals excluded; listed renames/ignores), so sonic's resolver takes every decision encoding/json takes, in the same order.",
		Run: runS11})
}

func runS11(c *core.Ctx) {
	std, dir, err := stdJSONFuncs()
	if err != nil || len(std) == 0 {
		c.Undecided("stdsib", token.NoPos, "cannot parse %s: %v", dir, err)
		return
	}
	for _, pr := range stdPairs {
		cn := "stdsib:" + pr.name
		pk := c.Prog.Pkg(pr.rel)
		fd := core.FuncDecl(pk, pr.recv, pr.name)
		if fd == nil || fd.Body == nil {
			c.Undecided(cn, token.NoPos, "sonic function %s.%s not found in %s", pr.recv, pr.name, pr.rel)
			continue
		}
		sd := std[pr.stdRecv+"."+pr.name]
		if sd == nil {
			c.Undecided(cn, fd.Pos(), "encoding/json has no function %s.%s in %s", pr.stdRecv, pr.name, dir)
			continue
		}
		c.Analysed(core.FuncName(pk, fd))
		a := decisionEvents(sd.Body)
		b := decisionEvents(fd.Body)
		j, n, missing := 0, 0, ""
		for _, ev := range a {
			if _, skip := stdIgnore[ev]; skip {
				continue
			}
			if r, ok := stdRename[ev]; ok {
				ev = r
			}
			n++
			k := j
			for k < len(b) && b[k] != ev {
				k++
			}
			if k == len(b) {
				if missing == "" {
					prev := "function entry"
					if j > 0 {
						prev = "`" + b[j-1] + "`"
					}
					missing = "`" + ev + "` (expected after " + prev + ")"
				}
				continue
			}
			j = k + 1
		}
		if missing != "" {
			c.Bad(cn, fd.Pos(), "sonic's %s does not take the decision %s that encoding/json's %s takes (GOROOT %s)", pr.name, missing, pr.name, build.Default.GOROOT)
		} else {
			c.OK(cn, fd.Pos(), "all %d decisions/calls of encoding/json's %s occur in order in sonic's copy (%d events)", n, pr.name, len(b))
		}
	}
}
