package rules

import (
	"go/ast"
	"go/build"
	"go/parser"
	"go/token"
	"os"
	"os/exec"
	"path/filepath"
	"regexp"
	"strings"

	"verif/sa/core"
)

// S11: sonic's struct-field resolver is a copy of encoding/json's (typeFields and its helpers).
// The sibling is available: the standard library source of the toolchain that runs the analysis.
// Cross-check: the sequence of branch conditions and calls that encoding/json's function makes
// (function literals excluded) is a subsequence of the sequence in sonic's copy, i.e. sonic takes
// every decision encoding/json takes, in the same order. sonic may do more (omitzero on older
// toolchains, its own HTML escaper); the renames and the calls that have no counterpart are listed.

type stdPair struct {
	stdRecv, name string // function in GOROOT/src/<stdPkg> (default encoding/json)
	rel, recv     string // sonic package / receiver
	stdPkg        string
	noCalls       bool   // compare branch conditions and loop headers only
	sonicName     string // name of sonic's copy when it differs
}

var stdPairs = []stdPair{
	{stdRecv: "", name: "typeFields", rel: "internal/resolver"},
	{stdRecv: "", name: "dominantField", rel: "internal/resolver"},
	{stdRecv: "", name: "parseTag", rel: "internal/resolver"},
	{stdRecv: "", name: "isValidTag", rel: "internal/resolver"},
	{stdRecv: "tagOptions", name: "Contains", rel: "internal/resolver", recv: "tagOptions"},
	{stdRecv: "", name: "foldName", rel: "internal/resolver"},
	{stdRecv: "", name: "appendFoldedName", rel: "internal/resolver"},
	{stdRecv: "", name: "foldRune", rel: "internal/resolver"},
	// the heap-sort fallback of the map-key sorter is sort.heapSort / sort.siftDown over []_MapPair
	{name: "heapSort", rel: "internal/encoder/alg", stdPkg: "sort", noCalls: true},
	{name: "siftDown", rel: "internal/encoder/alg", stdPkg: "sort", noCalls: true},
	// the json.Number grammar check used by both encoder executors is encoding/json.isValidNumber
	{name: "isValidNumber", sonicName: "IsValidNumber", rel: "internal/encoder/alg", noCalls: true},
}

// textual rewrites applied to the standard library's events before comparing (sort.Interface
// calls become direct comparisons of the key field in sonic's copy)
var stdRewrites = []struct{ re, to string }{
	{`!data\.Less\(([^,()]+), ([^,()]+)\)`, "kvs[$1].k >= kvs[$2].k"},
	{`data\.Less\(([^,()]+), ([^,()]+)\)`, "kvs[$1].k < kvs[$2].k"},
}

// std event -> sonic event
var stdRename = map[string]string{
	"call appendHTMLEscape": "call alg.HtmlEscape", // sonic's escaper (same contract, decided under C04)
	"call slices.SortFunc":  "call sort.Slice",     // comparator closures are not compared
}

// std events with no counterpart in sonic (one line of reason each)
var stdIgnore = map[string]string{
	"call typeEncoder": "encoding/json caches a reflect encoder per field; sonic compiles programs instead",
	"call typeByIndex": "argument of typeEncoder",
}

func stmtStr(s ast.Stmt) string {
	switch x := s.(type) {
	case nil:
		return ""
	case *ast.AssignStmt:
		var l, r []string
		for _, e := range x.Lhs {
			l = append(l, exprStr(e))
		}
		for _, e := range x.Rhs {
			r = append(r, exprStr(e))
		}
		return strings.Join(l, ", ") + " " + x.Tok.String() + " " + strings.Join(r, ", ")
	case *ast.IncDecStmt:
		return exprStr(x.X) + x.Tok.String()
	case *ast.ExprStmt:
		return exprStr(x.X)
	}
	return "?"
}

func decisionEvents(body *ast.BlockStmt, calls bool) []string {
	var out []string
	ast.Inspect(body, func(n ast.Node) bool {
		switch x := n.(type) {
		case *ast.FuncLit:
			return false
		case *ast.IfStmt:
			out = append(out, "if "+exprStr(x.Cond))
		case *ast.ForStmt:
			if !calls {
				c := ""
				if x.Cond != nil {
					c = exprStr(x.Cond)
				}
				out = append(out, "for "+stmtStr(x.Init)+"; "+c+"; "+stmtStr(x.Post))
			}
		case *ast.CallExpr:
			if !calls {
				return true
			}
			out = append(out, "call "+exprStr(x.Fun))
		case *ast.CaseClause:
			s := "case"
			for _, e := range x.List {
				s += " " + exprStr(e)
			}
			out = append(out, s)
		}
		return true
	})
	return out
}

func stdFuncs(pkg string) (map[string]*ast.FuncDecl, string, error) {
	root := build.Default.GOROOT
	if _, err := os.Stat(filepath.Join(root, "src", "encoding", "json")); err != nil {
		if out, err := exec.Command("go", "env", "GOROOT").Output(); err == nil {
			root = strings.TrimSpace(string(out))
		}
	}
	dir := filepath.Join(root, "src", filepath.FromSlash(pkg))
	fset := token.NewFileSet()
	pkgs, err := parser.ParseDir(fset, dir, func(fi os.FileInfo) bool { return !strings.HasSuffix(fi.Name(), "_test.go") }, 0)
	if err != nil {
		return nil, dir, err
	}
	out := map[string]*ast.FuncDecl{}
	for _, p := range pkgs {
		for _, f := range p.Files {
			for _, d := range f.Decls {
				if fd, ok := d.(*ast.FuncDecl); ok && fd.Body != nil {
					out[recvTypeName(fd)+"."+fd.Name.Name] = fd
				}
			}
		}
	}
	return out, dir, nil
}

func recvTypeName(fd *ast.FuncDecl) string {
	if fd.Recv == nil || len(fd.Recv.List) == 0 {
		return ""
	}
	t := fd.Recv.List[0].Type
	if s, ok := t.(*ast.StarExpr); ok {
		t = s.X
	}
	if id, ok := t.(*ast.Ident); ok {
		return id.Name
	}
	return ""
}

func init() {
	register(&core.Rule{ID: "S11h", Min: 2, Arm64: true,
		Doc: "The sorter rows of S11 alone: the heap-sort fallback of the map-key sorter (alg.heapSort, alg.siftDown) takes every comparison and loop decision of sort.heapSort / sort.siftDown of the analysing toolchain's GOROOT, in the same order (with `data.Less(a, b)` read as `kvs[a].k < kvs[b].k`): SortMapKeys then yields byte order also for the partitions that exhaust the radix sort's depth budget.",
		Run: func(c *core.Ctx) {
			runS11f(c, func(cn string) bool { return strings.Contains(cn, "heapSort") || strings.Contains(cn, "siftDown") })
		}})
	register(&core.Rule{ID: "S11", Min: 11,
		Doc: "Sibling cross-check against the standard library: for sonic's copies of encoding/json's field-resolution functions (typeFields, dominantField, parseTag, isValidTag, tagOptions.Contains, foldName, appendFoldedName, foldRune), the sequence of branch conditions and calls of the encoding/json function in the analysing toolchain's GOROOT is a subsequence of the sequence in sonic's function (function literals excluded; listed renames/ignores), so sonic's resolver takes every decision encoding/json takes, in the same order; likewise the heap-sort fallback of the map-key sorter (alg.heapSort, alg.siftDown) against sort.heapSort / sort.siftDown, comparing branch conditions and loop headers; and alg.IsValidNumber against encoding/json.isValidNumber.",
		Run: runS11})
}

func runS11(c0 *core.Ctx) { runS11f(c0, nil) }

func runS11f(c0 *core.Ctx, keep func(string) bool) {
	c := &filtCtx{c0, keep}
	stdCache := map[string]map[string]*ast.FuncDecl{}
	var res []*regexp.Regexp
	for _, rw := range stdRewrites {
		res = append(res, regexp.MustCompile(rw.re))
	}
	for _, pr := range stdPairs {
		if pr.stdPkg == "" {
			pr.stdPkg = "encoding/json"
		}
		std, ok := stdCache[pr.stdPkg]
		dir := pr.stdPkg
		if !ok {
			var err error
			std, dir, err = stdFuncs(pr.stdPkg)
			if err != nil || len(std) == 0 {
				c.Undecided("stdsib:"+pr.name, token.NoPos, "cannot parse %s: %v", dir, err)
				continue
			}
			stdCache[pr.stdPkg] = std
		}
		cn := "stdsib:" + pr.name
		pk := c.Prog.Pkg(pr.rel)
		sname := pr.name
		if pr.sonicName != "" {
			sname = pr.sonicName
		}
		fd := core.FuncDecl(pk, pr.recv, sname)
		if fd == nil || fd.Body == nil {
			c.Undecided(cn, token.NoPos, "sonic function %s.%s not found in %s", pr.recv, pr.name, pr.rel)
			continue
		}
		sd := std[pr.stdRecv+"."+pr.name]
		if sd == nil {
			c.Undecided(cn, fd.Pos(), "%s has no function %s.%s", pr.stdPkg, pr.stdRecv, pr.name)
			continue
		}
		c.Analysed(core.FuncName(pk, fd))
		a := decisionEvents(sd.Body, !pr.noCalls)
		b := decisionEvents(fd.Body, !pr.noCalls)
		for k := range a {
			for ri, re := range res {
				a[k] = re.ReplaceAllString(a[k], stdRewrites[ri].to)
			}
		}
		j, n, missing := 0, 0, ""
		for _, ev := range a {
			if _, skip := stdIgnore[ev]; skip {
				continue
			}
			if r, ok := stdRename[ev]; ok {
				ev = r
			}
			n++
			k := j
			for k < len(b) && b[k] != ev {
				k++
			}
			if k == len(b) {
				if missing == "" {
					prev := "function entry"
					if j > 0 {
						prev = "`" + b[j-1] + "`"
					}
					missing = "`" + ev + "` (expected after " + prev + ")"
				}
				continue
			}
			j = k + 1
		}
		if missing != "" {
			c.Bad(cn, fd.Pos(), "sonic's %s does not take the decision %s that %s.%s takes (GOROOT %s)", pr.name, missing, pr.stdPkg, pr.name, build.Default.GOROOT)
		} else {
			c.OK(cn, fd.Pos(), "all %d decisions of %s.%s occur in order in sonic's copy (%d events)", n, pr.stdPkg, pr.name, len(b))
		}
	}
}
