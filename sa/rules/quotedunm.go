package rules

import (
	"go/ast"
	"go/token"

	"verif/sa/core"
)

// U6: what a `,string` json.Unmarshaler field is given. encoding/json unquotes the string
// literal and calls UnmarshalJSON with what it denotes. Both decoders have a dedicated entry
// for this case; each must unescape (not merely strip the quotes).

func init() {
	register(&core.Rule{ID: "U6", Min: 2,
		Doc: "Quoted json.Unmarshaler fields receive the denoted text in both decoders: jitdec.decodeJsonUnmarshalerQuoted calls a routine of package unquote before UnmarshalJSON (stripping the outer quotes alone leaves the escapes in); optdec.(*unmarshalJSONDecoder).FromDom fills the input of its strOpt branch from an unescaping accessor (AsStringText / AsStr), not from AsRaw.",
		Run: runU6})
}

func runU6(c *core.Ctx) {
	p := c.Prog
	if jd := p.Pkg("internal/decoder/jitdec"); jd != nil {
		fd := core.FuncDecl(jd, "", "decodeJsonUnmarshalerQuoted")
		cn := "internal/decoder/jitdec.decodeJsonUnmarshalerQuoted/unescapes"
		if fd == nil || fd.Body == nil {
			c.Undecided(cn, token.NoPos, "not found")
		} else {
			c.Analysed(core.FuncName(jd, fd))
			var unq, um token.Pos
			ast.Inspect(fd.Body, func(n ast.Node) bool {
				call, ok := n.(*ast.CallExpr)
				if !ok {
					return true
				}
				if o := p.Callee(call); o != nil && o.Pkg() != nil && core.Rel(o.Pkg().Path()) == "unquote" && unq == token.NoPos {
					unq = call.Pos()
				}
				if se, ok := call.Fun.(*ast.SelectorExpr); ok && se.Sel.Name == "UnmarshalJSON" {
					um = call.Pos()
				}
				return true
			})
			switch {
			case um == token.NoPos:
				c.Undecided(cn, fd.Pos(), "no call of UnmarshalJSON")
			case unq != token.NoPos && unq < um:
				c.OK(cn, um, "the literal is unquoted before UnmarshalJSON")
			default:
				c.Bad(cn, um, "UnmarshalJSON is handed the text between the outer quotes with its escape sequences intact: `{\"n\":\"\\\\\"bob\\\\\"\"}` (what encoding/json writes for such a field) fails, `\"a\\\\/b\"` arrives as a\\\\/b; encoding/json unquotes first")
			}
		}
	} else if p.GOARCH == "amd64" {
		c.Undecided("internal/decoder/jitdec", token.NoPos, "package not loaded")
	}
	od := p.Pkg("internal/decoder/optdec")
	fd := core.FuncDecl(od, "unmarshalJSONDecoder", "FromDom")
	cn := "internal/decoder/optdec.(unmarshalJSONDecoder).FromDom/unescapes"
	if fd == nil || fd.Body == nil {
		c.Undecided(cn, token.NoPos, "not found")
		return
	}
	c.Analysed(core.FuncName(od, fd))
	verdict := ""
	var at token.Pos
	ast.Inspect(fd.Body, func(n ast.Node) bool {
		is, ok := n.(*ast.IfStmt)
		if !ok {
			return true
		}
		if exprStr(is.Cond) == "d.strOpt" {
			at = is.Pos()
			verdict = "none"
			ast.Inspect(is.Body, func(x ast.Node) bool {
				if call, ok := x.(*ast.CallExpr); ok {
					if se, ok := call.Fun.(*ast.SelectorExpr); ok {
						switch se.Sel.Name {
						case "AsStringText", "AsStr":
							verdict = "ok"
						case "AsRaw", "Raw":
							if verdict != "ok" {
								verdict = "raw"
							}
						}
					}
				}
				return true
			})
		}
		return true
	})
	switch verdict {
	case "ok":
		c.OK(cn, at, "the strOpt branch reads the unescaped string")
	case "":
		c.Undecided(cn, fd.Pos(), "strOpt branch not found")
	default:
		c.Bad(cn, at, "the strOpt branch does not read the string through an unescaping accessor: the Unmarshaler receives escaped text")
	}
}
