package rules

import (
	"go/ast"
	"go/token"
	"go/types"
	"sort"
	"strings"

	"golang.org/x/tools/go/cfg"

	"verif/sa/core"
)

// cfgPaths enumerates paths of a go/cfg graph from entry to exits; each block is
// entered at most maxVisit times per path. ok=false if more than maxPaths paths.
func cfgPaths(g *cfg.CFG, maxVisit, maxPaths int) (paths [][]ast.Node, ok bool) {
	if len(g.Blocks) == 0 {
		return nil, true
	}
	ok = true
	visits := map[*cfg.Block]int{}
	var cur []ast.Node
	var dfs func(b *cfg.Block)
	dfs = func(b *cfg.Block) {
		if !ok {
			return
		}
		if visits[b] >= maxVisit {
			return
		}
		visits[b]++
		n := len(cur)
		cur = append(cur, b.Nodes...)
		if len(b.Succs) == 0 {
			if len(paths) >= maxPaths {
				ok = false
			} else {
				paths = append(paths, append([]ast.Node(nil), cur...))
			}
		}
		for _, s := range b.Succs {
			dfs(s)
		}
		cur = cur[:n]
		visits[b]--
	}
	dfs(g.Blocks[0])
	return
}

// ---------------------------------------------------------------------------
// pool typestate (O1/O2)

type poolFn struct {
	rel, name string
	kind      string // "slice" (token lives at *x) | "buffer" (bytes.Buffer: token at *x) | "object" (token at x) | "rawslice" (put takes []byte)
}

var poolGets = []poolFn{
	{"internal/encoder/vars", "NewBytes", "slice"},
	{"internal/encoder/vars", "NewBuffer", "buffer"},
	{"internal/encoder/vars", "NewStack", "object"},
	{"internal/native/types", "NewStateMachine", "object"},
	{"internal/native/types", "NewDbuf", "object"},
	{"internal/decoder/jitdec", "newStack", "object"},
	{"ast", "newBuffer", "slice"},
}
var poolPuts = []poolFn{
	{"internal/encoder/vars", "FreeBytes", "slice"},
	{"internal/encoder/vars", "FreeBuffer", "buffer"},
	{"internal/encoder/vars", "FreeStack", "object"},
	{"internal/native/types", "FreeStateMachine", "object"},
	{"internal/native/types", "FreeDbuf", "object"},
	{"internal/decoder/jitdec", "freeStack", "object"},
	{"ast", "freeBuffer", "slice"},
	{"internal/decoder/api", "freeBytes", "rawslice"},
}

// calls whose result aliases their first argument's backing array
var aliasArg0 = map[string]bool{
	"append": true, "HTMLEscape": true, "HtmlEscape": true, "CorrectWith": true, "Quote": true,
	"Mem2Str": true, "Str2Mem": true, "EncodeBase64": true,
}

func init() {
	register(&core.Rule{ID: "O1", Min: 15,
		Doc: "Pool typestate (use-after-put / double put): on every go/cfg path of every function that returns an object to a pool (vars.FreeBytes/FreeBuffer/FreeStack, types.FreeStateMachine/FreeDbuf, jitdec.freeStack, ast.freeBuffer, api.freeBytes), the object and every value aliasing its backing array are dead after the put: not read, not put again.",
		Run: func(c *core.Ctx) { runOwn(c, "O1") }})
	register(&core.Rule{ID: "O2", Min: 15,
		Doc: "Pool typestate (no escape of pooled memory): on every path on which a buffer is put back, nothing the function returns, and nothing it leaves behind a *[]byte parameter, aliases the backing array that was put (copy-out via a fresh make/dirtmake + copy, or a swap that parks the caller-visible bytes in the buffer that is kept).",
		Run: func(c *core.Ctx) { runOwn(c, "O2") }})
	// the string routines of C20 (Quote, HTMLEscape, the utf8 and unquote packages): the same two
	// typestate rules, restricted to functions of those routines
	c20 := func(cn string) bool {
		for _, pre := range []string{"internal/encoder.Quote", "internal/encoder.HTMLEscape", "internal/encoder/alg.Quote", "internal/encoder/alg.HtmlEscape", "utf8.", "unquote.", "encoder.Quote", "encoder.HTMLEscape"} {
			if strings.HasPrefix(cn, pre) {
				return true
			}
		}
		return false
	}
	register(&core.Rule{ID: "O1s", Min: 1,
		Doc: "O1 restricted to the string routines (encoder.Quote, encoder.HTMLEscape, alg.Quote, alg.HtmlEscape, packages utf8 and unquote): no use of a pooled buffer after it was put back.",
		Run: func(c *core.Ctx) { c.Keep = c20; runOwn(c, "O1"); c.Keep = nil }})
	register(&core.Rule{ID: "O2s", Min: 1,
		Doc: "O2 restricted to the string routines: what Quote / HTMLEscape / the utf8 and unquote routines return never aliases a buffer they put back into a pool (a later encoder call reusing the buffer would rewrite the literal the caller holds, which then no longer decodes to the input).",
		Run: func(c *core.Ctx) { c.Keep = c20; runOwn(c, "O2"); c.Keep = nil }})
}

type tokSet map[int]bool

func (a tokSet) union(b tokSet) tokSet {
	out := tokSet{}
	for k := range a {
		out[k] = true
	}
	for k := range b {
		out[k] = true
	}
	return out
}

func (a tokSet) meets(b tokSet) bool {
	for k := range a {
		if b[k] {
			return true
		}
	}
	return false
}

type ownState struct {
	p       *core.Program
	recv    types.Object                  // the method's receiver (fields of it outlive the call)
	summ    map[types.Object]map[int]bool // functions that put the backing array of their i-th (pointer) argument
	frees   map[int]bool                  // out: indexes of this function's params whose caller-owned array was put
	params  []types.Object
	export  bool
	defers  []deferredPut     // pool puts registered with defer (arguments evaluated at the defer statement)
	places  map[string]tokSet // "v:<objptr>" or "*v:<objptr>"
	freed   tokSet
	freedAt map[int]token.Pos
	next    int
	viol    []ownViol
	names   map[int]string
}

type deferredPut struct {
	obj types.Object // the *[]byte / buffer variable, when the argument is a plain identifier
	toks tokSet
	pos  token.Pos
	arg  string
}

type ownViol struct {
	rule string
	pos  token.Pos
	msg  string
}

func placeKey(o types.Object, deref bool) string {
	k := o.Name() + "@" + itoa(int(o.Pos()))
	if deref {
		return "*" + k
	}
	return k
}

func (s *ownState) fresh(name string) tokSet {
	s.next++
	s.names[s.next] = name
	return tokSet{s.next: true}
}

func poolFnOf(p *core.Program, call *ast.CallExpr, table []poolFn) *poolFn {
	o := p.Callee(call)
	if o == nil || o.Pkg() == nil {
		return nil
	}
	rel := core.Rel(o.Pkg().Path())
	for i := range table {
		if table[i].rel == rel && table[i].name == o.Name() {
			return &table[i]
		}
	}
	return nil
}

// eval returns the tokens an expression may alias. read=true reports O1 on freed tokens.
func (s *ownState) eval(e ast.Expr, read bool) tokSet {
	e = ast.Unparen(e)
	out := tokSet{}
	switch x := e.(type) {
	case *ast.Ident:
		if o := s.p.ObjectOf(x); o != nil {
			out = s.places[placeKey(o, false)]
		}
	case *ast.StarExpr:
		if id, ok := ast.Unparen(x.X).(*ast.Ident); ok {
			if o := s.p.ObjectOf(id); o != nil {
				out = s.places[placeKey(o, true)]
			}
		}
	case *ast.SelectorExpr:
		// a slice-typed field of the receiver: it outlives the call
		if k, ok := s.recvField(x); ok {
			if _, seen := s.places[k]; !seen {
				s.places[k] = s.fresh("the receiver's field " + x.Sel.Name)
			}
			out = s.places[k]
		}
	case *ast.SliceExpr:
		out = s.eval(x.X, read)
	case *ast.IndexExpr:
		s.eval(x.X, read)
		return tokSet{}
	case *ast.UnaryExpr:
		if x.Op == token.AND {
			// &(*buf)[0] etc.
			return s.eval(x.X, read)
		}
	case *ast.CallExpr:
		// conversions
		if tv := s.p.TypeOf(x.Fun); tv != nil {
			if _, isSig := tv.Underlying().(*types.Signature); !isSig && len(x.Args) == 1 {
				at := s.p.TypeOf(x.Args[0])
				inner := s.eval(x.Args[0], read)
				// string<->[]byte conversions allocate; pointer casts alias
				if at != nil {
					_, aStr := at.Underlying().(*types.Basic)
					_, tStr := tv.Underlying().(*types.Basic)
					_, aSl := at.Underlying().(*types.Slice)
					_, tSl := tv.Underlying().(*types.Slice)
					if (aStr && tSl) || (aSl && tStr) {
						return s.fresh("conversion")
					}
				}
				return inner
			}
		}
		name := ""
		if o := s.p.Callee(x); o != nil {
			name = o.Name()
		} else if id, ok := x.Fun.(*ast.Ident); ok {
			name = id.Name
		}
		for _, a := range x.Args {
			s.eval(a, read)
		}
		switch {
		case name == "make" || name == "Bytes" && isPkgCall(s.p, x, "internal/dirtmake"):
			return s.fresh("make")
		case name == "Bytes": // (*bytes.Buffer).Bytes()
			if se, ok := x.Fun.(*ast.SelectorExpr); ok {
				if id, ok := ast.Unparen(se.X).(*ast.Ident); ok {
					if o := s.p.ObjectOf(id); o != nil {
						return s.places[placeKey(o, true)]
					}
				}
			}
		case aliasArg0[name] && len(x.Args) > 0:
			return s.eval(x.Args[0], false)
		}
		return tokSet{}
	}
	if read && out.meets(s.freed) {
		for t := range out {
			if s.freed[t] {
				s.viol = append(s.viol, ownViol{"O1", e.Pos(), "`" + exprStr(e) + "` is used after its pooled buffer (" + s.names[t] + ") was returned to the pool at " + s.p.Pos(s.freedAt[t])})
				break
			}
		}
	}
	if out == nil {
		out = tokSet{}
	}
	return out
}

func isPkgCall(p *core.Program, call *ast.CallExpr, rel string) bool {
	o := p.Callee(call)
	return o != nil && o.Pkg() != nil && core.Rel(o.Pkg().Path()) == rel
}

func (s *ownState) assign(lhs ast.Expr, toks tokSet) {
	lhs = ast.Unparen(lhs)
	switch x := lhs.(type) {
	case *ast.Ident:
		if x.Name == "_" {
			return
		}
		if o := s.p.ObjectOf(x); o != nil {
			s.places[placeKey(o, false)] = toks
		}
	case *ast.StarExpr:
		if id, ok := ast.Unparen(x.X).(*ast.Ident); ok {
			if o := s.p.ObjectOf(id); o != nil {
				s.places[placeKey(o, true)] = toks
			}
		}
	case *ast.SelectorExpr:
		if k, ok := s.recvField(x); ok {
			s.places[k] = toks
		}
	}
}

// recvField recognises `recv.f` where recv is the method's receiver and f a slice-typed field.
func (s *ownState) recvField(x *ast.SelectorExpr) (string, bool) {
	id, ok := ast.Unparen(x.X).(*ast.Ident)
	if !ok || s.recv == nil || s.p.ObjectOf(id) != s.recv {
		return "", false
	}
	if t := s.p.TypeOf(x); t != nil {
		if _, isSl := t.Underlying().(*types.Slice); isSl {
			return "field:" + x.Sel.Name, true
		}
	}
	return "", false
}

// step interprets one CFG node.
func (s *ownState) step(n ast.Node, fd *ast.FuncDecl, ptrParams []types.Object) {
	switch x := n.(type) {
	case *ast.AssignStmt:
		// getter?
		if len(x.Rhs) == 1 {
			if call, ok := ast.Unparen(x.Rhs[0]).(*ast.CallExpr); ok {
				if g := poolFnOf(s.p, call, poolGets); g != nil && len(x.Lhs) == 1 {
					if id, ok := x.Lhs[0].(*ast.Ident); ok {
						if o := s.p.ObjectOf(id); o != nil {
							t := s.fresh("pooled " + g.name + " -> " + id.Name)
							if g.kind == "object" {
								s.places[placeKey(o, false)] = t
							} else {
								s.places[placeKey(o, true)] = t
							}
							return
						}
					}
				}
				// type assertion of pool.Get() handled as unknown
			}
		}
		var vals []tokSet
		if len(x.Rhs) == len(x.Lhs) {
			for _, r := range x.Rhs {
				vals = append(vals, s.eval(r, true))
			}
			for i, l := range x.Lhs {
				s.assign(l, vals[i])
			}
		} else {
			for _, r := range x.Rhs {
				s.eval(r, true)
			}
			for _, l := range x.Lhs {
				s.assign(l, tokSet{})
			}
		}
	case *ast.DeclStmt:
		if gd, ok := x.Decl.(*ast.GenDecl); ok {
			for _, sp := range gd.Specs {
				if vs, ok := sp.(*ast.ValueSpec); ok {
					for i, nm := range vs.Names {
						if i < len(vs.Values) {
							s.assign(nm, s.eval(vs.Values[i], true))
						}
					}
				}
			}
		}
	case *ast.ExprStmt:
		if call, ok := x.X.(*ast.CallExpr); ok {
			if pf := poolFnOf(s.p, call, poolPuts); pf != nil && len(call.Args) == 1 {
				var toks tokSet
				arg := ast.Unparen(call.Args[0])
				if id, ok := arg.(*ast.Ident); ok && (pf.kind == "slice" || pf.kind == "buffer") {
					if o := s.p.ObjectOf(id); o != nil {
						toks = s.places[placeKey(o, true)]
					}
				} else {
					toks = s.eval(arg, false)
				}
				for t := range toks {
					if s.freed[t] {
						s.viol = append(s.viol, ownViol{"O1", call.Pos(), "`" + exprStr(arg) + "` (" + s.names[t] + ") is put back twice (first at " + s.p.Pos(s.freedAt[t]) + ")"})
					}
					s.freed[t] = true
					s.freedAt[t] = call.Pos()
					s.callerPut(t, call.Pos(), "")
				}
				return
			}
			// a callee that puts the backing array of one of its pointer arguments
			if o := s.p.Callee(call); o != nil && s.summ[o] != nil {
				for ai, a := range call.Args {
					if !s.summ[o][ai] {
						continue
					}
					if id, ok := ast.Unparen(a).(*ast.Ident); ok {
						if po := s.p.ObjectOf(id); po != nil {
							for t := range s.places[placeKey(po, true)] {
								s.callerPut(t, call.Pos(), o.Name())
							}
						}
					}
				}
			}
		}
		s.eval(x.X, true)
	case *ast.ReturnStmt:
		for _, r := range x.Results {
			toks := s.eval(r, true)
			for t := range toks {
				if s.freed[t] {
					s.viol = append(s.viol, ownViol{"O2", r.Pos(), "returned value `" + exprStr(r) + "` aliases " + s.names[t] + ", which was returned to the pool at " + s.p.Pos(s.freedAt[t]) + ": a later call reusing the pooled buffer overwrites bytes the caller owns"})
					continue
				}
				// results are evaluated first, then the deferred puts run: what the pointer
				// variable refers to *now* is what goes back into the pool
				for _, d := range s.defers {
					hit := d.toks[t]
					if d.obj != nil && s.places[placeKey(d.obj, true)][t] {
						hit = true
					}
					if hit {
						s.viol = append(s.viol, ownViol{"O2", r.Pos(), "returned value `" + exprStr(r) + "` aliases " + s.names[t] + ", which the deferred put of `" + d.arg + "` at " + s.p.Pos(d.pos) + " returns to the pool when this function exits: a later call reusing the pooled buffer overwrites bytes the caller owns"})
						break
					}
				}
			}
		}
		s.exit(x.Pos(), ptrParams)
	case ast.Expr:
		s.eval(x, true)
	case *ast.DeferStmt:
		if pf := poolFnOf(s.p, x.Call, poolPuts); pf != nil && len(x.Call.Args) == 1 {
			var toks tokSet
			arg := ast.Unparen(x.Call.Args[0])
			if id, ok := arg.(*ast.Ident); ok && (pf.kind == "slice" || pf.kind == "buffer") {
				if o := s.p.ObjectOf(id); o != nil {
					toks = s.places[placeKey(o, true)]
				}
			} else {
				toks = s.eval(arg, false)
			}
			cp := tokSet{}
			for t := range toks {
				cp[t] = true
			}
			var dobj types.Object
			if id, ok := arg.(*ast.Ident); ok && (pf.kind == "slice" || pf.kind == "buffer") {
				dobj = s.p.ObjectOf(id)
			}
			s.defers = append(s.defers, deferredPut{obj: dobj, toks: cp, pos: x.Pos(), arg: exprStr(arg)})
		}
	case *ast.IncDecStmt, *ast.GoStmt, *ast.SendStmt:
	}
}

// callerPut notes that a token standing for a caller-owned array went into a pool.
func (s *ownState) callerPut(t int, pos token.Pos, via string) {
	nm := s.names[t]
	if !strings.HasPrefix(nm, "the caller's *") {
		return
	}
	pn := strings.TrimPrefix(nm, "the caller's *")
	for i, po := range s.params {
		if po != nil && po.Name() == pn {
			if s.frees == nil {
				s.frees = map[int]bool{}
			}
			s.frees[i] = true
		}
	}
	if s.export {
		how := "is put into the buffer pool"
		if via != "" {
			how = "is handed to " + via + ", which puts it into the buffer pool"
		}
		s.viol = append(s.viol, ownViol{"O2", pos, "the backing array behind the caller's `*" + pn + "` " + how + ": a later, unrelated encode on any goroutine may be given this array and overwrite memory the caller still owns"})
	}
}

func (s *ownState) exit(pos token.Pos, ptrParams []types.Object) {
	// deferred puts run now
	for i := len(s.defers) - 1; i >= 0; i-- {
		d := s.defers[i]
		for t := range d.toks {
			if s.freed[t] {
				s.viol = append(s.viol, ownViol{"O1", d.pos, "the deferred put of `" + d.arg + "` (" + s.names[t] + ") runs on a path that already put the same buffer back at " + s.p.Pos(s.freedAt[t]) + ": the pool then holds it twice and two later users share one buffer"})
			}
			s.freed[t] = true
			s.freedAt[t] = d.pos
		}
	}
	s.defers = nil
	var fks []string
	for k := range s.places {
		if strings.HasPrefix(k, "field:") {
			fks = append(fks, k)
		}
	}
	sort.Strings(fks)
	for _, k := range fks {
		for t := range s.places[k] {
			if s.freed[t] {
				s.viol = append(s.viol, ownViol{"O2", pos, "on return the receiver's field `" + strings.TrimPrefix(k, "field:") + "` still aliases " + s.names[t] + ", which was returned to the pool at " + s.p.Pos(s.freedAt[t]) + ": the object keeps using a buffer another user of the pool may be handed"})
			}
		}
	}
	for _, pp := range ptrParams {
		for t := range s.places[placeKey(pp, true)] {
			if s.freed[t] {
				s.viol = append(s.viol, ownViol{"O2", pos, "on return `*" + pp.Name() + "` (visible to the caller) aliases " + s.names[t] + ", which was returned to the pool at " + s.p.Pos(s.freedAt[t]) + ": two owners of one backing array"})
			}
		}
	}
}

type ownResult struct {
	fn    string
	pos   token.Pos
	paths int
	viols []ownViol
	undec string
}

func analyseOwn(p *core.Program) []ownResult {
	if v, ok := p.Cache["own"]; ok {
		return v.([]ownResult)
	}
	var out []ownResult
	summ := map[types.Object]map[int]bool{}
	for round := 0; round < 3; round++ {
		out = nil
		changed := false
		for _, pk := range p.Pkgs {
			for _, fd := range core.FuncDecls(pk) {
				if fd.Body == nil || strings.HasSuffix(p.Fset.Position(fd.Pos()).Filename, "_test.go") {
					continue
				}
				puts := false
				ast.Inspect(fd.Body, func(n ast.Node) bool {
					if call, ok := n.(*ast.CallExpr); ok {
						if poolFnOf(p, call, poolPuts) != nil {
							puts = true
						} else if o := p.Callee(call); o != nil && summ[o] != nil {
							puts = true
						}
					}
					return !puts
				})
				if !puts {
					continue
				}
				// the put functions themselves are not clients
				isPutDef := false
				for _, pf := range poolPuts {
					if pf.rel == core.Rel(pk.PkgPath) && pf.name == fd.Name.Name && fd.Recv == nil {
						isPutDef = true
					}
				}
				if isPutDef {
					continue
				}
				res := ownResult{fn: core.FuncName(pk, fd), pos: fd.Pos()}
				g := funcCFG(p, fd.Body)
				paths, ok := cfgPaths(g, 2, 20000)
				if !ok {
					res.undec = "too many paths"
					out = append(out, res)
					continue
				}
				res.paths = len(paths)
				var ptrParams []types.Object
				var allParams []types.Object
				for _, f := range fd.Type.Params.List {
					_, isPtr := p.TypeOf(f.Type).(*types.Pointer)
					for _, nm := range f.Names {
						allParams = append(allParams, p.ObjectOf(nm))
						if isPtr {
							ptrParams = append(ptrParams, p.ObjectOf(nm))
						}
					}
				}
				fobj := p.ObjectOf(fd.Name)
				exported := fd.Name.IsExported()
				seen := map[string]bool{}
				for _, pt := range paths {
					st := &ownState{p: p, recv: recvObj(p, fd), summ: summ, params: allParams, export: exported, places: map[string]tokSet{}, freed: tokSet{}, freedAt: map[int]token.Pos{}, names: map[int]string{}}
					for _, pp := range ptrParams {
						st.places[placeKey(pp, true)] = st.fresh("the caller's *" + pp.Name())
					}
					endsInReturn := false
					for _, n := range pt {
						st.step(n, fd, ptrParams)
						_, endsInReturn = n.(*ast.ReturnStmt)
					}
					if !endsInReturn {
						st.exit(fd.End(), ptrParams)
					}
					for i := range st.frees {
						if fobj != nil && !exported {
							if summ[fobj] == nil {
								summ[fobj] = map[int]bool{}
							}
							if !summ[fobj][i] {
								summ[fobj][i] = true
								changed = true
							}
						}
					}
					for _, v := range st.viol {
						k := v.rule + "|" + p.Pos(v.pos) + "|" + v.msg
						if !seen[k] {
							seen[k] = true
							res.viols = append(res.viols, v)
						}
					}
				}
				out = append(out, res)
			}
		}
		if !changed {
			break
		}
	}
	sort.Slice(out, func(i, j int) bool { return out[i].fn < out[j].fn })
	if p.Cache == nil {
		p.Cache = map[string]interface{}{}
	}
	p.Cache["own"] = out
	return out
}

func runOwn(c *core.Ctx, rule string) {
	for _, r := range analyseOwn(c.Prog) {
		cn := r.fn + "/" + strings.ToLower(rule)
		c.Analysed(r.fn)
		if r.undec != "" {
			c.Undecided(cn, r.pos, "%s", r.undec)
			continue
		}
		bad := false
		for _, v := range r.viols {
			if v.rule == rule {
				bad = true
				c.Bad(cn, v.pos, "%s", v.msg)
				break
			}
		}
		if !bad {
			if rule == "O1" {
				c.OK(cn, r.pos, "%d paths: nothing is used or put again after a put", r.paths)
			} else {
				c.OK(cn, r.pos, "%d paths: nothing returned or left behind a pointer parameter aliases a buffer that was put", r.paths)
			}
		}
	}
}
