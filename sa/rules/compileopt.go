package rules

import (
	"go/ast"
	"go/token"
	"go/types"
	"strings"

	"verif/sa/core"
)

// R10: compile options and the type-keyed program cache. Programs are cached by type alone,
// types met first at run time are compiled with the default options, and Pretouch skips types
// that are already cached. A compile option may therefore only decide *where* the program of
// a nested type lives (inlined or behind a recurse op) - never what it emits: an option that
// changes the emitted code is applied to whatever that one Pretouch call happened to compile
// and the result of a later Marshal depends on depth limits and on what ran before.

// structuralCompileOptions lists the option fields that only move the inline/recurse boundary.
var structuralCompileOptions = map[string]string{
	"MaxInlineDepth": "compared with the nesting depth to choose between compiling the struct body in place and emitting a recurse op; both forms run the same per-type program (S-rules of C09/C12)",
	"RecursiveDepth": "counts Pretouch rounds / decides whether a recursed type is queued for ahead-of-time compilation; never reaches an emitted instruction",
}

func init() {
	register(&core.Rule{ID: "R10", Min: 6, Arm64: true,
		Doc: "Compile options reaching emitted code: every field read `x.F` with x of type option.CompileOptions in the non-test code of internal/encoder, internal/decoder/jitdec and internal/decoder/optdec (resolved through the type checker) names a field of the structural table {MaxInlineDepth, RecursiveDepth} (one reason each, confirmed by reading: they only move the inline/recurse boundary or count pretouch rounds). Any other field is a violation: the program cache is keyed by type only and lazily compiled types use the default options, so an option that changes what a program emits makes results depend on Pretouch history, inline depth and recursion depth.",
		Run: runR10})
}

func runR10(c *core.Ctx) {
	p := c.Prog
	n := 0
	for _, rel := range []string{"internal/encoder", "internal/decoder/jitdec", "internal/decoder/optdec"} {
		pk := p.Pkg(rel)
		if pk == nil {
			if p.GOARCH != "amd64" && strings.HasSuffix(rel, "jitdec") {
				continue
			}
			c.Undecided(rel, token.NoPos, "package not loaded")
			continue
		}
		for _, fd := range core.FuncDecls(pk) {
			if fd.Body == nil || strings.HasSuffix(p.Fset.Position(fd.Pos()).Filename, "_test.go") {
				continue
			}
			fn := core.FuncName(pk, fd)
			seen := map[string]bool{}
			ast.Inspect(fd.Body, func(nd ast.Node) bool {
				se, ok := nd.(*ast.SelectorExpr)
				if !ok {
					return true
				}
				sel := pk.TypesInfo.Selections[se]
				if sel == nil || sel.Kind() != types.FieldVal {
					return true
				}
				rt := sel.Recv()
				if pt, ok := rt.(*types.Pointer); ok {
					rt = pt.Elem()
				}
				nt, ok := rt.(*types.Named)
				if !ok || nt.Obj().Name() != "CompileOptions" || nt.Obj().Pkg() == nil || !strings.HasSuffix(nt.Obj().Pkg().Path(), "/option") {
					return true
				}
				f := se.Sel.Name
				if seen[f] {
					return true
				}
				seen[f] = true
				n++
				c.Analysed(fn)
				cn := fn + "/compile-option " + f
				if why, ok := structuralCompileOptions[f]; ok {
					c.OK(cn, se.Pos(), "structural option: %s", why)
				} else {
					c.Bad(cn, se.Pos(), "compile option %s is read while compiling a program that is cached by type only: it is applied to the types this Pretouch call compiles (down to the inline and recursion depth) and to nothing compiled lazily or cached earlier, so the bytes produced for one value depend on Pretouch history, MaxInlineDepth and RecursiveDepth", f)
				}
				return true
			})
		}
	}
	if n == 0 {
		c.Undecided("compile options", token.NoPos, "no read of an option.CompileOptions field found")
	}
}
