package rules

import (
	"go/ast"
	"go/token"
	"go/types"
	"sort"
	"strings"

	"verif/sa/core"
)

// B3: the byte a handler reads before its own bound check.
//
// B1 proves, handler by handler, that every load from the input is covered by a bound check
// made since IC last moved. A handler may legitimately skip that check for its first byte when
// the instruction that ran before it has already established IC < IL (`lspace` falls through
// only with a non-blank byte under IC). That is a property of the emitted IR programs, not of
// the handler, so it is decided here: for every opcode the transfer function "IC < IL before
// => IC < IL after" is derived from the handler's own x86 template (B1's dataflow run with 0
// and with 1 byte assumed on entry), and a forward dataflow over every emitted IR template of
// the decoder compiler checks that each instruction whose handler needs the entry byte is
// reached only with IC < IL established. Compile functions that need the fact at their own
// entry are collected as a fixpoint and the obligation moves to each of their call sites.

func init() {
	register(&core.Rule{ID: "B3", Min: 3,
		Doc: "Entry byte of JIT decoder handlers: an opcode whose x86 handler loads (IP)(IC) before any bound check (derived: B1's dataflow fails with 0 and succeeds with 1 byte assumed at entry; today only `num`) must be reached, in every emitted IR template, with IC < IL established by the preceding instructions, where each opcode's effect on that fact (establishes / preserves / destroys, separately for fall-through and branch-taken exits) is derived from its handler's template; an opcode chosen by the caller (`?`) is treated as needing the byte; compile functions that need it on entry pass the obligation to all their call sites (least fixpoint); a root of the call graph that needs it is a violation.",
		Run: runB3})
}

type availXfer struct {
	req   int     // 0: no entry byte needed; 1: needs IC < IL on entry; 2: unsafe even then (B1 reports)
	fall  [2]bool // IC < IL at the fall-through exit, given entry fact false/true
	taken [2]bool // IC < IL at every IR-level branch exit
	known bool
}

// decAvailTable derives, per opcode name, the transfer function from the handler templates.
func decAvailTable(p *core.Program) (map[string]availXfer, string) {
	if v, ok := p.Cache["availtab"]; ok {
		return v.(map[string]availXfer), ""
	}
	rel := "internal/decoder/jitdec"
	IC, IL, IP := regOf(p, rel, "_IC"), regOf(p, rel, "_IL"), regOf(p, rel, "_IP")
	if IC == "" || IL == "" || IP == "" {
		return nil, "register variables not found"
	}
	a := newAsmCtx(p, rel, "_Assembler")
	tab := map[string]availXfer{}
	inv := map[string]string{}
	for k, v := range handlerNameExceptions {
		inv[k] = v
	}
	for _, fd := range sortedFuncDecls(a.methods()) {
		if !strings.HasPrefix(fd.Name.Name, "_asm_OP_") {
			continue
		}
		op := strings.TrimPrefix(fd.Name.Name, "_asm")
		if alt, ok := inv[op]; ok {
			op = alt
		}
		seqs, ok := a.seqs(fd, asmEnv{}, 0)
		if !ok || anyTrunc(seqs) {
			tab[op] = availXfer{req: 1} // unknown: needs the byte, gives nothing
			continue
		}
		x := availXfer{known: true, fall: [2]bool{true, true}, taken: [2]bool{true, true}}
		safe := [2]bool{true, true}
		for _, sq := range seqs {
			g := buildSeqCFG(sq.Ops)
			for e := 0; e < 2; e++ {
				in := boundFlow(g, int64(e), IC, IL)
				for i, o := range g.ops {
					if !in[i].reached {
						continue
					}
					switch o.Kind {
					case "Emit":
						if o.Mnem == "LEAQ" {
							continue
						}
						for _, m := range o.Ops {
							if m.Kind == "mem" && m.Reg == IP && m.Index == IC && m.DispOK && m.Disp >= 0 {
								if in[i].avail < m.Disp+accessWidth(o.Mnem) {
									safe[e] = false
								}
							}
						}
					case "Xjmp":
						if in[i].avail < 1 {
							x.taken[e] = false
						}
					}
				}
				if end := in[len(g.ops)]; end.reached && end.avail < 1 {
					x.fall[e] = false
				}
			}
		}
		switch {
		case safe[0]:
			x.req = 0
		case safe[1]:
			x.req = 1
		default:
			x.req = 2
		}
		tab[op] = x
	}
	if p.Cache == nil {
		p.Cache = map[string]interface{}{}
	}
	p.Cache["availtab"] = tab
	return tab, ""
}

// possibleOps resolves an opcode expression that is not a constant: a local variable (all
// constants assigned to it), a parameter (the constants passed at every call site of the
// function in the package), or a call of an opcode selector (its constant results).
func possibleOps(p *core.Program, rel string, e ast.Expr, depth int) ([]string, bool) {
	e = ast.Unparen(e)
	if depth > 4 {
		return nil, false
	}
	pk := p.Pkg(rel)
	switch x := e.(type) {
	case *ast.Ident:
		o := p.ObjectOf(x)
		switch v := o.(type) {
		case *types.Const:
			return []string{v.Name()}, true
		case *types.Var:
			// function literal bound to a local (`_OP_string := func() _Op {...}`) is handled at the call
			var fd *ast.FuncDecl
			for _, d := range core.FuncDecls(pk) {
				if d.Body != nil && d.Pos() <= v.Pos() && v.Pos() < d.End() {
					fd = d
				}
			}
			if fd == nil {
				return nil, false
			}
			// parameter?
			pi := -1
			idx := 0
			for _, fl := range fd.Type.Params.List {
				for _, nm := range fl.Names {
					if p.ObjectOf(nm) == o {
						pi = idx
					}
					idx++
				}
			}
			var out []string
			ok := true
			if pi >= 0 {
				fo := p.ObjectOf(fd.Name)
				n := 0
				for _, d := range core.FuncDecls(pk) {
					if d.Body == nil {
						continue
					}
					ast.Inspect(d.Body, func(nd ast.Node) bool {
						call, isCall := nd.(*ast.CallExpr)
						if !isCall || p.Callee(call) != fo || len(call.Args) <= pi {
							return true
						}
						n++
						r, k := possibleOps(p, rel, call.Args[pi], depth+1)
						if !k {
							ok = false
						}
						out = append(out, r...)
						return true
					})
				}
				if n == 0 {
					ok = false
				}
				return out, ok
			}
			// local: every assignment / definition in the function
			n := 0
			ast.Inspect(fd.Body, func(nd ast.Node) bool {
				switch st := nd.(type) {
				case *ast.AssignStmt:
					for i, l := range st.Lhs {
						if id, isId := l.(*ast.Ident); isId && p.ObjectOf(id) == o && len(st.Rhs) == len(st.Lhs) {
							n++
							r, k := possibleOps(p, rel, st.Rhs[i], depth+1)
							if !k {
								ok = false
							}
							out = append(out, r...)
						}
					}
				case *ast.ValueSpec:
					for i, nm := range st.Names {
						if p.ObjectOf(nm) == o && i < len(st.Values) {
							n++
							r, k := possibleOps(p, rel, st.Values[i], depth+1)
							if !k {
								ok = false
							}
							out = append(out, r...)
						}
					}
				}
				return true
			})
			if n == 0 {
				ok = false
			}
			return out, ok
		}
	case *ast.FuncLit:
		return constReturns(p, rel, x.Body, depth)
	case *ast.CallExpr:
		if len(x.Args) != 0 {
			return nil, false
		}
		if id, isId := ast.Unparen(x.Fun).(*ast.Ident); isId {
			switch o := p.ObjectOf(id).(type) {
			case *types.Func:
				if fd := core.FuncDecl(pk, "", o.Name()); fd != nil && fd.Body != nil {
					return constReturns(p, rel, fd.Body, depth)
				}
			case *types.Var:
				return possibleOps(p, rel, id, depth+1) // local selector closure
			}
		}
	}
	return nil, false
}

func constReturns(p *core.Program, rel string, body *ast.BlockStmt, depth int) ([]string, bool) {
	var out []string
	ok, n := true, 0
	ast.Inspect(body, func(nd ast.Node) bool {
		if _, isLit := nd.(*ast.FuncLit); isLit {
			return false
		}
		if r, isRet := nd.(*ast.ReturnStmt); isRet && len(r.Results) == 1 {
			n++
			v, k := possibleOps(p, rel, r.Results[0], depth+1)
			if !k {
				ok = false
			}
			out = append(out, v...)
		}
		return true
	})
	return out, ok && n > 0
}

type availSite struct {
	what string // "op:<name>" or "call:<fn>"
	pos  token.Pos
	have [2]bool // IC < IL at the site, given the function's entry fact false/true
}

// availSites runs the forward dataflow over one template for both entry assumptions.
func availSites(p *core.Program, tpl []irInstr, tab map[string]availXfer) []availSite {
	n := len(tpl)
	var res [2][]bool
	for e := 0; e < 2; e++ {
		in := make([]int8, n+1) // -1 unreached, 0 false, 1 true
		for i := range in {
			in[i] = -1
		}
		in[0] = int8(e)
		work := []int{0}
		push := func(t int, v bool) {
			if t < 0 || t > n {
				return
			}
			nv := int8(0)
			if v {
				nv = 1
			}
			if in[t] == -1 || nv < in[t] {
				in[t] = nv
				work = append(work, t)
			}
		}
		for len(work) > 0 {
			i := work[len(work)-1]
			work = work[:len(work)-1]
			if i >= n {
				continue
			}
			x := tpl[i]
			cur := in[i] == 1
			ci := 0
			if cur {
				ci = 1
			}
			fall, taken := false, false
			switch {
			case strings.HasPrefix(x.op, "call:"), strings.HasPrefix(x.op, "label-from:"), strings.HasPrefix(x.op, "param:"), x.op == "?":
				// a callee fragment or an opcode chosen elsewhere: nothing is known afterwards
			default:
				if t, ok := tab[x.op]; ok && t.known {
					fall, taken = t.fall[ci], t.taken[ci]
				}
			}
			switch {
			case x.op == "_OP_goto":
				if x.target >= 0 {
					push(x.target, taken)
				}
			case len(x.targets) > 0:
				for _, t := range x.targets {
					push(t, taken)
				}
				push(i+1, fall)
			default:
				if x.branch != 0 && x.target >= 0 {
					push(x.target, taken)
				}
				push(i+1, fall)
			}
		}
		res[e] = make([]bool, n)
		for i := 0; i < n; i++ {
			res[e][i] = in[i] != 0 // unreached counts as established
		}
	}
	var out []availSite
	for i, x := range tpl {
		switch {
		case strings.HasPrefix(x.op, "call:") && x.op != "call:outer":
			out = append(out, availSite{x.op, x.pos, [2]bool{res[0][i], res[1][i]}})
		case strings.HasPrefix(x.op, "label-from:"):
			out = append(out, availSite{"call:" + strings.TrimPrefix(x.op, "label-from:"), x.pos, [2]bool{res[0][i], res[1][i]}})
		case x.op == "?":
			// an opcode chosen at compile time: needs the byte if any candidate does, or if it cannot be resolved
			need := true
			if x.opx != nil {
				if ops, ok := possibleOps(p, "internal/decoder/jitdec", x.opx, 0); ok {
					need = false
					for _, o := range ops {
						if t, known := tab[o]; !known || t.req >= 1 {
							need = true
						}
					}
				}
			}
			if need {
				out = append(out, availSite{"op:" + exprStr(x.opx), x.pos, [2]bool{res[0][i], res[1][i]}})
			}
		default:
			if t, ok := tab[x.op]; ok && t.req >= 1 {
				out = append(out, availSite{"op:" + x.op, x.pos, [2]bool{res[0][i], res[1][i]}})
			}
		}
	}
	return out
}

func runB3(c *core.Ctx) {
	p := c.Prog
	if p.GOARCH != "amd64" {
		return
	}
	tab, why := decAvailTable(p)
	if tab == nil {
		c.Undecided("jitdec/entry-byte", token.NoPos, "%s", why)
		return
	}
	an := analyseIR(p, jitdecDialect, 2)
	if len(an.templates) == 0 {
		c.Undecided("jitdec/entry-byte", token.NoPos, "no IR templates")
		return
	}
	var needy []string
	for op, t := range tab {
		if t.req >= 1 {
			needy = append(needy, op)
		}
	}
	sort.Strings(needy)
	for _, op := range needy {
		c.Analysed("internal/decoder/jitdec._asm" + op)
	}
	// sites per function
	sites := map[string][]availSite{}
	var names []string
	for name, tpls := range an.templates {
		names = append(names, name)
		for _, t := range tpls {
			sites[name] = append(sites[name], availSites(p, t, tab)...)
		}
	}
	sort.Strings(names)
	calleeName := func(w string) string {
		w = strings.TrimPrefix(w, "call:")
		if i := strings.Index(w, ":"); i >= 0 {
			w = w[:i]
		}
		return w
	}
	// least fixpoint: functions that need IC < IL on entry
	needs := map[string]bool{}
	needsAt := func(s availSite) bool {
		if strings.HasPrefix(s.what, "op:") {
			return true
		}
		return needs[calleeName(s.what)]
	}
	for changed := true; changed; {
		changed = false
		for _, fn := range names {
			if needs[fn] {
				continue
			}
			for _, s := range sites[fn] {
				if needsAt(s) && !s.have[0] && s.have[1] {
					needs[fn] = true
					changed = true
					break
				}
			}
		}
	}
	called := map[string]bool{}
	for _, fn := range names {
		for _, s := range sites[fn] {
			if strings.HasPrefix(s.what, "call:") {
				called[calleeName(s.what)] = true
			}
		}
	}
	nsites := 0
	for _, fn := range names {
		bad := map[string]token.Pos{}
		n := 0
		for _, s := range sites[fn] {
			if !needsAt(s) {
				continue
			}
			n++
			if !s.have[1] {
				what := s.what
				if strings.HasPrefix(what, "op:") {
					what = "`" + strings.TrimPrefix(strings.TrimPrefix(what, "op:"), "_OP_") + "`, whose handler loads (IP)(IC) before any bound check,"
				} else {
					what = "the fragment of " + calleeName(what) + ", which starts with such an instruction,"
				}
				bad[what+" is reached without IC < IL established by the preceding instructions (the last instruction that moved IC was not followed by lspace or another bound check): on an input that ends here the handler reads the byte after the input"] = s.pos
			}
		}
		if n == 0 {
			continue
		}
		nsites += n
		cn := "internal/decoder/jitdec.(_Compiler)." + fn + "/entry-byte"
		if len(bad) > 0 {
			var ks []string
			for k := range bad {
				ks = append(ks, k)
			}
			sort.Strings(ks)
			c.Bad(cn, bad[ks[0]], "%s", ks[0])
			continue
		}
		if needs[fn] && !called[fn] && an.funcs[fn] != nil && an.funcs[fn].fragBody == nil {
			c.Bad(cn, an.funcs[fn].fd.Pos(), "%s needs IC < IL on entry but is not called from any analysed template: nothing establishes the entry byte", fn)
			continue
		}
		how := "established inside the fragment"
		if needs[fn] {
			how = "needed on entry; every call site is checked in turn"
		}
		c.OK(cn, an.funcs[fn].fd.Pos(), "%d site(s) that read the entry byte: IC < IL %s", n, how)
	}
	if nsites == 0 {
		c.Undecided("jitdec/entry-byte", token.NoPos, "no site needing the entry byte found (needy opcodes: %s)", strings.Join(needy, ","))
	}
}

// B4: natives that read the byte under the cursor unconditionally. skip_number starts with
// `s[*p]` and, when that byte is '-', decrements an unsigned remaining-length counter: called
// with the cursor at the end of the input it scans memory behind it. Every emitted call of such
// a native must be reached with IC < IL proven (B1's dataflow; the handler's own entry byte, if
// it relies on one, is the one B3 establishes).

var b4Natives = []string{"skip_number"} // confirmed by reading native/scanning.h: no length test before the first load

func init() {
	register(&core.Rule{ID: "B4", Min: 1,
		Doc: "Preconditions of natives that dereference the cursor before testing the length (skip_number): in every jitdec handler template, at each call of such a native (call helper whose target symbol names it) the bound-check dataflow of B1 proves at least one byte available at IC on every path (handlers that B3 grants an entry byte start with it).",
		Run: runB4})
}

func runB4(c *core.Ctx) {
	p := c.Prog
	if p.GOARCH != "amd64" {
		return
	}
	rel := "internal/decoder/jitdec"
	IC, IL := regOf(p, rel, "_IC"), regOf(p, rel, "_IL")
	if IC == "" || IL == "" {
		c.Undecided("jitdec/_IC,_IL", token.NoPos, "register variables not found")
		return
	}
	tab, _ := decAvailTable(p)
	a := newAsmCtx(p, rel, "_Assembler")
	n := 0
	for _, fd := range sortedFuncDecls(a.methods()) {
		if !strings.HasPrefix(fd.Name.Name, "_asm_OP_") {
			continue
		}
		seqs, ok := a.seqs(fd, asmEnv{}, 0)
		if !ok || anyTrunc(seqs) {
			continue
		}
		op := strings.TrimPrefix(fd.Name.Name, "_asm")
		if alt, ok := handlerNameExceptions[op]; ok {
			op = alt
		}
		init := int64(0)
		if tab != nil && tab[op].known && tab[op].req == 1 {
			init = 1
		}
		fn := handlerName(a.pk, fd)
		calls := 0
		var bad token.Pos
		badWhat := ""
		for _, sq := range seqs {
			g := buildSeqCFG(sq.Ops)
			in := boundFlow(g, init, IC, IL)
			for i, o := range g.ops {
				if o.Kind != "Helper" || o.Callee == nil || len(o.ArgVals) == 0 || o.ArgVals[0].sym == nil {
					continue
				}
				nm := o.ArgVals[0].sym.Name()
				hit := ""
				for _, b := range b4Natives {
					if strings.HasSuffix(nm, b) {
						hit = b
					}
				}
				if hit == "" || !strings.HasPrefix(o.Callee.Name(), "call") {
					continue
				}
				calls++
				if in[i].reached && in[i].avail < 1 && badWhat == "" {
					bad, badWhat = o.Pos, hit
				}
			}
		}
		if calls == 0 {
			continue
		}
		n++
		c.Analysed(fn)
		cn := fn + "/native-precondition"
		if badWhat != "" {
			c.Bad(cn, bad, "native %s is called on a path on which IC < IL has not been established since the cursor last moved: it reads the byte under the cursor before any length test (and wraps its length counter on '-'), so input that ends here makes it scan memory behind the input, and the text it frames is stored into the destination", badWhat)
		} else {
			c.OK(cn, fd.Pos(), "%d call(s) of a cursor-dereferencing native, each with a byte proven at IC", calls)
		}
	}
	if n == 0 {
		c.Undecided("jitdec/native-precondition", token.NoPos, "no call of %s found in the handler templates", strings.Join(b4Natives, ", "))
	}
}
