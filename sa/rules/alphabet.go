package rules

import (
	"go/ast"
	"go/token"
	"go/types"
	"sort"
	"strings"

	"verif/sa/core"
)

// S12: the Go-level number scanners agree on the alphabet of a JSON number.

func init() {
	register(&core.Rule{ID: "S12", Min: 3,
		Doc: "Sibling agreement on the JSON number alphabet: the three Go-level number scanners - optdec.SkipNumberFast (re-delimits a number the native parser accepted), utils.SkipNumber and ast.skipNumber - each recognise, through the character constants they compare with or through the table they index, all of '-', '+', '.', 'e', 'E' and the digits ('0' and '9' as range ends, or all ten); a scanner that lacks one of them truncates or rejects numbers the others accept (6.02e+23).",
		Run: runS12})
}

func runS12(c *core.Ctx) {
	p := c.Prog
	type target struct{ rel, name string }
	for _, t := range []target{{"internal/decoder/optdec", "SkipNumberFast"}, {"internal/utils", "SkipNumber"}, {"ast", "skipNumber"}} {
		pk := p.Pkg(t.rel)
		fd := core.FuncDecl(pk, "", t.name)
		cn := t.rel + "." + t.name + "/number-alphabet"
		if fd == nil || fd.Body == nil {
			c.Undecided(cn, token.NoPos, "function not found")
			continue
		}
		c.Analysed(core.FuncName(pk, fd))
		chars := map[byte]bool{}
		var collect func(n ast.Node, depth int)
		collect = func(n ast.Node, depth int) {
			ast.Inspect(n, func(m ast.Node) bool {
				switch x := m.(type) {
				case *ast.BasicLit:
					if x.Kind == token.CHAR {
						if v := p.ConstOf(x); v != nil {
							if i, ok := p.ConstInt(x); ok && i >= 0 && i < 256 {
								chars[byte(i)] = true
							}
						}
					}
				case *ast.Ident:
					// a package-level table or constant the scanner uses
					if depth < 2 {
						switch o := p.ObjectOf(x).(type) {
						case *types.Var:
							if !o.IsField() && o.Parent() == o.Pkg().Scope() {
								if init := p.VarInit(o); init != nil {
									collect(init, depth+1)
								}
							}
						case *types.Const:
							if i, ok := p.ConstInt(x); ok && i >= 0 && i < 256 {
								if b, isB := o.Type().Underlying().(*types.Basic); isB && (b.Kind() == types.UntypedRune || b.Kind() == types.Int32 || b.Kind() == types.Uint8) {
									chars[byte(i)] = true
								}
							}
						}
					}
				case *ast.CallExpr:
					// helper predicates of the same package (isDigit ...)
					if depth < 2 {
						if o := p.Callee(x); o != nil && o.Pkg() != nil && core.IsSonic(o.Pkg()) {
							if d := p.DeclOf(o); d != nil && d.Body != nil && d != fd {
								collect(d.Body, depth+1)
							}
						}
					}
				}
				return true
			})
		}
		collect(fd.Body, 0)
		var missing []string
		for _, ch := range []byte{'-', '+', '.', 'e', 'E'} {
			if !chars[ch] {
				missing = append(missing, "'"+string(ch)+"'")
			}
		}
		digits := chars['0'] && chars['9']
		if !digits {
			missing = append(missing, "digits")
		}
		sort.Strings(missing)
		if len(missing) > 0 {
			c.Bad(cn, fd.Pos(), "%s does not recognise %s as part of a number while its sibling scanners do: numbers such as 6.02e+23 are truncated or rejected on this path only", t.name, strings.Join(missing, ", "))
		} else {
			c.OK(cn, fd.Pos(), "recognises '-', '+', '.', 'e', 'E' and the digits")
		}
	}
}
