package rules

import (
	"go/ast"
	"go/token"
	"strings"

	"verif/sa/core"
)

// G7: nil text-marshaler map keys. A map key whose type implements encoding.TextMarshaler may
// be nil when its kind is Ptr or Interface. The value form of OP_marshal_text writes a bare
// `null` for nil, which is not a JSON key, and the sorted path calls MarshalText through the
// nil value. Both paths must guard both nilable kinds.

func init() {
	register(&core.Rule{ID: "G7", Min: 2, Arm64: true,
		Doc: "Nil guards of text-marshaler map keys: (1) in encoder.compileMapBodyUtextKey the branch that emits OP_marshal_text without a preceding OP_is_nil is selected only for kinds that cannot be nil - its condition excludes both reflect.Ptr and reflect.Interface; (2) in alg.(*MapIterator).appendInterface the call of asText is preceded by a test of the interface's Itab against nil.",
		Run: runG7})
}

func runG7(c *core.Ctx) {
	p := c.Prog
	enc := p.Pkg("internal/encoder")
	if fd := core.FuncDecl(enc, "Compiler", "compileMapBodyUtextKey"); fd != nil && fd.Body != nil {
		fn := core.FuncName(enc, fd)
		c.Analysed(fn)
		cn := fn + "/nilable-kinds-guarded"
		found := false
		ast.Inspect(fd.Body, func(n ast.Node) bool {
			is, ok := n.(*ast.IfStmt)
			if !ok || found {
				return true
			}
			// which branch emits the unguarded op? the one that calls addMarshalerOp directly
			direct := func(b ast.Node) bool {
				hit := false
				if b == nil {
					return false
				}
				ast.Inspect(b, func(x ast.Node) bool {
					if call, ok := x.(*ast.CallExpr); ok {
						if id, ok := call.Fun.(*ast.Ident); ok && id.Name == "addMarshalerOp" {
							hit = true
						}
					}
					return true
				})
				return hit
			}
			cond := exprStr(is.Cond)
			excl := func(kind string) bool { return strings.Contains(cond, "!= reflect."+kind) }
			incl := func(kind string) bool { return strings.Contains(cond, "== reflect."+kind) }
			switch {
			case direct(is.Body):
				found = true
				c.Check(excl("Ptr") && excl("Interface") && !strings.Contains(cond, "||"), cn, is.Pos(),
					"the unguarded OP_marshal_text is emitted only when the key kind is neither Ptr nor Interface",
					"the unguarded OP_marshal_text is emitted under `"+cond+"`, which lets a nilable kind through: a nil interface (or pointer) key is written as a bare null - `{null:1}` is not JSON")
			case is.Else != nil && direct(is.Else):
				found = true
				c.Check(incl("Ptr") && incl("Interface"), cn, is.Pos(),
					"the guarded form is chosen for Ptr and Interface keys",
					"the guarded form is chosen under `"+cond+"` only: the other nilable kind reaches the unguarded OP_marshal_text and a nil key is written as a bare null")
			}
			return true
		})
		if !found {
			c.Undecided(cn, fd.Pos(), "kind test around addMarshalerOp not recognised")
		}
	} else {
		c.Undecided("internal/encoder.(Compiler).compileMapBodyUtextKey", token.NoPos, "not found")
	}
	alg := p.Pkg("internal/encoder/alg")
	if fd := core.FuncDecl(alg, "MapIterator", "appendInterface"); fd != nil && fd.Body != nil {
		fn := core.FuncName(alg, fd)
		c.Analysed(fn)
		var nilTest, call token.Pos
		ast.Inspect(fd.Body, func(n ast.Node) bool {
			switch x := n.(type) {
			case *ast.BinaryExpr:
				if x.Op == token.EQL && strings.Contains(exprStr(x.X), "Itab") && exprStr(x.Y) == "nil" && nilTest == token.NoPos {
					nilTest = x.Pos()
				}
			case *ast.CallExpr:
				if id, ok := x.Fun.(*ast.Ident); ok && id.Name == "asText" && call == token.NoPos {
					call = x.Pos()
				}
			}
			return true
		})
		cn := fn + "/nil-interface-key"
		switch {
		case call == token.NoPos:
			c.Undecided(cn, fd.Pos(), "no call of asText")
		case nilTest != token.NoPos && nilTest < call:
			c.OK(cn, call, "the Itab is tested against nil before asText")
		default:
			c.Bad(cn, call, "asText is called on the key without testing the interface for nil: under SortMapKeys a nil interface key makes Marshal panic with a nil dereference instead of producing text or an error")
		}
	} else {
		c.Undecided("internal/encoder/alg.(MapIterator).appendInterface", token.NoPos, "not found")
	}
}
