package rules

import (
	"go/ast"
	"go/token"
	"go/types"
	"strings"

	"verif/sa/core"
)

// X7: errors of the library's own fallible steps are not dropped. A call statement whose
// callee is a function of the same package returning an error, with the result discarded, turns
// a failure into silent success (Load() returned nil on a lazily parsed `[1,x]` and left an
// empty node). An explicit `_ = f()` states the intent and is not judged.

func init() {
	register(&core.Rule{ID: "X7", Min: 1, Arm64: true,
		Doc: "No silently dropped error inside ast, internal/decoder/api and internal/encoder: a call used as a statement whose resolved callee is declared in the same package and whose last result is of type error is a violation (the explicit discard `_ = f()`, deferred calls and calls of other packages are not concerned). The number of error-returning same-package calls that are used (assigned, returned, tested) is recorded.",
		Run: runX7})
}

func runX7(c *core.Ctx) {
	p := c.Prog
	errT := types.Universe.Lookup("error").Type()
	n := 0
	for _, rel := range []string{"ast", "internal/decoder/api", "internal/encoder"} {
		pk := p.Pkg(rel)
		if pk == nil {
			continue
		}
		for _, f := range pk.Syntax {
			if strings.HasSuffix(p.Fset.Position(f.Pos()).Filename, "_test.go") {
				continue
			}
			for _, d := range f.Decls {
				fd, ok := d.(*ast.FuncDecl)
				if !ok || fd.Body == nil {
					continue
				}
				fn := core.FuncName(pk, fd)
				used, k := 0, 0
				returnsErr := func(call *ast.CallExpr) bool {
					o := p.Callee(call)
					if o == nil || o.Pkg() != pk.Types {
						return false
					}
					sig, ok := o.Type().(*types.Signature)
					if !ok || sig.Results().Len() == 0 {
						return false
					}
					return types.Identical(sig.Results().At(sig.Results().Len()-1).Type(), errT)
				}
				dropped := map[*ast.CallExpr]bool{}
				ast.Inspect(fd.Body, func(nd ast.Node) bool {
					if es, ok := nd.(*ast.ExprStmt); ok {
						if call, ok := es.X.(*ast.CallExpr); ok && returnsErr(call) {
							dropped[call] = true
							k++
							n++
							c.Analysed(fn)
							c.Bad(fn+"/dropped-error#"+itoa(k), call.Pos(), "the error returned by %s is discarded: when it fails, %s goes on (and may report success) as if it had succeeded", exprStr(call.Fun), fd.Name.Name)
						}
					}
					return true
				})
				ast.Inspect(fd.Body, func(nd ast.Node) bool {
					if call, ok := nd.(*ast.CallExpr); ok && returnsErr(call) && !dropped[call] {
						used++
					}
					return true
				})
				if used > 0 && k == 0 {
					n++
					c.Analysed(fn)
					c.OK(fn+"/errors-used", fd.Pos(), "%d error-returning call(s) of the package, none discarded", used)
				}
			}
		}
	}
	if n == 0 {
		c.Undecided("dropped-error", token.NoPos, "no error-returning same-package call found")
	}
}
