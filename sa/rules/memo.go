package rules

import (
	"go/ast"
	"go/token"
	"go/types"
	"strings"

	"verif/sa/core"
)

func init() {
	register(&core.Rule{ID: "M1", Min: 7,
		Doc: "Memoisation-key completeness: the program caches are keyed by the type pointer alone, so no call of ProgramCache.Compute may hand extra inputs (variadic ex...) to the compile callback: an input that is not part of the key makes the cached codec depend on who compiled first.",
		Run: runM1})
	register(&core.Rule{ID: "M2", Min: 6,
		Doc: "Batch association is positional or by an injective key: loader.Load must select out[i] by a key that is unique per function (entry offset, or position), not by Func.Name alone (names derive from reflect.Type.String(), which is not injective on types); LoadMany lays out text and entry offsets in one order over the same items; the pretouch loops build `entries` and `items` in lock-step and pair loaded[i] with entries[i]; pretouch consults the cache (Get/GetProgram) before compiling and publishes only through Compute.",
		Run: runM2})
}

func runM1(c *core.Ctx) {
	p := c.Prog
	n := 0
	for _, pk := range p.Pkgs {
		for _, fd := range core.FuncDecls(pk) {
			if fd.Body == nil {
				continue
			}
			fn := core.FuncName(pk, fd)
			k := 0
			ast.Inspect(fd.Body, func(nd ast.Node) bool {
				call, ok := nd.(*ast.CallExpr)
				if !ok {
					return true
				}
				o, ok := p.Callee(call).(*types.Func)
				if !ok || o.Name() != "Compute" || o.Pkg() == nil || core.Rel(o.Pkg().Path()) != "internal/caching" {
					return true
				}
				n++
				k++
				cn := fn + "/Compute#" + itoa(k)
				c.Analysed(fn)
				if len(call.Args) > 2 {
					var extra []string
					for _, a := range call.Args[2:] {
						extra = append(extra, exprStr(a))
					}
					c.Bad(cn, call.Pos(), "%s passes %s to the compile callback although the cache key is the type alone: the cached program depends on the value the first caller happened to pass", fn, strings.Join(extra, ", "))
				} else {
					c.OK(cn, call.Pos(), "no compile input outside the key")
				}
				return true
			})
		}
	}
	if n < 6 {
		c.Undecided("caching.Compute/callers", token.NoPos, "only %d Compute call sites found", n)
	}
}

func runM2(c *core.Ctx) {
	p := c.Prog
	ld := p.Pkg("loader")
	// (1) loader.Load selection predicate
	if fd := core.FuncDecl(ld, "", "Load"); fd != nil {
		c.Analysed("loader.Load")
		cn := "loader.Load/result-association"
		verdict, pos := "", fd.Pos()
		ast.Inspect(fd.Body, func(nd ast.Node) bool {
			as, ok := nd.(*ast.AssignStmt)
			if !ok || len(as.Lhs) != 1 {
				return true
			}
			ix, ok := as.Lhs[0].(*ast.IndexExpr)
			if !ok || exprStr(ix.X) != "out" {
				return true
			}
			pos = as.Pos()
			// enclosing if conditions inside loops
			var fields []string
			for _, ic := range enclosingIfs(fd, as.Pos()) {
				ast.Inspect(ic.stmt.Cond, func(m ast.Node) bool {
					if se, ok := m.(*ast.SelectorExpr); ok {
						fields = append(fields, se.Sel.Name)
					}
					return true
				})
			}
			has := func(f string) bool {
				for _, x := range fields {
					if x == f {
						return true
					}
				}
				return false
			}
			// a value looked up in a map keyed by the function name is selection by name, too
			byNameMap := false
			ast.Inspect(fd.Body, func(m ast.Node) bool {
				if ie, ok := m.(*ast.IndexExpr); ok {
					if mt, ok := p.TypeOf(ie.X).(*types.Map); ok {
						if b, ok := mt.Key().Underlying().(*types.Basic); ok && b.Kind() == types.String {
							byNameMap = true
						}
					}
				}
				return true
			})
			switch {
			case byNameMap && !(has("EntryOff") || has("entryOff")):
				verdict = "BAD"
			case len(fields) == 0:
				verdict = "positional"
			case has("EntryOff") || has("entryOff"):
				verdict = "by entry offset"
			case has("Name"):
				verdict = "BAD"
			default:
				verdict = "?"
			}
			return true
		})
		switch verdict {
		case "positional", "by entry offset":
			c.OK(cn, pos, "out[i] selected %s", verdict)
		case "BAD":
			c.Bad(cn, pos, "loader.Load selects out[i] by Func.Name only; names come from \"encode_\"/\"decode_\"+reflect.Type.String(), which is not injective (p1/types.T vs p2/types.T): two types of one PretouchMany batch are bound to the same machine code")
		default:
			c.Undecided(cn, pos, "selection of out[i] not understood")
		}
	} else {
		c.Undecided("loader.Load", token.NoPos, "not found")
	}
	// (2) LoadMany: one order
	if fd := core.FuncDecl(ld, "Loader", "LoadMany"); fd != nil {
		c.Analysed("loader.(Loader).LoadMany")
		var ranges []string
		offFromTotal := false
		ast.Inspect(fd.Body, func(nd ast.Node) bool {
			switch x := nd.(type) {
			case *ast.RangeStmt:
				ranges = append(ranges, exprStr(x.X))
			case *ast.CallExpr:
				if o := p.Callee(x); o != nil && o.Name() == "buildLoadFunc" && len(x.Args) == 4 {
					if strings.Contains(exprStr(x.Args[3]), "total") {
						offFromTotal = true
					}
				}
			}
			return true
		})
		same := len(ranges) >= 2
		for _, r := range ranges {
			if r != ranges[0] {
				same = false
			}
		}
		c.Check(same && offFromTotal, "loader.(Loader).LoadMany/one-order", fd.Pos(), "entry offsets and text are laid out in the same pass order over items", "LoadMany no longer lays out entry offsets and text in one order over the same items")
	}
	// (3) pretouch loops
	for _, r := range []struct{ rel, fn, getter string }{
		{"internal/decoder/jitdec", "pretouchRec", "Get"},
		{"internal/encoder", "pretouchRecX86", "GetProgram"},
	} {
		pk := p.Pkg(r.rel)
		fd := core.FuncDecl(pk, "", r.fn)
		base := r.rel + "." + r.fn
		if fd == nil {
			if p.GOARCH != "amd64" {
				continue
			}
			c.Undecided(base, token.NoPos, "not found")
			continue
		}
		c.Analysed(base)
		// lock-step append
		lock := false
		ast.Inspect(fd.Body, func(nd ast.Node) bool {
			rs, ok := nd.(*ast.RangeStmt)
			if !ok || rs.Value == nil {
				return true
			}
			pv := exprStr(rs.Value)
			e, i := false, false
			for _, s := range rs.Body.List {
				as, ok := s.(*ast.AssignStmt)
				if !ok || len(as.Rhs) != 1 {
					continue
				}
				call, ok := as.Rhs[0].(*ast.CallExpr)
				if !ok || exprStr(call.Fun) != "append" || len(call.Args) != 2 {
					continue
				}
				switch {
				case exprStr(as.Lhs[0]) == "entries" && exprStr(call.Args[1]) == pv:
					e = true
				case exprStr(as.Lhs[0]) == "items" && exprStr(call.Args[1]) == pv+".item":
					i = true
				}
			}
			if e && i {
				lock = true
			}
			return true
		})
		c.Check(lock, base+"/lock-step", fd.Pos(), "entries and items appended in the same iteration from the same element", "entries and items are no longer built in lock-step: loaded[i] may belong to another type than entries[i]")
		// loaded[i] with i ranging over entries
		paired := false
		ast.Inspect(fd.Body, func(nd ast.Node) bool {
			rs, ok := nd.(*ast.RangeStmt)
			if !ok || exprStr(rs.X) != "entries" || rs.Key == nil {
				return true
			}
			iv := exprStr(rs.Key)
			ast.Inspect(rs.Body, func(m ast.Node) bool {
				if ix, ok := m.(*ast.IndexExpr); ok && exprStr(ix.X) == "loaded" && exprStr(ix.Index) == iv {
					paired = true
				}
				return true
			})
			return true
		})
		c.Check(paired, base+"/pairs-by-index", fd.Pos(), "loaded[i] paired with entries[i]", "the loaded functions are no longer paired with entries by the shared index")
		// consults cache before compiling
		var getPos, compPos token.Pos
		ast.Inspect(fd.Body, func(nd ast.Node) bool {
			call, ok := nd.(*ast.CallExpr)
			if !ok {
				return true
			}
			if o := p.Callee(call); o != nil {
				if o.Name() == r.getter && !getPos.IsValid() {
					getPos = call.Pos()
				}
				if (o.Name() == "compile" || o.Name() == "Compile") && !compPos.IsValid() {
					compPos = call.Pos()
				}
			}
			return true
		})
		c.Check(getPos.IsValid() && compPos.IsValid() && getPos < compPos, base+"/cache-first", fd.Pos(), "cache consulted before compiling", "pretouch compiles without consulting the program cache first (a type already served by one codec gets a second one)")
	}
}
