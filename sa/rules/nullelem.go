package rules

import (
	"go/ast"
	"go/token"
	"strings"

	"verif/sa/core"
)

// N2: null elements in the alternative decoder's typed fast paths. Its scalar decoders
// (functor.go) all begin with `if node.IsNull() { return nil }`; the container fast paths
// (Node.AsSliceI32 ... AsMapString) convert their elements inline and must make the same test,
// otherwise `[1,null,3]` into []int is a type error under SONIC_USE_OPTDEC while the JIT
// decoder and encoding/json accept it.

func init() {
	register(&core.Rule{ID: "N2", Min: 5, Arm64: true,
		Doc: "Null elements in optdec's container fast paths: in every method of optdec.Node named AsSlice* / AsMap* that converts the elements itself (a for loop whose body calls a typed conversion AsI64 / AsU64 / AsStr / AsByte / AsF64 / AsBool on the element node), the loop body tests the element with IsNull() before that conversion (loops that delegate to a decoder function, e.g. AsEface, are not concerned).",
		Run: runN2})
}

func runN2(c *core.Ctx) {
	p := c.Prog
	pk := p.Pkg("internal/decoder/optdec")
	if pk == nil {
		c.Undecided("internal/decoder/optdec", token.NoPos, "package not loaded")
		return
	}
	typed := map[string]bool{"AsI64": true, "AsU64": true, "AsStr": true, "AsByte": true, "AsF64": true, "AsBool": true, "AsStrRef": true}
	n := 0
	for _, fd := range core.FuncDecls(pk) {
		if fd.Body == nil || core.RecvName(fd) != "Node" || !(strings.HasPrefix(fd.Name.Name, "AsSlice") || strings.HasPrefix(fd.Name.Name, "AsMap")) {
			continue
		}
		fn := core.FuncName(pk, fd)
		k := 0
		ast.Inspect(fd.Body, func(nd ast.Node) bool {
			loop, ok := nd.(*ast.ForStmt)
			if !ok {
				return true
			}
			// typed conversions on a value (not key) node
			type conv struct {
				recv string
				pos  token.Pos
				name string
			}
			var convs []conv
			nulls := map[string]token.Pos{}
			ast.Inspect(loop.Body, func(x ast.Node) bool {
				call, ok := x.(*ast.CallExpr)
				if !ok {
					return true
				}
				se, ok := call.Fun.(*ast.SelectorExpr)
				if !ok {
					return true
				}
				r := exprStr(se.X)
				if typed[se.Sel.Name] {
					convs = append(convs, conv{r, call.Pos(), se.Sel.Name})
				}
				if se.Sel.Name == "IsNull" {
					if _, seen := nulls[r]; !seen {
						nulls[r] = call.Pos()
					}
				}
				return true
			})
			for _, cv := range convs {
				if strings.HasPrefix(cv.recv, "k") { // key nodes (knode) are strings by grammar
					continue
				}
				k++
				n++
				c.Analysed(fn)
				cn := fn + "/null-element#" + itoa(k)
				if np, ok := nulls[cv.recv]; ok && np < cv.pos {
					c.OK(cn, cv.pos, "%s.IsNull() is tested before %s.%s", cv.recv, cv.recv, cv.name)
				} else {
					c.Bad(cn, cv.pos, "the element is converted with %s.%s without a preceding %s.IsNull() test: a JSON null element is reported as a type mismatch by this fast path, while the scalar decoders, the JIT decoder and encoding/json accept it", cv.recv, cv.name, cv.recv)
				}
			}
			return false
		})
	}
	if n == 0 {
		c.Undecided("optdec/null-element", token.NoPos, "no typed element conversion found in the container fast paths")
	}
}

// N5: `null` is not a key. The integer-key fast paths of optdec parse the key text with
// Node.ParseI64 / ParseU64. A JSON object key is a string; the text null has no special meaning
// there, so the parsers must not map it to 0 (the `,string` field decoders, where "null" does
// mean null, test for it themselves before parsing).
//
// N6: AsByte (elements of a []byte written as a JSON array) accepts unsigned nodes only.

func init() {
	register(&core.Rule{ID: "N5", Min: 2, Arm64: true,
		Doc: "optdec.Node.ParseI64 / ParseU64, the key parsers of the integer-keyed map decoders, contain no comparison with the text \"null\" that yields a value: `{\"null\":1}` into map[int64]int is an error in the default decoder and in encoding/json.",
		Run: runN5})
	register(&core.Rule{ID: "N6", Min: 1, Arm64: true,
		Doc: "optdec.Node.AsByte succeeds only for the unsigned node kind (KUint): a branch that accepts KSint lets `-0` through as a byte, which every other unsigned destination, the default decoder and encoding/json reject.",
		Run: runN6})
}

func runN5(c *core.Ctx) {
	p := c.Prog
	pk := p.Pkg("internal/decoder/optdec")
	for _, name := range []string{"ParseI64", "ParseU64"} {
		fd := core.FuncDecl(pk, "Node", name)
		cn := "internal/decoder/optdec.(Node)." + name + "/null-is-not-a-key"
		if fd == nil || fd.Body == nil {
			c.Undecided(cn, token.NoPos, "not found")
			continue
		}
		c.Analysed(core.FuncName(pk, fd))
		var bad token.Pos
		ast.Inspect(fd.Body, func(n ast.Node) bool {
			if be, ok := n.(*ast.BinaryExpr); ok && be.Op == token.EQL {
				if exprStr(be.Y) == `"null"` || exprStr(be.X) == `"null"` {
					bad = be.Pos()
				}
			}
			return true
		})
		if bad != token.NoPos {
			c.Bad(cn, bad, "%s maps the key text null to 0: `{\"null\":1}` decodes to a map with key 0 under the alternative decoder, while the default decoder and encoding/json report an error", name)
		} else {
			c.OK(cn, fd.Pos(), "no special case for the text null")
		}
	}
}

func runN6(c *core.Ctx) {
	p := c.Prog
	pk := p.Pkg("internal/decoder/optdec")
	fd := core.FuncDecl(pk, "Node", "AsByte")
	cn := "internal/decoder/optdec.(Node).AsByte/unsigned-only"
	if fd == nil || fd.Body == nil {
		c.Undecided(cn, token.NoPos, "not found")
		return
	}
	c.Analysed(core.FuncName(pk, fd))
	var bad token.Pos
	ast.Inspect(fd.Body, func(n ast.Node) bool {
		if id, ok := n.(*ast.Ident); ok && id.Name == "KSint" {
			bad = id.Pos()
		}
		return true
	})
	if bad != token.NoPos {
		c.Bad(cn, bad, "AsByte accepts a signed node: `[-0]` decodes into a []byte under the alternative decoder although -0 is not an unsigned literal")
	} else {
		c.OK(cn, fd.Pos(), "only unsigned nodes are accepted")
	}
}
