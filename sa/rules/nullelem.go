package rules

import (
	"go/ast"
	"go/token"
	"strings"

	"verif/sa/core"
)

// N2: null elements in the alternative decoder's typed fast paths. Its scalar decoders
// (functor.go) all begin with `if node.IsNull() { return nil }`; the container fast paths
// (Node.AsSliceI32 ... AsMapString) convert their elements inline and must make the same test,
// otherwise `[1,null,3]` into []int is a type error under SONIC_USE_OPTDEC while the JIT
// decoder and encoding/json accept it.

func init() {
	register(&core.Rule{ID: "N2", Min: 5, Arm64: true,
		Doc: "Null elements in optdec's container fast paths: in every method of optdec.Node named AsSlice* / AsMap* that converts the elements itself (a for loop whose body calls a typed conversion AsI64 / AsU64 / AsStr / AsByte / AsF64 / AsBool on the element node), the loop body tests the element with IsNull() before that conversion (loops that delegate to a decoder function, e.g. AsEface, are not concerned).",
		Run: runN2})
}

func runN2(c *core.Ctx) {
	p := c.Prog
	pk := p.Pkg("internal/decoder/optdec")
	if pk == nil {
		c.Undecided("internal/decoder/optdec", token.NoPos, "package not loaded")
		return
	}
	typed := map[string]bool{"AsI64": true, "AsU64": true, "AsStr": true, "AsByte": true, "AsF64": true, "AsBool": true, "AsStrRef": true}
	n := 0
	for _, fd := range core.FuncDecls(pk) {
		if fd.Body == nil || core.RecvName(fd) != "Node" || !(strings.HasPrefix(fd.Name.Name, "AsSlice") || strings.HasPrefix(fd.Name.Name, "AsMap")) {
			continue
		}
		fn := core.FuncName(pk, fd)
		k := 0
		ast.Inspect(fd.Body, func(nd ast.Node) bool {
			loop, ok := nd.(*ast.ForStmt)
			if !ok {
				return true
			}
			// typed conversions on a value (not key) node
			type conv struct {
				recv string
				pos  token.Pos
				name string
			}
			var convs []conv
			nulls := map[string]token.Pos{}
			ast.Inspect(loop.Body, func(x ast.Node) bool {
				call, ok := x.(*ast.CallExpr)
				if !ok {
					return true
				}
				se, ok := call.Fun.(*ast.SelectorExpr)
				if !ok {
					return true
				}
				r := exprStr(se.X)
				if typed[se.Sel.Name] {
					convs = append(convs, conv{r, call.Pos(), se.Sel.Name})
				}
				if se.Sel.Name == "IsNull" {
					if _, seen := nulls[r]; !seen {
						nulls[r] = call.Pos()
					}
				}
				return true
			})
			for _, cv := range convs {
				if strings.HasPrefix(cv.recv, "k") { // key nodes (knode) are strings by grammar
					continue
				}
				k++
				n++
				c.Analysed(fn)
				cn := fn + "/null-element#" + itoa(k)
				if np, ok := nulls[cv.recv]; ok && np < cv.pos {
					c.OK(cn, cv.pos, "%s.IsNull() is tested before %s.%s", cv.recv, cv.recv, cv.name)
				} else {
					c.Bad(cn, cv.pos, "the element is converted with %s.%s without a preceding %s.IsNull() test: a JSON null element is reported as a type mismatch by this fast path, while the scalar decoders, the JIT decoder and encoding/json accept it", cv.recv, cv.name, cv.recv)
				}
			}
			return false
		})
	}
	if n == 0 {
		c.Undecided("optdec/null-element", token.NoPos, "no typed element conversion found in the container fast paths")
	}
}
