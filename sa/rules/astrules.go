package rules

import (
	"go/ast"
	"go/token"
	"go/types"
	"strings"

	"verif/sa/core"
)

func init() {
	register(&core.Rule{ID: "R1", Min: 10,
		Doc: "Lookup methods of the AST containers are effect-free on their receiver: linkedNodes.{Cap,Len,At,ToSlice} and linkedPairs.{Cap,Len,At,Get,ToSlice,ToMap,Less} contain no store through the receiver (field, element, map entry, delete) and call only methods of this pure set on it. A read that lazily writes shared structure (for example building the key index on first lookup) races on loaded, concurrently readable nodes.",
		Run: runR1})
	register(&core.Rule{ID: "R2", Min: 5,
		Doc: "Tables frozen into compiled codecs are read-only at run time: the lookup methods that generated code and the decoders call on shared per-type structures - caching.FieldMap.{At,Get,GetCaseInsensitive}, caching._ProgramMap.get, caching.ProgramCache.Get - contain no store through the receiver (field, element, map entry, delete) and call only methods of that set on it. These structures are shared by every goroutine that decodes the type; a lookup that memoises into them is an unsynchronised write.",
		Run: runR2})
	register(&core.Rule{ID: "S5", Min: 2,
		Doc: "Two lookup paths, one duplicate-key policy: in ast.linkedPairs the linear path (ascending scan, early return) is first-wins; the indexed path must be first-wins too, i.e. BuildIndex must not overwrite an existing hash entry when scanning in ascending order.",
		Run: runS5})
	register(&core.Rule{ID: "S8", Min: 5,
		Doc: "Index maintenance: every linkedPairs method that stores into a pair slot by position (Set, Unset, Swap and their callers Push/Pop) updates or deletes the index entry when index != nil before/after the store; set() (the raw slot writer) is called only by those maintainers.",
		Run: runS8})
	register(&core.Rule{ID: "S9", Min: 11,
		Doc: "Mutators force the parsed form: each mutating Node method (Set, SetAny, Unset, SetByIndex, SetAnyByIndex, UnsetByIndex, Add, AddAny, Pop, Move, SortKeys) calls should()/checkRaw()/Check() on the receiver and returns on error before the first store through the receiver (a still-raw node's p points at JSON text, not at a child table).",
		Run: runS9})
}

var pureReaders = map[string]map[string]bool{
	"linkedNodes": {"Cap": true, "Len": true, "At": true, "ToSlice": true},
	"linkedPairs": {"Cap": true, "Len": true, "At": true, "Get": true, "ToSlice": true, "ToMap": true, "Less": true},
}

// storesThrough reports the first statement in body that stores through base (field,
// element, map entry, delete(), or *base).
func storesThrough(p *core.Program, body ast.Node, base types.Object) (token.Pos, string) {
	var pos token.Pos
	what := ""
	rooted := func(e ast.Expr) bool {
		for {
			switch x := ast.Unparen(e).(type) {
			case *ast.Ident:
				return p.ObjectOf(x) == base
			case *ast.SelectorExpr:
				e = x.X
			case *ast.IndexExpr:
				e = x.X
			case *ast.StarExpr:
				e = x.X
			case *ast.SliceExpr:
				e = x.X
			default:
				return false
			}
		}
	}
	ast.Inspect(body, func(n ast.Node) bool {
		if pos.IsValid() {
			return false
		}
		switch x := n.(type) {
		case *ast.AssignStmt:
			for _, l := range x.Lhs {
				if _, isId := ast.Unparen(l).(*ast.Ident); isId {
					continue // re-binding a local
				}
				if rooted(l) {
					pos, what = x.Pos(), "store to "+exprStr(l)
				}
			}
		case *ast.IncDecStmt:
			if _, isId := ast.Unparen(x.X).(*ast.Ident); !isId && rooted(x.X) {
				pos, what = x.Pos(), "update of "+exprStr(x.X)
			}
		case *ast.CallExpr:
			if id, ok := x.Fun.(*ast.Ident); ok && id.Name == "delete" && len(x.Args) == 2 && rooted(x.Args[0]) {
				pos, what = x.Pos(), "delete from "+exprStr(x.Args[0])
			}
		}
		return true
	})
	return pos, what
}

func runR1(c *core.Ctx) {
	p := c.Prog
	pk := p.Pkg("ast")
	for recv, set := range pureReaders {
		for name := range set {
			fd := core.FuncDecl(pk, recv, name)
			cn := "ast.(" + recv + ")." + name + "/pure"
			if fd == nil || fd.Body == nil {
				c.Undecided(cn, token.NoPos, "not found")
				continue
			}
			c.Analysed("ast.(" + recv + ")." + name)
			self := recvObj(p, fd)
			if pos, what := storesThrough(p, fd.Body, self); pos.IsValid() {
				c.Bad(cn, pos, "lookup method %s.%s writes its receiver (%s): reads of a loaded node are no longer read-only", recv, name, what)
				continue
			}
			bad := ""
			var bpos token.Pos
			ast.Inspect(fd.Body, func(n ast.Node) bool {
				call, ok := n.(*ast.CallExpr)
				if !ok {
					return true
				}
				se, ok := call.Fun.(*ast.SelectorExpr)
				if !ok {
					return true
				}
				id, ok := ast.Unparen(se.X).(*ast.Ident)
				if !ok || p.ObjectOf(id) != self {
					return true
				}
				if f, ok := p.ObjectOf(se.Sel).(*types.Func); ok && !set[f.Name()] {
					bad, bpos = f.Name(), call.Pos()
				}
				return true
			})
			if bad != "" {
				c.Bad(cn, bpos, "lookup method %s.%s calls %s on its receiver, which is not in the effect-free set", recv, name, bad)
			} else {
				c.OK(cn, fd.Pos(), "no store through the receiver, only pure callees")
			}
		}
	}
}

var frozenReaders = []struct {
	rel, recv string
	set       map[string]bool
}{
	{"internal/caching", "FieldMap", map[string]bool{"At": true, "Get": true, "GetCaseInsensitive": true}},
	{"internal/caching", "_ProgramMap", map[string]bool{"get": true}},
	{"internal/caching", "ProgramCache", map[string]bool{"Get": true}},
}

func runR2(c *core.Ctx) {
	p := c.Prog
	for _, fr := range frozenReaders {
		pk := p.Pkg(fr.rel)
		for _, name := range sortedKeys(fr.set) {
			fd := core.FuncDecl(pk, fr.recv, name)
			cn := fr.rel + ".(" + fr.recv + ")." + name + "/read-only"
			if fd == nil || fd.Body == nil {
				c.Undecided(cn, token.NoPos, "not found")
				continue
			}
			c.Analysed(core.FuncName(pk, fd))
			self := recvObj(p, fd)
			if pos, what := storesThrough(p, fd.Body, self); pos.IsValid() {
				c.Bad(cn, pos, "%s.%s writes its receiver (%s): the structure is shared by all goroutines using the compiled codec, so concurrent decodes race (e.g. fatal `concurrent map read and map write`)", fr.recv, name, what)
				continue
			}
			bad := ""
			var bpos token.Pos
			ast.Inspect(fd.Body, func(n ast.Node) bool {
				call, ok := n.(*ast.CallExpr)
				if !ok {
					return true
				}
				se, ok := call.Fun.(*ast.SelectorExpr)
				if !ok {
					return true
				}
				id, ok := ast.Unparen(se.X).(*ast.Ident)
				if !ok || p.ObjectOf(id) != self {
					return true
				}
				if f, ok := p.ObjectOf(se.Sel).(*types.Func); ok && !fr.set[f.Name()] {
					bad, bpos = f.Name(), call.Pos()
				}
				return true
			})
			if bad != "" {
				c.Bad(cn, bpos, "%s.%s calls %s on its receiver, which is not in the read-only set", fr.recv, name, bad)
			} else {
				c.OK(cn, fd.Pos(), "no store through the receiver, only read-only callees")
			}
		}
	}
}

// scanPolicy classifies `for i := A; cond; i++/--` loops over slots.
func loopDirection(fs *ast.ForStmt) string {
	if inc, ok := fs.Post.(*ast.IncDecStmt); ok {
		if inc.Tok == token.INC {
			return "asc"
		}
		return "desc"
	}
	return ""
}

func runS5(c *core.Ctx) {
	p := c.Prog
	pk := p.Pkg("ast")
	get := core.FuncDecl(pk, "linkedPairs", "Get")
	bi := core.FuncDecl(pk, "linkedPairs", "BuildIndex")
	if get == nil || bi == nil {
		c.Undecided("ast.(linkedPairs)/dup-policy", token.NoPos, "Get/BuildIndex not found")
		return
	}
	c.Analysed("ast.(linkedPairs).Get")
	c.Analysed("ast.(linkedPairs).BuildIndex")
	// linear path
	linear := ""
	ast.Inspect(get.Body, func(n ast.Node) bool {
		fs, ok := n.(*ast.ForStmt)
		if !ok {
			return true
		}
		early := false
		ast.Inspect(fs.Body, func(m ast.Node) bool {
			if r, ok := m.(*ast.ReturnStmt); ok && len(r.Results) == 2 && exprStr(r.Results[0]) != "nil" {
				early = true
			}
			return true
		})
		switch d := loopDirection(fs); {
		case d == "asc" && early:
			linear = "first"
		case d == "desc" && early:
			linear = "last"
		}
		return true
	})
	// index build
	indexed := ""
	var ipos token.Pos
	ast.Inspect(bi.Body, func(n ast.Node) bool {
		fs, ok := n.(*ast.ForStmt)
		if !ok {
			return true
		}
		d := loopDirection(fs)
		ast.Inspect(fs.Body, func(m ast.Node) bool {
			as, ok := m.(*ast.AssignStmt)
			if !ok || len(as.Lhs) != 1 {
				return true
			}
			ix, ok := as.Lhs[0].(*ast.IndexExpr)
			if !ok || !strings.HasSuffix(exprStr(ix.X), ".index") {
				return true
			}
			ipos = as.Pos()
			// guarded by "not present" test?
			guarded := false
			for _, ic := range enclosingIfs(bi, as.Pos()) {
				s := exprStr(ic.stmt.Cond)
				if ic.stmt.Init != nil {
					if ia, ok := ic.stmt.Init.(*ast.AssignStmt); ok && len(ia.Rhs) == 1 {
						if rx, ok := ia.Rhs[0].(*ast.IndexExpr); ok && strings.HasSuffix(exprStr(rx.X), ".index") {
							if ic.inThen && strings.HasPrefix(s, "!") {
								guarded = true
							}
						}
					}
				}
			}
			switch {
			case d == "asc" && guarded, d == "desc" && !guarded:
				indexed = "first"
			case d == "asc" && !guarded, d == "desc" && guarded:
				indexed = "last"
			}
			return true
		})
		return true
	})
	switch {
	case linear == "" || indexed == "":
		c.Undecided("ast.(linkedPairs)/dup-policy", get.Pos(), "could not classify the two lookup paths (linear=%q indexed=%q)", linear, indexed)
	case linear == "first":
		c.OK("ast.(linkedPairs).Get/linear-first-wins", get.Pos(), "linear scan ascending with early return: first occurrence wins")
		if indexed == "first" {
			c.OK("ast.(linkedPairs).BuildIndex/first-wins", ipos, "index keeps the first occurrence of a hash")
		} else {
			c.Bad("ast.(linkedPairs).BuildIndex/first-wins", ipos, "BuildIndex scans ascending and overwrites index[hash] unconditionally (last occurrence wins) while the linear path returns the first occurrence: a duplicated key resolves differently once an object with more than 16 pairs is loaded")
		}
	default:
		c.Bad("ast.(linkedPairs).Get/linear-first-wins", get.Pos(), "the linear lookup is %s-wins; the documented policy (and encoding/json's Get semantics in sonic) is first-wins", linear)
	}
}

func runS8(c *core.Ctx) {
	p := c.Prog
	pk := p.Pkg("ast")
	// methods that must maintain the index around a slot store
	for _, name := range []string{"Set", "Unset", "Swap"} {
		fd := core.FuncDecl(pk, "linkedPairs", name)
		cn := "ast.(linkedPairs)." + name + "/maintains-index"
		if fd == nil {
			c.Undecided(cn, token.NoPos, "not found")
			continue
		}
		c.Analysed("ast.(linkedPairs)." + name)
		touched := false
		ast.Inspect(fd.Body, func(n ast.Node) bool {
			ifs, ok := n.(*ast.IfStmt)
			if !ok {
				return true
			}
			if be, ok := ast.Unparen(ifs.Cond).(*ast.BinaryExpr); ok && be.Op == token.NEQ && strings.HasSuffix(exprStr(be.X), ".index") && exprStr(be.Y) == "nil" {
				ast.Inspect(ifs.Body, func(m ast.Node) bool {
					switch x := m.(type) {
					case *ast.AssignStmt:
						for _, l := range x.Lhs {
							if ix, ok := l.(*ast.IndexExpr); ok && strings.HasSuffix(exprStr(ix.X), ".index") {
								touched = true
							}
						}
					case *ast.CallExpr:
						if id, ok := x.Fun.(*ast.Ident); ok && id.Name == "delete" && len(x.Args) == 2 && strings.HasSuffix(exprStr(x.Args[0]), ".index") {
							touched = true
						}
					}
					return true
				})
			}
			return true
		})
		c.Check(touched, cn, fd.Pos(), "updates/deletes the index entry under `index != nil`", "linkedPairs."+name+" stores into a slot without maintaining the key index: after Load (objects > 16 pairs) lookups by key return stale positions")
	}
	// set() is called only by maintainers
	setObj := p.ObjectOf(core.FuncDecl(pk, "linkedPairs", "set").Name)
	callers, _, _ := callersOf(p, setObj)
	bad := ""
	for cn := range callers {
		switch cn {
		case "ast.(linkedPairs).Set", "ast.(linkedPairs).Unset":
		default:
			bad = cn
		}
	}
	c.Check(bad == "", "ast.(linkedPairs).set/callers", token.NoPos, "raw slot writer set() is called only by Set/Unset", "raw slot writer set() is called by "+bad+", bypassing index maintenance")
	// Push -> Set, Pop -> Unset
	for _, r := range [][2]string{{"Push", "Set"}, {"Pop", "Unset"}} {
		fd := core.FuncDecl(pk, "linkedPairs", r[0])
		cn := "ast.(linkedPairs)." + r[0] + "/delegates"
		if fd == nil {
			c.Undecided(cn, token.NoPos, "not found")
			continue
		}
		ok := false
		ast.Inspect(fd.Body, func(n ast.Node) bool {
			if call, isCall := n.(*ast.CallExpr); isCall {
				if o := p.Callee(call); o != nil && o.Name() == r[1] {
					ok = true
				}
			}
			return true
		})
		c.Check(ok, cn, fd.Pos(), r[0]+" goes through "+r[1], "linkedPairs."+r[0]+" no longer goes through "+r[1]+" (index not maintained)")
	}
}

var nodeMutators = []string{"Set", "SetAny", "Unset", "SetByIndex", "SetAnyByIndex", "UnsetByIndex", "Add", "AddAny", "Pop", "Move", "SortKeys"}

func runS9(c *core.Ctx) {
	p := c.Prog
	pk := p.Pkg("ast")
	guards := map[string]bool{"should": true, "checkRaw": true, "Check": true}
	for _, name := range nodeMutators {
		fd := core.FuncDecl(pk, "Node", name)
		cn := "ast.(Node)." + name + "/forces-parsed"
		if fd == nil || fd.Body == nil {
			c.Undecided(cn, token.NoPos, "not found")
			continue
		}
		c.Analysed("ast.(Node)." + name)
		self := recvObj(p, fd)
		// delegating mutators (SetAny -> Set, AddAny -> Add ...) are fine if they call another mutator
		var guardPos, storePos, delegPos token.Pos
		ast.Inspect(fd.Body, func(n ast.Node) bool {
			call, ok := n.(*ast.CallExpr)
			if !ok {
				return true
			}
			se, ok := call.Fun.(*ast.SelectorExpr)
			if !ok {
				return true
			}
			id, ok := ast.Unparen(se.X).(*ast.Ident)
			if !ok || p.ObjectOf(id) != self {
				return true
			}
			if guards[se.Sel.Name] && !guardPos.IsValid() {
				guardPos = call.Pos()
			}
			for _, m := range nodeMutators {
				if se.Sel.Name == m && !delegPos.IsValid() {
					delegPos = call.Pos()
				}
			}
			return true
		})
		storePos, _ = storesThrough(p, fd.Body, self)
		// also calls that mutate the child table obtained from self.p
		ast.Inspect(fd.Body, func(n ast.Node) bool {
			call, ok := n.(*ast.CallExpr)
			if !ok {
				return true
			}
			if o, ok := p.Callee(call).(*types.Func); ok && o.Pkg() != nil && core.Rel(o.Pkg().Path()) == "ast" {
				switch o.Name() {
				case "Push", "Pop", "Unset", "MoveOne", "Sort", "Swap":
					if sig := o.Type().(*types.Signature); sig.Recv() != nil && strings.Contains(sig.Recv().Type().String(), "linked") {
						if !storePos.IsValid() || call.Pos() < storePos {
							storePos = call.Pos()
						}
					}
				}
			}
			return true
		})
		switch {
		case guardPos.IsValid() && (!storePos.IsValid() || guardPos < storePos):
			c.OK(cn, guardPos, "parsed form forced before the first store")
		case delegPos.IsValid() && (!storePos.IsValid() || delegPos < storePos):
			c.OK(cn, delegPos, "delegates to another guarded mutator")
		case !storePos.IsValid():
			c.Undecided(cn, fd.Pos(), "no store and no guard found")
		default:
			c.Bad(cn, storePos, "Node.%s stores through the receiver before (or without) forcing the parsed form with should()/checkRaw(): on a still-raw node p is a string pointer, not a child table", name)
		}
	}
}

// R3: the field list returned by resolver.ResolveStruct is the cached, shared slice (the same
// backing array for the encoder compiler, both decoders and every later compile of the type).
// Callers may read it; writing an element, appending to a reslice of it (the in-place filter
// idiom `nf := fv[:0]; nf = append(nf, f)`), or sorting it rewrites the cache for everyone.

func init() {
	register(&core.Rule{ID: "R3", Min: 3,
		Doc: "The cached field list is read-only for its users: in every function that calls resolver.ResolveStruct, the returned slice (and any reslice of it bound to a local) is never the target of an element store, never the first argument of append, and never passed to sort.*; otherwise a compile of one codec changes the fields every later compile (other executor, other entry point, parent types) sees - output then depends on compile order.",
		Run: runR3})
}

func runR3(c *core.Ctx) {
	p := c.Prog
	n := 0
	for _, rel := range []string{"internal/encoder", "internal/decoder/jitdec", "internal/decoder/optdec"} {
		pk := p.Pkg(rel)
		if pk == nil {
			continue
		}
		for _, fd := range core.FuncDecls(pk) {
			if fd.Body == nil || strings.HasSuffix(p.Fset.Position(fd.Pos()).Filename, "_test.go") {
				continue
			}
			// locals that alias the cached slice
			alias := map[types.Object]bool{}
			isCached := func(e ast.Expr) bool {
				for {
					switch x := ast.Unparen(e).(type) {
					case *ast.CallExpr:
						if o := p.Callee(x); o != nil && o.Name() == "ResolveStruct" && o.Pkg() != nil && core.Rel(o.Pkg().Path()) == "internal/resolver" {
							return true
						}
						return false
					case *ast.SliceExpr:
						e = x.X
					case *ast.Ident:
						return alias[p.ObjectOf(x)]
					default:
						return false
					}
				}
			}
			for changed := true; changed; {
				changed = false
				ast.Inspect(fd.Body, func(nd ast.Node) bool {
					if as, ok := nd.(*ast.AssignStmt); ok && len(as.Lhs) == len(as.Rhs) {
						for i, l := range as.Lhs {
							if id, ok := ast.Unparen(l).(*ast.Ident); ok && isCached(as.Rhs[i]) {
								if o := p.ObjectOf(id); o != nil && !alias[o] {
									alias[o] = true
									changed = true
								}
							}
						}
					}
					return true
				})
			}
			if len(alias) == 0 {
				continue
			}
			n++
			fn := core.FuncName(pk, fd)
			c.Analysed(fn)
			bad := ""
			var bpos token.Pos
			ast.Inspect(fd.Body, func(nd ast.Node) bool {
				switch x := nd.(type) {
				case *ast.AssignStmt:
					for _, l := range x.Lhs {
						if ie, ok := ast.Unparen(l).(*ast.IndexExpr); ok && isCached(ie.X) && bad == "" {
							bad, bpos = "stores into "+exprStr(l), x.Pos()
						}
						if se, ok := ast.Unparen(l).(*ast.SelectorExpr); ok {
							if ie, ok := ast.Unparen(se.X).(*ast.IndexExpr); ok && isCached(ie.X) && bad == "" {
								bad, bpos = "stores into "+exprStr(l), x.Pos()
							}
						}
					}
				case *ast.CallExpr:
					if id, ok := x.Fun.(*ast.Ident); ok && id.Name == "append" && len(x.Args) > 0 && isCached(x.Args[0]) && bad == "" {
						bad, bpos = "appends to "+exprStr(x.Args[0])+", a reslice of the cached list (in-place filter)", x.Pos()
					}
					if o := p.Callee(x); o != nil && o.Pkg() != nil && (o.Pkg().Path() == "sort" || o.Pkg().Path() == "slices") && len(x.Args) > 0 && isCached(x.Args[0]) && bad == "" {
						bad, bpos = "reorders it with "+o.Pkg().Name()+"."+o.Name(), x.Pos()
					}
				}
				return true
			})
			cn := fn + "/cached-fields-read-only"
			if bad != "" {
				c.Bad(cn, bpos, "%s %s: resolver.ResolveStruct hands out the cached slice itself, so the change is seen by the other executor's compiler and by every later compile of this struct (fields dropped or duplicated in their output depending on what was compiled first)", fn, bad)
			} else {
				c.OK(cn, fd.Pos(), "the cached field list is only read")
			}
		}
	}
	if n < 3 {
		c.Undecided("resolver.ResolveStruct/users", token.NoPos, "only %d users found", n)
	}
}
