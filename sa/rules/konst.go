package rules

import (
	"go/ast"
	"go/constant"
	"go/token"
	"go/types"
	"sort"
	"strings"

	"golang.org/x/tools/go/packages"

	"verif/sa/core"
)

func init() {
	register(&core.Rule{ID: "K1", Min: 18,
		Doc: "State-stack constants and layout: jitdec._MaxStack == consts.MaxStack == types.MAX_RECURSE; _MaxStackBytes == _MaxStack*8; len(_Stack.sb) == _MaxStack; the offsets the emitters hard-code (8(ST)(CX); _FsmOffset, _DbufOffset, _EpOffset; encoder 8/16/24/32) equal the struct offsets computed with types.Sizes(gc,amd64); StackLimit == MaxStack*StateSize == sizeof(Stack.sb). Bound agreement: every executor's push guard, normalised to 'largest sp admitted', equals the offset of the last slot (x86 save_state, VM Stack.Push, jitdec _asm_OP_save).",
		Run: runK1})
	register(&core.Rule{ID: "K2", Min: 5,
		Doc: "GC pointer bitmaps equal signatures: jitdec.argPtrs is the pointer-word map of _Decoder's parameter list and len*8 == _FP_args; vars.ArgPtrs likewise for vars.Encoder and x86._FP_args; the generic decoder's argPtrs_generic covers _VD_args.",
		Run: runK2})
	register(&core.Rule{ID: "K3", Min: 6,
		Doc: "Stack pre-growth covers frames: the argument of rt.MoreStack in jitdec.decodeTypedPointer is built from _FP_size, _VD_size and native.MaxFrameSize (by object) and native.MaxFrameSize >= max(_stack__*) over every native subroutine of sse and avx2; prologue SUBQ, epilogue ADDQ and Load(...) use the same frame-size constant object in each of the three emitters.",
		Run: runK3})
	register(&core.Rule{ID: "K4", Min: 3,
		Doc: "optdec works on a private padded copy: len(optdec.padding) >= types.BufPaddingSize and both arms of newParser append `padding` to the buffer the native parser reads.",
		Run: runK4})
}

func constInt(pk *packages.Package, name string) (int64, types.Object, bool) {
	o := core.Obj(pk, name)
	k, ok := o.(*types.Const)
	if !ok {
		return 0, o, false
	}
	v, exact := constant.Int64Val(constant.ToInt(k.Val()))
	return v, o, exact
}

func structOf(pk *packages.Package, name string) *types.Struct {
	o := core.Obj(pk, name)
	if o == nil {
		return nil
	}
	st, _ := o.Type().Underlying().(*types.Struct)
	return st
}

func fieldOffset(sz types.Sizes, st *types.Struct, name string) (int64, types.Type, bool) {
	var fs []*types.Var
	idx := -1
	for i := 0; i < st.NumFields(); i++ {
		fs = append(fs, st.Field(i))
		if st.Field(i).Name() == name {
			idx = i
		}
	}
	if idx < 0 {
		return 0, nil, false
	}
	return sz.Offsetsof(fs)[idx], fs[idx].Type(), true
}

// findEmit returns the first op of the sequence satisfying pred, and its index.
func findEmit(seq []EmitOp, from int, pred func(EmitOp) bool) int {
	for i := from; i < len(seq); i++ {
		if pred(seq[i]) {
			return i
		}
	}
	return -1
}

func runK1(c *core.Ctx) {
	p := c.Prog
	if p.GOARCH != "amd64" {
		return
	}
	sz := types.SizesFor("gc", "amd64")
	jd := p.Pkg("internal/decoder/jitdec")
	cs := p.Pkg("internal/decoder/consts")
	ty := p.Pkg("internal/native/types")
	vars := p.Pkg("internal/encoder/vars")
	x86 := p.Pkg("internal/encoder/x86")
	em := emitModel{p}

	eqc := func(cn string, a int64, aok bool, b int64, bok bool, what string, pos token.Pos) {
		if !aok || !bok {
			c.Undecided(cn, pos, "constant not found: %s", what)
			return
		}
		if a == b {
			c.OK(cn, pos, "%s (= %d)", what, a)
		} else {
			c.Bad(cn, pos, "%s violated: %d != %d", what, a, b)
		}
	}
	ms, mso, ok1 := constInt(jd, "_MaxStack")
	cms, _, ok2 := constInt(cs, "MaxStack")
	mr, _, ok3 := constInt(ty, "MAX_RECURSE")
	var pos token.Pos
	if mso != nil {
		pos = mso.Pos()
	}
	eqc("jitdec._MaxStack==consts.MaxStack", ms, ok1, cms, ok2, "jitdec._MaxStack == consts.MaxStack", pos)
	eqc("jitdec._MaxStack==types.MAX_RECURSE", ms, ok1, mr, ok3, "jitdec._MaxStack == types.MAX_RECURSE", pos)
	msb, _, ok4 := constInt(jd, "_MaxStackBytes")
	eqc("jitdec._MaxStackBytes", msb, ok4, ms*8, ok1, "_MaxStackBytes == _MaxStack*8", pos)

	if st := structOf(jd, "_Stack"); st != nil {
		off, t, ok := fieldOffset(sz, st, "sb")
		if arr, isArr := t.(*types.Array); ok && isArr {
			eqc("jitdec._Stack.sb/len", arr.Len(), true, ms, ok1, "len(_Stack.sb) == _MaxStack", pos)
			eqc("jitdec._Stack.sb/offset", off, true, 8, true, "offsetof(_Stack.sb) == 8 (emitters store at 8(ST)(CX))", pos)
		} else {
			c.Undecided("jitdec._Stack.sb", pos, "field sb not an array")
		}
		for _, r := range []struct{ k, f string }{{"_FsmOffset", "mm"}, {"_DbufOffset", "dp"}, {"_EpOffset", "ep"}} {
			v, o, okc := constInt(jd, r.k)
			fo, _, okf := fieldOffset(sz, st, r.f)
			ps := pos
			if o != nil {
				ps = o.Pos()
			}
			eqc("jitdec."+r.k, v, okc, fo, okf, r.k+" == offsetof(_Stack."+r.f+")", ps)
		}
		ss, _, okss := constInt(jd, "_StackSize")
		eqc("jitdec._StackSize", ss, okss, sz.Sizeof(st), true, "_StackSize == sizeof(_Stack)", pos)
		// vp array and the generic decoder's _ST_Vp offset
		if vo, vt, ok := fieldOffset(sz, st, "vp"); ok {
			if arr, isArr := vt.(*types.Array); isArr {
				eqc("jitdec._Stack.vp/len", arr.Len(), true, mr, ok3, "len(_Stack.vp) == types.MAX_RECURSE", pos)
			}
			_ = vo
		}
	} else {
		c.Undecided("jitdec._Stack", token.NoPos, "struct not found")
	}

	// jitdec _asm_OP_save bound
	if fd := core.FuncDecl(jd, "_Assembler", "_asm_OP_save"); fd != nil {
		cn := "jitdec.(_Assembler)._asm_OP_save/bound"
		c.Analysed("internal/decoder/jitdec.(_Assembler)._asm_OP_save")
		paths, ok, why := em.emitPaths(fd, 1)
		if !ok || len(paths) != 1 {
			c.Undecided(cn, fd.Pos(), "cannot enumerate: %s (%d paths)", why, len(paths))
		} else {
			seq := paths[0]
			ci := findEmit(seq, 0, func(e EmitOp) bool {
				return e.Kind == "Emit" && e.Mnem == "CMPQ" && len(e.Ops) == 2 && e.Ops[0].Kind == "reg" && e.Ops[1].Kind == "imm"
			})
			if ci < 0 || ci+1 >= len(seq) || seq[ci+1].Kind != "Sjmp" {
				c.Bad(cn, fd.Pos(), "no `CMPQ sp, $limit; Jcc <error>` guard before the state-stack store")
			} else {
				lim, lok := seq[ci].Ops[1].Imm, seq[ci].Ops[1].ImmOK
				jc := seq[ci+1].Mnem
				reg := seq[ci].Ops[0].Reg
				// stores through (ST)(reg) must come after the guard
				si := findEmit(seq, 0, func(e EmitOp) bool {
					if e.Kind == "Emit" || e.Kind == "Helper" {
						for _, o := range operandsOf(em, e) {
							if o.Kind == "mem" && o.Index == reg {
								return true
							}
						}
					}
					return false
				})
				var maxAdmit int64
				switch jc {
				case "JAE":
					maxAdmit = lim - 8
				case "JA":
					maxAdmit = lim
				default:
					lok = false
				}
				last := (ms - 1) * 8
				switch {
				case !lok:
					c.Undecided(cn, seq[ci].Pos, "guard form CMPQ/%s not understood", jc)
				case si >= 0 && si < ci:
					c.Bad(cn, seq[si].Pos, "state-stack store precedes the overflow guard")
				case !strings.Contains(seq[ci+1].Label, "stack_error"):
					c.Bad(cn, seq[ci+1].Pos, "overflow edge goes to %s, not the stack-overflow error", seq[ci+1].Label)
				case maxAdmit != last:
					c.Bad(cn, seq[ci].Pos, "guard admits sp <= %d but the last slot of _Stack.sb is at %d", maxAdmit, last)
				default:
					c.OK(cn, seq[ci].Pos, "CMPQ %s,$%d; %s: admits sp <= %d == last slot", reg, lim, jc, maxAdmit)
				}
			}
		}
	} else {
		c.Undecided("jitdec.(_Assembler)._asm_OP_save", token.NoPos, "not found")
	}

	// ---- encoder
	mxs, mo, okm := constInt(vars, "MaxStack")
	ssz, _, oks := constInt(vars, "StateSize")
	sl, _, okl := constInt(vars, "StackLimit")
	if mo != nil {
		pos = mo.Pos()
	}
	eqc("vars.StackLimit", sl, okl, mxs*ssz, okm && oks, "StackLimit == MaxStack*StateSize", pos)
	stt := structOf(vars, "State")
	stk := structOf(vars, "Stack")
	if stt == nil || stk == nil {
		c.Undecided("vars.Stack", token.NoPos, "struct not found")
		return
	}
	eqc("vars.StateSize", ssz, oks, sz.Sizeof(stt), true, "StateSize == sizeof(State)", pos)
	sbOff, sbT, _ := fieldOffset(sz, stk, "sb")
	eqc("vars.Stack.sb/size", sz.Sizeof(sbT), true, sl, okl, "sizeof(Stack.sb) == StackLimit", pos)
	spOff, _, _ := fieldOffset(sz, stk, "sp")
	eqc("vars.Stack.sp/offset", spOff, true, 0, true, "offsetof(Stack.sp) == 0 (emitters use (ST))", pos)
	lastSlot := sz.Sizeof(sbT) - ssz
	// VM Push bound
	if fd := core.FuncDecl(vars, "Stack", "Push"); fd != nil {
		cn := "vars.(Stack).Push/bound"
		c.Analysed("internal/encoder/vars.(Stack).Push")
		var admit int64 = -1
		var gpos token.Pos
		ast.Inspect(fd.Body, func(n ast.Node) bool {
			ifs, ok := n.(*ast.IfStmt)
			if !ok {
				return true
			}
			be, ok := ast.Unparen(ifs.Cond).(*ast.BinaryExpr)
			if !ok {
				return true
			}
			lim, lok := p.ConstInt(be.Y)
			retFalse := false
			for _, s := range ifs.Body.List {
				if r, ok := s.(*ast.ReturnStmt); ok && len(r.Results) == 1 && exprStr(r.Results[0]) == "false" {
					retFalse = true
				}
			}
			if !lok || !retFalse || !strings.Contains(exprStr(be.X), "sp") {
				return true
			}
			// the compared value may be the stack pointer plus a constant (through a local)
			var k int64
			lhs := ast.Unparen(be.X)
			for depth := 0; depth < 3; depth++ {
				if call, ok := lhs.(*ast.CallExpr); ok && len(call.Args) == 1 { // uintptr(...)
					lhs = ast.Unparen(call.Args[0])
					continue
				}
				if id, ok := lhs.(*ast.Ident); ok {
					var def ast.Expr
					ndef := 0
					ast.Inspect(fd.Body, func(m ast.Node) bool {
						if as, ok := m.(*ast.AssignStmt); ok && len(as.Lhs) == 1 && len(as.Rhs) == 1 {
							if l, ok := as.Lhs[0].(*ast.Ident); ok && p.ObjectOf(l) == p.ObjectOf(id) {
								def = as.Rhs[0]
								ndef++
							}
						}
						return true
					})
					if ndef == 1 {
						lhs = ast.Unparen(def)
						continue
					}
				}
				if b2, ok := lhs.(*ast.BinaryExpr); ok && (b2.Op == token.ADD || b2.Op == token.SUB) {
					if v, ok := p.ConstInt(b2.Y); ok {
						if b2.Op == token.ADD {
							k += v
						} else {
							k -= v
						}
						lhs = ast.Unparen(b2.X)
						continue
					}
				}
				break
			}
			gpos = ifs.Pos()
			switch be.Op {
			case token.GEQ:
				admit = lim - k - ssz
			case token.GTR:
				admit = lim - k
			}
			return true
		})
		if admit < 0 {
			c.Bad(cn, fd.Pos(), "no `if sp >= limit { return false }` guard found in Stack.Push")
		} else if admit != lastSlot {
			c.Bad(cn, gpos, "guard admits sp <= %d but the last slot of Stack.sb is at %d", admit, lastSlot)
		} else {
			c.OK(cn, gpos, "admits sp <= %d == last slot", admit)
		}
	} else {
		c.Undecided("vars.(Stack).Push", token.NoPos, "not found")
	}
	// x86 save_state
	if fd := core.FuncDecl(x86, "Assembler", "save_state"); fd != nil {
		cn := "x86.(Assembler).save_state/bound"
		c.Analysed("internal/encoder/x86.(Assembler).save_state")
		paths, ok, why := em.emitPaths(fd, 1)
		if !ok || len(paths) != 1 {
			c.Undecided(cn, fd.Pos(), "cannot enumerate: %s", why)
		} else {
			seq := paths[0]
			li := findEmit(seq, 0, func(e EmitOp) bool {
				return e.Kind == "Emit" && e.Mnem == "LEAQ" && len(e.Ops) == 2 && e.Ops[0].Kind == "mem" && e.Ops[1].Kind == "reg"
			})
			ci := findEmit(seq, 0, func(e EmitOp) bool {
				return e.Kind == "Emit" && e.Mnem == "CMPQ" && len(e.Ops) == 2 && e.Ops[0].Kind == "reg" && e.Ops[1].Kind == "imm"
			})
			if li < 0 || ci < li || ci+1 >= len(seq) || seq[ci+1].Kind != "Sjmp" || seq[li].Ops[1].Reg != seq[ci].Ops[0].Reg {
				c.Bad(cn, fd.Pos(), "no `LEAQ k(sp),R; CMPQ R,$limit; Jcc <error>` guard before the state-stack stores")
			} else {
				k, lim := seq[li].Ops[0].Disp, seq[ci].Ops[1].Imm
				idx := seq[li].Ops[0].Reg
				var admit int64
				okf := seq[li].Ops[0].DispOK && seq[ci].Ops[1].ImmOK
				switch seq[ci+1].Mnem {
				case "JAE": // sp+k < lim
					admit = lim - k - ssz
				case "JA": // sp+k <= lim
					admit = lim - k
				default:
					okf = false
				}
				si := findEmit(seq, 0, func(e EmitOp) bool {
					for _, o := range operandsOf(em, e) {
						if o.Kind == "mem" && o.Index == idx {
							return true
						}
					}
					return false
				})
				// field offsets used by the stores
				offsOK := true
				var offMsg []string
				want := map[string]int64{}
				for _, f := range []string{"x", "f", "p", "q"} {
					fo, _, _ := fieldOffset(sz, stt, f)
					want[f] = sbOff + fo
				}
				seen := map[int64]bool{}
				for _, e := range seq {
					for _, o := range operandsOf(em, e) {
						if o.Kind == "mem" && o.Index == idx && o.DispOK {
							seen[o.Disp] = true
						}
					}
				}
				for f, w := range want {
					if !seen[w] {
						offsOK = false
						offMsg = append(offMsg, "State."+f+" expected at displacement "+itoa(int(w)))
					}
				}
				switch {
				case !okf:
					c.Undecided(cn, seq[ci].Pos, "guard form not understood")
				case si >= 0 && si < ci:
					c.Bad(cn, seq[si].Pos, "state-stack store precedes the overflow guard")
				case seq[ci+1].LblObj == nil || seq[ci+1].LblObj.Name() != "_LB_error_too_deep":
					c.Bad(cn, seq[ci+1].Pos, "overflow edge goes to %s, not _LB_error_too_deep", seq[ci+1].Label)
				case admit != lastSlot:
					c.Bad(cn, seq[ci].Pos, "JIT guard (LEAQ %d(sp); CMPQ $%d; %s) admits sp <= %d but the last slot of Stack.sb (and the VM's Stack.Push bound) is %d: the two executors disagree on the nesting limit by one level", k, lim, seq[ci+1].Mnem, admit, lastSlot)
				default:
					c.OK(cn, seq[ci].Pos, "admits sp <= %d == last slot == VM bound", admit)
				}
				c.Check(offsOK, "x86.(Assembler).save_state/offsets", fd.Pos(), "stores use offsetof(Stack.sb)+offsetof(State.{x,f,p,q})", strings.Join(offMsg, "; "))
			}
		}
	} else {
		c.Undecided("x86.(Assembler).save_state", token.NoPos, "not found")
	}
	// drop_state loads the same offsets
	if fd := core.FuncDecl(x86, "Assembler", "drop_state"); fd != nil {
		paths, ok, _ := em.emitPaths(fd, 1)
		if ok && len(paths) == 1 {
			seen := map[int64]bool{}
			for _, e := range paths[0] {
				for _, o := range e.Ops {
					if o.Kind == "mem" && o.Index != "" && o.DispOK {
						seen[o.Disp] = true
					}
				}
			}
			good := true
			for _, f := range []string{"x", "f", "p", "q"} {
				fo, _, _ := fieldOffset(sz, stt, f)
				if !seen[sbOff+fo] {
					good = false
				}
			}
			c.Check(good, "x86.(Assembler).drop_state/offsets", fd.Pos(), "loads use offsetof(Stack.sb)+offsetof(State.{x,f,p,q})", "drop_state does not load every State field at its struct offset")
		}
	}
}

// operandsOf returns the operands of an Emit, or the operand-like arguments of a
// helper call (WritePtr/WriteRecNotAX take a memory operand).
func operandsOf(em emitModel, e EmitOp) []Operand {
	if e.Kind == "Emit" {
		return e.Ops
	}
	if e.Kind == "Helper" && e.Call != nil {
		var out []Operand
		for _, a := range e.Call.Args {
			o := em.operand(a, 0)
			if o.Kind != "other" {
				out = append(out, o)
			}
		}
		return out
	}
	return nil
}

// ptrWords flattens a type into GC words: true = pointer word.
func ptrWords(t types.Type) ([]bool, bool) {
	switch u := t.Underlying().(type) {
	case *types.Basic:
		switch u.Kind() {
		case types.String:
			return []bool{true, false}, true
		case types.UnsafePointer:
			return []bool{true}, true
		case types.Int, types.Uint, types.Int64, types.Uint64, types.Uintptr, types.Float64:
			return []bool{false}, true
		}
		return nil, false
	case *types.Pointer, *types.Map, *types.Chan, *types.Signature:
		return []bool{true}, true
	case *types.Slice:
		return []bool{true, false, false}, true
	case *types.Interface:
		return []bool{true, true}, true
	}
	return nil, false
}

func boolLit(p *core.Program, pk *packages.Package, name string) ([]bool, token.Pos, bool) {
	o := core.Obj(pk, name)
	if o == nil {
		return nil, token.NoPos, false
	}
	cl, ok := p.VarInit(o).(*ast.CompositeLit)
	if !ok {
		return nil, o.Pos(), false
	}
	var out []bool
	for _, e := range cl.Elts {
		switch exprStr(e) {
		case "true":
			out = append(out, true)
		case "false":
			out = append(out, false)
		default:
			return nil, o.Pos(), false
		}
	}
	return out, o.Pos(), true
}

func fmtBools(b []bool) string {
	s := ""
	for _, x := range b {
		if x {
			s += "P"
		} else {
			s += "."
		}
	}
	return s
}

func runK2(c *core.Ctx) {
	p := c.Prog
	if p.GOARCH != "amd64" {
		return
	}
	check := func(cn string, pk *packages.Package, sigType, bitmap string, argsPk *packages.Package, argsConst string) {
		o := core.Obj(pk, sigType)
		if o == nil {
			c.Undecided(cn, token.NoPos, "%s not found", sigType)
			return
		}
		sig, ok := o.Type().Underlying().(*types.Signature)
		if !ok {
			c.Undecided(cn, o.Pos(), "%s is not a func type", sigType)
			return
		}
		var want []bool
		for i := 0; i < sig.Params().Len(); i++ {
			w, ok := ptrWords(sig.Params().At(i).Type())
			if !ok {
				c.Undecided(cn, o.Pos(), "parameter %s has a type the word-map table does not cover", sig.Params().At(i).Name())
				return
			}
			want = append(want, w...)
		}
		got, pos, ok := boolLit(p, pk, bitmap)
		if !ok {
			c.Undecided(cn, pos, "%s is not a literal []bool", bitmap)
			return
		}
		if fmtBools(got) == fmtBools(want) {
			c.OK(cn, pos, "%s = %s matches the parameter words of %s", bitmap, fmtBools(got), sigType)
		} else {
			c.Bad(cn, pos, "%s = %s but the parameter list of %s has pointer words %s: a live pointer is hidden from (or a scalar shown to) the GC while generated code runs", bitmap, fmtBools(got), sigType, fmtBools(want))
		}
		av, ao, aok := constInt(argsPk, argsConst)
		if !aok {
			c.Undecided(cn+"/argsize", token.NoPos, "%s not found", argsConst)
			return
		}
		c.Check(av == int64(len(want))*8, cn+"/argsize", ao.Pos(), argsConst+" == 8*words", argsConst+" does not equal 8 bytes per argument word")
	}
	jd := p.Pkg("internal/decoder/jitdec")
	vars := p.Pkg("internal/encoder/vars")
	x86 := p.Pkg("internal/encoder/x86")
	check("jitdec.argPtrs", jd, "_Decoder", "argPtrs", jd, "_FP_args")
	check("vars.ArgPtrs", vars, "Encoder", "ArgPtrs", x86, "_FP_args")
	// generic decoder: one pointer argument (the *_Stack) in _VD_args bytes
	got, pos, ok := boolLit(p, jd, "argPtrs_generic")
	va, _, vok := constInt(jd, "_VD_args")
	if !ok || !vok {
		c.Undecided("jitdec.argPtrs_generic", pos, "not found")
	} else {
		c.Check(int64(len(got))*8 == va && len(got) == 1 && got[0], "jitdec.argPtrs_generic", pos, "one pointer word in _VD_args bytes", "argPtrs_generic does not describe _VD_args bytes of pointer arguments")
	}
	// the Load calls hand over exactly these objects
	for _, r := range []struct {
		pk       *packages.Package
		recv, fn string
		want     []string
	}{
		{jd, "_Assembler", "Load", []string{"_FP_size", "_FP_args", "argPtrs", "localPtrs"}},
		{x86, "Assembler", "Load", []string{"_FP_size", "_FP_args", "ArgPtrs", "LocalPtrs"}},
		{jd, "_ValueDecoder", "build", []string{"_VD_size", "_VD_args", "argPtrs_generic", "localPtrs_generic"}},
	} {
		fd := core.FuncDecl(r.pk, r.recv, r.fn)
		cn := core.Rel(r.pk.PkgPath) + ".(" + r.recv + ")." + r.fn + "/Load-args"
		if fd == nil {
			c.Undecided(cn, token.NoPos, "not found")
			continue
		}
		found := false
		ast.Inspect(fd.Body, func(n ast.Node) bool {
			call, ok := n.(*ast.CallExpr)
			if !ok || len(call.Args) != 5 {
				return true
			}
			if o := p.Callee(call); o == nil || o.Name() != "Load" {
				return true
			}
			found = true
			var bad []string
			for i, w := range r.want {
				o := p.ExprObj(call.Args[i+1])
				if o == nil || o.Name() != w {
					bad = append(bad, "argument "+itoa(i+1)+" is "+exprStr(call.Args[i+1])+", expected "+w)
				}
			}
			if len(bad) == 0 {
				c.OK(cn, call.Pos(), "Load(%s)", strings.Join(r.want, ", "))
			} else {
				c.Bad(cn, call.Pos(), "%s", strings.Join(bad, "; "))
			}
			return true
		})
		if !found {
			c.Undecided(cn, fd.Pos(), "Load call not found")
		}
	}
}

func runK3(c *core.Ctx) {
	p := c.Prog
	if p.GOARCH != "amd64" {
		return
	}
	jd := p.Pkg("internal/decoder/jitdec")
	nat := p.Pkg("internal/native")
	mfs, mfo, ok := constInt(nat, "MaxFrameSize")
	if !ok {
		c.Undecided("native.MaxFrameSize", token.NoPos, "not found")
		return
	}
	// max _stack__* over both implementations
	var maxStack int64
	var maxName string
	n := 0
	for _, rel := range []string{"internal/native/sse", "internal/native/avx2"} {
		pk := p.Pkg(rel)
		if pk == nil {
			c.Undecided(rel, token.NoPos, "not loaded")
			return
		}
		sc := pk.Types.Scope()
		for _, name := range sc.Names() {
			if !strings.HasPrefix(name, "_stack__") {
				continue
			}
			v, _, ok := constInt(pk, name)
			if !ok {
				continue
			}
			n++
			if v > maxStack {
				maxStack, maxName = v, rel+"."+name
			}
		}
	}
	if n < 40 {
		c.Undecided("native._stack__*", token.NoPos, "only %d native stack constants found", n)
	}
	if mfs >= maxStack {
		c.OK("native.MaxFrameSize", mfo.Pos(), "MaxFrameSize %d >= max native frame %d (%s), %d natives", mfs, maxStack, maxName, n)
	} else {
		c.Bad("native.MaxFrameSize", mfo.Pos(), "MaxFrameSize %d < %s = %d: a native call from generated code can overflow the goroutine stack", mfs, maxName, maxStack)
	}
	fd := core.FuncDecl(jd, "", "decodeTypedPointer")
	if fd == nil {
		c.Undecided("jitdec.decodeTypedPointer", token.NoPos, "not found")
	} else {
		c.Analysed("internal/decoder/jitdec.decodeTypedPointer")
		found := false
		var firstCall token.Pos
		ast.Inspect(fd.Body, func(n ast.Node) bool {
			call, ok := n.(*ast.CallExpr)
			if !ok {
				return true
			}
			if p.IsCallTo(call, "internal/rt", "MoreStack") && len(call.Args) == 1 {
				found = true
				firstCall = call.Pos()
				objs := emitModel{p}.objsIn(call.Args[0])
				v, vok := p.ConstInt(call.Args[0])
				fps, _, _ := constInt(jd, "_FP_size")
				vds, _, _ := constInt(jd, "_VD_size")
				need := fps + vds + maxStack
				has := func(n string) bool {
					for _, o := range objs {
						if o.Name() == n {
							return true
						}
					}
					return false
				}
				switch {
				case !vok:
					c.Undecided("jitdec.decodeTypedPointer/MoreStack", call.Pos(), "argument is not constant")
				case v < need:
					c.Bad("jitdec.decodeTypedPointer/MoreStack", call.Pos(), "MoreStack(%d) < _FP_size+_VD_size+max native frame = %d", v, need)
				case !has("_FP_size") || !has("_VD_size") || !has("MaxFrameSize"):
					c.Bad("jitdec.decodeTypedPointer/MoreStack", call.Pos(), "MoreStack argument %s is not built from _FP_size, _VD_size and native.MaxFrameSize: it will not follow a change of the frames", exprStr(call.Args[0]))
				default:
					c.OK("jitdec.decodeTypedPointer/MoreStack", call.Pos(), "MoreStack(%d) >= %d, built from the frame constants", v, need)
				}
			}
			return true
		})
		if !found {
			c.Bad("jitdec.decodeTypedPointer/MoreStack", fd.Pos(), "decodeTypedPointer no longer pre-grows the stack (rt.MoreStack) before entering generated code")
		} else {
			// MoreStack must precede the call of the compiled function `fn(...)`
			var fnCall token.Pos
			ast.Inspect(fd.Body, func(n ast.Node) bool {
				call, ok := n.(*ast.CallExpr)
				if ok {
					if id, isId := call.Fun.(*ast.Ident); isId {
						if v, isVar := p.ObjectOf(id).(*types.Var); isVar && !v.IsField() {
							if _, isSig := v.Type().Underlying().(*types.Signature); isSig {
								fnCall = call.Pos()
							}
						}
					}
				}
				return true
			})
			c.Check(fnCall.IsValid() && firstCall < fnCall, "jitdec.decodeTypedPointer/order", fd.Pos(), "MoreStack precedes the call into generated code", "rt.MoreStack does not precede the call of the compiled decoder")
		}
	}
	// frame constant identity in the three emitters
	em := emitModel{p}
	for _, r := range []struct {
		rel, recv, k string
	}{{"internal/decoder/jitdec", "_Assembler", "_FP_size"}, {"internal/encoder/x86", "Assembler", "_FP_size"}, {"internal/decoder/jitdec", "_ValueDecoder", "_VD_size"}} {
		pk := p.Pkg(r.rel)
		sub, add := 0, 0
		var badPos token.Pos
		for _, fd := range core.FuncDecls(pk) {
			if core.RecvName(fd) != r.recv || fd.Body == nil {
				continue
			}
			recv := recvObj(p, fd)
			ast.Inspect(fd.Body, func(n ast.Node) bool {
				call, ok := n.(*ast.CallExpr)
				if !ok {
					return true
				}
				op, isEmit := em.classify(call, recv)
				if !isEmit || op.Kind != "Emit" || len(op.Ops) != 2 {
					return true
				}
				if (op.Mnem == "SUBQ" || op.Mnem == "ADDQ") && op.Ops[1].Kind == "reg" && op.Ops[1].Reg == "SP" && op.Ops[0].Kind == "imm" {
					if hasObj(op.Ops[0].Objs, r.rel, r.k) && len(op.Ops[0].Objs) == 1 {
						if op.Mnem == "SUBQ" {
							sub++
						} else {
							add++
						}
					} else {
						badPos = call.Pos()
					}
				}
				return true
			})
		}
		cn := r.rel + ".(" + r.recv + ")/frame-" + r.k
		switch {
		case badPos.IsValid():
			c.Bad(cn, badPos, "SP is adjusted by something other than %s", r.k)
		case sub >= 1 && add >= 1:
			c.OK(cn, token.NoPos, "prologue SUBQ and epilogue ADDQ both use %s (%d/%d sites)", r.k, sub, add)
		default:
			c.Undecided(cn, token.NoPos, "prologue/epilogue SP adjustment not found (sub=%d add=%d)", sub, add)
		}
	}
}

func runK4(c *core.Ctx) {
	p := c.Prog
	od := p.Pkg("internal/decoder/optdec")
	ty := p.Pkg("internal/native/types")
	if ty == nil || core.Obj(ty, "BufPaddingSize") == nil {
		ty = p.Pkg("internal/native")
	}
	bp, _, ok := constInt(ty, "BufPaddingSize")
	po := core.Obj(od, "padding")
	if !ok || po == nil {
		c.Undecided("optdec.padding", token.NoPos, "padding / BufPaddingSize not found")
		return
	}
	v := p.ConstOf(p.VarInit(po))
	if v == nil || v.Kind() != constant.String {
		c.Undecided("optdec.padding", po.Pos(), "padding is not a constant string")
		return
	}
	l := int64(len(constant.StringVal(v)))
	if l >= bp {
		c.OK("optdec.padding/len", po.Pos(), "len(padding)=%d >= BufPaddingSize=%d", l, bp)
	} else {
		c.Bad("optdec.padding/len", po.Pos(), "len(padding)=%d < BufPaddingSize=%d: native SIMD loads may run past the private copy", l, bp)
	}
	fd := core.FuncDecl(od, "", "newParser")
	if fd == nil {
		c.Undecided("optdec.newParser", token.NoPos, "not found")
		return
	}
	c.Analysed("internal/decoder/optdec.newParser")
	paths, okp, why := EnumPaths(p, fd, 1, 256)
	if !okp {
		c.Undecided("optdec.newParser/padding", fd.Pos(), "cannot enumerate paths: %s", why)
		return
	}
	for i, pt := range paths {
		app := false
		for _, ev := range pt {
			if ev.Call == nil {
				continue
			}
			if id, ok := ev.Call.Fun.(*ast.Ident); ok && id.Name == "append" && len(ev.Call.Args) >= 2 {
				if p.ExprObj(ev.Call.Args[1]) == po && ev.Call.Ellipsis.IsValid() {
					app = true
				}
			}
		}
		c.Check(app, "optdec.newParser/padding/path"+itoa(i), fd.Pos(), "path appends padding to the parsed buffer", "a path through newParser does not append `padding` to the buffer handed to the native parser")
	}
	// the parser works on the copy: p.start derives from the padded buffer / dbuf, never from `data`
	dataObj := p.ObjectOf(fd.Type.Params.List[0].Names[0])
	bad := token.NoPos
	ast.Inspect(fd.Body, func(n ast.Node) bool {
		as, ok := n.(*ast.AssignStmt)
		if !ok || len(as.Lhs) != 1 {
			return true
		}
		if se, ok := as.Lhs[0].(*ast.SelectorExpr); ok && se.Sel.Name == "start" {
			ast.Inspect(as.Rhs[0], func(m ast.Node) bool {
				if id, ok := m.(*ast.Ident); ok && p.ObjectOf(id) == dataObj {
					bad = as.Pos()
				}
				return true
			})
		}
		return true
	})
	c.Check(!bad.IsValid(), "optdec.newParser/private-copy", fd.Pos(), "p.start never points into the caller's string", "p.start is derived from the caller's `data`: the native parser would read the caller's memory without padding")
}

func init() {
	register(&core.Rule{ID: "K7", Min: 2,
		Doc: "Symbol-table offset bookkeeping in the loader: in makeFuncnameTab / makeFilenametab every loop that appends pieces to a byte table and advances a running offset advances it by exactly the bytes appended in that iteration (sum of len(piece) over the appended pieces plus one per appended terminator); offsets handed to the runtime otherwise point into the wrong name (or past the table) as soon as a name is rewritten before being stored, which only tracebacks and profilers read.",
		Run: runK7})
}

func runK7(c *core.Ctx) {
	p := c.Prog
	ld := p.Pkg("loader")
	n := 0
	for _, name := range []string{"makeFuncnameTab", "makeFilenametab"} {
		fd := core.FuncDecl(ld, "", name)
		if fd == nil {
			c.Undecided("loader."+name, token.NoPos, "not found")
			continue
		}
		c.Analysed("loader." + name)
		k := 0
		ast.Inspect(fd.Body, func(nd ast.Node) bool {
			var body *ast.BlockStmt
			switch l := nd.(type) {
			case *ast.RangeStmt:
				body = l.Body
			case *ast.ForStmt:
				body = l.Body
			default:
				return true
			}
			appended := map[string]int{}
			var tabName string
			ones := 0
			var adv *ast.AssignStmt
			for _, s := range body.List {
				as, ok := s.(*ast.AssignStmt)
				if !ok || len(as.Lhs) != 1 || len(as.Rhs) != 1 {
					continue
				}
				if call, ok := as.Rhs[0].(*ast.CallExpr); ok && exprStr(call.Fun) == "append" && len(call.Args) == 2 && exprStr(call.Args[0]) == exprStr(as.Lhs[0]) {
					if tb, ok := p.TypeOf(as.Lhs[0]).Underlying().(*types.Slice); ok {
						if b, ok := tb.Elem().Underlying().(*types.Basic); ok && b.Kind() == types.Byte {
							tabName = exprStr(as.Lhs[0])
							if call.Ellipsis.IsValid() {
								appended["len("+exprStr(call.Args[1])+")"]++
							} else {
								ones++
							}
						}
					}
				}
				if as.Tok == token.ADD_ASSIGN {
					if _, isInt := p.TypeOf(as.Lhs[0]).Underlying().(*types.Basic); isInt && strings.Contains(strings.ToLower(exprStr(as.Lhs[0])), "off") {
						adv = as
					}
				}
			}
			if tabName == "" || adv == nil {
				return true
			}
			n++
			k++
			cn := "loader." + name + "/offset-advance#" + itoa(k)
			// parse the advance expression into terms
			terms := map[string]int{}
			consts := int64(0)
			okExpr := true
			var walk func(e ast.Expr)
			walk = func(e ast.Expr) {
				e = ast.Unparen(e)
				if v, ok := p.ConstInt(e); ok {
					consts += v
					return
				}
				switch x := e.(type) {
				case *ast.BinaryExpr:
					if x.Op == token.ADD {
						walk(x.X)
						walk(x.Y)
						return
					}
				case *ast.CallExpr:
					if len(x.Args) == 1 {
						// conversions uint32(len(x)) etc.
						if tv := p.TypeOf(x.Fun); tv != nil {
							if _, isSig := tv.Underlying().(*types.Signature); !isSig {
								walk(x.Args[0])
								return
							}
						}
						if exprStr(x.Fun) == "len" {
							terms[exprStr(x)]++
							return
						}
					}
				}
				okExpr = false
			}
			walk(adv.Rhs[0])
			if !okExpr {
				c.Undecided(cn, adv.Pos(), "advance expression %s not understood", exprStr(adv.Rhs[0]))
				return true
			}
			same := consts == int64(ones) && len(terms) == len(appended)
			for t, cnt := range appended {
				if terms[t] != cnt {
					same = false
				}
			}
			if same {
				c.OK(cn, adv.Pos(), "offset advanced by exactly the bytes appended to %s", tabName)
			} else {
				c.Bad(cn, adv.Pos(), "the running offset is advanced by `%s` but this iteration appends %v plus %d terminator byte(s) to %s: later entries get offsets that do not point at their own name (tracebacks through generated code print wrong names or crash in runtime.funcName)", exprStr(adv.Rhs[0]), keysOfCount(appended), ones, tabName)
			}
			return true
		})
	}
	if n < 2 {
		c.Undecided("loader/offset-bookkeeping", token.NoPos, "only %d table-building loops found", n)
	}
}

func keysOfCount(m map[string]int) []string {
	var out []string
	for k, v := range m {
		for i := 0; i < v; i++ {
			out = append(out, k)
		}
	}
	sort.Strings(out)
	return out
}
