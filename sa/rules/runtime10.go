package rules

import (
	"sort"
	"go/ast"
	"go/token"
	"go/types"
	"strings"

	"verif/sa/core"
)

// K8: pointers baked into generated code. IR instructions carry raw pointers (field metadata,
// itabs, type words) that the assembler turns into immediates. The GC does not scan machine
// code, so the pointee must be kept alive by something permanent (the resolver's field cache, a
// package-level variable, a type descriptor). The address of a function-local variable is
// only referenced by the IR program, which is dropped after loading: the object is freed and
// its memory reused while the generated code still reads it.
//
// K9: frame-pointer chain of the generated frames. The three JIT prologues save the caller's
// BP in a frame slot and must make BP point at exactly that slot (the Go runtime's frame-
// pointer unwinder - block/mutex profiler, execution tracer - follows the chain without
// consulting the pc tables); the epilogue restores from the same slot and the slot is the
// last word of the frame.

func init() {
	register(&core.Rule{ID: "K8", Min: 1,
		Doc: "Pointers embedded in generated code are rooted in permanent storage: every pointer argument `&X` passed to an IR emitter that stores a raw pointer in the instruction (encoder ir.Program.VField/Vtab, jitdec _Program.fmv/rtt-style emitters taking pointers) does not take the address of a function-local variable (a local struct/array value or a range copy); addresses of slice elements, package-level variables and values returned by cache lookups are accepted.",
		Run: runK8})
	register(&core.Rule{ID: "K9", Min: 3,
		Doc: "Frame-pointer chain of the generated frames: in each of the three emitters (jitdec._Assembler, jitdec._ValueDecoder, x86.Assembler) the prologue stores BP to d(SP) and then sets BP = LEAQ d(SP) with the same displacement object and value, the epilogue reloads BP from the same d(SP) before the `ADDQ $size, SP` that pops the frame (a reload after the pop reads the caller's frame), and d + 8 equals the frame size subtracted from SP.",
		Run: runK9})
}

func runK8(c *core.Ctx) {
	p := c.Prog
	n := 0
	for _, rel := range []string{"internal/encoder", "internal/decoder/jitdec"} {
		pk := p.Pkg(rel)
		if pk == nil {
			continue
		}
		for _, fd := range core.FuncDecls(pk) {
			if fd.Body == nil {
				continue
			}
			fn := core.FuncName(pk, fd)
			ast.Inspect(fd.Body, func(nd ast.Node) bool {
				call, ok := nd.(*ast.CallExpr)
				if !ok {
					return true
				}
				se, ok := call.Fun.(*ast.SelectorExpr)
				if !ok {
					return true
				}
				// receiver is an IR program
				rt := p.TypeOf(se.X)
				if rt == nil {
					return true
				}
				if pt, ok := rt.(*types.Pointer); ok {
					rt = pt.Elem()
				}
				nt, ok := rt.(*types.Named)
				if !ok || !(nt.Obj().Name() == "Program" || nt.Obj().Name() == "_Program") {
					return true
				}
				for _, a := range call.Args {
					ue, ok := ast.Unparen(a).(*ast.UnaryExpr)
					if !ok || ue.Op != token.AND {
						continue
					}
					n++
					cn := fn + "/" + se.Sel.Name + ":&" + exprStr(ue.X)
					c.Analysed(fn)
					// root of the addressed expression
					e := ue.X
					viaElem := false
					for {
						switch x := ast.Unparen(e).(type) {
						case *ast.SelectorExpr:
							if t := p.TypeOf(x.X); t != nil {
								if _, isPtr := t.Underlying().(*types.Pointer); isPtr {
									viaElem = true
								}
							}
							e = x.X
							continue
						case *ast.IndexExpr:
							if t := p.TypeOf(x.X); t != nil {
								if _, isSl := t.Underlying().(*types.Slice); isSl {
									viaElem = true
								}
							}
							e = x.X
							continue
						case *ast.StarExpr:
							viaElem = true
							e = x.X
							continue
						}
						break
					}
					id, _ := ast.Unparen(e).(*ast.Ident)
					v, _ := p.ObjectOf(id).(*types.Var)
					switch {
					case id == nil || v == nil:
						c.OK(cn, a.Pos(), "address of a non-variable expression")
					case v.Parent() == v.Pkg().Scope():
						c.OK(cn, a.Pos(), "address within package-level variable %s", v.Name())
					case viaElem:
						c.OK(cn, a.Pos(), "address of an element reached through slice/pointer %s (kept alive by its owner)", v.Name())
					default:
						c.Bad(cn, a.Pos(), "the instruction stores &%s, the address of the function-local variable %s: after the IR program is dropped only machine-code immediates refer to it, the GC frees and reuses the object, and the generated code reads stale memory (e.g. omitzero fields vanish after a GC cycle)", exprStr(ue.X), v.Name())
					}
				}
				return true
			})
		}
	}
	if n == 0 {
		c.Undecided("ir-pointer-operands", token.NoPos, "no `&X` pointer operand found at any IR emitter call")
	}
}

func runK9(c *core.Ctx) {
	p := c.Prog
	if p.GOARCH != "amd64" {
		return
	}
	for _, tg := range []struct{ rel, recv string }{
		{"internal/decoder/jitdec", "_Assembler"},
		{"internal/decoder/jitdec", "_ValueDecoder"},
		{"internal/encoder/x86", "Assembler"},
	} {
		pk := p.Pkg(tg.rel)
		cn := tg.rel + ".(" + tg.recv + ")/frame-pointer"
		if pk == nil {
			c.Undecided(cn, token.NoPos, "package not loaded")
			continue
		}
		em := emitModel{p}
		var save, lea, restore []Operand
		var sub []Operand
		var pos token.Pos
		// order of the epilogue: the saved BP is reloaded while SP still addresses the frame
		type fpEvent struct {
			kind string // restore | pop
			pos  token.Pos
		}
		events := map[*ast.FuncDecl][]fpEvent{}
		for _, fd := range core.FuncDecls(pk) {
			if fd.Body == nil || fd.Recv == nil || recvTypeName(fd) != tg.recv {
				continue
			}
			recv := recvObj(p, fd)
			ast.Inspect(fd.Body, func(nd ast.Node) bool {
				call, ok := nd.(*ast.CallExpr)
				if !ok {
					return true
				}
				op, isSelf := em.classify(call, recv)
				if !isSelf || op.Kind != "Emit" || len(op.Ops) != 2 {
					return true
				}
				a, b := op.Ops[0], op.Ops[1]
				switch {
				case op.Mnem == "MOVQ" && isReg(a, "BP") && b.Kind == "mem" && b.Reg == "SP":
					save = append(save, b)
					pos = call.Pos()
					c.Analysed(core.FuncName(pk, fd))
				case op.Mnem == "LEAQ" && isReg(b, "BP") && a.Kind == "mem" && a.Reg == "SP":
					lea = append(lea, a)
				case op.Mnem == "MOVQ" && isReg(b, "BP") && a.Kind == "mem" && a.Reg == "SP":
					restore = append(restore, a)
					events[fd] = append(events[fd], fpEvent{"restore", call.Pos()})
				case op.Mnem == "SUBQ" && isReg(b, "SP") && a.Kind == "imm":
					sub = append(sub, a)
				case op.Mnem == "ADDQ" && isReg(b, "SP") && a.Kind == "imm":
					events[fd] = append(events[fd], fpEvent{"pop", call.Pos()})
				}
				return true
			})
		}
		same := func(x, y Operand) bool {
			return x.DispOK && y.DispOK && x.Disp == y.Disp && exprStr(x.DispExp) == exprStr(y.DispExp)
		}
		var why []string
		if len(save) != 1 || len(lea) != 1 || len(restore) < 1 {
			why = append(why, "expected one save of BP, one LEAQ into BP and a restore (found "+itoa(len(save))+"/"+itoa(len(lea))+"/"+itoa(len(restore))+")")
		} else {
			if !same(save[0], lea[0]) {
				why = append(why, "BP is saved at "+save[0].String()+" ("+exprStr(save[0].DispExp)+") but then set to the address "+lea[0].String()+" ("+exprStr(lea[0].DispExp)+"): the frame-pointer chain does not lead to the saved BP, so the runtime's frame-pointer unwinder (block/mutex profiles, tracer) walks into garbage")
			}
			for _, r := range restore {
				if !same(save[0], r) {
					why = append(why, "BP is restored from "+r.String()+" but was saved at "+save[0].String())
				}
			}
			okSize := false
			for _, s := range sub {
				if s.ImmOK && save[0].DispOK && s.Imm == save[0].Disp+8 {
					okSize = true
				}
			}
			if !okSize {
				why = append(why, "no `SUBQ $size, SP` with size == saved-BP offset + 8")
			}
		}
		for _, evs := range events {
			sort.Slice(evs, func(i, j int) bool { return evs[i].pos < evs[j].pos })
			for i, e := range evs {
				if e.kind == "restore" && (i+1 >= len(evs) || evs[i+1].kind != "pop") {
					why = append(why, "the reload of BP at "+p.Pos(e.pos)+" is not followed by the `ADDQ $size, SP` that pops the frame")
				}
				if e.kind == "restore" && i > 0 && evs[i-1].kind == "pop" && (i+1 >= len(evs) || evs[i+1].kind != "pop") {
					why = append(why, "BP is reloaded at "+p.Pos(e.pos)+" after the frame was popped at "+p.Pos(evs[i-1].pos)+": d(SP) then addresses the caller's frame, BP is garbage until the caller returns and the runtime's frame-pointer unwinder (tracer, block/mutex profiles) follows a wild pointer")
				}
			}
		}
		if len(why) > 0 {
			c.Bad(cn, pos, "%s", strings.Join(why, "; "))
		} else {
			c.OK(cn, pos, "BP saved at, pointed to and restored from %s(SP) before the frame is popped; frame size = %d", exprStr(save[0].DispExp), save[0].Disp+8)
		}
	}
}

// K11: at every place where generated code is registered with the runtime (BaseAssembler.Load
// and loader.LoadOneItem literals), the argument pointer bitmap handed over describes exactly
// the argument area declared there: len(ArgPtrs) * 8 == ArgSize. Passing the bitmap of another
// frame family (the one-word map of the generic decoder for a typed decoder) hides argument
// slots from the garbage collector.

func init() {
	register(&core.Rule{ID: "K11", Min: 4,
		Doc: "Registration sites pass the bitmap of their own frame: for every `Load(name, frameSize, argSize, argPtrs, localPtrs)` call of the JIT assemblers and every loader.LoadOneItem literal (batch pretouch) in the encoder and decoder packages, the []bool passed as ArgPtrs resolves to a literal whose length times 8 equals the constant passed as the argument size.",
		Run: runK11})
}

func runK11(c *core.Ctx) {
	p := c.Prog
	if p.GOARCH != "amd64" {
		return
	}
	boolLitLen := func(e ast.Expr) (int, bool) {
		e = ast.Unparen(e)
		if o, ok := p.ExprObj(e).(*types.Var); ok && !o.IsField() {
			if init := p.VarInit(o); init != nil {
				e = ast.Unparen(init)
			}
		}
		if cl, ok := e.(*ast.CompositeLit); ok {
			return len(cl.Elts), true
		}
		return 0, false
	}
	n := 0
	for _, rel := range []string{"internal/decoder/jitdec", "internal/encoder", "internal/encoder/x86"} {
		pk := p.Pkg(rel)
		if pk == nil {
			continue
		}
		for _, fd := range core.FuncDecls(pk) {
			if fd.Body == nil || strings.HasSuffix(p.Fset.Position(fd.Pos()).Filename, "_test.go") {
				continue
			}
			fn := core.FuncName(pk, fd)
			k := 0
			check := func(pos token.Pos, size, ptrs ast.Expr, what string) {
				k++
				n++
				cn := fn + "/registration#" + itoa(k)
				c.Analysed(fn)
				sz, ok1 := p.ConstInt(size)
				ln, ok2 := boolLitLen(ptrs)
				switch {
				case !ok1 || !ok2:
					c.Undecided(cn, pos, "%s: argument size %s or bitmap %s not resolvable", what, exprStr(size), exprStr(ptrs))
				case int64(ln)*8 != sz:
					c.Bad(cn, pos, "%s registers an argument area of %d bytes (%s) with the pointer bitmap %s of %d word(s): the runtime is told about %d argument bytes only, so the remaining argument slots - which hold the only references to objects the generated code has allocated but not yet linked - are not GC roots", what, sz, exprStr(size), exprStr(ptrs), ln, ln*8)
				default:
					c.OK(cn, pos, "%s: %s covers %s (%d bytes)", what, exprStr(ptrs), exprStr(size), sz)
				}
			}
			ast.Inspect(fd.Body, func(nd ast.Node) bool {
				switch x := nd.(type) {
				case *ast.CallExpr:
					if se, ok := x.Fun.(*ast.SelectorExpr); ok && se.Sel.Name == "Load" && len(x.Args) == 5 {
						if _, isSl := p.TypeOf(x.Args[3]).Underlying().(*types.Slice); isSl {
							check(x.Pos(), x.Args[2], x.Args[3], "Load("+exprStr(x.Args[0])+")")
						}
					}
				case *ast.CompositeLit:
					if t := p.TypeOf(x); t != nil {
						if nt, ok := types.Unalias(t).(*types.Named); ok && nt.Obj().Name() == "LoadOneItem" {
							var size, ptrs ast.Expr
							for _, el := range x.Elts {
								if kv, ok := el.(*ast.KeyValueExpr); ok {
									switch exprStr(kv.Key) {
									case "ArgSize":
										size = kv.Value
									case "ArgPtrs":
										ptrs = kv.Value
									}
								}
							}
							if size != nil && ptrs != nil {
								check(x.Pos(), size, ptrs, "loader.LoadOneItem")
							}
						}
					}
				}
				return true
			})
		}
	}
	if n < 4 {
		c.Undecided("jit/registration-sites", token.NoPos, "only %d registration sites found", n)
	}
}

// K12: the decimal scratch buffer handed to the native number parser always has its full
// capacity. The slow path of the native float parser (taken when the fast algorithms cannot
// decide, e.g. exact ties) uses the buffer for the digits of intermediate shifts, not only for
// the literal's own digits; a smaller Dcap makes it round on a truncated value.

func init() {
	register(&core.Rule{ID: "K12", Min: 3,
		Doc: "Digit-buffer capacity: every Go assignment to types.JsonState.Dcap assigns a constant equal to types.MaxDigitNums (the size NewDbuf allocates), and the JIT prologues of both decoders store an immediate of that value into the Dcap slot (`MOVQ $_MaxDigitNums, st.Dc`); no site computes a smaller capacity from the input.",
		Run: runK12})
}

func runK12(c *core.Ctx) {
	p := c.Prog
	tp := p.Pkg("internal/native/types")
	max, _, ok := constInt(tp, "MaxDigitNums")
	if !ok {
		c.Undecided("types.MaxDigitNums", token.NoPos, "constant not found")
		return
	}
	n := 0
	for _, pk := range p.Pkgs {
		if !core.IsSonic(pk.Types) {
			continue
		}
		for _, fd := range core.FuncDecls(pk) {
			if fd.Body == nil || strings.HasSuffix(p.Fset.Position(fd.Pos()).Filename, "_test.go") {
				continue
			}
			fn := core.FuncName(pk, fd)
			k := 0
			ast.Inspect(fd.Body, func(nd ast.Node) bool {
				as, ok := nd.(*ast.AssignStmt)
				if !ok {
					return true
				}
				for i, l := range as.Lhs {
					se, ok := ast.Unparen(l).(*ast.SelectorExpr)
					if !ok || se.Sel.Name != "Dcap" {
						continue
					}
					n++
					k++
					cn := fn + "/Dcap#" + itoa(k)
					c.Analysed(fn)
					var rhs ast.Expr
					if i < len(as.Rhs) {
						rhs = as.Rhs[i]
					}
					if v, ok := p.ConstInt(rhs); ok && v == max && as.Tok == token.ASSIGN {
						c.OK(cn, as.Pos(), "Dcap = %d (types.MaxDigitNums)", v)
					} else {
						c.Bad(cn, as.Pos(), "%s sets the digit-buffer capacity to `%s` instead of the constant types.MaxDigitNums (%d): the native slow path of float parsing needs the whole buffer for intermediate digits, so exact-tie literals are rounded on a truncated value (1 ulp off strconv.ParseFloat)", fn, exprStr(rhs), max)
					}
				}
				return true
			})
		}
	}
	// JIT prologues
	if p.GOARCH == "amd64" {
		jd := p.Pkg("internal/decoder/jitdec")
		em := emitModel{p}
		for _, tg := range []struct{ recv, slot string }{{"_Assembler", "_VAR_st_Dc"}, {"_ValueDecoder", "_VAR_ss_Dc"}} {
			found := false
			for _, fd := range core.FuncDecls(jd) {
				if fd.Body == nil || recvTypeName(fd) != tg.recv {
					continue
				}
				recv := recvObj(p, fd)
				ast.Inspect(fd.Body, func(nd ast.Node) bool {
					call, ok := nd.(*ast.CallExpr)
					if !ok {
						return true
					}
					op, isSelf := em.classify(call, recv)
					if !isSelf || op.Kind != "Emit" || op.Mnem != "MOVQ" || len(op.Ops) != 2 || op.Ops[1].Name != tg.slot {
						return true
					}
					n++
					found = true
					cn := "jitdec.(" + tg.recv + ")/Dcap-immediate"
					c.Analysed(core.FuncName(jd, fd))
					if op.Ops[0].Kind == "imm" && op.Ops[0].ImmOK && op.Ops[0].Imm == max {
						c.OK(cn, call.Pos(), "MOVQ $%d, %s", max, tg.slot)
					} else {
						c.Bad(cn, call.Pos(), "the generated prologue stores %s into the Dcap slot, expected the immediate %d (types.MaxDigitNums)", op.Ops[0].String(), max)
					}
					return true
				})
			}
			if !found {
				c.Undecided("jitdec.("+tg.recv+")/Dcap-immediate", token.NoPos, "no store into %s found", tg.slot)
			}
		}
	}
	if n < 3 {
		c.Undecided("Dcap-sites", token.NoPos, "only %d Dcap sites found", n)
	}
}
