package rules

import (
	"fmt"
	"go/token"
	"sort"
	"strings"

	"verif/sa/core"
)

// A7: dimensional analysis of cursor arithmetic in the emitted decoder templates.
// Values are tracked as linear forms over symbols (initial registers, call results, loads).
// IP + s makes a pointer from a start offset s; IC - s is the length of the text between s
// and the cursor. IC + s - the sum of two offsets into the same text - has no meaning: used
// as a length it reaches s bytes past the cursor, i.e. past the end of what has been scanned.

func init() {
	register(&core.Rule{ID: "A7", Min: 6,
		Doc: "Offset arithmetic in the emitted decoder templates is dimensionally sound: abstract interpretation with linear forms over symbolic register values; whenever a template forms a pointer IP + s from a start offset s, no value of the form IC' + s (+const), with IC' a value of the cursor register, is computed in the same template - the text between s and the cursor has length IC' - s; the sum over-reads the input when used as a length - and every length IC' - s + c taken from a pointer IP + s + c0 ends at or before the cursor (c + c0 <= 0).",
		Run: runA7})
}

type lform struct {
	c    int64
	coef map[string]int64
}

func lconst(c int64) lform { return lform{c: c, coef: map[string]int64{}} }
func lsym(s string) lform  { return lform{coef: map[string]int64{s: 1}} }

func (a lform) add(b lform, k int64) lform {
	r := lform{c: a.c + k*b.c, coef: map[string]int64{}}
	for s, v := range a.coef {
		r.coef[s] = v
	}
	for s, v := range b.coef {
		r.coef[s] += k * v
		if r.coef[s] == 0 {
			delete(r.coef, s)
		}
	}
	return r
}

func (a lform) String() string {
	var ks []string
	for s := range a.coef {
		ks = append(ks, s)
	}
	sort.Strings(ks)
	var sb strings.Builder
	for _, s := range ks {
		fmt.Fprintf(&sb, "%+d*%s ", a.coef[s], s)
	}
	fmt.Fprintf(&sb, "%+d", a.c)
	return sb.String()
}

type lstate struct {
	reached bool
	regs    map[string]lform
}

func (s lstate) clone() lstate {
	n := lstate{reached: s.reached, regs: map[string]lform{}}
	for k, v := range s.regs {
		n.regs[k] = v
	}
	return n
}

// linFlow computes the forms at every op. IC names the cursor register.
func linFlow(g *seqCFG, IC string) []lstate {
	in := make([]lstate, len(g.ops)+1)
	get := func(st *lstate, site int, r string) lform {
		if f, ok := st.regs[r]; ok {
			return f
		}
		name := r + "@in"
		if r == IC {
			name = "IC@in"
		}
		f := lsym(name)
		st.regs[r] = f
		return f
	}
	fresh := func(site int, r string) lform {
		if r == IC {
			return lsym(fmt.Sprintf("IC@%d", site))
		}
		return lsym(fmt.Sprintf("%s@%d", r, site))
	}
	in[0] = lstate{reached: true, regs: map[string]lform{}}
	work := []int{0}
	meet := func(dst *lstate, src lstate, at int) bool {
		if !dst.reached {
			*dst = src.clone()
			return true
		}
		ch := false
		for r, f := range dst.regs {
			g2, ok := src.regs[r]
			phi := fmt.Sprintf("%s@phi%d", r, at)
			if r == IC {
				phi = fmt.Sprintf("IC@phi%d", at)
			}
			if !ok || g2.String() != f.String() {
				if f.String() != lsym(phi).String() {
					dst.regs[r] = lsym(phi)
					ch = true
				}
			}
		}
		for r := range src.regs {
			if _, ok := dst.regs[r]; !ok {
				phi := fmt.Sprintf("%s@phi%d", r, at)
				if r == IC {
					phi = fmt.Sprintf("IC@phi%d", at)
				}
				dst.regs[r] = lsym(phi)
				ch = true
			}
		}
		return ch
	}
	steps := 0
	for {
		if len(work) == 0 {
			for i, o := range g.ops {
				if o.Kind == "Link" && !in[i].reached {
					in[i] = lstate{reached: true, regs: map[string]lform{}}
					work = append(work, i)
					break
				}
			}
			if len(work) == 0 {
				break
			}
		}
		steps++
		if steps > 200000 {
			break
		}
		i := work[len(work)-1]
		work = work[:len(work)-1]
		if i >= len(g.ops) || !in[i].reached {
			continue
		}
		out := in[i].clone()
		linTransfer(&out, g.ops[i], i, IC, get, fresh)
		for _, s := range g.succ[i] {
			if meet(&in[s], out, s) {
				work = append(work, s)
			}
		}
		if g.ops[i].Kind == "Sjmp" {
			if t, ok := g.label[g.ops[i].Label]; ok && t == i+1 {
				if meet(&in[i+1], out, i+1) {
					work = append(work, i+1)
				}
			}
		}
	}
	return in
}

func linTransfer(st *lstate, o EmitOp, i int, IC string, get func(*lstate, int, string) lform, fresh func(int, string) lform) {
	switch o.Kind {
	case "Emit":
		if len(o.Ops) == 0 || nonWriting[o.Mnem] {
			return
		}
		dst := o.Ops[len(o.Ops)-1]
		if o.Mnem == "XCHGQ" && len(o.Ops) == 2 && o.Ops[0].Kind == "reg" && o.Ops[1].Kind == "reg" {
			a, b := get(st, i, o.Ops[0].Reg), get(st, i, o.Ops[1].Reg)
			st.regs[o.Ops[0].Reg], st.regs[o.Ops[1].Reg] = b, a
			return
		}
		if dst.Kind != "reg" {
			if o.Mnem == "XCHGQ" && o.Ops[0].Kind == "reg" {
				st.regs[o.Ops[0].Reg] = fresh(i, o.Ops[0].Reg)
			}
			return
		}
		src := o.Ops[0]
		val := func(x Operand) (lform, bool) {
			switch x.Kind {
			case "reg":
				return get(st, i, x.Reg), true
			case "imm":
				if x.ImmOK {
					return lconst(x.Imm), true
				}
			}
			return lform{}, false
		}
		switch {
		case o.Mnem == "MOVQ" && len(o.Ops) == 2:
			if v, ok := val(src); ok {
				st.regs[dst.Reg] = v
			} else {
				st.regs[dst.Reg] = fresh(i, dst.Reg)
			}
		case o.Mnem == "LEAQ" && len(o.Ops) == 2 && src.Kind == "mem" && src.DispOK && src.Reg != "" && src.Reg != "SP":
			f := get(st, i, src.Reg).add(lconst(src.Disp), 1)
			if src.Index != "" {
				// scale is not modelled by the operand: only scale 1 forms are produced by jit.Sib(_, _, 1, _);
				// other scales give a fresh value
				f = f.add(get(st, i, src.Index), 1)
			}
			st.regs[dst.Reg] = f
		case (o.Mnem == "ADDQ" || o.Mnem == "SUBQ") && len(o.Ops) == 2:
			if v, ok := val(src); ok {
				k := int64(1)
				if o.Mnem == "SUBQ" {
					k = -1
				}
				st.regs[dst.Reg] = get(st, i, dst.Reg).add(v, k)
			} else {
				st.regs[dst.Reg] = fresh(i, dst.Reg)
			}
		case o.Mnem == "NEGQ" && len(o.Ops) == 1:
			st.regs[dst.Reg] = lconst(0).add(get(st, i, dst.Reg), -1)
		default:
			st.regs[dst.Reg] = fresh(i, dst.Reg)
		}
	case "Helper":
		if o.Callee != nil {
			switch o.Callee.Name() {
			case "call_go", "call_c", "callc", "call_sf", "call_vf", "call", "Rjmp":
				for _, r := range []string{"AX", "BX"} {
					st.regs[r] = fresh(i, r)
				}
			}
		}
	}
}

func runA7(c *core.Ctx) {
	p := c.Prog
	if p.GOARCH != "amd64" {
		return
	}
	rel := "internal/decoder/jitdec"
	IC, IP := regOf(p, rel, "_IC"), regOf(p, rel, "_IP")
	if IC == "" || IP == "" {
		c.Undecided("jitdec/_IC,_IP", token.NoPos, "register variables not found")
		return
	}
	ptrSites := 0
	for _, tg := range []decTargets{{rel, "_Assembler", nil, 1}, {rel, "_ValueDecoder", map[string]bool{"compile": true}, 0}} {
		a := newAsmCtx(p, tg.rel, tg.recv)
		for _, fd := range sortedFuncDecls(a.methods()) {
			if tg.only != nil && !tg.only[fd.Name.Name] {
				continue
			}
			if tg.only == nil && !strings.HasPrefix(fd.Name.Name, "_asm_OP_") {
				continue
			}
			fn := handlerName(a.pk, fd)
			seqs, ok := a.seqs(fd, asmEnv{}, 0)
			if !ok {
				c.Undecided(fn+"/offsets", fd.Pos(), "cannot enumerate emitted sequences")
				continue
			}
			if anyTrunc(seqs) {
				c.Undecided(fn+"/offsets", fd.Pos(), "a helper could not be inlined within the path budget")
				continue
			}
			nptr, nlen := 0, 0
			bad := map[string]token.Pos{}
			for _, sq := range seqs {
				g := buildSeqCFG(sq.Ops)
				in := linFlow(g, IC)
				// start offsets: symbols s with a pointer IP + s formed in this template
				offs := map[string]bool{}
				offC := map[string]int64{} // largest constant c0 of a pointer IP + s + c0
				type cand struct {
					f   lform
					pos token.Pos
					txt string
					mk  bool
				}
				var cands []cand
				for i, o := range g.ops {
					if !in[i].reached || o.Kind != "Emit" || len(o.Ops) != 2 || o.Ops[1].Kind != "reg" {
						continue
					}
					if o.Mnem != "LEAQ" && o.Mnem != "ADDQ" && o.Mnem != "SUBQ" {
						continue
					}
					st := in[i].clone()
					get := func(s *lstate, _ int, r string) lform {
						if f, ok := s.regs[r]; ok {
							return f
						}
						if r == IC {
							return lsym("IC@in")
						}
						return lsym(r + "@in")
					}
					linTransfer(&st, o, i, IC, get, func(site int, r string) lform { return lsym(fmt.Sprintf("%s@%d", r, site)) })
					f := st.regs[o.Ops[1].Reg]
					if o.Mnem == "LEAQ" && o.Ops[0].Kind == "mem" && o.Ops[0].Reg == IP && o.Ops[0].Index != "" {
						nptr++
						for s, k := range f.coef {
							if k == 1 && !strings.HasPrefix(s, IP+"@") && !strings.HasPrefix(s, "IC@") {
								if !offs[s] || f.c > offC[s] {
									offC[s] = f.c
								}
								offs[s] = true
							}
						}
						continue
					}
					// a length is judged where the difference is formed (LEAQ d(IC)(-s) / SUBQ s, R);
					// later constant adjustments (allocation sizes, dropped quotes) derive other quantities
					creates := (o.Mnem == "LEAQ" && o.Ops[0].Kind == "mem" && o.Ops[0].Reg == IC) || (o.Mnem == "SUBQ" && o.Ops[0].Kind == "reg")
					cands = append(cands, cand{f, o.Pos, o.String(), creates})
				}
				for _, cd := range cands {
					hasIC := false
					for s, k := range cd.f.coef {
						if k > 0 && strings.HasPrefix(s, "IC@") {
							hasIC = true
						}
					}
					if !hasIC {
						continue
					}
					for s, k := range cd.f.coef {
						if k > 0 && offs[s] {
							bad[cd.txt+" = "+cd.f.String()+" adds a start offset to the cursor (the text between the offset and the cursor has length IC-s)"] = cd.pos
						}
						if k == -1 && cd.mk && offs[s] && len(cd.f.coef) == 2 && cd.f.c+offC[s] > 0 {
							nlen++
							bad[fmt.Sprintf("%s = %s is a length that, taken from the pointer IP+s%+d, ends %d byte(s) after the cursor", cd.txt, cd.f.String(), offC[s], cd.f.c+offC[s])] = cd.pos
						} else if k == -1 && cd.mk && offs[s] && len(cd.f.coef) == 2 {
							nlen++
						}
					}
				}
			}
			if nptr == 0 {
				continue
			}
			ptrSites++
			c.Analysed(fn)
			if len(bad) > 0 {
				var ks []string
				for k := range bad {
					ks = append(ks, k)
				}
				sort.Strings(ks)
				c.Bad(fn+"/offsets", bad[ks[0]], "%s: used as a string/slice length it reads past the end of the scanned input", ks[0])
			} else {
				c.OK(fn+"/offsets", fd.Pos(), "%d sequence(s), %d pointer formation(s) IP+s, %d length(s) IC-s+c ending at or before the cursor; no value IC+s computed", len(seqs), nptr, nlen)
			}
		}
	}
	if ptrSites < 6 {
		c.Undecided("jitdec/offsets", token.NoPos, "only %d handlers form pointers into the input", ptrSites)
	}
}
