package rules

import (
	"go/token"
	"sort"
	"strings"

	"verif/sa/core"
)

// A10: dead flag tests. CMP / TEST / BT / UCOMIS have no effect except on the condition
// flags. If another flag-writing instruction (XOR, ADD, SHL, ...) or a call comes before the
// first consumer (Jcc, SETcc, CMOVcc, ADC, SBB), the test is dead and the consumer reads the
// flags of the wrong instruction: `BTQ $bit, fv; XORL AX, AX; SETCC AX` always yields 1,
// because XOR clears the carry flag, so the option bit the BTQ examined has no effect.

func init() {
	register(&core.Rule{ID: "A10", Min: 60,
		Doc: "No dead flag test in generated code: in every emitted template of the three emitters (all methods, helpers inlined), each pure test instruction (CMPx, TESTx, BTx, UCOMISx) reaches, along the straight-line successor chain, a flag consumer (conditional Sjmp/Xjmp, SETcc, CMOVcc, ADC/SBB) before any other flag-writing instruction (arithmetic, logic, shifts, another test, a CALL) or the end of the template; a test whose flags are overwritten unread is reported with the overwriting instruction.",
		Run: runA10})
}

func isPureTest(m string) bool {
	return strings.HasPrefix(m, "CMP") && !strings.HasPrefix(m, "CMPXCHG") && !strings.HasPrefix(m, "CMOV") || strings.HasPrefix(m, "TEST") || m == "BTQ" || m == "BTL" || strings.HasPrefix(m, "UCOMIS") || strings.HasPrefix(m, "COMIS")
}

func consumesFlags(m string) bool {
	return strings.HasPrefix(m, "SET") || strings.HasPrefix(m, "CMOV") || strings.HasPrefix(m, "ADC") || strings.HasPrefix(m, "SBB")
}

func clobbersFlags(m string) bool {
	for _, p := range []string{"ADD", "SUB", "AND", "OR", "XOR", "NEG", "INC", "DEC", "SHL", "SHR", "SAR", "SAL", "ROL", "ROR", "IMUL", "MUL", "DIV", "IDIV", "BSF", "BSR", "POPCNT", "LZCNT", "TZCNT", "BTS", "BTR", "BTC", "XADD", "CMPXCHG"} {
		if strings.HasPrefix(m, p) {
			// SSE/AVX register forms (ANDPS, ORPS, XORPS, ADDSD, SUBSD, MULSD, ...) leave the flags alone
			rest := strings.TrimPrefix(m, p)
			if strings.HasPrefix(rest, "P") || strings.HasPrefix(rest, "S") && (strings.HasSuffix(m, "SD") || strings.HasSuffix(m, "SS")) || strings.HasPrefix(rest, "N") {
				return false
			}
			return true
		}
	}
	return false
}

func runA10(c *core.Ctx) {
	p := c.Prog
	if p.GOARCH != "amd64" {
		return
	}
	total := 0
	for _, tg := range []decTargets{
		{"internal/decoder/jitdec", "_Assembler", nil, 0},
		{"internal/decoder/jitdec", "_ValueDecoder", map[string]bool{"compile": true}, 0},
		{"internal/encoder/x86", "Assembler", nil, 0},
	} {
		a := newAsmCtx(p, tg.rel, tg.recv)
		for _, fd := range sortedFuncDecls(a.methods()) {
			if tg.only != nil && !tg.only[fd.Name.Name] {
				continue
			}
			np := fd.Type.Params.NumFields()
			if tg.only == nil && (np > 1 || (np == 1 && !strings.HasPrefix(fd.Name.Name, "_asm_OP_"))) {
				continue // helpers with operands are judged where they are inlined
			}
			seqs, ok := a.seqs(fd, asmEnv{}, 0)
			if !ok || anyTrunc(seqs) {
				continue
			}
			fn := handlerName(a.pk, fd)
			ntests := 0
			bad := map[string]token.Pos{}
			for _, sq := range seqs {
				ops := realOps(sq.Ops)
				for i, o := range ops {
					if o.Kind != "Emit" || !isPureTest(o.Mnem) {
						continue
					}
					ntests++
					for j := i + 1; j <= len(ops); j++ {
						if j == len(ops) {
							break // falls off the template: the next handler may not rely on it, but nothing overwrote it
						}
						q := ops[j]
						if q.Kind == "Sjmp" || q.Kind == "Xjmp" {
							if q.Mnem != "JMP" {
								break // consumed
							}
							break // unconditional jump: leaves the straight line
						}
						if q.Kind == "CALL" {
							bad[o.String()+" is followed by a CALL before any instruction reads its flags"] = o.Pos
							break
						}
						if q.Kind == "Link" {
							break // a join: flags may be read by code reached from elsewhere as well
						}
						if q.Kind != "Emit" {
							continue
						}
						if consumesFlags(q.Mnem) {
							break
						}
						if isPureTest(q.Mnem) || clobbersFlags(q.Mnem) {
							bad["the flags of `"+o.String()+"` are overwritten by `"+q.String()+"` ("+p.Pos(q.Pos)+") before any instruction reads them: the consumer that follows sees the result of the latter, so the tested condition has no effect"] = o.Pos
							break
						}
						if q.Mnem == "RET" || q.Mnem == "UD2" {
							break
						}
					}
				}
			}
			if ntests == 0 {
				continue
			}
			total += ntests
			c.Analysed(fn)
			cn := fn + "/flag-tests"
			if len(bad) == 0 {
				c.OK(cn, fd.Pos(), "%d flag test(s), each read before the flags are written again", ntests)
				continue
			}
			var ks []string
			for k := range bad {
				ks = append(ks, k)
			}
			sort.Strings(ks)
			c.Bad(cn, bad[ks[0]], "%s", strings.Join(ks, "; "))
		}
	}
	if total < 100 {
		c.Undecided("jit/flag-tests", token.NoPos, "only %d flag tests found", total)
	}
}
