package rules

import (
	"go/ast"
	"go/token"
	"go/types"
	"strconv"
	"strings"

	"verif/sa/core"
)

// U2: ast containers have two lengths. linkedNodes/linkedPairs hold physical slots (Len()/size),
// some of which may be soft-deleted; Node.len()/Node.l/Node.Len() is the logical child count.
// At(i) takes a physical slot number. A loop that feeds its induction variable to X.At must
// therefore take its bound from the same container (X.Len(), X.size, or a local defined from
// them), never from the logical count of the node.

func init() {
	register(&core.Rule{ID: "U2", Min: 8,
		Doc: "Index-domain rule for the ast containers: every loop in package ast whose induction variable is passed to linkedNodes.At / linkedPairs.At takes its bound from the same container's physical slot count (X.Len(), X.size, or a local defined from one of them); a bound derived from the node's logical child count (Node.len(), Node.Len(), Node.l, Node.Cap) is a violation because soft-deleted slots make the two differ.",
		Run: runU2})
}

func runU2(c *core.Ctx) {
	p := c.Prog
	pk := p.Pkg("ast")
	if pk == nil {
		c.Undecided("ast", token.NoPos, "package ast not loaded")
		return
	}
	isContainer := func(t types.Type) bool {
		if pt, ok := t.(*types.Pointer); ok {
			t = pt.Elem()
		}
		nt, ok := t.(*types.Named)
		return ok && nt.Obj().Pkg() != nil && core.Rel(nt.Obj().Pkg().Path()) == "ast" && (nt.Obj().Name() == "linkedNodes" || nt.Obj().Name() == "linkedPairs")
	}
	isNode := func(t types.Type) bool {
		if t == nil {
			return false
		}
		if pt, ok := t.(*types.Pointer); ok {
			t = pt.Elem()
		}
		nt, ok := t.(*types.Named)
		return ok && nt.Obj().Pkg() != nil && core.Rel(nt.Obj().Pkg().Path()) == "ast" && nt.Obj().Name() == "Node"
	}
	for _, fd := range core.FuncDecls(pk) {
		if fd.Body == nil || strings.HasSuffix(p.Fset.Position(fd.Pos()).Filename, "_test.go") {
			continue
		}
		fname := core.FuncName(pk, fd)
		ord := map[string]int{}
		// single-definition locals: name -> defining expression
		defs := map[types.Object]ast.Expr{}
		multi := map[types.Object]bool{}
		ast.Inspect(fd.Body, func(n ast.Node) bool {
			if as, ok := n.(*ast.AssignStmt); ok && len(as.Lhs) == len(as.Rhs) {
				for i, l := range as.Lhs {
					if o := p.ExprObj(l); o != nil {
						if _, dup := defs[o]; dup || as.Tok != token.DEFINE {
							multi[o] = true
						}
						defs[o] = as.Rhs[i]
					}
				}
			}
			return true
		})
		resolve := func(e ast.Expr) ast.Expr {
			for k := 0; k < 4; k++ {
				e = ast.Unparen(e)
				id, ok := e.(*ast.Ident)
				if !ok {
					return e
				}
				o := p.ExprObj(id)
				d, ok := defs[o]
				if !ok || multi[o] {
					return e
				}
				e = d
			}
			return e
		}
		// classify a bound expression relative to container text X
		classify := func(e ast.Expr, x string) (string, string) {
			e = resolve(e)
			// strip +-constant
			if be, ok := e.(*ast.BinaryExpr); ok && (be.Op == token.SUB || be.Op == token.ADD) {
				if _, isConst := p.ConstInt(be.Y); isConst {
					e = resolve(be.X)
				}
			}
			logical := ""
			ast.Inspect(e, func(n ast.Node) bool {
				switch v := n.(type) {
				case *ast.CallExpr:
					if se, ok := v.Fun.(*ast.SelectorExpr); ok && isNode(p.TypeOf(se.X)) {
						switch se.Sel.Name {
						case "len", "Len", "Cap":
							logical = exprStr(v)
						}
					}
				case *ast.SelectorExpr:
					if v.Sel.Name == "l" && isNode(p.TypeOf(v.X)) {
						logical = exprStr(v)
					}
				}
				return true
			})
			if logical != "" {
				return "logical", logical
			}
			switch v := e.(type) {
			case *ast.CallExpr:
				if se, ok := v.Fun.(*ast.SelectorExpr); ok && se.Sel.Name == "Len" && exprStr(se.X) == x {
					return "physical", exprStr(e)
				}
			case *ast.SelectorExpr:
				if v.Sel.Name == "size" && exprStr(v.X) == x {
					return "physical", exprStr(e)
				}
			}
			return "other", exprStr(e)
		}
		ast.Inspect(fd.Body, func(n ast.Node) bool {
			fs, ok := n.(*ast.ForStmt)
			if !ok || fs.Init == nil || fs.Cond == nil {
				return true
			}
			as, ok := fs.Init.(*ast.AssignStmt)
			if !ok || as.Tok != token.DEFINE || len(as.Lhs) == 0 {
				return true
			}
			iv := p.ExprObj(as.Lhs[len(as.Lhs)-1])
			// which variable does the condition test?
			be, ok := ast.Unparen(fs.Cond).(*ast.BinaryExpr)
			if !ok {
				return true
			}
			var bound ast.Expr
			var ivar types.Object
			for i, l := range as.Lhs {
				o := p.ExprObj(l)
				if o != nil && p.ExprObj(be.X) == o {
					ivar = o
					switch be.Op {
					case token.LSS, token.LEQ:
						bound = be.Y
					case token.GEQ, token.GTR:
						if i < len(as.Rhs) {
							bound = as.Rhs[i] // descending loop: the start value is the bound
						}
					}
				}
			}
			_ = iv
			if ivar == nil || bound == nil {
				return true
			}
			// At(ivar) calls on containers in the body (not in nested loops over another variable: still counted)
			seen := map[string]bool{}
			ast.Inspect(fs.Body, func(m ast.Node) bool {
				call, ok := m.(*ast.CallExpr)
				if !ok || len(call.Args) != 1 {
					return true
				}
				se, ok := call.Fun.(*ast.SelectorExpr)
				if !ok || se.Sel.Name != "At" || !isContainer(p.TypeOf(se.X)) {
					return true
				}
				if p.ExprObj(call.Args[0]) != ivar {
					return true
				}
				x := exprStr(se.X)
				if seen[x] {
					return true
				}
				seen[x] = true
				cn := fname + ":for " + ivar.Name() + " over " + x
				ord[cn]++
				if ord[cn] > 1 {
					cn += "#" + strconv.Itoa(ord[cn])
				}
				c.Analysed(fname)
				switch kind, txt := classify(bound, x); kind {
				case "physical":
					c.OK(cn, fs.Pos(), "slot loop bounded by %s", txt)
				case "logical":
					c.Bad(cn, fs.Pos(), "loop passes %s to %s.At (a physical slot number) but takes its bound from the logical child count %s; with soft-deleted slots the two differ", ivar.Name(), x, txt)
				default:
					c.OK(cn, fs.Pos(), "slot loop bounded by %s (not a node length)", txt)
				}
				return true
			})
			return true
		})
	}
}
