package rules

import (
	"go/ast"
	"go/token"
	"go/types"
	"strconv"
	"strings"

	"verif/sa/core"
)

// U2: ast containers have two lengths. linkedNodes/linkedPairs hold physical slots (Len()/size),
// some of which may be soft-deleted; Node.len()/Node.l/Node.Len() is the logical child count.
// At(i) takes a physical slot number. A loop that feeds its induction variable to X.At must
// therefore take its bound from the same container (X.Len(), X.size, or a local defined from
// them), never from the logical count of the node.

func init() {
	register(&core.Rule{ID: "U2", Min: 8,
		Doc: "Index-domain rule for the ast containers: every loop in package ast whose induction variable is passed to linkedNodes.At / linkedPairs.At takes its bound from the same container's physical slot count (X.Len(), X.size, or a local defined from one of them); a bound derived from the node's logical child count (Node.len(), Node.Len(), Node.l, Node.Cap) is a violation because soft-deleted slots make the two differ.",
		Run: runU2})
}

func runU2(c *core.Ctx) {
	p := c.Prog
	pk := p.Pkg("ast")
	if pk == nil {
		c.Undecided("ast", token.NoPos, "package ast not loaded")
		return
	}
	isContainer := func(t types.Type) bool {
		if pt, ok := t.(*types.Pointer); ok {
			t = pt.Elem()
		}
		nt, ok := t.(*types.Named)
		return ok && nt.Obj().Pkg() != nil && core.Rel(nt.Obj().Pkg().Path()) == "ast" && (nt.Obj().Name() == "linkedNodes" || nt.Obj().Name() == "linkedPairs")
	}
	isNode := func(t types.Type) bool {
		if t == nil {
			return false
		}
		if pt, ok := t.(*types.Pointer); ok {
			t = pt.Elem()
		}
		nt, ok := t.(*types.Named)
		return ok && nt.Obj().Pkg() != nil && core.Rel(nt.Obj().Pkg().Path()) == "ast" && nt.Obj().Name() == "Node"
	}
	for _, fd := range core.FuncDecls(pk) {
		if fd.Body == nil || strings.HasSuffix(p.Fset.Position(fd.Pos()).Filename, "_test.go") {
			continue
		}
		fname := core.FuncName(pk, fd)
		ord := map[string]int{}
		// single-definition locals: name -> defining expression
		defs := map[types.Object]ast.Expr{}
		multi := map[types.Object]bool{}
		ast.Inspect(fd.Body, func(n ast.Node) bool {
			if as, ok := n.(*ast.AssignStmt); ok && len(as.Lhs) == len(as.Rhs) {
				for i, l := range as.Lhs {
					if o := p.ExprObj(l); o != nil {
						if _, dup := defs[o]; dup || as.Tok != token.DEFINE {
							multi[o] = true
						}
						defs[o] = as.Rhs[i]
					}
				}
			}
			return true
		})
		resolve := func(e ast.Expr) ast.Expr {
			for k := 0; k < 4; k++ {
				e = ast.Unparen(e)
				id, ok := e.(*ast.Ident)
				if !ok {
					return e
				}
				o := p.ExprObj(id)
				d, ok := defs[o]
				if !ok || multi[o] {
					return e
				}
				e = d
			}
			return e
		}
		// classify a bound expression relative to container text X
		classify := func(e ast.Expr, x string) (string, string) {
			e = resolve(e)
			// strip +-constant
			if be, ok := e.(*ast.BinaryExpr); ok && (be.Op == token.SUB || be.Op == token.ADD) {
				if _, isConst := p.ConstInt(be.Y); isConst {
					e = resolve(be.X)
				}
			}
			logical := ""
			ast.Inspect(e, func(n ast.Node) bool {
				switch v := n.(type) {
				case *ast.CallExpr:
					if se, ok := v.Fun.(*ast.SelectorExpr); ok && isNode(p.TypeOf(se.X)) {
						switch se.Sel.Name {
						case "len", "Len", "Cap":
							logical = exprStr(v)
						}
					}
				case *ast.SelectorExpr:
					if v.Sel.Name == "l" && isNode(p.TypeOf(v.X)) {
						logical = exprStr(v)
					}
				}
				return true
			})
			if logical != "" {
				return "logical", logical
			}
			switch v := e.(type) {
			case *ast.CallExpr:
				if se, ok := v.Fun.(*ast.SelectorExpr); ok && se.Sel.Name == "Len" && exprStr(se.X) == x {
					return "physical", exprStr(e)
				}
			case *ast.SelectorExpr:
				if v.Sel.Name == "size" && exprStr(v.X) == x {
					return "physical", exprStr(e)
				}
			}
			return "other", exprStr(e)
		}
		ast.Inspect(fd.Body, func(n ast.Node) bool {
			fs, ok := n.(*ast.ForStmt)
			if !ok || fs.Init == nil || fs.Cond == nil {
				return true
			}
			as, ok := fs.Init.(*ast.AssignStmt)
			if !ok || as.Tok != token.DEFINE || len(as.Lhs) == 0 {
				return true
			}
			iv := p.ExprObj(as.Lhs[len(as.Lhs)-1])
			// which variable does the condition test?
			be, ok := ast.Unparen(fs.Cond).(*ast.BinaryExpr)
			if !ok {
				return true
			}
			var bound ast.Expr
			var ivar types.Object
			for i, l := range as.Lhs {
				o := p.ExprObj(l)
				if o != nil && p.ExprObj(be.X) == o {
					ivar = o
					switch be.Op {
					case token.LSS, token.LEQ:
						bound = be.Y
					case token.GEQ, token.GTR:
						if i < len(as.Rhs) {
							bound = as.Rhs[i] // descending loop: the start value is the bound
						}
					}
				}
			}
			_ = iv
			if ivar == nil || bound == nil {
				return true
			}
			// At(ivar) calls on containers in the body (not in nested loops over another variable: still counted)
			seen := map[string]bool{}
			ast.Inspect(fs.Body, func(m ast.Node) bool {
				call, ok := m.(*ast.CallExpr)
				if !ok || len(call.Args) != 1 {
					return true
				}
				se, ok := call.Fun.(*ast.SelectorExpr)
				if !ok || se.Sel.Name != "At" || !isContainer(p.TypeOf(se.X)) {
					return true
				}
				if p.ExprObj(call.Args[0]) != ivar {
					return true
				}
				x := exprStr(se.X)
				if seen[x] {
					return true
				}
				seen[x] = true
				cn := fname + ":for " + ivar.Name() + " over " + x
				ord[cn]++
				if ord[cn] > 1 {
					cn += "#" + strconv.Itoa(ord[cn])
				}
				c.Analysed(fname)
				switch kind, txt := classify(bound, x); kind {
				case "physical":
					c.OK(cn, fs.Pos(), "slot loop bounded by %s", txt)
				case "logical":
					c.Bad(cn, fs.Pos(), "loop passes %s to %s.At (a physical slot number) but takes its bound from the logical child count %s; with soft-deleted slots the two differ", ivar.Name(), x, txt)
				default:
					c.OK(cn, fs.Pos(), "slot loop bounded by %s (not a node length)", txt)
				}
				return true
			})
			return true
		})
	}
}

// U3: one index, one domain. Node-level operations take logical child indexes (soft-deleted
// slots skipped: nodeAt/pairAt translate them); linkedNodes/linkedPairs methods take physical
// slot numbers. A Node method that hands the same parameter both to a logical consumer and to
// a physical-slot method, without the guard that the two lengths are equal, mixes the domains.

func init() {
	register(&core.Rule{ID: "U3", Min: 6,
		Doc: "Index domains in package ast: int parameters of ast.Node methods that reach nodeAt/pairAt (directly or through other Node methods, fixpoint) are logical child indexes; such a parameter is passed to a physical-slot method of linkedNodes/linkedPairs (At, Unset, Set, MoveOne, Swap, ...) only in functions that compare the container's Len() with the node's len() (the no-holes guard / translation loop). Otherwise the wrong slot is touched once a soft-deleted slot precedes the target.",
		Run: runU3})
}

func runU3(c *core.Ctx) {
	p := c.Prog
	pk := p.Pkg("ast")
	if pk == nil {
		c.Undecided("ast", token.NoPos, "package not loaded")
		return
	}
	named := func(t types.Type, name string) bool {
		if t == nil {
			return false
		}
		if pt, ok := t.(*types.Pointer); ok {
			t = pt.Elem()
		}
		nt, ok := t.(*types.Named)
		return ok && nt.Obj().Pkg() != nil && core.Rel(nt.Obj().Pkg().Path()) == "ast" && nt.Obj().Name() == name
	}
	isContainer := func(t types.Type) bool { return named(t, "linkedNodes") || named(t, "linkedPairs") }
	type key struct {
		fn  types.Object
		idx int
	}
	logical := map[key]bool{}
	var methods []*ast.FuncDecl
	for _, fd := range core.FuncDecls(pk) {
		if fd.Body == nil || core.RecvName(fd) != "Node" || strings.HasSuffix(p.Fset.Position(fd.Pos()).Filename, "_test.go") {
			continue
		}
		methods = append(methods, fd)
		if fd.Name.Name == "nodeAt" || fd.Name.Name == "pairAt" {
			logical[key{p.ObjectOf(fd.Name), 0}] = true
		}
	}
	params := func(fd *ast.FuncDecl) []types.Object {
		var out []types.Object
		for _, f := range fd.Type.Params.List {
			for _, nm := range f.Names {
				out = append(out, p.ObjectOf(nm))
			}
		}
		return out
	}
	// fixpoint: a parameter passed (as a bare identifier) to a logical parameter is logical
	for changed := true; changed; {
		changed = false
		for _, fd := range methods {
			ps := params(fd)
			ast.Inspect(fd.Body, func(n ast.Node) bool {
				call, ok := n.(*ast.CallExpr)
				if !ok {
					return true
				}
				callee := p.Callee(call)
				if callee == nil {
					return true
				}
				for ai, a := range call.Args {
					id, ok := ast.Unparen(a).(*ast.Ident)
					if !ok || !logical[key{callee, ai}] {
						continue
					}
					for pi, po := range ps {
						if p.ObjectOf(id) == po && !logical[key{p.ObjectOf(fd.Name), pi}] {
							logical[key{p.ObjectOf(fd.Name), pi}] = true
							changed = true
						}
					}
				}
				return true
			})
		}
	}
	for _, fd := range methods {
		ps := params(fd)
		fn := core.FuncName(pk, fd)
		// guard: a comparison of container.Len() with node.len()
		lenOf := func(e ast.Expr) string {
			e = ast.Unparen(e)
			if id, ok := e.(*ast.Ident); ok {
				// local defined once from a call
				var def ast.Expr
				ast.Inspect(fd.Body, func(n ast.Node) bool {
					if as, ok := n.(*ast.AssignStmt); ok && len(as.Lhs) == 1 && len(as.Rhs) == 1 {
						if l, ok := as.Lhs[0].(*ast.Ident); ok && p.ObjectOf(l) == p.ObjectOf(id) {
							def = as.Rhs[0]
						}
					}
					return true
				})
				if def != nil {
					e = ast.Unparen(def)
				}
			}
			call, ok := e.(*ast.CallExpr)
			if !ok {
				return ""
			}
			se, ok := call.Fun.(*ast.SelectorExpr)
			if !ok {
				return ""
			}
			t := p.TypeOf(se.X)
			switch {
			case se.Sel.Name == "Len" && isContainer(t):
				return "physical"
			case (se.Sel.Name == "len" || se.Sel.Name == "Len") && named(t, "Node"):
				return "logical"
			}
			return ""
		}
		guarded := false
		ast.Inspect(fd.Body, func(n ast.Node) bool {
			be, ok := n.(*ast.BinaryExpr)
			if !ok || (be.Op != token.NEQ && be.Op != token.EQL) {
				return true
			}
			a, b := lenOf(be.X), lenOf(be.Y)
			if (a == "physical" && b == "logical") || (a == "logical" && b == "physical") {
				guarded = true
			}
			return true
		})
		for pi, po := range ps {
			if !logical[key{p.ObjectOf(fd.Name), pi}] {
				continue
			}
			// physical uses of this parameter
			var phys []string
			var ppos token.Pos
			ast.Inspect(fd.Body, func(n ast.Node) bool {
				call, ok := n.(*ast.CallExpr)
				if !ok {
					return true
				}
				se, ok := call.Fun.(*ast.SelectorExpr)
				if !ok || !isContainer(p.TypeOf(se.X)) {
					return true
				}
				for _, a := range call.Args {
					if id, ok := ast.Unparen(a).(*ast.Ident); ok && p.ObjectOf(id) == po {
						phys = append(phys, exprStr(se.X)+"."+se.Sel.Name)
						ppos = call.Pos()
					}
				}
				return true
			})
			cn := fn + "/index-domain:" + po.Name()
			c.Analysed(fn)
			switch {
			case len(phys) == 0:
				c.OK(cn, fd.Pos(), "logical index, never used as a slot number")
			case guarded:
				c.OK(cn, fd.Pos(), "logical index used as a slot number (%s) under the lengths-equal guard / translation", strings.Join(phys, ", "))
			default:
				c.Bad(cn, ppos, "parameter %s is a logical child index (it reaches nodeAt/pairAt) but is also passed to %s, which takes a physical slot number, and the function never compares the container's Len() with the node's len(): once a soft-deleted slot precedes the target, a different member is touched", po.Name(), strings.Join(phys, ", "))
			}
		}
	}
}

// S15: sorting an object keeps the duplicate-key policy. Equal keys must keep their relative
// order (stable sort), and because Swap re-points the hash index at whichever duplicate moved
// last, the index has to be rebuilt (first occurrence wins) after sorting.

func init() {
	register(&core.Rule{ID: "S15", Min: 2,
		Doc: "Sorting preserves the first-wins policy for duplicated keys: ast.linkedPairs.Sort sorts with sort.Stable (sort.Sort is not stable beyond 12 elements), and after the sort it clears and rebuilds the key index (BuildIndex, which keeps the first occurrence) whenever an index exists, because Swap overwrites the index entry of a duplicated key with the pair that moved last.",
		Run: runS15})
}

func runS15(c *core.Ctx) {
	p := c.Prog
	pk := p.Pkg("ast")
	fd := core.FuncDecl(pk, "linkedPairs", "Sort")
	if fd == nil || fd.Body == nil {
		c.Undecided("ast.(linkedPairs).Sort", token.NoPos, "not found")
		return
	}
	c.Analysed("ast.(linkedPairs).Sort")
	var sortPos, buildPos token.Pos
	sortName := ""
	ast.Inspect(fd.Body, func(n ast.Node) bool {
		call, ok := n.(*ast.CallExpr)
		if !ok {
			return true
		}
		if o := p.Callee(call); o != nil {
			if o.Pkg() != nil && o.Pkg().Path() == "sort" && !sortPos.IsValid() {
				sortPos, sortName = call.Pos(), o.Name()
			}
			if o.Name() == "BuildIndex" && o.Pkg() != nil && core.Rel(o.Pkg().Path()) == "ast" {
				buildPos = call.Pos()
			}
		}
		return true
	})
	c.Check(sortName == "Stable", "ast.(linkedPairs).Sort/stable", fd.Pos(), "sorts with sort.Stable", "Sort uses sort."+sortName+" instead of sort.Stable: pairs with equal keys may be reordered (objects with more than 12 pairs), so Get, Index, iteration and MarshalJSON disagree with the order-preserving model")
	c.Check(buildPos.IsValid() && buildPos > sortPos, "ast.(linkedPairs).Sort/index-rebuilt", fd.Pos(), "index rebuilt (first occurrence wins) after the sort", "Sort does not rebuild the key index after sorting: Swap leaves the entry of a duplicated key pointing at the pair that moved last, so Get returns the later duplicate once the object has an index (more than 16 pairs)")
}

// S8c: clearing or replacing a whole Pair through a pointer outside the container's own
// methods must keep the key index in step (delete the old hash, or go through
// linkedPairs.Unset/Set). E5: the stream decoder advances its cursor by what the inner decoder
// consumed.

func init() {
	register(&core.Rule{ID: "S8c", Min: 1,
		Doc: "Index maintenance outside the container: in ast.Node methods, every store of a whole Pair through a pointer (`*p = Pair{...}`) is accompanied in the same function by the removal of the old key from the hash index (`delete(<pairs>.index, p.hash)`) - or the function uses linkedPairs.Unset/Set instead; a cleared slot whose key stays in the index makes Get chase a stale slot number (nil dereference after Pop).",
		Run: runS8c})
	register(&core.Rule{ID: "E5", Min: 1,
		Doc: "Stream framing follows the decoder: in StreamDecoder.Decode the cursor scanp is advanced using the inner decoder's position (Decoder.Pos()) after a successful decode, not only the end of the span the fast skipper framed - the skipper may frame several whitespace-separated scalars as one span, and advancing by the span drops the values after the first.",
		Run: runE5})
}

func runS8c(c *core.Ctx) {
	p := c.Prog
	pk := p.Pkg("ast")
	pairObj := core.Obj(pk, "Pair")
	if pk == nil || pairObj == nil {
		c.Undecided("ast.Pair", token.NoPos, "not found")
		return
	}
	n := 0
	for _, fd := range core.FuncDecls(pk) {
		if fd.Body == nil || core.RecvName(fd) != "Node" || strings.HasSuffix(p.Fset.Position(fd.Pos()).Filename, "_test.go") {
			continue
		}
		fn := core.FuncName(pk, fd)
		var stores []token.Pos
		deletes := false
		ast.Inspect(fd.Body, func(nd ast.Node) bool {
			switch x := nd.(type) {
			case *ast.AssignStmt:
				for _, l := range x.Lhs {
					st, ok := ast.Unparen(l).(*ast.StarExpr)
					if !ok {
						continue
					}
					t := p.TypeOf(st.X)
					pt, ok := t.(*types.Pointer)
					if !ok {
						continue
					}
					if nt, ok := types.Unalias(pt.Elem()).(*types.Named); ok && nt.Obj() == pairObj {
						stores = append(stores, x.Pos())
					}
				}
			case *ast.CallExpr:
				if id, ok := x.Fun.(*ast.Ident); ok && id.Name == "delete" && len(x.Args) == 2 && strings.HasSuffix(exprStr(x.Args[0]), ".index") {
					deletes = true
				}
			}
			return true
		})
		for i, pos := range stores {
			n++
			cn := fn + "/pair-store#" + itoa(i+1)
			c.Analysed(fn)
			if deletes {
				c.OK(cn, pos, "whole-pair store with the old key removed from the index")
			} else {
				c.Bad(cn, pos, "%s overwrites a whole Pair through a pointer but never removes the old key from the hash index: for objects with more than 16 members the index keeps pointing at the cleared slot, and after the slot range shrinks (Pop) Get(key) dereferences nil", fn)
			}
		}
	}
	if n == 0 {
		c.OK("ast.(Node)/pair-stores", pairObj.Pos(), "no whole-pair store outside the container methods")
	}
}

func runE5(c *core.Ctx) {
	p := c.Prog
	pk := p.Pkg("internal/decoder/api")
	fd := core.FuncDecl(pk, "StreamDecoder", "Decode")
	cn := "internal/decoder/api.(StreamDecoder).Decode/advance"
	if fd == nil || fd.Body == nil {
		c.Undecided(cn, token.NoPos, "not found")
		return
	}
	c.Analysed(core.FuncName(pk, fd))
	// position of the inner Decode call, of a Pos() call after it, and of the scanp assignment
	var decPos, posPos, setPos token.Pos
	ast.Inspect(fd.Body, func(n ast.Node) bool {
		switch x := n.(type) {
		case *ast.CallExpr:
			if se, ok := x.Fun.(*ast.SelectorExpr); ok {
				if se.Sel.Name == "Decode" && strings.HasSuffix(exprStr(se.X), ".Decoder") && !decPos.IsValid() {
					decPos = x.Pos()
				}
				if se.Sel.Name == "Pos" && strings.HasSuffix(exprStr(se.X), ".Decoder") && decPos.IsValid() && !posPos.IsValid() {
					posPos = x.Pos()
				}
			}
		case *ast.AssignStmt:
			for _, l := range x.Lhs {
				if se, ok := ast.Unparen(l).(*ast.SelectorExpr); ok && se.Sel.Name == "scanp" && decPos.IsValid() && x.Pos() > decPos && !setPos.IsValid() {
					setPos = x.Pos()
				}
			}
		}
		return true
	})
	switch {
	case !decPos.IsValid() || !setPos.IsValid():
		c.Undecided(cn, fd.Pos(), "inner Decode call or scanp update not found")
	case posPos.IsValid() && posPos < setPos:
		c.OK(cn, setPos, "scanp is set after consulting Decoder.Pos()")
	default:
		c.Bad(cn, setPos, "after the inner decode the cursor is moved to the end of the skipped span without consulting the decoder's own position: when the fast skipper frames `1 2 3` as one span only the first value is returned and the rest of the span is dropped (the stream then ends with a clean io.EOF)")
	}
}

// U4: chunk arithmetic takes an index, not a count. The chunked containers map a slot number i
// to (chunk i/CAP-1, offset i%CAP). The same arithmetic applied to a count (size, len) is off
// by one exactly when the count is a multiple of the chunk size: size%CAP is 0 for a full last
// chunk.

func init() {
	register(&core.Rule{ID: "U4", Min: 6,
		Doc: "Chunk arithmetic in package ast is applied to indexes only: every `X % _DEFAULT_NODE_CAP` and `X / _DEFAULT_NODE_CAP` has an index as X (an identifier bound to a slot number), never a count (`.size`, `len(...)`, `.Len()`, `.Cap()`): a count modulo the chunk size is 0 for a completely filled last chunk, so the last 16 slots of objects with 32, 48, ... members are skipped.",
		Run: runU4})
}

func runU4(c *core.Ctx) {
	p := c.Prog
	pk := p.Pkg("ast")
	if pk == nil {
		c.Undecided("ast", token.NoPos, "package not loaded")
		return
	}
	n := 0
	for _, fd := range core.FuncDecls(pk) {
		if fd.Body == nil || strings.HasSuffix(p.Fset.Position(fd.Pos()).Filename, "_test.go") {
			continue
		}
		fn := core.FuncName(pk, fd)
		k := 0
		ast.Inspect(fd.Body, func(nd ast.Node) bool {
			be, ok := nd.(*ast.BinaryExpr)
			if !ok || (be.Op != token.REM && be.Op != token.QUO) {
				return true
			}
			if o, ok := p.ExprObj(be.Y).(*types.Const); !ok || o.Name() != "_DEFAULT_NODE_CAP" {
				return true
			}
			n++
			k++
			cn := fn + "/chunk-arith#" + itoa(k)
			c.Analysed(fn)
			xs := exprStr(be.X)
			isCount := strings.HasSuffix(xs, ".size") || strings.HasPrefix(xs, "len(") || strings.HasSuffix(xs, ".Len()") || strings.HasSuffix(xs, ".Cap()") || strings.HasPrefix(xs, "cap(")
			if isCount {
				c.Bad(cn, be.Pos(), "`%s %s _DEFAULT_NODE_CAP` applies the chunk arithmetic to a count: it is 0 (respectively one chunk too far) when the count is a multiple of the chunk size, so a completely filled last chunk is treated as empty", xs, be.Op)
			} else {
				c.OK(cn, be.Pos(), "chunk arithmetic on index %s", xs)
			}
			return true
		})
	}
	if n < 6 {
		c.Undecided("ast/chunk-arith", token.NoPos, "only %d chunk computations found", n)
	}
}

// U5: a search must not overwrite what it is searching for. A loop that compares a running
// counter with X and, on a hit, stores the loop's position into X itself keeps comparing later
// counter values with the *new* X: once the counter reaches that larger value the translation
// fires a second time. (The idiom that works copies X first, or stops after the hit.)

func init() {
	register(&core.Rule{ID: "U5", Min: 2,
		Doc: "Self-invalidating search targets in package ast: in a `for` loop, an `if C == X { X = ... }` whose C is a counter advanced by the same loop and whose body neither breaks nor returns is a violation - X is translated again when the counter later reaches the value just stored (logical-to-physical index translation in Node.Move with soft-deleted slots).",
		Run: runU5})
}

func runU5(c *core.Ctx) {
	p := c.Prog
	pk := p.Pkg("ast")
	if pk == nil {
		c.Undecided("ast", token.NoPos, "package not loaded")
		return
	}
	loops := 0
	for _, fd := range core.FuncDecls(pk) {
		if fd.Body == nil || strings.HasSuffix(p.Fset.Position(fd.Pos()).Filename, "_test.go") {
			continue
		}
		fn := core.FuncName(pk, fd)
		k := 0
		ast.Inspect(fd.Body, func(nd ast.Node) bool {
			fs, ok := nd.(*ast.ForStmt)
			if !ok {
				return true
			}
			// counters advanced by this loop (post statement or ++/+= in the body)
			counters := map[types.Object]bool{}
			note := func(st ast.Stmt) {
				switch x := st.(type) {
				case *ast.IncDecStmt:
					if id, ok := x.X.(*ast.Ident); ok {
						counters[p.ObjectOf(id)] = true
					}
				case *ast.AssignStmt:
					if (x.Tok == token.ADD_ASSIGN || x.Tok == token.SUB_ASSIGN) && len(x.Lhs) == 1 {
						if id, ok := x.Lhs[0].(*ast.Ident); ok {
							counters[p.ObjectOf(id)] = true
						}
					}
				}
			}
			if fs.Post != nil {
				note(fs.Post)
			}
			ast.Inspect(fs.Body, func(m ast.Node) bool {
				if st, ok := m.(ast.Stmt); ok {
					note(st)
				}
				return true
			})
			found := false
			for _, st := range fs.Body.List {
				is, ok := st.(*ast.IfStmt)
				if !ok {
					continue
				}
				be, ok := ast.Unparen(is.Cond).(*ast.BinaryExpr)
				if !ok || be.Op != token.EQL {
					continue
				}
				a, aok := ast.Unparen(be.X).(*ast.Ident)
				b, bok := ast.Unparen(be.Y).(*ast.Ident)
				var target *ast.Ident
				switch {
				case aok && bok && counters[p.ObjectOf(a)] && !counters[p.ObjectOf(b)]:
					target = b
				case aok && bok && counters[p.ObjectOf(b)] && !counters[p.ObjectOf(a)]:
					target = a
				case aok && counters[p.ObjectOf(a)] && p.ConstOf(be.Y) != nil, bok && counters[p.ObjectOf(b)] && p.ConstOf(be.X) != nil:
					// counter compared with a constant (the countdown idiom): nothing to overwrite
					found = true
					k++
					c.Analysed(fn)
					c.OK(fn+"/search-target#"+itoa(k), is.Pos(), "counter compared with a constant")
					continue
				default:
					continue
				}
				found = true
				assigns, leaves := false, false
				ast.Inspect(is.Body, func(m ast.Node) bool {
					switch x := m.(type) {
					case *ast.AssignStmt:
						for _, l := range x.Lhs {
							if id, ok := ast.Unparen(l).(*ast.Ident); ok && p.ObjectOf(id) == p.ObjectOf(target) {
								assigns = true
							}
						}
					case *ast.BranchStmt:
						if x.Tok == token.BREAK {
							leaves = true
						}
					case *ast.ReturnStmt:
						leaves = true
					}
					return true
				})
				k++
				cn := fn + "/search-target#" + itoa(k)
				c.Analysed(fn)
				if assigns && !leaves {
					c.Bad(cn, is.Pos(), "the loop compares its counter with %s and, on a hit, stores into %s itself without leaving the loop: when the counter later reaches the stored value the translation fires again (Move picks the wrong element once a soft-deleted slot precedes the target)", target.Name, target.Name)
				} else {
					c.OK(cn, is.Pos(), "search target %s is not overwritten by the search", target.Name)
				}
			}
			if found {
				loops++
			}
			return true
		})
	}
	if loops == 0 {
		c.OK("ast/search-targets", token.NoPos, "no loop in package ast compares a running counter with a variable it also assigns")
	}
}

// U7: a single-slot store never replaces a chunk. linkedNodes / linkedPairs keep their
// elements in 16-slot chunks that are allocated on demand. A method that stores one element
// (index and value parameters) may allocate the chunk only when its table entry is nil;
// allocating on any other condition (first slot of the chunk, ...) throws away the other
// fifteen elements when the store is an overwrite (Unset clears a pair through set()).

func init() {
	register(&core.Rule{ID: "U7", Min: 2, Arm64: true,
		Doc: "Chunk allocation in single-slot stores of ast.linkedNodes / ast.linkedPairs (methods with an int index parameter and an element parameter): every `new(nodeChunk)` / `new(pairChunk)` stored into the tail table stands in the body of an if statement whose condition tests that same table entry against nil.",
		Run: runU7})
}

func runU7(c *core.Ctx) {
	p := c.Prog
	pk := p.Pkg("ast")
	n := 0
	for _, fd := range core.FuncDecls(pk) {
		rn := core.RecvName(fd)
		if fd.Body == nil || (rn != "linkedNodes" && rn != "linkedPairs") {
			continue
		}
		// index + element parameters
		hasIdx, hasElem := false, false
		for _, fl := range fd.Type.Params.List {
			t := exprStr(fl.Type)
			if t == "int" {
				hasIdx = true
			}
			if t == "Node" || t == "Pair" {
				hasElem = true
			}
		}
		if !hasIdx || !hasElem {
			continue
		}
		fn := core.FuncName(pk, fd)
		var stack []ast.Node
		k := 0
		ast.Inspect(fd.Body, func(nd ast.Node) bool {
			if nd == nil {
				stack = stack[:len(stack)-1]
				return true
			}
			stack = append(stack, nd)
			as, ok := nd.(*ast.AssignStmt)
			if !ok || len(as.Lhs) != 1 || len(as.Rhs) != 1 {
				return true
			}
			call, ok := ast.Unparen(as.Rhs[0]).(*ast.CallExpr)
			if !ok || exprStr(call.Fun) != "new" || len(call.Args) != 1 {
				return true
			}
			if t := exprStr(call.Args[0]); t != "nodeChunk" && t != "pairChunk" {
				return true
			}
			k++
			n++
			c.Analysed(fn)
			cn := fn + "/chunk-alloc#" + itoa(k)
			lhs := exprStr(as.Lhs[0])
			guarded := false
			for i := len(stack) - 2; i >= 0; i-- {
				if is, ok := stack[i].(*ast.IfStmt); ok {
					if be, ok := ast.Unparen(is.Cond).(*ast.BinaryExpr); ok && be.Op == token.EQL && exprStr(be.Y) == "nil" && exprStr(be.X) == lhs {
						guarded = true
					}
				}
			}
			if guarded {
				c.OK(cn, as.Pos(), "the chunk is allocated only when %s is nil", lhs)
			} else {
				c.Bad(cn, as.Pos(), "a fresh chunk is stored into %s without testing that entry for nil: when the slot being written lies in an existing chunk (an overwrite, e.g. Unset clearing a pair at slot 16), the other elements of that chunk are thrown away while the length changes by one", lhs)
			}
			return true
		})
	}
	if n == 0 {
		c.Undecided("ast/chunk-alloc", token.NoPos, "no chunk allocation in a single-slot store found")
	}
}

// U8: count-down walks reject negative indexes. nodeAt / pairAt compensate for soft-deleted
// slots with a loop that decrements the wanted index for every live slot and returns the slot
// at which it becomes negative. An index that is negative on entry satisfies that exit test at
// the first slot.

func init() {
	register(&core.Rule{ID: "U8", Min: 2, Arm64: true,
		Doc: "Count-down index walks in package ast: in every function that has an int parameter i, a loop that decrements i and returns a slot under `i < 0`, the loop is preceded (source order) by a guard `if i < 0 { return ... }` - otherwise a negative index resolves to the first slot.",
		Run: runU8})
}

func runU8(c *core.Ctx) {
	p := c.Prog
	pk := p.Pkg("ast")
	n := 0
	for _, fd := range core.FuncDecls(pk) {
		if fd.Body == nil {
			continue
		}
		var params []types.Object
		for _, fl := range fd.Type.Params.List {
			if exprStr(fl.Type) == "int" {
				for _, nm := range fl.Names {
					params = append(params, p.ObjectOf(nm))
				}
			}
		}
		for _, ip := range params {
			// a loop that decrements ip and tests ip < 0
			var loopPos token.Pos
			ast.Inspect(fd.Body, func(nd ast.Node) bool {
				fs, ok := nd.(*ast.ForStmt)
				if !ok {
					return true
				}
				dec, test := false, false
				ast.Inspect(fs.Body, func(x ast.Node) bool {
					switch y := x.(type) {
					case *ast.IncDecStmt:
						if id, ok := y.X.(*ast.Ident); ok && p.ObjectOf(id) == ip && y.Tok == token.DEC {
							dec = true
						}
					case *ast.BinaryExpr:
						if id, ok := ast.Unparen(y.X).(*ast.Ident); ok && p.ObjectOf(id) == ip && y.Op == token.LSS && exprStr(y.Y) == "0" {
							test = true
						}
					}
					return true
				})
				if dec && test && loopPos == token.NoPos {
					loopPos = fs.Pos()
				}
				return true
			})
			if loopPos == token.NoPos {
				continue
			}
			n++
			fn := core.FuncName(pk, fd)
			c.Analysed(fn)
			guarded := false
			ast.Inspect(fd.Body, func(nd ast.Node) bool {
				is, ok := nd.(*ast.IfStmt)
				if !ok || is.Pos() >= loopPos {
					return true
				}
				if be, ok := ast.Unparen(is.Cond).(*ast.BinaryExpr); ok && be.Op == token.LSS && exprStr(be.Y) == "0" {
					if id, ok := ast.Unparen(be.X).(*ast.Ident); ok && p.ObjectOf(id) == ip {
						for _, st := range is.Body.List {
							if _, isRet := st.(*ast.ReturnStmt); isRet {
								guarded = true
							}
						}
					}
				}
				return true
			})
			c.Check(guarded, fn+"/negative-index", loopPos, "negative indexes are rejected before the count-down walk", "the count-down walk over the slots is entered with a possibly negative "+ip.Name()+": its exit test `"+ip.Name()+" < 0` is then true at the first slot, so Index(-1) / SetByIndex(-1, x) on a node with unset slots resolve to the first element")
		}
	}
	if n == 0 {
		c.Undecided("ast/negative-index", token.NoPos, "no count-down walk found")
	}
}
