package rules

import (
	"go/ast"
	"go/token"
	"go/types"
	"strings"

	"verif/sa/core"
)

func init() {
	register(&core.Rule{ID: "L2", Min: 8,
		Doc: "RCU program cache (caching.ProgramCache): field p is only accessed as &self.p inside sync/atomic Load/StorePointer (Reset's plain store is allowed only while no production function calls ResetProgramCache); Compute holds m from before the double-check Get until after the publish; copy-on-write: every writer of a _ProgramMap field (insert and direct stores) acts on a receiver freshly allocated in the calling function (copy(), rehash(), composite literal), never on a map obtained from ProgramCache.p; get compares the key by *rt.GoType pointer identity; the published value is the result of add().",
		Run: runL2})
}

func runL2(c *core.Ctx) {
	p := c.Prog
	pk := p.Pkg("internal/caching")
	pcObj := core.Obj(pk, "ProgramCache")
	pmObj := core.Obj(pk, "_ProgramMap")
	if pcObj == nil || pmObj == nil {
		c.Undecided("caching.ProgramCache", token.NoPos, "types not found")
		return
	}
	pcSt, _ := pcObj.Type().Underlying().(*types.Struct)
	pmSt, _ := pmObj.Type().Underlying().(*types.Struct)
	var pField, mField types.Object
	for i := 0; pcSt != nil && i < pcSt.NumFields(); i++ {
		switch pcSt.Field(i).Name() {
		case "p":
			pField = pcSt.Field(i)
		case "m":
			mField = pcSt.Field(i)
		}
	}
	pmFields := map[types.Object]bool{}
	for i := 0; pmSt != nil && i < pmSt.NumFields(); i++ {
		pmFields[pmSt.Field(i)] = true
	}
	if pField == nil || mField == nil || len(pmFields) == 0 {
		c.Undecided("caching.ProgramCache", pcObj.Pos(), "fields not found")
		return
	}
	// (a) accesses of ProgramCache.p
	for _, pkg := range p.Pkgs {
		for _, fd := range core.FuncDecls(pkg) {
			if fd.Body == nil {
				continue
			}
			fn := core.FuncName(pkg, fd)
			ast.Inspect(fd.Body, func(n ast.Node) bool {
				switch x := n.(type) {
				case *ast.CallExpr:
					// atomic.XxxPointer(&self.p, ...)
					if o := p.Callee(x); o != nil && o.Pkg() != nil && o.Pkg().Path() == "sync/atomic" && len(x.Args) > 0 {
						if u, ok := ast.Unparen(x.Args[0]).(*ast.UnaryExpr); ok && u.Op == token.AND {
							if se, ok := ast.Unparen(u.X).(*ast.SelectorExpr); ok && p.ObjectOf(se.Sel) == pField {
								c.OK(fn+"/p-atomic@"+o.Name(), x.Pos(), "atomic.%s(&p)", o.Name())
								// do not descend into args[0]
								for _, a := range x.Args[1:] {
									ast.Inspect(a, func(m ast.Node) bool {
										if se2, ok := m.(*ast.SelectorExpr); ok && p.ObjectOf(se2.Sel) == pField {
											if !insideAtomicArg0(p, a, se2) {
												c.Bad(fn+"/p-plain", se2.Pos(), "plain access to ProgramCache.p in %s", fn)
											}
										}
										return true
									})
								}
								return false
							}
						}
					}
				case *ast.SelectorExpr:
					if p.ObjectOf(x.Sel) == pField {
						if fd.Name.Name == "Reset" && core.RecvName(fd) == "ProgramCache" {
							return true // handled below
						}
						c.Bad(fn+"/p-plain", x.Pos(), "ProgramCache.p is read or written without sync/atomic in %s: readers can observe a torn or stale map pointer", fn)
					}
				case *ast.KeyValueExpr:
					if id, ok := x.Key.(*ast.Ident); ok && p.ObjectOf(id) == pField {
						c.OK(fn+"/p-init", x.Pos(), "initialised in a composite literal before publication")
						ast.Inspect(x.Value, func(ast.Node) bool { return true })
						return false
					}
				}
				return true
			})
		}
	}
	// Reset: plain store allowed only if no production caller reaches it
	if fd := core.FuncDecl(pk, "ProgramCache", "Reset"); fd != nil {
		callers, _, _ := callersOf(p, p.ObjectOf(fd.Name))
		bad := ""
		for cn := range callers {
			co := lookupFunc(p, cn)
			cc, _, ci := callersOf(p, co)
			if co == nil || len(cc) > 0 || ci {
				bad = cn
			}
		}
		c.Check(bad == "", "internal/caching.(ProgramCache).Reset/unreachable", fd.Pos(), "Reset (plain store under m) is reachable only through ResetProgramCache helpers that no production code calls", "Reset's non-atomic store of p is reachable from production code via "+bad)
	}
	// (b) Compute holds m
	if fd := core.FuncDecl(pk, "ProgramCache", "Compute"); fd != nil {
		c.Analysed("internal/caching.(ProgramCache).Compute")
		g := funcCFG(p, fd.Body)
		classify := func(call *ast.CallExpr) (string, string) { return lockCall(p, call) }
		in := locksets(p, g, classify)
		recvName := ""
		if len(fd.Recv.List[0].Names) > 0 {
			recvName = fd.Recv.List[0].Names[0].Name
		}
		key := recvName + ".m"
		deferred := false
		ast.Inspect(fd.Body, func(n ast.Node) bool {
			if d, ok := n.(*ast.DeferStmt); ok {
				if k, op := lockCall(p, d.Call); k == key && op == "Unlock" {
					deferred = true
				}
			}
			return true
		})
		var sites []struct {
			what string
			pos  token.Pos
		}
		computeParam := p.ObjectOf(fd.Type.Params.List[1].Names[0])
		ast.Inspect(fd.Body, func(n ast.Node) bool {
			call, ok := n.(*ast.CallExpr)
			if !ok {
				return true
			}
			o := p.Callee(call)
			switch {
			case o != nil && o.Name() == "Get" && core.IsSonic(o.Pkg()):
				sites = append(sites, struct {
					what string
					pos  token.Pos
				}{"double-check Get", call.Pos()})
			case o != nil && o == computeParam:
				sites = append(sites, struct {
					what string
					pos  token.Pos
				}{"compute callback", call.Pos()})
			case o != nil && o.Name() == "StorePointer":
				sites = append(sites, struct {
					what string
					pos  token.Pos
				}{"publish", call.Pos()})
			}
			return true
		})
		if len(sites) < 3 {
			c.Undecided("internal/caching.(ProgramCache).Compute/lock", fd.Pos(), "double-check/compute/publish sites not all found (%d)", len(sites))
		}
		for _, s := range sites {
			st, ok := heldAt(p, g, in, s.pos, classify)
			c.Check(ok && st[key] == 2 && deferred, "internal/caching.(ProgramCache).Compute/lock@"+s.what, s.pos, s.what+" runs with m held (Lock before, Unlock deferred)", s.what+" in Compute does not run under the cache mutex: two first uses of a type can both compile and the second publish can drop the first one's entry")
		}
		// the published value is add(...)'s result
		pubOK := false
		ast.Inspect(fd.Body, func(n ast.Node) bool {
			call, ok := n.(*ast.CallExpr)
			if !ok {
				return true
			}
			if o := p.Callee(call); o != nil && o.Name() == "StorePointer" && len(call.Args) == 2 {
				ast.Inspect(call.Args[1], func(m ast.Node) bool {
					if c2, ok := m.(*ast.CallExpr); ok {
						if o2 := p.Callee(c2); o2 != nil && o2.Name() == "add" {
							pubOK = true
						}
					}
					return true
				})
			}
			return true
		})
		c.Check(pubOK, "internal/caching.(ProgramCache).Compute/publishes-add", fd.Pos(), "StorePointer publishes the map returned by add()", "Compute does not publish the result of add(): the new entry is lost or the live map is mutated")
	} else {
		c.Undecided("internal/caching.(ProgramCache).Compute", token.NoPos, "not found")
	}
	// (c) copy-on-write
	fresh := func(fd *ast.FuncDecl, v types.Object) bool {
		if v == nil {
			return false
		}
		// parameter or receiver is never fresh
		if fd.Recv != nil {
			for _, n := range fd.Recv.List[0].Names {
				if p.ObjectOf(n) == v {
					return false
				}
			}
		}
		for _, f := range fd.Type.Params.List {
			for _, n := range f.Names {
				if p.ObjectOf(n) == v {
					return false
				}
			}
		}
		ok, defs := true, 0
		ast.Inspect(fd.Body, func(n ast.Node) bool {
			as, isAs := n.(*ast.AssignStmt)
			if !isAs {
				return true
			}
			for i, l := range as.Lhs {
				id, isId := l.(*ast.Ident)
				if !isId || p.ObjectOf(id) != v || i >= len(as.Rhs) {
					continue
				}
				defs++
				r := ast.Unparen(as.Rhs[i])
				good := false
				switch x := r.(type) {
				case *ast.CallExpr:
					if o := p.Callee(x); o != nil && core.IsSonic(o.Pkg()) {
						switch o.Name() {
						case "copy", "rehash", "newProgramMap":
							good = true
						}
					}
				case *ast.UnaryExpr:
					if x.Op == token.AND {
						if _, isCl := x.X.(*ast.CompositeLit); isCl {
							good = true
						}
					}
				}
				if !good {
					ok = false
				}
			}
			return true
		})
		return ok && defs > 0
	}
	for _, fd := range core.FuncDecls(pk) {
		if fd.Body == nil {
			continue
		}
		fn := core.FuncName(pk, fd)
		ast.Inspect(fd.Body, func(n ast.Node) bool {
			switch x := n.(type) {
			case *ast.CallExpr:
				if o := p.Callee(x); o != nil && o.Name() == "insert" && core.IsSonic(o.Pkg()) {
					se := x.Fun.(*ast.SelectorExpr)
					id, _ := ast.Unparen(se.X).(*ast.Ident)
					c.Check(id != nil && fresh(fd, p.ObjectOf(id)), fn+"/insert-on-fresh", x.Pos(), "insert acts on a map allocated in this function", "insert is called on "+exprStr(se.X)+", which is not a fresh copy: a published (shared) map would be mutated in place while readers probe it")
				}
			case *ast.AssignStmt:
				for _, l := range x.Lhs {
					base := l
					var fieldSel *ast.SelectorExpr
					for {
						switch y := ast.Unparen(base).(type) {
						case *ast.IndexExpr:
							base = y.X
							continue
						case *ast.SelectorExpr:
							if pmFields[p.ObjectOf(y.Sel)] {
								fieldSel = y
							}
							base = y.X
							continue
						case *ast.StarExpr:
							base = y.X
							continue
						}
						break
					}
					if fieldSel == nil {
						continue
					}
					id, _ := ast.Unparen(fieldSel.X).(*ast.Ident)
					if fd.Name.Name == "insert" {
						c.OK(fn+"/field-write", x.Pos(), "insert writes its receiver (callers checked for freshness)")
						continue
					}
					c.Check(id != nil && fresh(fd, p.ObjectOf(id)), fn+"/field-write", x.Pos(), "writes a field of a fresh map", "writes _ProgramMap."+fieldSel.Sel.Name+" of "+exprStr(fieldSel.X)+", which is not freshly allocated here")
				}
			}
			return true
		})
	}
	// add returns the fresh copy
	if fd := core.FuncDecl(pk, "_ProgramMap", "add"); fd != nil {
		good := true
		ast.Inspect(fd.Body, func(n ast.Node) bool {
			if r, ok := n.(*ast.ReturnStmt); ok && len(r.Results) == 1 {
				id, _ := ast.Unparen(r.Results[0]).(*ast.Ident)
				if id == nil || !fresh(fd, p.ObjectOf(id)) {
					good = false
				}
			}
			return true
		})
		c.Check(good, "internal/caching.(_ProgramMap).add/returns-fresh", fd.Pos(), "add returns the fresh copy", "add returns a map that is not the fresh copy (the receiver is shared with readers)")
	}
	// (d) pointer identity in get
	if fd := core.FuncDecl(pk, "_ProgramMap", "get"); fd != nil {
		found := false
		ast.Inspect(fd.Body, func(n ast.Node) bool {
			be, ok := n.(*ast.BinaryExpr)
			if !ok || be.Op != token.EQL {
				return true
			}
			tx, ty := p.TypeOf(be.X), p.TypeOf(be.Y)
			if tx == nil || ty == nil {
				return true
			}
			_, px := tx.Underlying().(*types.Pointer)
			_, py := ty.Underlying().(*types.Pointer)
			if px && py && strings.Contains(tx.String(), "GoType") && exprStr(be.Y) != "nil" {
				found = true
			}
			return true
		})
		c.Check(found, "internal/caching.(_ProgramMap).get/pointer-identity", fd.Pos(), "key compared by *rt.GoType identity", "get no longer compares the key by *rt.GoType pointer identity (hash or name equality would merge distinct types)")
	}
}

func insideAtomicArg0(p *core.Program, root ast.Node, target *ast.SelectorExpr) bool {
	ok := false
	ast.Inspect(root, func(n ast.Node) bool {
		call, isCall := n.(*ast.CallExpr)
		if !isCall || len(call.Args) == 0 {
			return true
		}
		if o := p.Callee(call); o != nil && o.Pkg() != nil && o.Pkg().Path() == "sync/atomic" {
			if u, isU := ast.Unparen(call.Args[0]).(*ast.UnaryExpr); isU && u.Op == token.AND && ast.Unparen(u.X) == ast.Expr(target) {
				ok = true
			}
		}
		return true
	})
	return ok
}
