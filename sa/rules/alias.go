package rules

import (
	"go/token"
	"sort"
	"strings"

	"verif/sa/core"
)

// A6: strings that point into the caller's input must not be retained unless the
// CopyString option is known to be off. On the emitted x86 templates of the JIT decoder:
//   source     LEAQ d(IP)(r), R          R now points into the input text
//   propagate  MOVQ R, R'
//   option     BTQ $_F_copy_string, fv ; JNC L   (taken: option off)   /   JC L (fall: option off)
//   sink       a store of a tainted register to memory, or boxing it (call_go convTstring)
// A sink must only be reached with the option known to be off (the option-on path leaves the
// template through _copy_string / copy_string, which replaces the pointer by a private copy).

func init() {
	register(&core.Rule{ID: "A6", Min: 6,
		Doc: "CopyString is honoured by every emitted decoder template: forward dataflow over the x86 templates of the jitdec handlers and the generic value decoder tracks registers that point into the input (LEAQ d(IP)(r), R and copies); every store of such a register to memory and every boxing call (convTstring) is reached only on paths where `BTQ $_F_copy_string` established that the option is off; sites that never retain the string are listed with their reason.",
		Run: runA6})
}

// handlers whose input-aliasing string is provably not retained (reviewed)
var a6Waivers = map[string]string{
	"internal/decoder/jitdec.(_Assembler)._asm_OP_bin": "the encoded text is parked in the destination slot only until WriteRecNotAX exchanges it for the freshly allocated buffer, before the base64 decoder is called",
}

type astate struct {
	reached bool
	taint   map[string]int // register / stack slot -> 1 input pointer, option not verified; 2 input pointer created or carried across a path that verified the option off
	flag    int            // 0 unknown, 1 CopyString known off, 2 known on
}

func (a astate) clone() astate {
	n := astate{reached: a.reached, flag: a.flag, taint: map[string]int{}}
	for k, v := range a.taint {
		n.taint[k] = v
	}
	return n
}

func meetA(a *astate, b astate) bool {
	if !b.reached {
		return false
	}
	if !a.reached {
		*a = b.clone()
		return true
	}
	ch := false
	for k, v := range b.taint {
		if w := a.taint[k]; w == 0 || (v == 1 && w == 2) {
			a.taint[k] = v
			ch = true
		}
	}
	if a.flag != b.flag && a.flag != 0 {
		a.flag = 0
		ch = true
	}
	return ch
}

func spSlot(o Operand) (string, bool) {
	if o.Kind == "mem" && o.Reg == "SP" && o.Index == "" && o.DispOK {
		return o.String(), true
	}
	return "", false
}

// retaining runtime entry points: callee name fragment -> register holding the string pointer
var a6Retaining = map[string]string{"convTstring": "AX", "mapassign_faststr": "CX"}

func retainingCall(o EmitOp) (string, string) {
	if o.Kind != "Helper" || o.Callee == nil || o.Callee.Name() != "call_go" || len(o.ArgVals) == 0 || o.ArgVals[0].sym == nil {
		return "", ""
	}
	for frag, reg := range a6Retaining {
		if strings.Contains(o.ArgVals[0].sym.Name(), frag) {
			return o.ArgVals[0].sym.Name(), reg
		}
	}
	return "", ""
}

func isCopyFlagTest(o EmitOp, rel string) bool {
	return o.Kind == "Emit" && o.Mnem == "BTQ" && len(o.Ops) == 2 && o.Ops[0].Kind == "imm" && hasObj(o.Ops[0].Objs, rel, "_F_copy_string")
}

// verify marks every input pointer alive on a path that just learnt "CopyString off".
func verify(a *astate) {
	for k := range a.taint {
		a.taint[k] = 2
	}
}

func aliasFlow(g *seqCFG, IP, rel string) []astate {
	in := make([]astate, len(g.ops)+1)
	in[0] = astate{reached: true, taint: map[string]int{}}
	work := []int{0}
	for {
		if len(work) == 0 {
			// labels reached only through indirect jumps: enter them knowing nothing
			for i, o := range g.ops {
				if o.Kind == "Link" && !in[i].reached {
					in[i] = astate{reached: true, taint: map[string]int{}}
					work = append(work, i)
					break
				}
			}
			if len(work) == 0 {
				break
			}
		}
		i := work[len(work)-1]
		work = work[:len(work)-1]
		if i >= len(g.ops) || !in[i].reached {
			continue
		}
		o := g.ops[i]
		fall := in[i].clone()
		taken := in[i].clone()
		switch o.Kind {
		case "Emit":
			if len(o.Ops) >= 1 && !nonWriting[o.Mnem] {
				dst := o.Ops[len(o.Ops)-1]
				if o.Mnem == "XCHGQ" {
					a, b := o.Ops[0], o.Ops[1]
					if a.Kind == "reg" && b.Kind == "reg" {
						ta, tb := fall.taint[a.Reg], fall.taint[b.Reg]
						delete(fall.taint, a.Reg)
						delete(fall.taint, b.Reg)
						if ta != 0 {
							fall.taint[b.Reg] = ta
						}
						if tb != 0 {
							fall.taint[a.Reg] = tb
						}
					}
				} else if dst.Kind == "reg" {
					src := o.Ops[0]
					switch {
					case o.Mnem == "LEAQ" && len(o.Ops) == 2 && src.Kind == "mem" && src.Reg == IP && src.Index != "":
						fall.taint[dst.Reg] = 1
						if fall.flag == 1 {
							fall.taint[dst.Reg] = 2
						}
					case o.Mnem == "MOVQ" && len(o.Ops) == 2 && src.Kind == "reg":
						if v := fall.taint[src.Reg]; v != 0 {
							fall.taint[dst.Reg] = v
						} else {
							delete(fall.taint, dst.Reg)
						}
					case o.Mnem == "MOVQ" && len(o.Ops) == 2 && src.Kind == "mem":
						// reload of a parked input pointer from a stack slot
						if k, ok := spSlot(src); ok && fall.taint[k] != 0 {
							fall.taint[dst.Reg] = fall.taint[k]
						} else {
							delete(fall.taint, dst.Reg)
						}
					case (o.Mnem == "ADDQ" || o.Mnem == "SUBQ" || o.Mnem == "LEAQ") && len(o.Ops) == 2 && src.Kind == "imm":
						// pointer arithmetic keeps the taint
					default:
						delete(fall.taint, dst.Reg)
					}
				} else if k, ok := spSlot(dst); ok && strings.HasPrefix(o.Mnem, "MOV") && len(o.Ops) == 2 {
					// parking a value in a stack slot: remember an input pointer that is
					// stored while CopyString is not known to be off
					if o.Ops[0].Kind == "reg" && fall.taint[o.Ops[0].Reg] != 0 {
						fall.taint[k] = fall.taint[o.Ops[0].Reg]
					} else {
						delete(fall.taint, k)
					}
				}
			}
			taken = fall
		case "Helper":
			if o.Callee != nil && (o.Callee.Name() == "call_go" || o.Callee.Name() == "call_c" || o.Callee.Name() == "callc" || o.Callee.Name() == "call_sf" || o.Callee.Name() == "call_vf") {
				// results come back in AX, BX
				delete(fall.taint, "AX")
				delete(fall.taint, "BX")
				taken = fall
			}
		case "Sjmp":
			if i >= 1 && isCopyFlagTest(g.ops[i-1], rel) {
				switch o.Mnem {
				case "JNC", "JAE", "JNB":
					taken.flag, fall.flag = 1, 2
					verify(&taken)
				case "JC", "JB":
					taken.flag, fall.flag = 2, 1
					verify(&fall)
				}
			}
		}
		for _, s := range g.succ[i] {
			v := fall
			if o.Kind == "Sjmp" && s != i+1 {
				v = taken
			}
			if meetA(&in[s], v) {
				work = append(work, s)
			}
		}
		if o.Kind == "Sjmp" {
			if t, ok := g.label[o.Label]; ok && t == i+1 {
				if meetA(&in[i+1], taken) {
					work = append(work, i+1)
				}
			}
		}
	}
	return in
}

func runA6(c *core.Ctx) {
	p := c.Prog
	if p.GOARCH != "amd64" {
		return
	}
	rel := "internal/decoder/jitdec"
	IP := regOf(p, rel, "_IP")
	if IP == "" {
		c.Undecided("jitdec/_IP", token.NoPos, "register variable not found")
		return
	}
	sources := 0
	for _, tg := range []decTargets{{rel, "_Assembler", nil, 1}, {rel, "_ValueDecoder", map[string]bool{"compile": true}, 0}} {
		a := newAsmCtx(p, tg.rel, tg.recv)
		for _, fd := range sortedFuncDecls(a.methods()) {
			if tg.only != nil && !tg.only[fd.Name.Name] {
				continue
			}
			if tg.only == nil && !strings.HasPrefix(fd.Name.Name, "_asm_OP_") {
				continue
			}
			fn := handlerName(a.pk, fd)
			seqs, ok := a.seqs(fd, asmEnv{}, 0)
			if !ok {
				c.Undecided(fn+"/alias", fd.Pos(), "cannot enumerate emitted sequences")
				continue
			}
			if anyTrunc(seqs) {
				c.Undecided(fn+"/alias", fd.Pos(), "a helper could not be inlined within the path budget")
				continue
			}
			nsrc, nsink := 0, 0
			bad := map[string]token.Pos{}
			for _, sq := range seqs {
				g := buildSeqCFG(sq.Ops)
				in := aliasFlow(g, IP, rel)
				for i, o := range g.ops {
					if !in[i].reached {
						continue
					}
					switch o.Kind {
					case "Emit":
						if o.Mnem == "LEAQ" && len(o.Ops) == 2 && o.Ops[0].Kind == "mem" && o.Ops[0].Reg == IP && o.Ops[0].Index != "" {
							nsrc++
						}
						if strings.HasPrefix(o.Mnem, "MOV") && len(o.Ops) == 2 && o.Ops[0].Kind == "reg" && o.Ops[1].Kind == "mem" && in[i].taint[o.Ops[0].Reg] != 0 {
							if _, isSlot := spSlot(o.Ops[1]); !isSlot {
								nsink++
								if in[i].taint[o.Ops[0].Reg] == 1 {
									bad["store "+o.String()] = o.Pos
								}
							}
						}
					case "Helper":
						if name, reg := retainingCall(o); name != "" && in[i].taint[reg] != 0 {
							nsink++
							if in[i].taint[reg] == 1 {
								bad["call_go("+name+") with the string pointer in "+reg] = o.Pos
							}
						}
					}
				}
			}
			if nsrc == 0 {
				continue
			}
			sources++
			c.Analysed(fn)
			if why, ok := a6Waivers[fn]; ok && len(bad) > 0 {
				c.OK(fn+"/alias", fd.Pos(), "waived: %s", why)
				continue
			}
			if len(bad) > 0 {
				var ks []string
				for k := range bad {
					ks = append(ks, k)
				}
				sort.Strings(ks)
				c.Bad(fn+"/alias", bad[ks[0]], "%s keeps a pointer into the caller's input (from LEAQ (IP)(r)) on a path where the CopyString option has not been tested off: with CopyString the decoded value still aliases the input buffer (%d such site(s): %s)", ks[0], len(ks), strings.Join(ks, "; "))
			} else {
				c.OK(fn+"/alias", fd.Pos(), "%d sequence(s): %d input-pointer source(s), %d retaining sink(s), each reached only with CopyString known off", len(seqs), nsrc, nsink)
			}
		}
	}
	if sources < 6 {
		c.Undecided("jitdec/alias", token.NoPos, "only %d handlers with input-pointer sources found", sources)
	}
}
