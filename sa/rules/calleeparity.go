package rules

import (
	"go/ast"
	"go/token"
	"go/types"
	"sort"
	"strings"

	"verif/sa/core"
)

// S16: semantic-helper parity of the two encoder executors. For every opcode, the routines that
// produce or check output (number formatters, quoting, base64, marshaler bridges, number
// validation, map iteration, recursion, error constructors) must be the same family in the VM
// arm and in the x86 handler; memory management (growslice, memmove, write barrier, gc/debug)
// is not compared.

func init() {
	register(&core.Rule{ID: "S16", Min: 30,
		Doc: "Semantic-helper parity of the encoder executors: for each opcode, the set of output-producing / validating helpers reached by the x86 handler (function immediates _F_* referenced in its inlined template: i64toa, u64toa, f32toa, f64toa, quote, b64encode, encodeJsonMarshaler, encodeTextMarshaler, isValidNumber, iteratorStart/Next/Stop, encodeTypedPointer, is_zero, error constructors) equals, after name normalisation, the set called by the VM arm (alg.I64toa, alg.Quote, alg.EncodeBase64, prim.EncodeJsonMarshaler, ...); memory-management and debug helpers are ignored.",
		Run: runS16})
}

var s16Ignore = map[string]bool{"growslice": true, "memmove": true, "gcwritebarrier2": true, "gcwritebarrierax": true, "gc": true, "forcegc": true, "print": true, "println": true, "printptr": true, "checkptr": true, "asserti2i": true, "panic": true, "add": true, "growslice1": true, "str2mem": true, "mem2str": true, "mapiternext": true, "morespace": true, "guardslice": true, "guardslice2": true}

var s16Rename = map[string]string{"encodebase64": "b64encode", "errorunsuppoted": "errorunsupported", "unsuppoted": "unsupported"}

func s16norm(s string) string {
	s = strings.ToLower(strings.ReplaceAll(s, "_", ""))
	if r, ok := s16Rename[s]; ok {
		s = r
	}
	return s
}

func runS16(c *core.Ctx) {
	p := c.Prog
	if p.GOARCH != "amd64" {
		return
	}
	vm := p.Pkg("internal/encoder/vm")
	ex := core.FuncDecl(vm, "", "Execute")
	if ex == nil {
		c.Undecided("vm.Execute", token.NoPos, "not found")
		return
	}
	// x86: which helper families exist at all (the vocabulary)
	a := newAsmCtx(p, "internal/encoder/x86", "Assembler")
	x86W := map[string]map[string]bool{}
	vocab := map[string]bool{}
	for _, fd := range sortedFuncDecls(a.methods()) {
		if !strings.HasPrefix(fd.Name.Name, "_asm_OP_") {
			continue
		}
		op := strings.TrimPrefix(fd.Name.Name, "_asm_")
		seqs, ok := a.seqs(fd, asmEnv{}, 0)
		if !ok {
			c.Undecided("encoder/"+op+"/helpers", fd.Pos(), "cannot enumerate emitted sequences")
			continue
		}
		if anyTrunc(seqs) {
			c.Undecided("encoder/"+op+"/helpers", fd.Pos(), "a helper could not be inlined within the path budget")
			continue
		}
		w := map[string]bool{}
		add := func(o types.Object) {
			if o == nil || !strings.HasPrefix(o.Name(), "_F_") {
				return
			}
			n := s16norm(strings.TrimPrefix(o.Name(), "_F_"))
			if !s16Ignore[n] {
				w[n] = true
				vocab[n] = true
			}
		}
		for _, sq := range seqs {
			for _, o := range sq.Ops {
				for _, x := range o.Ops {
					for _, ob := range x.Objs {
						add(ob)
					}
					if x.Name != "" {
						add(core.Obj(a.pk, x.Name))
					}
				}
				for _, av := range o.ArgVals {
					add(av.sym)
				}
			}
		}
		x86W[op] = w
	}
	// VM arms
	ast.Inspect(ex.Body, func(n ast.Node) bool {
		cc, ok := n.(*ast.CaseClause)
		if !ok {
			return true
		}
		var ops []string
		for _, e := range cc.List {
			if o, ok := p.ExprObj(e).(*types.Const); ok && strings.HasPrefix(o.Name(), "OP_") {
				ops = append(ops, o.Name())
			}
		}
		if len(ops) == 0 {
			return true
		}
		w := map[string]bool{}
		for _, st := range cc.Body {
			ast.Inspect(st, func(m ast.Node) bool {
				call, ok := m.(*ast.CallExpr)
				if !ok {
					return true
				}
				if o := p.Callee(call); o != nil && o.Pkg() != nil && core.IsSonic(o.Pkg()) {
					n := s16norm(o.Name())
					if vocab[n] {
						w[n] = true
					}
				}
				return true
			})
		}
		for _, op := range ops {
			xw, ok := x86W[op]
			if !ok {
				continue
			}
			cn := "encoder/" + op + "/helpers"
			c.Analysed("internal/encoder/vm.Execute")
			if setStr(w) == setStr(xw) {
				c.OK(cn, cc.Pos(), "both executors use {%s}", setStr(w))
			} else {
				c.Bad(cn, cc.Pos(), "the VM arm of %s uses the helpers {%s} but the x86 handler uses {%s}: the two executors format, validate or dispatch this value through different routines", op, setStr(w), setStr(xw))
			}
		}
		return false
	})
	_ = sort.Strings
}

// S17: the two executors are entered through twin functions (vm.EncodeTypedPointer and
// x86.EncodeTypedPointer). They must look up the program for the same (type, pointer-value)
// key and hand the value, the stack and the *unchanged* flag word to their executor.

func init() {
	register(&core.Rule{ID: "S17", Min: 1,
		Doc: "Twin entry points of the encoder executors agree: vm.EncodeTypedPointer and x86.EncodeTypedPointer take the same sequence of decisions (conditions compared after renaming the local that holds the compiled program), both adjust their parameters identically (the flag word fv reaches the two executors in the same state), and each returns its executor's result called with the same value / stack / flag arguments.",
		Run: runS17})
}

func runS17(c *core.Ctx) {
	p := c.Prog
	if p.GOARCH != "amd64" {
		return
	}
	vmF := core.FuncDecl(p.Pkg("internal/encoder/vm"), "", "EncodeTypedPointer")
	xF := core.FuncDecl(p.Pkg("internal/encoder/x86"), "", "EncodeTypedPointer")
	cn := "encoder/EncodeTypedPointer/vm~x86"
	if vmF == nil || xF == nil || vmF.Body == nil || xF.Body == nil {
		c.Undecided(cn, token.NoPos, "EncodeTypedPointer not found in both executors")
		return
	}
	c.Analysed("internal/encoder/vm.EncodeTypedPointer")
	c.Analysed("internal/encoder/x86.EncodeTypedPointer")
	view := func(fd *ast.FuncDecl) (conds []string, assigned []string, rets []string) {
		params := map[types.Object]bool{}
		for _, f := range fd.Type.Params.List {
			for _, nm := range f.Names {
				params[p.ObjectOf(nm)] = true
			}
		}
		local := ""
		ast.Inspect(fd.Body, func(n ast.Node) bool {
			switch x := n.(type) {
			case *ast.IfStmt:
				if as, ok := x.Init.(*ast.AssignStmt); ok && len(as.Lhs) == 2 && local == "" {
					local = exprStr(as.Lhs[0])
					conds = append(conds, "init "+strings.ReplaceAll(exprStr(as.Rhs[0]), local, "PROG"))
				}
				conds = append(conds, "if "+exprStr(x.Cond))
			case *ast.AssignStmt:
				for _, l := range x.Lhs {
					if id, ok := ast.Unparen(l).(*ast.Ident); ok && params[p.ObjectOf(id)] {
						assigned = append(assigned, exprStr(x.Lhs[0])+" "+x.Tok.String()+" "+exprStr(x.Rhs[0]))
					}
				}
			case *ast.IncDecStmt:
				if id, ok := ast.Unparen(x.X).(*ast.Ident); ok && params[p.ObjectOf(id)] {
					assigned = append(assigned, id.Name)
				}
			case *ast.ReturnStmt:
				if len(x.Results) == 1 {
					if call, ok := ast.Unparen(x.Results[0]).(*ast.CallExpr); ok {
						var as []string
						for _, a := range call.Args {
							s := exprStr(a)
							if local != "" && strings.Contains(s, local) {
								continue // the compiled program itself (VM passes it as an argument)
							}
							as = append(as, s)
						}
						rets = append(rets, strings.Join(as, ", "))
					} else {
						rets = append(rets, exprStr(x.Results[0]))
					}
				}
			}
			return true
		})
		return
	}
	vc, va, vr := view(vmF)
	xc, xa, xr := view(xF)
	var diffs []string
	if strings.Join(vc, " ; ") != strings.Join(xc, " ; ") {
		diffs = append(diffs, "decisions differ: vm ["+strings.Join(vc, " ; ")+"] vs x86 ["+strings.Join(xc, " ; ")+"]")
	}
	// parameters may be adjusted (the consumed pointer-value bit is cleared), but identically
	if strings.Join(va, " ; ") != strings.Join(xa, " ; ") {
		diffs = append(diffs, "the parameters are adjusted differently: vm ["+strings.Join(va, " ; ")+"] vs x86 ["+strings.Join(xa, " ; ")+"]")
	}
	if strings.Join(vr, " | ") != strings.Join(xr, " | ") {
		diffs = append(diffs, "executor arguments differ: vm ["+strings.Join(vr, " | ")+"] vs x86 ["+strings.Join(xr, " | ")+"]")
	}
	if len(diffs) > 0 {
		c.Bad(cn, vmF.Pos(), "%s: the two executors are entered with different state (for example the pointer-value bit, which decides whether a value behind an interface is encoded through its pointer-receiver Marshaler)", strings.Join(diffs, "; "))
	} else {
		c.OK(cn, vmF.Pos(), "same %d decisions, same %d parameter adjustment(s), same executor arguments", len(vc), len(va))
	}
}

// W11: the pointer-value bit is consumed where it is read. EncodeTypedPointer reads
// BitPointerValue to choose the compile mode of the type it was called for. If the bit stays
// in the flag word handed to the program, every codec entered below through an interface or a
// map element (OP_eface / OP_iface pass the word on unchanged) is compiled in pointer mode too,
// and pointer-receiver marshalers run on values that are not addressable.

func init() {
	register(&core.Rule{ID: "W11", Min: 2,
		Doc: "In both EncodeTypedPointer functions (vm, x86) the flag word passed to the executor has BitPointerValue cleared: between the FindOrCompile call that reads the bit and the executor call there is an assignment `fv &^= 1 << alg.BitPointerValue` (or an equivalent and-not) on every path.",
		Run: runW11})
}

func runW11(c *core.Ctx) {
	p := c.Prog
	for _, rel := range []string{"internal/encoder/vm", "internal/encoder/x86"} {
		pk := p.Pkg(rel)
		if pk == nil {
			if rel == "internal/encoder/x86" && p.GOARCH != "amd64" {
				continue
			}
			c.Undecided(rel+".EncodeTypedPointer", token.NoPos, "package not loaded")
			continue
		}
		fd := core.FuncDecl(pk, "", "EncodeTypedPointer")
		cn := rel + ".EncodeTypedPointer/pointer-bit-consumed"
		if fd == nil || fd.Body == nil {
			c.Undecided(cn, token.NoPos, "not found")
			continue
		}
		c.Analysed(core.FuncName(pk, fd))
		paths, ok, why := EnumPaths(p, fd, 1, 500)
		if !ok {
			c.Undecided(cn, fd.Pos(), "cannot enumerate paths: %s", why)
			continue
		}
		execs, bad := 0, token.NoPos
		for _, pt := range paths {
			cleared := false
			for _, e := range pt {
				if as, ok := e.Stmt.(*ast.AssignStmt); ok && len(as.Lhs) == 1 && exprStr(as.Lhs[0]) == "fv" {
					r := exprStr(as.Rhs[0])
					if (as.Tok == token.AND_NOT_ASSIGN || strings.Contains(r, "&^")) && strings.Contains(r, "BitPointerValue") {
						cleared = true
					}
				}
				if e.Call != nil {
					last := ""
					if len(e.Call.Args) > 0 {
						last = exprStr(e.Call.Args[len(e.Call.Args)-1])
					}
					isExec := false
					for _, a := range e.Call.Args {
						if exprStr(a) == "fv" {
							isExec = true
						}
					}
					if isExec && !strings.Contains(exprStr(e.Call.Fun), "FindOrCompile") && last != "" {
						execs++
						if !cleared && bad == token.NoPos {
							bad = e.Call.Pos()
						}
					}
				}
			}
		}
		switch {
		case execs == 0:
			c.Undecided(cn, fd.Pos(), "no executor call taking fv found")
		case bad != token.NoPos:
			c.Bad(cn, bad, "the executor is entered with BitPointerValue still set in fv: the bit described how to compile this type only, but OP_eface / OP_iface hand the word on unchanged, so types first reached below (values in interfaces, map elements) are compiled in pointer mode and their pointer-receiver MarshalJSON runs on non-addressable values; the result then depends on nesting and inline depth")
		default:
			c.OK(cn, fd.Pos(), "BitPointerValue is cleared from fv before every executor call (%d path(s))", execs)
		}
	}
}
