package rules

import (
	"go/ast"
	"go/token"
	"go/types"
	"sort"
	"strconv"
	"strings"

	"verif/sa/core"
)

// KT1: a `switch kind { case reflect.X: ... *(*T)(ptr) ... }` reinterprets raw memory according to
// the kind it has just matched. The Go type T written in the cast must be the basic type of that
// kind: `case reflect.Uint8: *(*int8)(p)` compiles, reads the right number of bytes, and yields a
// different number for half of the values.

func init() {
	register(&core.Rule{ID: "KT1", Min: 20, Arm64: true,
		Doc: "Kind/cast parity: in every case clause of a switch over reflect.Kind constants, or over IR opcodes named after a scalar (OP_i8 ... OP_f64, OP_bool; OP_is_zero_N fixes the width only), in all non-test packages of the main module, each reinterpreting cast `(*T)(p)` of an unsafe.Pointer whose T is a basic type (bool, sized and unsized ints/uints, floats, string, uintptr) names the basic type of one of the clause's kinds; other casts (struct, slice headers, named non-basic types) are not judged.",
		Run: runKT1})
}

var opScalarKind = map[string]string{"bool": "Bool", "i8": "Int8", "i16": "Int16", "i32": "Int32", "i64": "Int64",
	"u8": "Uint8", "u16": "Uint16", "u32": "Uint32", "u64": "Uint64", "f32": "Float32", "f64": "Float64"}

var kindOfBasic = map[types.BasicKind]string{
	types.Bool: "Bool", types.Int: "Int", types.Int8: "Int8", types.Int16: "Int16", types.Int32: "Int32", types.Int64: "Int64",
	types.Uint: "Uint", types.Uint8: "Uint8", types.Uint16: "Uint16", types.Uint32: "Uint32", types.Uint64: "Uint64", types.Uintptr: "Uintptr",
	types.Float32: "Float32", types.Float64: "Float64", types.String: "String",
}

func runKT1(c *core.Ctx) {
	p := c.Prog
	n := 0
	for _, pk := range p.Pkgs {
		for _, f := range pk.Syntax {
			if strings.HasSuffix(p.Fset.Position(f.Pos()).Filename, "_test.go") {
				continue
			}
			for _, d := range f.Decls {
				fd, ok := d.(*ast.FuncDecl)
				if !ok || fd.Body == nil {
					continue
				}
				ast.Inspect(fd.Body, func(nd ast.Node) bool {
					cc, ok := nd.(*ast.CaseClause)
					if !ok || len(cc.List) == 0 {
						return true
					}
					kinds := map[string]bool{}
					widthOnly := int64(0) // OP_is_zero_N: only the width of the cast is fixed
					for _, e := range cc.List {
						k, ok := p.ExprObj(e).(*types.Const)
						if !ok || k.Pkg() == nil {
							return true
						}
						if k.Pkg().Path() == "reflect" {
							if nt, ok := k.Type().(*types.Named); !ok || nt.Obj().Name() != "Kind" {
								return true
							}
							kinds[k.Name()] = true
							continue
						}
						// IR opcodes named after the scalar they handle
						nm := strings.TrimPrefix(strings.TrimPrefix(k.Name(), "_"), "OP_")
						if kk, ok := opScalarKind[nm]; ok && strings.Contains(k.Name(), "OP_") {
							kinds[kk] = true
							continue
						}
						if strings.HasPrefix(nm, "is_zero_") && strings.Contains(k.Name(), "OP_") {
							if w, err := strconv.Atoi(strings.TrimPrefix(nm, "is_zero_")); err == nil && len(cc.List) == 1 {
								widthOnly = int64(w)
								kinds["width"+strings.TrimPrefix(nm, "is_zero_")] = true
								continue
							}
						}
						return true
					}
					var ks []string
					for k := range kinds {
						ks = append(ks, k)
					}
					sort.Strings(ks)
					for _, st := range cc.Body {
						ast.Inspect(st, func(x ast.Node) bool {
							if _, nested := x.(*ast.CaseClause); nested {
								return false // judged on its own
							}
							call, ok := x.(*ast.CallExpr)
							if !ok || len(call.Args) != 1 {
								return true
							}
							pe, ok := ast.Unparen(call.Fun).(*ast.StarExpr)
							if !ok {
								return true
							}
							tv, ok := pk.TypesInfo.Types[pe.X]
							if !ok || !tv.IsType() {
								return true
							}
							// only raw reinterpretation of an unsafe.Pointer
							at := pk.TypesInfo.TypeOf(call.Args[0])
							if b, ok := at.(*types.Basic); !ok || b.Kind() != types.UnsafePointer {
								return true
							}
							bt, ok := tv.Type.(*types.Basic) // the predeclared type itself, not a named type over it
							if !ok {
								if al, isAlias := tv.Type.(*types.Alias); isAlias {
									bt, ok = types.Unalias(al).(*types.Basic)
								}
								if !ok {
									return true
								}
							}
							want, judged := kindOfBasic[bt.Kind()]
							if !judged {
								return true
							}
							if widthOnly > 0 {
								n++
								fn := core.FuncName(pk, fd)
								c.Analysed(fn)
								cn := fn + "/case " + strings.Join(ks, ",") + "/(*" + bt.Name() + ")"
								sz := pk.TypesSizes.Sizeof(bt)
								if sz == widthOnly {
									c.OK(cn, call.Pos(), "%d-byte cast under the %d-byte zero test", sz, widthOnly)
								} else {
									c.Bad(cn, call.Pos(), "the %d-byte zero test reads a %s (%d bytes): a value whose other bytes are non-zero is taken for zero (or bytes of the neighbouring field are mixed in)", widthOnly, bt.Name(), sz)
								}
								return true
							}
							// a clause that mentions no basic kind at all (Struct, Map, ...) reads headers, not scalars
							anyBasic := false
							for k := range kinds {
								for _, v := range kindOfBasic {
									if v == k {
										anyBasic = true
									}
								}
							}
							if !anyBasic {
								return true
							}
							n++
							fn := core.FuncName(pk, fd)
							c.Analysed(fn)
							cn := fn + "/case " + strings.Join(ks, ",") + "/(*" + bt.Name() + ")"
							if kinds[want] {
								c.OK(cn, call.Pos(), "cast to %s under case reflect.%s", bt.Name(), want)
							} else {
								c.Bad(cn, call.Pos(), "under `case reflect.%s` the memory is reinterpreted as %s (kind %s): the value read differs from the one stored whenever the two types disagree (sign, width)", strings.Join(ks, ", reflect."), bt.Name(), want)
							}
							return true
						})
					}
					return true
				})
			}
		}
	}
	if n == 0 {
		c.Undecided("kind-cast", token.NoPos, "no cast under a reflect.Kind case found")
	}
}

// KT2: opcode selectors by word size. `switch _INT_SIZE { case 64: return OP_i64 }` picks the
// opcode for Go's int/uint/uintptr; the opcode returned under `case N` must be the N-bit one
// (OP_is_zero_K counts K bytes).

func init() {
	register(&core.Rule{ID: "KT2", Min: 8, Arm64: true,
		Doc: "Word-size opcode selectors (functions of the IR packages whose body is a switch over a *_SIZE constant with integer cases and constant opcode results: OP_int, OP_uint, OP_uintptr, OP_is_zero_ints, _OP_map_key_int, ...): the opcode returned under `case N` carries the width N in its name (trailing digits are bits, except OP_is_zero_K where K is bytes) and the signedness of the selector (…uint/…uintptr return _uN opcodes, …int return _iN).",
		Run: runKT2})
}

func runKT2(c *core.Ctx) {
	p := c.Prog
	n := 0
	for _, rel := range []string{"internal/encoder/ir", "internal/decoder/jitdec", "internal/encoder", "internal/decoder/optdec", "internal/encoder/x86", "internal/encoder/vm"} {
		pk := p.Pkg(rel)
		if pk == nil {
			continue
		}
		for _, fd := range core.FuncDecls(pk) {
			if fd.Body == nil || len(fd.Body.List) != 1 {
				continue
			}
			sw, ok := fd.Body.List[0].(*ast.SwitchStmt)
			if !ok || sw.Tag == nil {
				continue
			}
			tk, ok := p.ExprObj(sw.Tag).(*types.Const)
			if !ok || !strings.HasSuffix(tk.Name(), "_SIZE") {
				continue
			}
			for _, st := range sw.Body.List {
				cc := st.(*ast.CaseClause)
				if len(cc.List) != 1 || len(cc.Body) != 1 {
					continue
				}
				bits, ok := p.ConstInt(cc.List[0])
				if !ok {
					continue
				}
				ret, ok := cc.Body[0].(*ast.ReturnStmt)
				if !ok || len(ret.Results) != 1 {
					continue
				}
				op, ok := p.ExprObj(ret.Results[0]).(*types.Const)
				if !ok || !strings.Contains(op.Name(), "OP_") {
					continue
				}
				// trailing digits of the opcode name
				nm := op.Name()
				i := len(nm)
				for i > 0 && nm[i-1] >= '0' && nm[i-1] <= '9' {
					i--
				}
				fn := core.FuncName(pk, fd)
				cn := fn + "/case " + itoa(int(bits))
				if i == len(nm) {
					c.Undecided(cn, ret.Pos(), "opcode %s has no width in its name", nm)
					continue
				}
				w, _ := strconv.Atoi(nm[i:])
				if strings.Contains(nm, "is_zero_") {
					w *= 8
				}
				n++
				c.Analysed(fn)
				// signedness follows the selector's name (OP_uint / OP_uintptr vs OP_int)
				signOK := true
				switch {
				case strings.Contains(nm, "is_zero_"):
				case strings.HasSuffix(fd.Name.Name, "uint") || strings.HasSuffix(fd.Name.Name, "uintptr"):
					signOK = strings.Contains(nm, "_u"+nm[i:])
				case strings.HasSuffix(fd.Name.Name, "int"):
					signOK = strings.Contains(nm, "_i"+nm[i:])
				}
				if int64(w) == bits && !signOK {
					c.Bad(cn, ret.Pos(), "%s returns %s: the signedness of the opcode does not match the Go type the selector stands for", fd.Name.Name, nm)
					continue
				}
				if int64(w) == bits {
					c.OK(cn, ret.Pos(), "%s under %s == %d", nm, tk.Name(), bits)
				} else {
					c.Bad(cn, ret.Pos(), "%s is selected for a %d-bit word (%s == %d) but handles %d bits: Go int/uint/uintptr values are read or tested with the wrong width (e.g. an `omitempty` int holding 1<<32 is taken for zero)", nm, bits, tk.Name(), bits, w)
				}
			}
		}
	}
	if n == 0 {
		c.Undecided("word-size-selectors", token.NoPos, "no selector found")
	}
}

// KT3: width of the zero test chosen per kind. `omitempty` compiles to OP_is_zero_N, which tests
// N bytes. Under a clause for reflect kinds K1..Kn the N must be the size of every Ki: a uint16
// tested with OP_is_zero_1 is "empty" whenever its low byte is zero (0x0100 is dropped).

func init() {
	register(&core.Rule{ID: "KT3", Min: 8, Arm64: true,
		Doc: "Zero-test width per kind: in every case clause over reflect.Kind constants (one or several kinds) of the IR compilers whose body names an opcode OP_is_zero_N, N equals the byte size of each kind listed (Bool/Int8/Uint8 = 1, Int16/Uint16 = 2, Int32/Uint32/Float32 = 4, Int64/Uint64/Float64 = 8); word-sized kinds (Int, Uint, Uintptr) must not use a fixed N.",
		Run: runKT3})
}

var kindBytes = map[string]int{"Bool": 1, "Int8": 1, "Uint8": 1, "Int16": 2, "Uint16": 2, "Int32": 4, "Uint32": 4, "Float32": 4, "Int64": 8, "Uint64": 8, "Float64": 8}

func runKT3(c *core.Ctx) {
	p := c.Prog
	n := 0
	for _, rel := range []string{"internal/encoder", "internal/encoder/ir", "internal/decoder/jitdec"} {
		pk := p.Pkg(rel)
		if pk == nil {
			continue
		}
		for _, fd := range core.FuncDecls(pk) {
			if fd.Body == nil {
				continue
			}
			fn := core.FuncName(pk, fd)
			ast.Inspect(fd.Body, func(nd ast.Node) bool {
				cc, ok := nd.(*ast.CaseClause)
				if !ok || len(cc.List) == 0 {
					return true
				}
				var kinds []string
				for _, e := range cc.List {
					k, ok := p.ExprObj(e).(*types.Const)
					if !ok || k.Pkg() == nil || k.Pkg().Path() != "reflect" {
						return true
					}
					kinds = append(kinds, k.Name())
				}
				widths := map[int]token.Pos{}
				for _, st := range cc.Body {
					ast.Inspect(st, func(x ast.Node) bool {
						if _, nested := x.(*ast.CaseClause); nested {
							return false
						}
						var nm string
						switch y := x.(type) {
						case *ast.Ident:
							nm = y.Name
						case *ast.SelectorExpr:
							nm = y.Sel.Name
						default:
							return true
						}
						if i := strings.Index(nm, "OP_is_zero_"); i >= 0 {
							if w, err := strconv.Atoi(nm[i+len("OP_is_zero_"):]); err == nil {
								widths[w] = x.Pos()
							}
						}
						return true
					})
				}
				if len(widths) == 0 {
					return true
				}
				n++
				c.Analysed(fn)
				cn := fn + "/zero-width/case " + strings.Join(kinds, ",")
				bad := ""
				var badPos token.Pos
				for w, pos := range widths {
					for _, k := range kinds {
						kb, sized := kindBytes[k]
						switch {
						case !sized && (k == "Int" || k == "Uint" || k == "Uintptr"):
							bad, badPos = "reflect."+k+" is word-sized but is tested with the fixed width OP_is_zero_"+itoa(w), pos
						case sized && kb != w:
							bad, badPos = "reflect."+k+" occupies "+itoa(kb)+" byte(s) but is tested with OP_is_zero_"+itoa(w)+": an `omitempty` field of that kind is taken for empty (or non-empty) by looking at the wrong number of bytes", pos
						}
					}
				}
				if bad != "" {
					c.Bad(cn, badPos, "%s", bad)
				} else {
					c.OK(cn, cc.Pos(), "zero test width matches the kind(s)")
				}
				return true
			})
		}
	}
	if n == 0 {
		c.Undecided("zero-width", token.NoPos, "no kind clause with an OP_is_zero_N found")
	}
}

// KT4: node kind and payload accessor agree (optdec). The DOM node stores a number as an
// unsigned integer (KUint), a signed integer (KSint) or a float (KReal) in the same 64-bit
// field; U64 / I64 / F64 reinterpret it. Under `case KUint` only U64 gives the value: I64 turns
// 18446744073709551615 into -1.

func init() {
	register(&core.Rule{ID: "KT4", Min: 6, Arm64: true,
		Doc: "Payload accessors under node-kind clauses of internal/decoder/optdec: in every case clause over the node kinds KUint / KSint / KReal, each call of a payload accessor U64() / I64() / F64() matches every kind the clause lists (KUint: U64, KSint: I64, KReal: F64); a clause that lists kinds with different accessors may not call any of them.",
		Run: runKT4})
}

func runKT4(c *core.Ctx) {
	p := c.Prog
	pk := p.Pkg("internal/decoder/optdec")
	if pk == nil {
		c.Undecided("internal/decoder/optdec", token.NoPos, "package not loaded")
		return
	}
	want := map[string]string{"KUint": "U64", "KSint": "I64", "KReal": "F64"}
	n := 0
	for _, fd := range core.FuncDecls(pk) {
		if fd.Body == nil {
			continue
		}
		fn := core.FuncName(pk, fd)
		ord := 0
		ast.Inspect(fd.Body, func(nd ast.Node) bool {
			cc, ok := nd.(*ast.CaseClause)
			if !ok || len(cc.List) == 0 {
				return true
			}
			var kinds []string
			for _, e := range cc.List {
				k, ok := p.ExprObj(e).(*types.Const)
				if !ok || want[k.Name()] == "" {
					return true
				}
				kinds = append(kinds, k.Name())
			}
			var bad []string
			var badPos token.Pos
			calls := 0
			for _, st := range cc.Body {
				ast.Inspect(st, func(x ast.Node) bool {
					if _, nested := x.(*ast.CaseClause); nested {
						return false
					}
					call, ok := x.(*ast.CallExpr)
					if !ok || len(call.Args) != 0 {
						return true
					}
					se, ok := call.Fun.(*ast.SelectorExpr)
					if !ok || (se.Sel.Name != "U64" && se.Sel.Name != "I64" && se.Sel.Name != "F64") {
						return true
					}
					calls++
					for _, k := range kinds {
						if want[k] != se.Sel.Name {
							bad = append(bad, se.Sel.Name+"() under "+k)
							if badPos == token.NoPos {
								badPos = call.Pos()
							}
						}
					}
					return true
				})
			}
			if calls == 0 {
				return true
			}
			n++
			ord++
			c.Analysed(fn)
			cn := fn + "/case " + strings.Join(kinds, ",") + "#" + itoa(ord)
			if len(bad) > 0 {
				c.Bad(cn, badPos, "%s: the 64-bit payload is reinterpreted with the accessor of another kind (a KUint value of 2^63 or more read with I64() becomes negative, e.g. 18446744073709551615 decodes to -1 into a float64 or interface{} destination)", strings.Join(bad, ", "))
			} else {
				c.OK(cn, cc.Pos(), "payload accessor matches the node kind")
			}
			return true
		})
	}
	if n == 0 {
		c.Undecided("optdec/node-kind-accessor", token.NoPos, "no payload accessor under a node-kind clause found")
	}
}
