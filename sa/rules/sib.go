package rules

import (
	"regexp"
	"go/ast"
	"go/token"
	"go/types"
	"sort"
	"strings"
	"unicode"

	"golang.org/x/tools/go/packages"

	"verif/sa/core"
)

func init() {
	register(&core.Rule{ID: "S1", Min: 150,
		Doc: "Opcode totality: every ir.Op constant has a non-nil row in x86._OpFuncTab whose handler is the method named _asm_<op>, and a case in vm.Execute's opcode switch; every jitdec._Op constant has a row in jitdec._OpFuncTab naming _asm_<op>. Sibling executors cover the same opcodes.",
		Run: runS1})
	register(&core.Rule{ID: "S2p", Min: 20,
		Doc: "The parse-side rows of S2: every dispatch variable of internal/native whose name marks a routine that decides which text is accepted (skip_*, validate_*, get_by_path, value, vstring, vnumber, vsigned, vunsigned, lspace, parse_*, unquote) is bound, in useSSE and in useAVX2, exactly once and to the same-named routine of that build; binding S_skip_one to the non-validating skip_one_fast makes the decoder accept malformed values it skips.",
		Run: func(c *core.Ctx) {
			runS2f(c, func(cn string) bool {
				i := strings.LastIndex(cn, "/")
				return i >= 0 && s2ParseRow.MatchString(strings.ToLower(cn[i+1:]))
			})
		}})
	register(&core.Rule{ID: "S2", Min: 100,
		Doc: "Native dispatch: useSSE and useAVX2 assign the same set of package variables, each once, each from its own implementation package (sse / avx2) and from the identically named member (S_x <- S_x, __CamelName <- F_snake_name); every S_*/__* variable that is read anywhere is assigned by both; the generated native_export.go rows are self-consistent (_text_X, _cfunc_X, \"_X\", &S_X, &F_X) and identical in both packages; F_X have identical types in both packages and match the dispatcher variable's type.",
		Run: runS2})
}

// constsOfType lists the constants of a package whose type is the named type tname.
func constsOfType(pk *packages.Package, tname string) []*types.Const {
	var out []*types.Const
	sc := pk.Types.Scope()
	for _, n := range sc.Names() {
		k, ok := sc.Lookup(n).(*types.Const)
		if !ok {
			continue
		}
		if nt, ok := k.Type().(*types.Named); ok && nt.Obj().Name() == tname && nt.Obj().Pkg() == pk.Types {
			out = append(out, k)
		}
	}
	return out
}

// funcTab extracts key const -> handler method name from `var name = [N]func(...){ K: (*T).m, ... }`.
func funcTab(p *core.Program, pk *packages.Package, name string) (map[types.Object]string, map[types.Object]token.Pos, token.Pos) {
	o := core.Obj(pk, name)
	if o == nil {
		return nil, nil, token.NoPos
	}
	init := p.VarInit(o)
	cl, ok := init.(*ast.CompositeLit)
	if !ok {
		return nil, nil, o.Pos()
	}
	tab := map[types.Object]string{}
	pos := map[types.Object]token.Pos{}
	for _, el := range cl.Elts {
		kv, ok := el.(*ast.KeyValueExpr)
		if !ok {
			continue
		}
		k := p.ExprObj(kv.Key)
		if k == nil {
			continue
		}
		v := ast.Unparen(kv.Value)
		h := ""
		if se, ok := v.(*ast.SelectorExpr); ok {
			h = se.Sel.Name
		} else if id, ok := v.(*ast.Ident); ok {
			h = id.Name
		}
		tab[k] = h
		pos[k] = kv.Pos()
	}
	return tab, pos, o.Pos()
}

func runS1(c *core.Ctx) {
	p := c.Prog
	irp := p.Pkg("internal/encoder/ir")
	x86 := p.Pkg("internal/encoder/x86")
	vm := p.Pkg("internal/encoder/vm")
	jd := p.Pkg("internal/decoder/jitdec")
	if irp == nil || vm == nil {
		c.Undecided("encoder", token.NoPos, "packages ir/vm not loaded")
		return
	}
	ops := constsOfType(irp, "Op")
	if len(ops) < 40 {
		c.Undecided("internal/encoder/ir.Op", token.NoPos, "only %d opcodes found", len(ops))
	}
	// vm.Execute switch
	vmCases := map[types.Object]token.Pos{}
	if fd := core.FuncDecl(vm, "", "Execute"); fd != nil {
		c.Analysed("internal/encoder/vm.Execute")
		ast.Inspect(fd.Body, func(n ast.Node) bool {
			cc, ok := n.(*ast.CaseClause)
			if !ok {
				return true
			}
			for _, e := range cc.List {
				if o, ok := p.ExprObj(e).(*types.Const); ok && o.Pkg() == irp.Types {
					vmCases[o] = cc.Pos()
				}
			}
			return true
		})
	} else {
		c.Undecided("internal/encoder/vm.Execute", token.NoPos, "not found")
	}
	var xtab map[types.Object]string
	var xpos map[types.Object]token.Pos
	if x86 != nil { // amd64 only
		xtab, xpos, _ = funcTab(p, x86, "_OpFuncTab")
		if xtab == nil {
			c.Undecided("internal/encoder/x86._OpFuncTab", token.NoPos, "table not found or not a composite literal")
		}
	}
	for _, op := range ops {
		if pos, ok := vmCases[op]; ok {
			c.OK("vm.Execute/"+op.Name(), pos, "case present")
		} else {
			c.Bad("vm.Execute/"+op.Name(), op.Pos(), "opcode %s has no case in vm.Execute: a program using it fails (or falls to default) only under the interpreter", op.Name())
		}
		if xtab != nil {
			h, ok := xtab[op]
			switch {
			case !ok || h == "" || h == "nil":
				c.Bad("x86._OpFuncTab/"+op.Name(), op.Pos(), "opcode %s has no handler row in x86._OpFuncTab", op.Name())
			case h != "_asm_"+op.Name():
				c.Bad("x86._OpFuncTab/"+op.Name(), xpos[op], "row %s dispatches to %s, expected _asm_%s", op.Name(), h, op.Name())
			default:
				c.OK("x86._OpFuncTab/"+op.Name(), xpos[op], "-> %s", h)
			}
		}
	}
	if jd != nil && jd.Types.Scope().Lookup("_OpFuncTab") != nil {
		jops := constsOfType(jd, "_Op")
		jtab, jpos, _ := funcTab(p, jd, "_OpFuncTab")
		if jtab == nil || len(jops) < 50 {
			c.Undecided("internal/decoder/jitdec._OpFuncTab", token.NoPos, "table not found (ops=%d)", len(jops))
		}
		for _, op := range jops {
			h, ok := jtab[op]
			switch {
			case !ok || h == "" || h == "nil":
				c.Bad("jitdec._OpFuncTab/"+op.Name(), op.Pos(), "opcode %s has no handler row in jitdec._OpFuncTab", op.Name())
			case h != "_asm"+op.Name() && handlerNameExceptions[strings.TrimPrefix(h, "_asm")] != op.Name():
				c.Bad("jitdec._OpFuncTab/"+op.Name(), jpos[op], "row %s dispatches to %s, expected _asm%s", op.Name(), h, op.Name())
			default:
				c.OK("jitdec._OpFuncTab/"+op.Name(), jpos[op], "-> %s", h)
			}
		}
	}
}

func camelToSnake(s string) string {
	r := []rune(s)
	var b strings.Builder
	for i, ch := range r {
		if i > 0 && unicode.IsUpper(ch) {
			prev := r[i-1]
			nextLower := i+1 < len(r) && unicode.IsLower(r[i+1])
			if unicode.IsLower(prev) || (unicode.IsDigit(prev) && nextLower) || (unicode.IsUpper(prev) && nextLower) {
				b.WriteByte('_')
			}
		}
		b.WriteRune(unicode.ToLower(ch))
	}
	return b.String()
}

type dispRow struct {
	lhs    types.Object
	rhsPkg string
	rhs    string
	rhsObj types.Object
	pos    token.Pos
}

func runS2(c0 *core.Ctx) { runS2f(c0, nil) }

// parse-side dispatch rows: the natives that decide what text is accepted
var s2ParseRow = regexp.MustCompile(`skip|valid|get_by_path|value|vstring|vnumber|vsigned|vunsigned|lspace|parse|unquote`)

func runS2f(c0 *core.Ctx, keep func(construct string) bool) {
	c := &filtCtx{c0, keep}
	p := c.Prog
	nat := p.Pkg("internal/native")
	if nat == nil || core.FuncDecl(nat, "", "useSSE") == nil {
		if p.GOARCH != "amd64" {
			c.OK("internal/native", token.NoPos, "no SIMD dispatch on %s", p.GOARCH)
			return
		}
		c.Undecided("internal/native.useSSE", token.NoPos, "not found")
		return
	}
	rows := map[string]map[types.Object][]dispRow{}
	for _, fn := range []string{"useSSE", "useAVX2"} {
		fd := core.FuncDecl(nat, "", fn)
		if fd == nil {
			c.Undecided("internal/native."+fn, token.NoPos, "not found")
			return
		}
		c.Analysed("internal/native." + fn)
		rows[fn] = map[types.Object][]dispRow{}
		wantPkg := map[string]string{"useSSE": "internal/native/sse", "useAVX2": "internal/native/avx2"}[fn]
		usedCalled := false
		for _, s := range fd.Body.List {
			switch s := s.(type) {
			case *ast.ExprStmt:
				if call, ok := s.X.(*ast.CallExpr); ok {
					if o := p.Callee(call); o != nil && o.Name() == "Use" && o.Pkg() != nil && core.Rel(o.Pkg().Path()) == wantPkg {
						usedCalled = true
						continue
					}
				}
				c.Undecided("internal/native."+fn, s.Pos(), "unrecognised statement")
			case *ast.AssignStmt:
				if len(s.Lhs) != 1 || len(s.Rhs) != 1 || s.Tok != token.ASSIGN {
					c.Undecided("internal/native."+fn, s.Pos(), "unrecognised assignment")
					continue
				}
				lo := p.ExprObj(s.Lhs[0])
				ro := p.ExprObj(s.Rhs[0])
				if lo == nil || ro == nil || ro.Pkg() == nil {
					c.Undecided("internal/native."+fn, s.Pos(), "unresolved assignment %s", exprStr(s.Lhs[0]))
					continue
				}
				rows[fn][lo] = append(rows[fn][lo], dispRow{lo, core.Rel(ro.Pkg().Path()), ro.Name(), ro, s.Pos()})
			default:
				c.Undecided("internal/native."+fn, s.Pos(), "unrecognised statement")
			}
		}
		c.Check(usedCalled, "internal/native."+fn+"/Use", fd.Pos(), "calls "+wantPkg+".Use()", "does not call "+wantPkg+".Use(): the native text would never be loaded")
		for lo, rs := range rows[fn] {
			cn := "internal/native." + fn + "/" + lo.Name()
			r := rs[0]
			want := lo.Name()
			if strings.HasPrefix(want, "__") {
				want = "F_" + camelToSnake(strings.TrimPrefix(want, "__"))
			}
			if len(rs) > 1 {
				msg := ""
				for _, x := range rs {
					if x.rhs != want || x.rhsPkg != wantPkg {
						msg = "; the assignment at " + p.Pos(x.pos) + " binds it to " + x.rhsPkg + "." + x.rhs + " (expected " + want + "), and the last assignment wins"
					}
				}
				c.Bad(cn, rs[1].pos, "%s assigned %d times%s", lo.Name(), len(rs), msg)
				continue
			}
			switch {
			case r.rhsPkg != wantPkg:
				c.Bad(cn, r.pos, "%s is taken from package %s inside %s (expected %s)", lo.Name(), r.rhsPkg, fn, wantPkg)
			case r.rhs != want:
				c.Bad(cn, r.pos, "%s = %s.%s: crossed dispatch row (expected %s)", lo.Name(), r.rhsPkg, r.rhs, want)
			case !types.Identical(lo.Type(), r.rhsObj.Type()):
				c.Bad(cn, r.pos, "type of %s differs from %s.%s", lo.Name(), r.rhsPkg, r.rhs)
			default:
				c.OK(cn, r.pos, "= %s.%s", r.rhsPkg, r.rhs)
			}
		}
	}
	// same LHS set in both
	for lo := range rows["useSSE"] {
		if _, ok := rows["useAVX2"][lo]; !ok {
			c.Bad("internal/native.useAVX2/"+lo.Name(), token.NoPos, "%s is assigned by useSSE but not by useAVX2", lo.Name())
		}
	}
	for lo := range rows["useAVX2"] {
		if _, ok := rows["useSSE"][lo]; !ok {
			c.Bad("internal/native.useSSE/"+lo.Name(), token.NoPos, "%s is assigned by useAVX2 but not by useSSE", lo.Name())
		}
	}
	// every S_/__ variable read anywhere must be assigned by both
	read := map[types.Object]token.Pos{}
	for _, pk := range p.Pkgs {
		for _, f := range pk.Syntax {
			lhs := map[*ast.Ident]bool{}
			ast.Inspect(f, func(n ast.Node) bool {
				if as, ok := n.(*ast.AssignStmt); ok && as.Tok == token.ASSIGN {
					for _, l := range as.Lhs {
						switch x := ast.Unparen(l).(type) {
						case *ast.Ident:
							lhs[x] = true
						case *ast.SelectorExpr:
							lhs[x.Sel] = true
						}
					}
				}
				return true
			})
			ast.Inspect(f, func(n ast.Node) bool {
				id, ok := n.(*ast.Ident)
				if !ok || lhs[id] || !p.IsUse(id) {
					return true
				}
				if o, ok := p.ObjectOf(id).(*types.Var); ok && o.Pkg() == nat.Types && !o.IsField() && o.Parent() == nat.Types.Scope() {
					read[o] = id.Pos()
				}
				return true
			})
		}
	}
	var rnames []types.Object
	for o := range read {
		if strings.HasPrefix(o.Name(), "S_") || strings.HasPrefix(o.Name(), "__") {
			rnames = append(rnames, o)
		}
	}
	sort.Slice(rnames, func(i, j int) bool { return rnames[i].Name() < rnames[j].Name() })
	for _, o := range rnames {
		_, a := rows["useSSE"][o]
		_, b := rows["useAVX2"][o]
		c.Check(a && b, "internal/native/"+o.Name()+"/assigned", read[o], "read and assigned by both dispatchers", o.Name()+" is read but not assigned by both useSSE and useAVX2 (stays zero/nil in one mode)")
	}

	// native_export.go rows
	exp := map[string]map[string]string{}
	for _, rel := range []string{"internal/native/sse", "internal/native/avx2"} {
		pk := p.Pkg(rel)
		fd := core.FuncDecl(pk, "", "Use")
		if fd == nil {
			c.Undecided(rel+".Use", token.NoPos, "not found")
			continue
		}
		c.Analysed(rel + ".Use")
		exp[rel] = map[string]string{}
		for _, s := range fd.Body.List {
			es, ok := s.(*ast.ExprStmt)
			if !ok {
				continue
			}
			call, ok := es.X.(*ast.CallExpr)
			if !ok || len(call.Args) < 3 {
				continue
			}
			if o := p.Callee(call); o == nil || o.Name() != "WrapGoC" {
				continue
			}
			text, cf := exprStr(call.Args[0]), exprStr(call.Args[1])
			cl, ok := call.Args[2].(*ast.CompositeLit)
			if !ok {
				c.Undecided(rel+".Use", call.Pos(), "unrecognised WrapGoC argument")
				continue
			}
			base := strings.TrimPrefix(text, "_text_")
			okRow := strings.HasPrefix(text, "_text_") && cf == "_cfunc_"+base && len(cl.Elts) >= 1
			var desc []string
			for _, el := range cl.Elts {
				row, ok := el.(*ast.CompositeLit)
				if !ok || len(row.Elts) != 3 {
					okRow = false
					continue
				}
				name := strings.Trim(exprStr(row.Elts[0]), "\"`")
				s1, f1 := exprStr(row.Elts[1]), exprStr(row.Elts[2])
				sub := strings.TrimPrefix(name, "_")
				if s1 != "&S_"+sub || f1 != "&F_"+sub {
					okRow = false
				}
				desc = append(desc, name+","+s1+","+f1)
			}
			exp[rel][base] = strings.Join(desc, ";")
			cn := rel + ".Use/" + base
			if okRow && len(cl.Elts) == 1 && strings.HasPrefix(exp[rel][base], "_"+base+",") {
				c.OK(cn, call.Pos(), "row self-consistent: %s", exp[rel][base])
			} else if okRow {
				c.OK(cn, call.Pos(), "row self-consistent (multi-entry): %s", exp[rel][base])
			} else {
				c.Bad(cn, call.Pos(), "inconsistent export row: text=%s cfunc=%s entries=%s", text, cf, exp[rel][base])
			}
		}
	}
	if a, b := exp["internal/native/sse"], exp["internal/native/avx2"]; a != nil && b != nil {
		keys := map[string]bool{}
		for k := range a {
			keys[k] = true
		}
		for k := range b {
			keys[k] = true
		}
		for _, k := range sortedKeys(keys) {
			c.Check(a[k] == b[k] && a[k] != "", "internal/native/{sse,avx2}.Use/"+k, token.NoPos, "identical export row in sse and avx2", "export rows differ: sse="+a[k]+" avx2="+b[k])
		}
	}
}

func init() {
	register(&core.Rule{ID: "S2b", Min: 1,
		Doc: "SIMD-mode branches in the emitters are total: every `if cpu.HasAVX2` / `if !cpu.HasAVX2` inside an emitter method has both arms, and both arms write the same destination operands (a register set in one mode and left undefined in the other makes the generated code depend on the instruction-set mode).",
		Run: runS2b})
}

func runS2b(c *core.Ctx) {
	p := c.Prog
	if p.GOARCH != "amd64" {
		return
	}
	em := emitModel{p}
	n := 0
	for _, rel := range []string{"internal/encoder/x86", "internal/decoder/jitdec"} {
		pk := p.Pkg(rel)
		if pk == nil {
			continue
		}
		for _, fd := range core.FuncDecls(pk) {
			if fd.Body == nil || fd.Recv == nil {
				continue
			}
			recv := recvObj(p, fd)
			fn := core.FuncName(pk, fd)
			k := 0
			ast.Inspect(fd.Body, func(nd ast.Node) bool {
				ifs, ok := nd.(*ast.IfStmt)
				if !ok || !strings.Contains(exprStr(ifs.Cond), "HasAVX2") {
					return true
				}
				n++
				k++
				cn := fn + "/avx2-branch#" + itoa(k)
				c.Analysed(fn)
				dests := func(b ast.Node) map[string]bool {
					out := map[string]bool{}
					if b == nil {
						return out
					}
					ast.Inspect(b, func(m ast.Node) bool {
						call, ok := m.(*ast.CallExpr)
						if !ok {
							return true
						}
						op, isSelf := em.classify(call, recv)
						if isSelf && op.Kind == "Emit" && len(op.Ops) >= 1 && !nonWriting[op.Mnem] {
							out[op.Ops[len(op.Ops)-1].String()] = true
						}
						return true
					})
					return out
				}
				a := dests(ifs.Body)
				var b map[string]bool
				if ifs.Else != nil {
					b = dests(ifs.Else)
				} else {
					b = map[string]bool{}
				}
				onlyA, onlyB := setDiff(a, b)
				if len(onlyA) == 0 && len(onlyB) == 0 {
					c.OK(cn, ifs.Pos(), "both instruction-set arms define %v", sortedKeys(a))
				} else {
					c.Bad(cn, ifs.Pos(), "the two arms of the cpu.HasAVX2 branch do not define the same operands (only in one arm: %v / %v): the operand keeps an unrelated value in the other instruction-set mode, so results differ between AVX2 and SSE", onlyA, onlyB)
				}
				return true
			})
		}
	}
	if n == 0 {
		c.Undecided("emitters/avx2-branch", token.NoPos, "no cpu.HasAVX2 branch found in the emitters")
	}
}

// filtCtx restricts a rule's obligations to the constructs accepted by keep (nil: all).
type filtCtx struct {
	*core.Ctx
	keep func(construct string) bool
}

func (w *filtCtx) ok(cn string) bool { return w.keep == nil || w.keep(cn) }
func (w *filtCtx) OK(cn string, pos token.Pos, f string, a ...interface{}) {
	if w.ok(cn) {
		w.Ctx.OK(cn, pos, f, a...)
	}
}
func (w *filtCtx) Bad(cn string, pos token.Pos, f string, a ...interface{}) {
	if w.ok(cn) {
		w.Ctx.Bad(cn, pos, f, a...)
	}
}
func (w *filtCtx) Undecided(cn string, pos token.Pos, f string, a ...interface{}) {
	if w.ok(cn) || !strings.Contains(cn, "/") {
		w.Ctx.Undecided(cn, pos, f, a...)
	}
}
func (w *filtCtx) Check(cond bool, cn string, pos token.Pos, okMsg, badMsg string) {
	if w.ok(cn) {
		w.Ctx.Check(cond, cn, pos, okMsg, badMsg)
	}
}
