package rules

import (
	"go/ast"
	"go/constant"
	"go/token"
	"go/types"
	"sort"
	"strings"

	"verif/sa/core"
)

// ---------------------------------------------------------------------------
// frozen tables (confirmed by reading the pinned tree)

// Config field -> canonical bits it must set in Froze (W1).
var frozeTable = map[string][]string{
	"EscapeHTML":              {"internal/encoder/alg.BitEscapeHTML"},
	"SortMapKeys":             {"internal/encoder/alg.BitSortMapKeys"},
	"CompactMarshaler":        {"internal/encoder/alg.BitCompactMarshaler"},
	"NoQuoteTextMarshaler":    {"internal/encoder/alg.BitNoQuoteTextMarshaler"},
	"NoNullSliceOrMap":        {"internal/encoder/alg.BitNoNullSliceOrMap"},
	"ValidateString":          {"internal/decoder/consts.F_validate_string", "internal/encoder/alg.BitValidateString"},
	"NoValidateJSONMarshaler": {"internal/encoder/alg.BitNoValidateJSONMarshaler"},
	"NoEncoderNewline":        {"internal/encoder/alg.BitNoEncoderNewline"},
	"EncodeNullForInfOrNan":   {"internal/encoder/alg.BitEncodeNullForInfOrNan"},
	"NoValidateJSONSkip":      {"internal/decoder/consts.F_no_validate_json"},
	"UseInt64":                {"internal/decoder/consts.F_use_int64"},
	"UseNumber":               {"internal/decoder/consts.F_use_number"},
	"UseUnicodeErrors":        {"internal/decoder/consts.F_disable_urc"},
	"DisallowUnknownFields":   {"internal/decoder/consts.F_disable_unknown"},
	"CopyString":              {"internal/decoder/consts.F_copy_string"},
	"CaseSensitive":           {"internal/decoder/consts.F_case_sensitive"},
}

// exported option constant name -> canonical bit (W2). Encoder names map to
// "Bit"+name; decoder names carry irregular rows with a reason.
var decOptionBit = map[string]string{
	"OptionUseInt64":         "F_use_int64",
	"OptionUseNumber":        "F_use_number",
	"OptionUseUnicodeErrors": "F_disable_urc", // "disable unicode replacement char" is the internal name
	"OptionDisableUnknown":   "F_disable_unknown",
	"OptionCopyString":       "F_copy_string",
	"OptionValidateString":   "F_validate_string",
	"OptionNoValidateJSON":   "F_no_validate_json",
	"OptionCaseSensitive":    "F_case_sensitive",
}

var encOptionNames = []string{"SortMapKeys", "EscapeHTML", "CompactMarshaler", "NoQuoteTextMarshaler",
	"NoNullSliceOrMap", "ValidateString", "NoValidateJSONMarshaler", "NoEncoderNewline", "EncodeNullForInfOrNan"}

type setterRow struct {
	pkg, recv, name string
	boolParam       bool
	set, clear      []string // canonical bit names (unqualified)
}

// W4: setter methods and their exact effect on the option word.
var setterTable = []setterRow{
	{"internal/encoder", "Encoder", "SortKeys", false, []string{"BitSortMapKeys"}, nil},
	{"internal/encoder", "Encoder", "SetEscapeHTML", true, []string{"BitEscapeHTML"}, nil},
	{"internal/encoder", "Encoder", "SetValidateString", true, []string{"BitValidateString"}, nil},
	{"internal/encoder", "Encoder", "SetNoValidateJSONMarshaler", true, []string{"BitNoValidateJSONMarshaler"}, nil},
	{"internal/encoder", "Encoder", "SetNoEncoderNewline", true, []string{"BitNoEncoderNewline"}, nil},
	{"internal/encoder", "Encoder", "SetCompactMarshaler", true, []string{"BitCompactMarshaler"}, nil},
	{"internal/encoder", "Encoder", "SetNoQuoteTextMarshaler", true, []string{"BitNoQuoteTextMarshaler"}, nil},
	{"internal/decoder/api", "Decoder", "UseInt64", false, []string{"F_use_int64"}, []string{"F_use_number"}},
	{"internal/decoder/api", "Decoder", "UseNumber", false, []string{"F_use_number"}, []string{"F_use_int64"}},
	{"internal/decoder/api", "Decoder", "UseUnicodeErrors", false, []string{"F_disable_urc"}, nil},
	{"internal/decoder/api", "Decoder", "DisallowUnknownFields", false, []string{"F_disable_unknown"}, nil},
	{"internal/decoder/api", "Decoder", "CopyString", false, []string{"F_copy_string"}, nil},
	{"internal/decoder/api", "Decoder", "ValidateString", false, []string{"F_validate_string"}, nil},
}

func init() {
	register(&core.Rule{ID: "W1", Min: 16, Arm64: true,
		Doc: "Config.Froze: every Config field is read exactly in `if cfg.F { api.<side>Opts |= K }` rows whose K resolves (by object, through its initialiser chain) to the canonical bit(s) the frozen field table assigns; no bit is set unconditionally; no field is left unread.",
		Run: func(c *core.Ctx) { runW1(c, nil) }})
	register(&core.Rule{ID: "W1c", Min: 1, Arm64: true,
		Doc: "The CopyString row of W1 alone: Config.CopyString reaches F_copy_string in the frozen decoder word and no later plain assignment to that word discards it (the no-alias guarantee of ConfigStd and of Config{CopyString:true} rests on this bit).",
		Run: func(c *core.Ctx) { runW1(c, map[string]bool{"CopyString": true}) }})
	register(&core.Rule{ID: "W2", Min: 30, Arm64: true,
		Doc: "Every exported option constant (sonic/encoder, internal/encoder, sonic/decoder, internal/decoder/api, internal/decoder/consts) resolves through its initialiser chain to `1 << <the canonical bit of its name>`; CompatibleWithStd = SortMapKeys|EscapeHTML|CompactMarshaler.",
		Run: runW2})
	register(&core.Rule{ID: "W3", Min: 2, Arm64: true,
		Doc: "Within one option word the canonical bit positions (alg.Bit*, consts.F_*) have pairwise distinct values in 0..63.",
		Run: runW3})
	register(&core.Rule{ID: "W4", Min: 17, Arm64: true,
		Doc: "Each setter of encoder.Encoder / api.Decoder sets exactly the canonical bit of its table row (bool setters: |= in the true arm and &^ of the same bit in the false arm; UseInt64/UseNumber clear each other); SetOptions stores the whole word and rejects UseNumber+UseInt64; frozenConfig.NewEncoder/NewDecoder and the Marshal/Unmarshal methods hand over the whole frozen option word.",
		Run: runW4})
}

// ---------------------------------------------------------------------------

func runW1(c0 *core.Ctx, only map[string]bool) {
	c := &w1ctx{c0, only}
	p := c.Prog
	root := p.Pkg("")
	fd := core.FuncDecl(root, "Config", "Froze")
	cfgObj := core.Obj(root, "Config")
	if fd == nil || cfgObj == nil {
		c.Undecided("sonic.(Config).Froze", token.NoPos, "anchor not found")
		return
	}
	c.Analysed(core.FuncName(root, fd))
	st, ok := cfgObj.Type().Underlying().(*types.Struct)
	if !ok {
		c.Undecided("sonic.Config", cfgObj.Pos(), "Config is not a struct")
		return
	}
	recv := recvObj(p, fd)
	bf := bitFamily{p}
	got := map[string][]string{} // field -> bits
	pos := map[string]token.Pos{}
	sideOf := map[string][]string{} // option word -> fields accumulated so far, in order
	clobbered := map[string]token.Pos{}
	// the variable that receives &frozenConfig{...}
	handleAssign := func(field string, s ast.Stmt) bool {
		as, ok := s.(*ast.AssignStmt)
		if !ok || len(as.Lhs) != 1 || len(as.Rhs) != 1 || (as.Tok != token.OR_ASSIGN && as.Tok != token.ASSIGN) {
			return false
		}
		lhs, ok := as.Lhs[0].(*ast.SelectorExpr)
		if !ok {
			return false
		}
		side := ""
		switch lhs.Sel.Name {
		case "encoderOpts":
			side = "internal/encoder/alg"
		case "decoderOpts":
			side = "internal/decoder/consts"
		default:
			return false
		}
		if as.Tok == token.ASSIGN {
			// a plain store discards every bit the earlier rows OR-ed into this word
			for _, f := range sideOf[lhs.Sel.Name] {
				if f != field {
					clobbered[f] = as.Pos()
				}
			}
			sideOf[lhs.Sel.Name] = nil
		}
		sideOf[lhs.Sel.Name] = append(sideOf[lhs.Sel.Name], field)
		bits, shifted, ok := bf.bitsOf(as.Rhs[0], 0)
		if !ok || !shifted {
			c.Undecided("sonic.(Config).Froze/"+field, as.Pos(), "right-hand side %s does not resolve to 1<<canonical-bit", exprStr(as.Rhs[0]))
			return true
		}
		for _, b := range bits {
			if core.Rel(b.Pkg().Path()) != side {
				c.Bad("sonic.(Config).Froze/"+field, as.Pos(), "bit %s OR-ed into %s: wrong option word", objNames([]types.Object{b})[0], lhs.Sel.Name)
			}
			got[field] = append(got[field], core.Rel(b.Pkg().Path())+"."+b.Name())
		}
		return true
	}
	for _, s := range fd.Body.List {
		switch s := s.(type) {
		case *ast.IfStmt:
			field, isField := selOn(p, s.Cond, recv)
			if !isField || s.Init != nil || s.Else != nil {
				c.Undecided("sonic.(Config).Froze", s.Pos(), "unrecognised conditional shape: %s", exprStr(s.Cond))
				continue
			}
			if _, seen := pos[field]; !seen {
				pos[field] = s.Pos()
			}
			for _, bs := range s.Body.List {
				if !handleAssign(field, bs) {
					c.Undecided("sonic.(Config).Froze/"+field, bs.Pos(), "unrecognised statement in option row")
				}
			}
		case *ast.AssignStmt:
			if s.Tok == token.OR_ASSIGN {
				if handleAssign("<unconditional>", s) {
					c.Bad("sonic.(Config).Froze/<unconditional>", s.Pos(), "option bit set unconditionally: %s", exprStr(s.Rhs[0]))
				}
			}
		}
	}
	for i := 0; i < st.NumFields(); i++ {
		f := st.Field(i).Name()
		want, inTable := frozeTable[f]
		if !inTable {
			c.Bad("sonic.(Config).Froze/"+f, st.Field(i).Pos(), "Config field %s has no row in the frozen wiring table (new option without a reviewed wire)", f)
			continue
		}
		g := append([]string(nil), got[f]...)
		sort.Strings(g)
		ps := pos[f]
		if !ps.IsValid() {
			ps = fd.Pos()
		}
		if len(g) == 0 {
			c.Bad("sonic.(Config).Froze/"+f, ps, "Config.%s is never read by Froze: the option has no effect (expected to set %s)", f, strings.Join(want, ", "))
			continue
		}
		if cp, bad := clobbered[f]; bad {
			c.Bad("sonic.(Config).Froze/"+f, cp, "the plain assignment here overwrites the option word and discards the bit(s) %s set for Config.%s by an earlier row (`=` where `|=` is meant)", strings.Join(g, ", "), f)
			continue
		}
		if strings.Join(g, ",") == strings.Join(want, ",") {
			c.OK("sonic.(Config).Froze/"+f, ps, "sets exactly %s", strings.Join(g, ", "))
		} else {
			c.Bad("sonic.(Config).Froze/"+f, ps, "sets %s, expected %s", strings.Join(g, ", "), strings.Join(want, ", "))
		}
	}
	for f := range got {
		if _, ok := frozeTable[f]; !ok && f != "<unconditional>" {
			c.Bad("sonic.(Config).Froze/"+f, pos[f], "row for unknown field %s", f)
		}
	}
}

// w1ctx filters W1's obligations down to the rows named in only (nil: all rows).
type w1ctx struct {
	*core.Ctx
	only map[string]bool
}

func (w *w1ctx) keep(construct string) bool {
	if w.only == nil {
		return true
	}
	i := strings.LastIndex(construct, "/")
	return i >= 0 && w.only[construct[i+1:]]
}
func (w *w1ctx) OK(construct string, pos token.Pos, f string, a ...interface{}) {
	if w.keep(construct) {
		w.Ctx.OK(construct, pos, f, a...)
	}
}
func (w *w1ctx) Bad(construct string, pos token.Pos, f string, a ...interface{}) {
	if w.keep(construct) {
		w.Ctx.Bad(construct, pos, f, a...)
	}
}
func (w *w1ctx) Undecided(construct string, pos token.Pos, f string, a ...interface{}) {
	if w.keep(construct) || w.only != nil && !strings.Contains(construct, "/") {
		w.Ctx.Undecided(construct, pos, f, a...)
	}
}

func runW2(c *core.Ctx) {
	p := c.Prog
	bf := bitFamily{p}
	check := func(rel, name, want string) {
		pk := p.Pkg(rel)
		o := core.Obj(pk, name)
		cn := rel + "." + name
		if o == nil {
			c.Undecided(cn, token.NoPos, "option constant not found")
			return
		}
		k, ok := o.(*types.Const)
		if !ok {
			c.Undecided(cn, o.Pos(), "not a constant")
			return
		}
		init := p.ConstInit(k)
		if init == nil {
			c.Undecided(cn, o.Pos(), "no explicit initialiser")
			return
		}
		bits, shifted, ok := bf.bitsOf(init, 0)
		if !ok || !shifted {
			c.Undecided(cn, o.Pos(), "initialiser %s does not resolve to 1<<canonical-bit", exprStr(init))
			return
		}
		g := objNames(bits)
		if len(g) == 1 && g[0] == want {
			c.OK(cn, o.Pos(), "= 1 << %s", want)
		} else {
			c.Bad(cn, o.Pos(), "resolves to %s, expected 1 << %s", strings.Join(g, "|"), want)
		}
	}
	for _, n := range encOptionNames {
		for _, rel := range []string{"encoder", "internal/encoder"} {
			check(rel, n, "internal/encoder/alg.Bit"+n)
		}
	}
	var decNames []string
	for n := range decOptionBit {
		decNames = append(decNames, n)
	}
	sort.Strings(decNames)
	for _, n := range decNames {
		for _, rel := range []string{"decoder", "internal/decoder/api", "internal/decoder/consts"} {
			check(rel, n, "internal/decoder/consts."+decOptionBit[n])
		}
	}
	// local aliases of the bit positions in api/jitdec/optdec: _F_x must alias consts.F_x
	for _, rel := range []string{"internal/decoder/api", "internal/decoder/jitdec", "internal/decoder/optdec"} {
		pk := p.Pkg(rel)
		if pk == nil {
			if p.GOARCH != "amd64" && strings.HasSuffix(rel, "jitdec") {
				continue // the JIT decoder is not part of this build configuration
			}
			c.Undecided(rel, token.NoPos, "package not loaded")
			continue
		}
		sc := pk.Types.Scope()
		for _, n := range sc.Names() {
			if !strings.HasPrefix(n, "_F_") {
				continue
			}
			k, ok := sc.Lookup(n).(*types.Const)
			if !ok {
				continue
			}
			init := p.ConstInit(k)
			if init == nil {
				continue
			}
			bits, shifted, ok := bf.bitsOf(init, 0)
			if !ok {
				continue // not an option-bit alias (e.g. _F_foo function pointers are vars)
			}
			want := "internal/decoder/consts." + strings.TrimPrefix(n, "_")
			g := objNames(bits)
			if !shifted && len(g) == 1 && g[0] == want {
				c.OK(rel+"."+n, k.Pos(), "aliases %s", want)
			} else {
				c.Bad(rel+"."+n, k.Pos(), "aliases %s, expected %s", strings.Join(g, "|"), want)
			}
		}
	}
	// CompatibleWithStd
	for _, rel := range []string{"encoder", "internal/encoder"} {
		o, _ := core.Obj(p.Pkg(rel), "CompatibleWithStd").(*types.Const)
		if o == nil {
			c.Undecided(rel+".CompatibleWithStd", token.NoPos, "not found")
			continue
		}
		bits, shifted, ok := bf.bitsOf(p.ConstInit(o), 0)
		g := strings.Join(objNames(bits), "|")
		want := "internal/encoder/alg.BitCompactMarshaler|internal/encoder/alg.BitEscapeHTML|internal/encoder/alg.BitSortMapKeys"
		if ok && shifted && g == want {
			c.OK(rel+".CompatibleWithStd", o.Pos(), "= SortMapKeys|EscapeHTML|CompactMarshaler")
		} else {
			c.Bad(rel+".CompatibleWithStd", o.Pos(), "resolves to %s", g)
		}
	}
}

func runW3(c *core.Ctx) {
	p := c.Prog
	for _, w := range []struct{ rel, prefix string }{{"internal/encoder/alg", "Bit"}, {"internal/decoder/consts", "F_"}} {
		pk := p.Pkg(w.rel)
		if pk == nil {
			c.Undecided(w.rel, token.NoPos, "package not loaded")
			continue
		}
		byVal := map[int64][]string{}
		sc := pk.Types.Scope()
		n := 0
		var bad []string
		for _, name := range sc.Names() {
			k, ok := sc.Lookup(name).(*types.Const)
			if !ok || !strings.HasPrefix(name, w.prefix) {
				continue
			}
			v, exact := constant.Int64Val(constant.ToInt(k.Val()))
			if !exact || v < 0 || v > 63 {
				bad = append(bad, name+" out of range")
				continue
			}
			n++
			byVal[v] = append(byVal[v], name)
		}
		for v, names := range byVal {
			if len(names) > 1 {
				sort.Strings(names)
				bad = append(bad, strings.Join(names, "=")+" share bit "+constant.MakeInt64(v).String())
			}
		}
		sort.Strings(bad)
		if len(bad) == 0 && n >= 8 {
			c.OK(w.rel+"."+w.prefix+"*", pk.Syntax[0].Pos(), "%d bit positions pairwise distinct", n)
		} else if len(bad) == 0 {
			c.Undecided(w.rel+"."+w.prefix+"*", pk.Syntax[0].Pos(), "only %d bit constants found", n)
		} else {
			c.Bad(w.rel+"."+w.prefix+"*", pk.Syntax[0].Pos(), "%s", strings.Join(bad, "; "))
		}
	}
}

// effect of a statement list on the option word: bits set / cleared.
type eff struct{ set, clear []string }

func (e eff) String() string {
	s := append([]string(nil), e.set...)
	cl := append([]string(nil), e.clear...)
	sort.Strings(s)
	sort.Strings(cl)
	return "set{" + strings.Join(s, ",") + "} clear{" + strings.Join(cl, ",") + "}"
}

func runW4(c *core.Ctx) {
	p := c.Prog
	bf := bitFamily{p}
	// stmtsEffect returns the effect of straight-line statements, ok=false on unknown shape.
	var stmtsEffect func(list []ast.Stmt, recv types.Object, e *eff) bool
	stmtsEffect = func(list []ast.Stmt, recv types.Object, e *eff) bool {
		for _, s := range list {
			switch s := s.(type) {
			case *ast.ReturnStmt:
				continue
			case *ast.AssignStmt:
				if len(s.Lhs) != 1 || len(s.Rhs) != 1 {
					return false
				}
				if _, ok := selOn(p, s.Lhs[0], recv); !ok {
					return false
				}
				rhs := ast.Unparen(s.Rhs[0])
				switch s.Tok {
				case token.OR_ASSIGN:
					bits, sh, ok := bf.bitsOf(rhs, 0)
					if !ok || !sh {
						return false
					}
					for _, b := range bits {
						e.set = append(e.set, b.Name())
					}
				case token.AND_NOT_ASSIGN:
					bits, sh, ok := bf.bitsOf(rhs, 0)
					if !ok || !sh {
						return false
					}
					for _, b := range bits {
						e.clear = append(e.clear, b.Name())
					}
				case token.AND_ASSIGN:
					u, ok := rhs.(*ast.UnaryExpr)
					if !ok || u.Op != token.XOR {
						return false
					}
					bits, sh, ok := bf.bitsOf(u.X, 0)
					if !ok || !sh {
						return false
					}
					for _, b := range bits {
						e.clear = append(e.clear, b.Name())
					}
				default:
					return false
				}
			default:
				return false
			}
		}
		return true
	}
	same := func(a, b []string) bool {
		a = append([]string(nil), a...)
		b = append([]string(nil), b...)
		sort.Strings(a)
		sort.Strings(b)
		return strings.Join(a, ",") == strings.Join(b, ",")
	}
	for _, row := range setterTable {
		pk := p.Pkg(row.pkg)
		fd := core.FuncDecl(pk, row.recv, row.name)
		cn := row.pkg + ".(" + row.recv + ")." + row.name
		if fd == nil {
			c.Undecided(cn, token.NoPos, "setter not found")
			continue
		}
		c.Analysed(cn)
		recv := recvObj(p, fd)
		if !row.boolParam {
			var e eff
			if !stmtsEffect(fd.Body.List, recv, &e) {
				c.Undecided(cn, fd.Pos(), "unrecognised setter body")
				continue
			}
			if same(e.set, row.set) && same(e.clear, row.clear) {
				c.OK(cn, fd.Pos(), "%s", e)
			} else {
				c.Bad(cn, fd.Pos(), "effect %s, expected %s", e, eff{row.set, row.clear})
			}
			continue
		}
		// bool setter: if f {A} else {B}
		var param types.Object
		if fd.Type.Params != nil && len(fd.Type.Params.List) == 1 && len(fd.Type.Params.List[0].Names) == 1 {
			param = p.ObjectOf(fd.Type.Params.List[0].Names[0])
		}
		if len(fd.Body.List) != 1 || param == nil {
			c.Undecided(cn, fd.Pos(), "unrecognised bool-setter body")
			continue
		}
		ifs, ok := fd.Body.List[0].(*ast.IfStmt)
		if !ok || ifs.Else == nil {
			c.Undecided(cn, fd.Pos(), "unrecognised bool-setter body")
			continue
		}
		cid, ok := ast.Unparen(ifs.Cond).(*ast.Ident)
		els, ok2 := ifs.Else.(*ast.BlockStmt)
		if !ok || !ok2 || p.ObjectOf(cid) != param {
			c.Undecided(cn, fd.Pos(), "unrecognised bool-setter condition")
			continue
		}
		var et, ef eff
		if !stmtsEffect(ifs.Body.List, recv, &et) || !stmtsEffect(els.List, recv, &ef) {
			c.Undecided(cn, fd.Pos(), "unrecognised bool-setter arm")
			continue
		}
		if same(et.set, row.set) && len(et.clear) == 0 && same(ef.clear, row.set) && len(ef.set) == 0 {
			c.OK(cn, fd.Pos(), "true: %s; false: %s", et, ef)
		} else {
			c.Bad(cn, fd.Pos(), "true arm %s, false arm %s; expected set/clear of %v", et, ef, row.set)
		}
	}

	// SetOptions: stores uint64(opts) after rejecting UseNumber&&UseInt64.
	api := p.Pkg("internal/decoder/api")
	if fd := core.FuncDecl(api, "Decoder", "SetOptions"); fd == nil {
		c.Undecided("internal/decoder/api.(Decoder).SetOptions", token.NoPos, "not found")
	} else {
		cn := "internal/decoder/api.(Decoder).SetOptions"
		c.Analysed(cn)
		recv := recvObj(p, fd)
		var param types.Object
		if len(fd.Type.Params.List) == 1 && len(fd.Type.Params.List[0].Names) == 1 {
			param = p.ObjectOf(fd.Type.Params.List[0].Names[0])
		}
		stored, guarded := false, false
		ast.Inspect(fd.Body, func(n ast.Node) bool {
			switch n := n.(type) {
			case *ast.AssignStmt:
				if len(n.Lhs) == 1 && n.Tok == token.ASSIGN {
					if f, ok := selOn(p, n.Lhs[0], recv); ok && f == "f" {
						// rhs must be (a conversion of) the parameter itself
						r := ast.Unparen(n.Rhs[0])
						if call, ok := r.(*ast.CallExpr); ok && len(call.Args) == 1 {
							r = ast.Unparen(call.Args[0])
						}
						if id, ok := r.(*ast.Ident); ok && p.ObjectOf(id) == param {
							stored = true
						}
					}
				}
			case *ast.IfStmt:
				// condition mentions both use_number and use_int64 and body panics
				seen := map[string]bool{}
				ast.Inspect(n.Cond, func(m ast.Node) bool {
					if e, ok := m.(ast.Expr); ok {
						if bits, _, ok := bf.bitsOf(e, 0); ok {
							for _, b := range bits {
								seen[b.Name()] = true
							}
						}
					}
					return true
				})
				pan := false
				ast.Inspect(n.Body, func(m ast.Node) bool {
					if call, ok := m.(*ast.CallExpr); ok {
						if id, ok := call.Fun.(*ast.Ident); ok && id.Name == "panic" {
							pan = true
						}
					}
					return true
				})
				if seen["F_use_number"] && seen["F_use_int64"] && pan {
					guarded = true
				}
			}
			return true
		})
		c.Check(stored, cn+"/store", fd.Pos(), "stores the whole option word", "does not store the option word parameter into Decoder.f")
		c.Check(guarded, cn+"/exclusive", fd.Pos(), "rejects UseNumber together with UseInt64", "no longer rejects UseNumber together with UseInt64")
	}

	// frozenConfig methods hand over the whole option word.
	root := p.Pkg("")
	type use struct{ method, field string }
	for _, u := range []use{{"Marshal", "encoderOpts"}, {"MarshalToString", "encoderOpts"}, {"MarshalIndent", "encoderOpts"},
		{"UnmarshalFromString", "decoderOpts"}, {"NewEncoder", "encoderOpts"}, {"NewDecoder", "decoderOpts"}} {
		fd := core.FuncDecl(root, "frozenConfig", u.method)
		cn := "sonic.(frozenConfig)." + u.method
		if fd == nil {
			c.Undecided(cn, token.NoPos, "not found")
			continue
		}
		c.Analysed(cn)
		recv := recvObj(p, fd)
		found := false
		masked := false
		ast.Inspect(fd.Body, func(n ast.Node) bool {
			if e, ok := n.(ast.Expr); ok {
				if f, ok := selOn(p, e, recv); ok && f == u.field {
					found = true
				}
			}
			if be, ok := n.(*ast.BinaryExpr); ok {
				for _, side := range []ast.Expr{be.X, be.Y} {
					if f, ok := selOn(p, side, recv); ok && f == u.field {
						masked = true // the word is combined with something before being handed over
					}
				}
			}
			return true
		})
		if found && !masked {
			c.OK(cn, fd.Pos(), "passes cfg.%s unmodified", u.field)
		} else if !found {
			c.Bad(cn, fd.Pos(), "does not use cfg.%s: frozen options are dropped", u.field)
		} else {
			c.Bad(cn, fd.Pos(), "cfg.%s is masked/combined before use", u.field)
		}
	}
}
