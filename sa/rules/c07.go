package rules

import (
	"go/ast"
	"go/token"
	"go/types"
	"strings"

	"verif/sa/core"
)

func init() {
	register(&core.Rule{ID: "K6", Min: 3,
		Doc: "Value-stack bound of the generic (interface{}) decoder: every push site `ADDQ $1,CX; CMPQ CX,$MAX_RECURSE; Jcc _stack_overflow` admits at most index MAX_RECURSE-1, the last element of the MAX_RECURSE-long Vt/Vp arrays (JAE, or JA against MAX_RECURSE-1); the stores into ST.Vt[CX]/ST.Vp[CX] follow the guard.",
		Run: runK6})
	register(&core.Rule{ID: "X1", Min: 5,
		Doc: "Error values are well-formed: decoder/errors.calcBounds clamps pos into [0,size] before the window arithmetic and never returns the whole source as the window (a truncated document reports pos == size, so that form made the message as long as the input), clamps lbound at 0 and rbound at size, and produces both widths through clamp_zero; description() slices Src and repeats '.' only with calcBounds results. A negative Repeat count or an out-of-range slice would turn err.Error() into a panic.",
		Run: runX1})
	register(&core.Rule{ID: "K5", Min: 2,
		Doc: "State-stack pointer reset at the pool boundary: generated code leaves sp non-zero on its error exits, so the pooled stack must be reset when it is put back or taken out: jitdec.freeStack (or newStack) assigns sp = 0 on every path; encoder vars.NewStack (or FreeStack) assigns sp = 0.",
		Run: runK5})
}

func runK6(c *core.Ctx) {
	p := c.Prog
	if p.GOARCH != "amd64" {
		return
	}
	rel := "internal/decoder/jitdec"
	a := newAsmCtx(p, rel, "_ValueDecoder")
	fd := core.FuncDecl(a.pk, "_ValueDecoder", "compile")
	if fd == nil {
		c.Undecided("jitdec.(_ValueDecoder).compile", token.NoPos, "not found")
		return
	}
	c.Analysed("internal/decoder/jitdec.(_ValueDecoder).compile")
	mr, _, ok := constInt(p.Pkg("internal/native/types"), "MAX_RECURSE")
	if !ok {
		c.Undecided("types.MAX_RECURSE", token.NoPos, "not found")
		return
	}
	// array lengths
	sm := structOf(p.Pkg("internal/native/types"), "StateMachine")
	if sm != nil {
		for i := 0; i < sm.NumFields(); i++ {
			if sm.Field(i).Name() == "Vt" {
				if arr, ok := sm.Field(i).Type().(*types.Array); ok {
					c.Check(arr.Len() == mr, "types.StateMachine.Vt/len", sm.Field(i).Pos(), "len(Vt) == MAX_RECURSE", "len(StateMachine.Vt) != MAX_RECURSE")
				}
			}
		}
	}
	seqs, ok := a.seqs(fd, asmEnv{}, 4)
	if !ok || len(seqs) == 0 {
		c.Undecided("jitdec.(_ValueDecoder).compile/value-stack-bound", fd.Pos(), "cannot enumerate")
		return
	}
	seen := map[string]bool{}
	n := 0
	for _, sq := range seqs {
		for i, o := range sq.Ops {
			if o.Kind != "Emit" || o.Mnem != "CMPQ" || len(o.Ops) != 2 || o.Ops[1].Kind != "imm" || !hasObj(o.Ops[1].Objs, "internal/native/types", "MAX_RECURSE") {
				continue
			}
			if i+1 >= len(sq.Ops) || sq.Ops[i+1].Kind != "Sjmp" {
				continue
			}
			key := p.Pos(o.Pos)
			if seen[key] {
				continue
			}
			seen[key] = true
			n++
			j := sq.Ops[i+1]
			cn := "jitdec.(_ValueDecoder).compile/value-stack-bound#" + itoa(n)
			lim := o.Ops[1].Imm
			admit := int64(-1)
			switch j.Mnem {
			case "JAE":
				admit = lim - 1
			case "JA":
				admit = lim
			}
			switch {
			case !o.Ops[1].ImmOK || admit < 0:
				c.Undecided(cn, o.Pos, "guard form CMPQ/%s not understood", j.Mnem)
			case !strings.Contains(j.Label, "stack_overflow"):
				c.Bad(cn, j.Pos, "overflow edge goes to %s", j.Label)
			case admit != mr-1:
				c.Bad(cn, o.Pos, "the push guard (CMPQ %s,$%d; %s) admits index %d but the value-stack arrays have %d elements (last index %d): a document nested exactly that deep writes one slot past ST.Vt/ST.Vp and corrupts the decoder state", o.Ops[0].Reg, lim, j.Mnem, admit, mr, mr-1)
			default:
				c.OK(cn, o.Pos, "admits index <= %d == last slot", admit)
			}
		}
	}
	if n < 3 {
		c.Undecided("jitdec.(_ValueDecoder).compile/value-stack-bound", fd.Pos(), "only %d push guards found", n)
	}
}

func runX1(c *core.Ctx) {
	p := c.Prog
	pk := p.Pkg("internal/decoder/errors")
	fd := core.FuncDecl(pk, "", "calcBounds")
	if fd == nil {
		c.Undecided("errors.calcBounds", token.NoPos, "not found")
		return
	}
	c.Analysed("internal/decoder/errors.calcBounds")
	var size, pos types.Object
	if len(fd.Type.Params.List) >= 2 {
		size = p.ObjectOf(fd.Type.Params.List[0].Names[0])
		pos = p.ObjectOf(fd.Type.Params.List[len(fd.Type.Params.List)-1].Names[0])
		if len(fd.Type.Params.List[0].Names) == 2 {
			pos = p.ObjectOf(fd.Type.Params.List[0].Names[1])
		}
	}
	var results []types.Object
	if fd.Type.Results != nil {
		for _, f := range fd.Type.Results.List {
			for _, n := range f.Names {
				results = append(results, p.ObjectOf(n))
			}
		}
	}
	if size == nil || pos == nil || len(results) != 4 {
		c.Undecided("errors.calcBounds/shape", fd.Pos(), "signature not recognised")
		return
	}
	lb, lw, rb, rw := results[0], results[1], results[2], results[3]
	// (a) positions outside the input: clamped into [0,size] before the window arithmetic; the
	// older form (return the whole source) made the message as long as the input
	hiClamp, loClamp := false, false
	wholeSrc := token.NoPos
	ast.Inspect(fd.Body, func(n ast.Node) bool {
		switch x := n.(type) {
		case *ast.IfStmt:
			cs := exprStr(x.Cond)
			for _, st := range x.Body.List {
				as, ok := st.(*ast.AssignStmt)
				if !ok || len(as.Lhs) != 1 || len(as.Rhs) != 1 || p.ExprObj(as.Lhs[0]) != pos {
					continue
				}
				if (cs == pos.Name()+" > "+size.Name() || cs == pos.Name()+" >= "+size.Name()) && p.ExprObj(as.Rhs[0]) == size {
					hiClamp = true
				}
				if v, ok := p.ConstInt(as.Rhs[0]); ok && v == 0 && cs == pos.Name()+" < 0" {
					loClamp = true
				}
			}
		case *ast.ReturnStmt:
			if len(x.Results) == 4 && p.ExprObj(x.Results[2]) == size {
				if z0, ok := p.ConstInt(x.Results[0]); ok && z0 == 0 {
					wholeSrc = x.Pos()
				}
			}
		}
		return true
	})
	switch {
	case wholeSrc != token.NoPos:
		c.Bad("errors.calcBounds/range-guard", wholeSrc, "calcBounds returns the whole source as the context window for some positions (the JIT reports the input length for every truncated document): Error() / Description() of such an error is as long as the input, not bounded")
	case hiClamp && loClamp:
		c.OK("errors.calcBounds/range-guard", fd.Pos(), "pos is clamped into [0,size] before the window arithmetic")
	default:
		c.Bad("errors.calcBounds/range-guard", fd.Pos(), "calcBounds does not clamp pos into [0,size] before the window arithmetic: positions past the end (the JIT reports up to len+4 on EOF while skipping) or negative ones make the slice in description() panic")
	}
	// (b) widths through clamp_zero
	okW := map[types.Object]bool{}
	badW := token.NoPos
	ast.Inspect(fd.Body, func(n ast.Node) bool {
		as, ok := n.(*ast.AssignStmt)
		if !ok {
			return true
		}
		for i, l := range as.Lhs {
			o := p.ExprObj(l)
			if o != lw && o != rw {
				continue
			}
			if i < len(as.Rhs) {
				if call, ok := ast.Unparen(as.Rhs[i]).(*ast.CallExpr); ok {
					if co := p.Callee(call); co != nil && co.Name() == "clamp_zero" {
						okW[o] = true
						continue
					}
				}
				if v, ok := p.ConstInt(as.Rhs[i]); ok && v >= 0 {
					okW[o] = true
					continue
				}
			}
			badW = as.Pos()
		}
		return true
	})
	c.Check(okW[lw] && okW[rw] && !badW.IsValid(), "errors.calcBounds/clamped-widths", fd.Pos(), "both caret widths are produced by clamp_zero", "a caret width is computed without clamp_zero: strings.Repeat panics on a negative count")
	// (c) bound clamps
	clampLo, clampHi := false, false
	ast.Inspect(fd.Body, func(n ast.Node) bool {
		ifs, ok := n.(*ast.IfStmt)
		if !ok {
			return true
		}
		s := exprStr(ifs.Cond)
		assigns := func(o types.Object) bool {
			f := false
			ast.Inspect(ifs.Body, func(m ast.Node) bool {
				if as, ok := m.(*ast.AssignStmt); ok {
					for _, l := range as.Lhs {
						if p.ExprObj(l) == o {
							f = true
						}
					}
				}
				return true
			})
			return f
		}
		if strings.Contains(s, lb.Name()+" < 0") && assigns(lb) {
			clampLo = true
		}
		if strings.Contains(s, rb.Name()+" > ") && assigns(rb) {
			clampHi = true
		}
		return true
	})
	c.Check(clampLo, "errors.calcBounds/clamp-lbound", fd.Pos(), "lbound clamped at 0", "lbound is no longer clamped at 0: Src[lbound:] panics for positions near the start")
	c.Check(clampHi, "errors.calcBounds/clamp-rbound", fd.Pos(), "rbound clamped at size", "rbound is no longer clamped at size: Src[:rbound] panics for positions near the end")
	// description() uses calcBounds results only
	for _, recv := range []string{"SyntaxError"} {
		d := core.FuncDecl(pk, recv, "description")
		if d == nil {
			c.Undecided("errors.("+recv+").description", token.NoPos, "not found")
			continue
		}
		c.Analysed("internal/decoder/errors.(" + recv + ").description")
		var fromCalc = map[types.Object]bool{}
		ast.Inspect(d.Body, func(n ast.Node) bool {
			if as, ok := n.(*ast.AssignStmt); ok && len(as.Rhs) == 1 {
				if call, ok := as.Rhs[0].(*ast.CallExpr); ok {
					if o := p.Callee(call); o != nil && o.Name() == "calcBounds" {
						for _, l := range as.Lhs {
							fromCalc[p.ExprObj(l)] = true
						}
					}
				}
			}
			return true
		})
		good := len(fromCalc) == 4
		ast.Inspect(d.Body, func(n ast.Node) bool {
			switch x := n.(type) {
			case *ast.SliceExpr:
				for _, e := range []ast.Expr{x.Low, x.High} {
					if e != nil && !fromCalc[p.ExprObj(e)] {
						good = false
					}
				}
			case *ast.CallExpr:
				if o := p.Callee(x); o != nil && o.Name() == "Repeat" && len(x.Args) == 2 {
					if !fromCalc[p.ExprObj(x.Args[1])] {
						good = false
					}
				}
			}
			return true
		})
		c.Check(good, "errors.("+recv+").description/uses-bounds", d.Pos(), "slices and repeat counts are calcBounds results", "description() slices Src or repeats with a value that does not come from calcBounds")
	}
}

func runK5(c *core.Ctx) {
	p := c.Prog
	assignsZero := func(fd *ast.FuncDecl, field string) bool {
		if fd == nil || fd.Body == nil {
			return false
		}
		// on every path: approximate by "at top level of the body (not nested in a branch), or in every branch"
		paths, ok, _ := EnumPaths(p, fd, 1, 64)
		if !ok || len(paths) == 0 {
			return false
		}
		for _, pt := range paths {
			found := false
			for _, ev := range pt {
				if as, ok := ev.Stmt.(*ast.AssignStmt); ok && len(as.Lhs) == 1 && len(as.Rhs) == 1 {
					if se, ok := as.Lhs[0].(*ast.SelectorExpr); ok && se.Sel.Name == field {
						if v, ok := p.ConstInt(as.Rhs[0]); ok && v == 0 {
							found = true
						}
					}
				}
			}
			if !found {
				return false
			}
		}
		return true
	}
	jd := p.Pkg("internal/decoder/jitdec")
	if jd != nil && core.FuncDecl(jd, "", "freeStack") != nil {
		okp := assignsZero(core.FuncDecl(jd, "", "freeStack"), "sp") || assignsZero(core.FuncDecl(jd, "", "newStack"), "sp")
		c.Check(okp, "jitdec.stackPool/sp-reset", core.FuncDecl(jd, "", "freeStack").Pos(), "sp = 0 on every path of freeStack/newStack", "the decoder stack goes back to the pool (and comes out again) without sp = 0: error exits of generated code leave sp non-zero, so failed decodes leak slots until valid documents are rejected with a stack overflow")
	}
	vars := p.Pkg("internal/encoder/vars")
	okp := assignsZero(core.FuncDecl(vars, "", "NewStack"), "sp") || assignsZero(core.FuncDecl(vars, "", "FreeStack"), "sp")
	var pos token.Pos
	if fd := core.FuncDecl(vars, "", "NewStack"); fd != nil {
		pos = fd.Pos()
	}
	c.Check(okp, "vars.stackPool/sp-reset", pos, "sp = 0 on every path of NewStack/FreeStack", "the encoder stack is pooled without resetting sp: an encode that failed mid-way leaves sp non-zero for the next user")
}
