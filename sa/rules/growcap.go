package rules

import (
	"go/ast"
	"go/token"
	"go/types"
	"strings"

	"verif/sa/core"
)

// K14: growing a slice never shrinks it. rt.GrowSlice(t, s, n) hands n to runtime.growslice as
// the new capacity; growslice panics ("newCap is smaller than old length") when n < len(s).
// The requested capacity must therefore be derived from the slice's own length or capacity, or
// the call must be guarded by a comparison that puts n above the current capacity.

func init() {
	register(&core.Rule{ID: "K14", Min: 3, Arm64: true,
		Doc: "Requested capacities cover the current length: at every call of rt.GrowSlice outside internal/rt, the capacity argument (or, if it is a local, each of its definitions in the function) mentions the length or capacity of the slice being grown (len(s), cap(s), s.Len, s.Cap, through the slice variable or the header it is viewed as), or the call is guarded by an enclosing `n > s.Cap` / `n > cap(s)` test; a capacity computed from the source alone panics in growslice once the destination already holds more than that.",
		Run: runK14})
}

func runK14(c *core.Ctx) {
	p := c.Prog
	n := 0
	for _, pk := range p.Pkgs {
		if core.Rel(pk.PkgPath) == "internal/rt" {
			continue
		}
		for _, f := range pk.Syntax {
			if strings.HasSuffix(p.Fset.Position(f.Pos()).Filename, "_test.go") {
				continue
			}
			for _, d := range f.Decls {
				fd, ok := d.(*ast.FuncDecl)
				if !ok || fd.Body == nil {
					continue
				}
				fn := core.FuncName(pk, fd)
				k := 0
				var stack []ast.Node
				ast.Inspect(fd.Body, func(nd ast.Node) bool {
					if nd == nil {
						stack = stack[:len(stack)-1]
						return true
					}
					stack = append(stack, nd)
					call, ok := nd.(*ast.CallExpr)
					if !ok || len(call.Args) != 3 {
						return true
					}
					o := p.Callee(call)
					if o == nil || o.Name() != "GrowSlice" || o.Pkg() == nil || core.Rel(o.Pkg().Path()) != "internal/rt" {
						return true
					}
					k++
					n++
					c.Analysed(fn)
					cn := fn + "/grow-capacity#" + itoa(k)
					// names by which the slice is known: the root identifier of the slice argument,
					// plus locals that are views of it (`dbuf := (*rt.GoSlice)(unsafe.Pointer(&dst))`)
					root := baseIdent(call.Args[1])
					names := map[string]bool{}
					if root != nil {
						names[root.Name] = true
					}
					for changed := true; changed; {
						changed = false
						ast.Inspect(fd.Body, func(x ast.Node) bool {
							as, ok := x.(*ast.AssignStmt)
							if !ok || len(as.Lhs) != 1 || len(as.Rhs) != 1 {
								return true
							}
							l, ok := as.Lhs[0].(*ast.Ident)
							if !ok {
								return true
							}
							mention := false
							ast.Inspect(as.Rhs[0], func(y ast.Node) bool {
								if id, ok := y.(*ast.Ident); ok && names[id.Name] {
									mention = true
								}
								// the other direction: `dbuf := (*GoSlice)(unsafe.Pointer(&dst))` makes dst a name of dbuf
								if ue, ok := y.(*ast.UnaryExpr); ok && ue.Op == token.AND && names[l.Name] {
									if id, ok := ast.Unparen(ue.X).(*ast.Ident); ok && !names[id.Name] {
										names[id.Name] = true
										changed = true
									}
								}
								return true
							})
							if _, isCall := ast.Unparen(as.Rhs[0]).(*ast.CallExpr); isCall && mention && !names[l.Name] {
								if t := pk.TypesInfo.TypeOf(l); t != nil {
									if _, isPtr := t.(*types.Pointer); isPtr {
										names[l.Name] = true
										changed = true
									}
								}
							}
							if ue, isAddr := ast.Unparen(as.Rhs[0]).(*ast.UnaryExpr); isAddr && ue.Op == token.AND && mention && !names[l.Name] {
								names[l.Name] = true
								changed = true
							}
							return true
						})
					}
					mentionsSize := func(e ast.Expr) bool {
						hit := false
						ast.Inspect(e, func(y ast.Node) bool {
							switch z := y.(type) {
							case *ast.CallExpr:
								if id, ok := z.Fun.(*ast.Ident); ok && (id.Name == "len" || id.Name == "cap") && len(z.Args) == 1 {
									if r := baseIdent(z.Args[0]); r != nil && names[r.Name] {
										hit = true
									}
								}
							case *ast.SelectorExpr:
								if z.Sel.Name == "Len" || z.Sel.Name == "Cap" {
									if r := baseIdent(z.X); r != nil && names[r.Name] {
										hit = true
									}
								}
							}
							return true
						})
						return hit
					}
					arg := ast.Unparen(call.Args[2])
					okCap := mentionsSize(arg)
					if id, isId := arg.(*ast.Ident); isId && !okCap {
						ao := p.ObjectOf(id)
						defs, good := 0, 0
						ast.Inspect(fd.Body, func(x ast.Node) bool {
							if as, ok := x.(*ast.AssignStmt); ok && len(as.Lhs) == len(as.Rhs) {
								for i, l := range as.Lhs {
									if lid, ok := l.(*ast.Ident); ok && p.ObjectOf(lid) == ao {
										defs++
										if mentionsSize(as.Rhs[i]) {
											good++
										}
									}
								}
							}
							return true
						})
						if defs > 0 && defs == good {
							okCap = true
						}
						// guard: an enclosing `arg > s.Cap`
						for i := len(stack) - 2; i >= 0 && !okCap; i-- {
							if is, ok := stack[i].(*ast.IfStmt); ok {
								if be, ok := ast.Unparen(is.Cond).(*ast.BinaryExpr); ok && (be.Op == token.GTR || be.Op == token.GEQ) {
									if l, ok := ast.Unparen(be.X).(*ast.Ident); ok && p.ObjectOf(l) == ao && mentionsSize(be.Y) {
										okCap = true
									}
								}
							}
						}
					}
					if okCap {
						c.OK(cn, call.Pos(), "the requested capacity %s is tied to the current size of the slice", exprStr(arg))
					} else {
						c.Bad(cn, call.Pos(), "the capacity %s requested for %s does not depend on what the slice already holds: when the destination is longer than that, runtime.growslice panics (\"newCap is smaller than old length\")", exprStr(arg), exprStr(call.Args[1]))
					}
					return true
				})
			}
		}
	}
	if n == 0 {
		c.Undecided("grow-capacity", token.NoPos, "no call of rt.GrowSlice found")
	}
}

func baseIdent(e ast.Expr) *ast.Ident {
	for {
		switch x := ast.Unparen(e).(type) {
		case *ast.Ident:
			return x
		case *ast.SelectorExpr:
			e = x.X
		case *ast.StarExpr:
			e = x.X
		case *ast.UnaryExpr:
			e = x.X
		case *ast.IndexExpr:
			e = x.X
		case *ast.SliceExpr:
			e = x.X
		default:
			return nil
		}
	}
}
