package rules

import (
	"go/ast"
	"go/token"
	"go/types"
	"strings"

	"verif/sa/core"
)

// O10: buffers that belong to someone else are copied when they are retained. A []byte returned
// by a user callback (MarshalText / MarshalJSON) or handed to an Unmarshaler method (the `data`
// parameter of UnmarshalJSON / UnmarshalText) may be reused by its owner as soon as the call
// returns. Turning it into a string with rt.Mem2Str (a zero-copy view) and keeping that string
// in a struct field, a node, or a return value retains the foreign buffer.

func init() {
	register(&core.Rule{ID: "O10", Min: 3, Arm64: true,
		Doc: "Foreign byte slices are not retained as zero-copy strings (packages ast, internal/encoder/alg, internal/encoder/prim, internal/encoder, non-test): for every local that receives the []byte result of a MarshalText / MarshalJSON call made through an interface value (user code), and for the []byte parameter of every method named UnmarshalJSON / UnmarshalText, no rt.Mem2Str view of it is stored into a field, passed to a node constructor (newRawNode) or returned; string(x) (a copy) is the accepted form. Views consumed within the statement (quoted, validated, compared) are not concerned.",
		Run: runO10})
}

func runO10(c *core.Ctx) {
	p := c.Prog
	n := 0
	for _, rel := range []string{"ast", "internal/encoder/alg", "internal/encoder/prim", "internal/encoder"} {
		pk := p.Pkg(rel)
		if pk == nil {
			continue
		}
		for _, fd := range core.FuncDecls(pk) {
			if fd.Body == nil || strings.HasSuffix(p.Fset.Position(fd.Pos()).Filename, "_test.go") {
				continue
			}
			foreign := map[types.Object]string{}
			if fd.Recv != nil && (fd.Name.Name == "UnmarshalJSON" || fd.Name.Name == "UnmarshalText") {
				for _, fl := range fd.Type.Params.List {
					for _, nm := range fl.Names {
						if o := p.ObjectOf(nm); o != nil {
							if sl, ok := o.Type().Underlying().(*types.Slice); ok {
								if b, ok := sl.Elem().(*types.Basic); ok && b.Kind() == types.Byte {
									foreign[o] = "the data handed to " + fd.Name.Name
								}
							}
						}
					}
				}
			}
			ast.Inspect(fd.Body, func(nd ast.Node) bool {
				as, ok := nd.(*ast.AssignStmt)
				if !ok || len(as.Rhs) != 1 {
					return true
				}
				call, ok := ast.Unparen(as.Rhs[0]).(*ast.CallExpr)
				if !ok {
					return true
				}
				se, ok := call.Fun.(*ast.SelectorExpr)
				if !ok || (se.Sel.Name != "MarshalText" && se.Sel.Name != "MarshalJSON") || len(as.Lhs) < 1 {
					return true
				}
				// only calls through an interface reach user code; the library's own concrete
				// MarshalJSON methods return fresh buffers (O9)
				if t := pk.TypesInfo.TypeOf(se.X); t == nil || !types.IsInterface(t) {
					return true
				}
				if id, ok := as.Lhs[0].(*ast.Ident); ok {
					if o := p.ObjectOf(id); o != nil {
						foreign[o] = "the result of " + se.Sel.Name
					}
				}
				return true
			})
			if len(foreign) == 0 {
				continue
			}
			fn := core.FuncName(pk, fd)
			c.Analysed(fn)
			n++
			bad := ""
			var badPos token.Pos
			isView := func(e ast.Expr) (types.Object, bool) {
				call, ok := ast.Unparen(e).(*ast.CallExpr)
				if !ok || len(call.Args) != 1 {
					return nil, false
				}
				o := p.Callee(call)
				if o == nil || o.Name() != "Mem2Str" {
					return nil, false
				}
				if id, ok := ast.Unparen(call.Args[0]).(*ast.Ident); ok {
					if fo := p.ObjectOf(id); foreign[fo] != "" {
						return fo, true
					}
				}
				return nil, false
			}
			ast.Inspect(fd.Body, func(nd ast.Node) bool {
				switch x := nd.(type) {
				case *ast.AssignStmt:
					for i, r := range x.Rhs {
						if fo, ok := isView(r); ok && i < len(x.Lhs) {
							if _, isSel := ast.Unparen(x.Lhs[i]).(*ast.SelectorExpr); isSel && bad == "" {
								bad, badPos = "a zero-copy view of "+foreign[fo]+" is stored in "+exprStr(x.Lhs[i]), x.Pos()
							}
						}
					}
				case *ast.ReturnStmt:
					for _, r := range x.Results {
						if fo, ok := isView(r); ok && bad == "" {
							bad, badPos = "a zero-copy view of "+foreign[fo]+" is returned", x.Pos()
						}
					}
				case *ast.CallExpr:
					if o := p.Callee(x); o != nil && (o.Name() == "newRawNode" || o.Name() == "NewRaw") {
						for _, a := range x.Args {
							if fo, ok := isView(a); ok && bad == "" {
								bad, badPos = "a zero-copy view of "+foreign[fo]+" becomes the text of a node", x.Pos()
							}
						}
					}
				}
				return true
			})
			cn := fn + "/foreign-buffer"
			if bad != "" {
				c.Bad(cn, badPos, "%s: its owner may reuse the buffer after the call, which silently changes the retained text (a key type with one scratch buffer yields {\"k3\":1,\"k3\":2,\"k3\":3}; a Node field keeps aliasing the input)", bad)
			} else {
				c.OK(cn, fd.Pos(), "no zero-copy view of a foreign buffer is retained")
			}
		}
	}
	if n == 0 {
		c.Undecided("foreign-buffer", token.NoPos, "no function handling a foreign byte slice found")
	}
}
