package rules

import (
	"go/ast"
	"go/token"
	"go/types"

	"golang.org/x/tools/go/cfg"

	"verif/sa/core"
)

func init() {
	register(&core.Rule{ID: "L3", Min: 8,
		Doc: "Per-node lock of ast.Node: (a) every read of the raw text (toString(), or p/l directly) on a raw branch (dominated by isRaw() being true) lies inside an rlock()/lock() region of the same node, and the isRaw() test that selects the branch is itself evaluated inside that region (test repeated under the lock) (lockset over go/cfg; `if lock { runlock() }` understood); (b) in parseRaw a whole-node store `*self = ...` (which also replaces the mutex) happens only in the exclusive arms (`full`, or lock == false); on the locked arm the representation switch goes through assign; (c) assign writes l and p first and publishes t last with atomic.StoreInt64; (d) load-once children are individually lockable: every newRawNode call on a parser.loadOnce arm passes lock=true; Load installs m when absent; newRawNode allocates m whenever lock is set, for every value kind.",
		Run: runL3})
}

// nodeLockCall classifies self.lock()/rlock()/unlock()/runlock() helper calls on *ast.Node.
func nodeLockCall(p *core.Program, call *ast.CallExpr) (string, string) {
	se, ok := ast.Unparen(call.Fun).(*ast.SelectorExpr)
	if !ok {
		return "", ""
	}
	f, ok := p.ObjectOf(se.Sel).(*types.Func)
	if !ok || f.Pkg() == nil || core.Rel(f.Pkg().Path()) != "ast" {
		return "", ""
	}
	switch f.Name() {
	case "lock":
		return exprStr(se.X), "Lock"
	case "rlock":
		return exprStr(se.X), "RLock"
	case "unlock":
		return exprStr(se.X), "Unlock"
	case "runlock":
		return exprStr(se.X), "RUnlock"
	}
	return "", ""
}

func runL3(c *core.Ctx) {
	p := c.Prog
	pk := p.Pkg("ast")
	if pk == nil {
		c.Undecided("ast", token.NoPos, "package not loaded")
		return
	}
	classify := func(call *ast.CallExpr) (string, string) { return nodeLockCall(p, call) }
	// (a) raw-branch reads under lock
	nsites := 0
	for _, fd := range core.FuncDecls(pk) {
		if fd.Body == nil || core.RecvName(fd) != "Node" {
			continue
		}
		fn := core.FuncName(pk, fd)
		var g *cfg.CFG
		var in map[*cfg.Block]lockState
		k := 0
		ast.Inspect(fd.Body, func(n ast.Node) bool {
			call, ok := n.(*ast.CallExpr)
			if !ok {
				return true
			}
			o := p.Callee(call)
			if o == nil || o.Name() != "toString" || core.Rel(o.Pkg().Path()) != "ast" {
				return true
			}
			se := call.Fun.(*ast.SelectorExpr)
			recvText := exprStr(se.X)
			if !onRawBranch(p, fd, call.Pos(), recvText) {
				return true
			}
			nsites++
			k++
			cn := fn + "/raw-read#" + itoa(k)
			if g == nil {
				g = funcCFG(p, fd.Body)
				in = locksets(p, g, classify)
			}
			st, ok := heldAt(p, g, in, call.Pos(), classify)
			if !ok {
				c.Undecided(cn, call.Pos(), "call not located in CFG")
				return true
			}
			c.Analysed(fn)
			gpos := rawGuardPos(p, fd, call.Pos(), recvText)
			gst, gok := heldAt(p, g, in, gpos, classify)
			if st[recvText] >= 1 && gok && gst[recvText] < 1 {
				c.Bad(cn, call.Pos(), "%s reads the raw text under %s's lock, but the isRaw() test that selects this branch (%s) was made before the lock was taken and is not repeated under it: another goroutine may have converted the node while this one waited for the lock, and p/l are then read as a string although they describe the parsed children", fn, recvText, p.Pos(gpos))
			} else if st[recvText] >= 1 {
				c.OK(cn, call.Pos(), "raw text read while %s's lock is held; isRaw() tested under the lock", recvText)
			} else {
				c.Bad(cn, call.Pos(), "%s reads the raw text (%s.toString()) on the isRaw() branch without holding the node's read lock: a concurrent parseRaw may be replacing p/l (data race on a node declared concurrently readable)", fn, recvText)
			}
			return true
		})
	}
	if nsites < 2 {
		c.Undecided("ast.(Node)/raw-read", token.NoPos, "only %d raw-branch reads found", nsites)
	}
	// (b) parseRaw
	if fd := core.FuncDecl(pk, "Node", "parseRaw"); fd != nil {
		c.Analysed("ast.(Node).parseRaw")
		recv := recvObj(p, fd)
		// lock variable: first result of self.lock()
		var lockVar types.Object
		ast.Inspect(fd.Body, func(n ast.Node) bool {
			if as, ok := n.(*ast.AssignStmt); ok && len(as.Lhs) == 1 && len(as.Rhs) == 1 {
				if call, ok := as.Rhs[0].(*ast.CallExpr); ok {
					if _, op := nodeLockCall(p, call); op == "Lock" {
						if id, ok := as.Lhs[0].(*ast.Ident); ok {
							lockVar = p.ObjectOf(id)
						}
					}
				}
			}
			return true
		})
		var fullVar types.Object
		if len(fd.Type.Params.List) == 1 && len(fd.Type.Params.List[0].Names) == 1 {
			fullVar = p.ObjectOf(fd.Type.Params.List[0].Names[0])
		}
		if lockVar == nil || fullVar == nil {
			c.Undecided("ast.(Node).parseRaw/whole-node-store", fd.Pos(), "lock variable or `full` parameter not found")
		} else {
			k := 0
			assignOnLocked := false
			ast.Inspect(fd.Body, func(n ast.Node) bool {
				switch x := n.(type) {
				case *ast.AssignStmt:
					for _, l := range x.Lhs {
						st, ok := ast.Unparen(l).(*ast.StarExpr)
						if !ok {
							continue
						}
						id, ok := ast.Unparen(st.X).(*ast.Ident)
						if !ok || p.ObjectOf(id) != recv {
							continue
						}
						k++
						cn := "ast.(Node).parseRaw/whole-node-store#" + itoa(k)
						// exclusive arm: then-branch of `full`, or else-branch of `lock`, or then of `!lock`
						excl := false
						for _, ic := range enclosingIfs(fd, x.Pos()) {
							cond := ast.Unparen(ic.stmt.Cond)
							if cid, ok := cond.(*ast.Ident); ok {
								o := p.ObjectOf(cid)
								if o == fullVar && ic.inThen {
									excl = true
								}
								if o == lockVar && !ic.inThen {
									excl = true
								}
							}
							if u, ok := cond.(*ast.UnaryExpr); ok && u.Op == token.NOT {
								if cid, ok := ast.Unparen(u.X).(*ast.Ident); ok && p.ObjectOf(cid) == lockVar && ic.inThen {
									excl = true
								}
							}
						}
						if excl {
							c.OK(cn, x.Pos(), "whole-node store only on an exclusive arm")
						} else {
							c.Bad(cn, x.Pos(), "`*self = ...` in parseRaw can execute while the node's mutex is held (lock == true): it replaces the mutex too, so readers already blocked on the old mutex are never released and the deferred unlock acts on the wrong (nil) mutex")
						}
					}
				case *ast.CallExpr:
					if o := p.Callee(x); o != nil && o.Name() == "assign" {
						for _, ic := range enclosingIfs(fd, x.Pos()) {
							if cid, ok := ast.Unparen(ic.stmt.Cond).(*ast.Ident); ok && p.ObjectOf(cid) == lockVar && ic.inThen {
								assignOnLocked = true
							}
						}
					}
				}
				return true
			})
			c.Check(assignOnLocked, "ast.(Node).parseRaw/locked-arm-assign", fd.Pos(), "the locked arm publishes through assign()", "the locked arm of parseRaw no longer publishes the parsed node through assign() (fields first, type last, atomically)")
			// lock taken first, unlock deferred
			first := false
			if len(fd.Body.List) >= 2 {
				if as, ok := fd.Body.List[0].(*ast.AssignStmt); ok && len(as.Rhs) == 1 {
					if call, ok := as.Rhs[0].(*ast.CallExpr); ok {
						if _, op := nodeLockCall(p, call); op == "Lock" {
							if d, ok := fd.Body.List[1].(*ast.DeferStmt); ok {
								if _, op := nodeLockCall(p, d.Call); op == "Unlock" {
									first = true
								}
							}
						}
					}
				}
			}
			c.Check(first, "ast.(Node).parseRaw/lock-first", fd.Pos(), "lock() first, unlock() deferred, isRaw re-checked under the lock", "parseRaw does not take the node lock before examining the node")
		}
	} else {
		c.Undecided("ast.(Node).parseRaw", token.NoPos, "not found")
	}
	// (c) assign order
	if fd := core.FuncDecl(pk, "Node", "assign"); fd != nil {
		recv := recvObj(p, fd)
		var order []string
		atomicT := false
		for _, s := range fd.Body.List {
			switch x := s.(type) {
			case *ast.AssignStmt:
				if f, ok := selOn(p, x.Lhs[0], recv); ok {
					order = append(order, f)
				}
			case *ast.ExprStmt:
				if call, ok := x.X.(*ast.CallExpr); ok {
					if o := p.Callee(call); o != nil && o.Pkg() != nil && o.Pkg().Path() == "sync/atomic" && o.Name() == "StoreInt64" {
						if u, ok := ast.Unparen(call.Args[0]).(*ast.UnaryExpr); ok {
							if f, ok := selOn(p, u.X, recv); ok && f == "t" {
								order = append(order, "t")
								atomicT = true
							}
						}
					}
				}
			}
		}
		good := atomicT && len(order) == 3 && order[2] == "t"
		c.Check(good, "ast.(Node).assign/order", fd.Pos(), "l and p written first, t published last with atomic.StoreInt64", "assign does not publish t last with atomic.StoreInt64 after l and p: a lock-free reader that sees the new type may read the old pointer/length")
	} else {
		c.Undecided("ast.(Node).assign", token.NoPos, "not found")
	}
	// (d) loadOnce children lockable
	if fd := core.FuncDecl(pk, "Parser", "Parse"); fd != nil {
		c.Analysed("ast.(Parser).Parse")
		k := 0
		ast.Inspect(fd.Body, func(n ast.Node) bool {
			call, ok := n.(*ast.CallExpr)
			if !ok || len(call.Args) != 3 {
				return true
			}
			if o := p.Callee(call); o == nil || o.Name() != "newRawNode" {
				return true
			}
			inLoadOnce := false
			for _, ic := range enclosingIfs(fd, call.Pos()) {
				if se, ok := ast.Unparen(ic.stmt.Cond).(*ast.SelectorExpr); ok && se.Sel.Name == "loadOnce" && ic.inThen {
					inLoadOnce = true
				}
			}
			if !inLoadOnce {
				return true
			}
			k++
			c.Check(exprStr(call.Args[2]) == "true", "ast.(Parser).Parse/loadOnce-child#"+itoa(k), call.Pos(), "load-once child created with its own lock", "a load-once (concurrently readable) child is created without a lock: its first lazy parse races")
			return true
		})
		if k < 2 {
			c.Undecided("ast.(Parser).Parse/loadOnce-child", fd.Pos(), "only %d loadOnce newRawNode sites found", k)
		}
	}
	if fd := core.FuncDecl(pk, "", "newRawNode"); fd != nil {
		// `if lock { ret.m = new(sync.RWMutex) }` with the plain parameter as the whole condition
		lockPar := p.ObjectOf(fd.Type.Params.List[len(fd.Type.Params.List)-1].Names[0])
		good := false
		ast.Inspect(fd.Body, func(n ast.Node) bool {
			ifs, ok := n.(*ast.IfStmt)
			if !ok {
				return true
			}
			if id, ok := ast.Unparen(ifs.Cond).(*ast.Ident); ok && p.ObjectOf(id) == lockPar {
				for _, s := range ifs.Body.List {
					if as, ok := s.(*ast.AssignStmt); ok {
						if se, ok := as.Lhs[0].(*ast.SelectorExpr); ok && se.Sel.Name == "m" {
							good = true
						}
					}
				}
			}
			return true
		})
		c.Check(good, "ast.newRawNode/allocates-lock", fd.Pos(), "m allocated whenever lock is requested, for every value kind", "newRawNode does not allocate the mutex unconditionally on lock==true (some kinds of concurrently readable raw nodes have no lock)")
	}
	if fd := core.FuncDecl(pk, "Node", "Load"); fd != nil {
		// Load itself, or a method it calls on its own receiver (loadSelf), assigns the
		// receiver's m
		good := false
		var scan func(fd *ast.FuncDecl, depth int)
		scan = func(fd *ast.FuncDecl, depth int) {
			recv := recvObj(p, fd)
			ast.Inspect(fd.Body, func(n ast.Node) bool {
				switch x := n.(type) {
				case *ast.AssignStmt:
					if len(x.Lhs) == 1 {
						if f, ok := selOn(p, x.Lhs[0], recv); ok && f == "m" {
							good = true
						}
					}
				case *ast.CallExpr:
					if se, ok := x.Fun.(*ast.SelectorExpr); ok && depth < 2 {
						if id, ok := ast.Unparen(se.X).(*ast.Ident); ok && p.ObjectOf(id) == recv {
							if callee := core.FuncDecl(pk, "Node", se.Sel.Name); callee != nil && callee.Body != nil {
								scan(callee, depth+1)
							}
						}
					}
				}
				return true
			})
		}
		scan(fd, 0)
		c.Check(good, "ast.(Node).Load/installs-lock", fd.Pos(), "Load installs m when absent", "Load no longer installs a mutex on the node")
	}
}

// onRawBranch: pos is in the then-branch of `if X.isRaw()` or is preceded, in an
// enclosing statement list, by `if !X.isRaw() { ... return }`.
func onRawBranch(p *core.Program, fd *ast.FuncDecl, pos token.Pos, recvText string) bool {
	return rawGuardPos(p, fd, pos, recvText).IsValid()
}

// rawGuardPos returns the position of the isRaw() test that decides the raw branch `pos` lies
// on: the innermost enclosing `if X.isRaw()` (then-branch), else the latest preceding
// `if !X.isRaw() { ...; return }` in an enclosing block.
func rawGuardPos(p *core.Program, fd *ast.FuncDecl, pos token.Pos, recvText string) token.Pos {
	isRawCall := func(e ast.Expr) bool {
		call, ok := ast.Unparen(e).(*ast.CallExpr)
		if !ok {
			return false
		}
		se, ok := call.Fun.(*ast.SelectorExpr)
		return ok && se.Sel.Name == "isRaw" && exprStr(se.X) == recvText
	}
	best := token.NoPos
	for _, ic := range enclosingIfs(fd, pos) {
		if ic.inThen && isRawCall(ic.stmt.Cond) && ic.stmt.Cond.Pos() > best {
			best = ic.stmt.Cond.Pos()
		}
	}
	found := token.NoPos
	ast.Inspect(fd.Body, func(n ast.Node) bool {
		blk, ok := n.(*ast.BlockStmt)
		if !ok || pos < blk.Pos() || pos >= blk.End() {
			return true
		}
		for _, s := range blk.List {
			if s.Pos() > pos {
				break
			}
			ifs, ok := s.(*ast.IfStmt)
			if !ok || ifs.End() > pos {
				continue
			}
			u, ok := ast.Unparen(ifs.Cond).(*ast.UnaryExpr)
			if !ok || u.Op != token.NOT || !isRawCall(u.X) {
				continue
			}
			if len(ifs.Body.List) > 0 {
				if _, isRet := ifs.Body.List[len(ifs.Body.List)-1].(*ast.ReturnStmt); isRet && ifs.Cond.Pos() > found {
					found = ifs.Cond.Pos()
				}
			}
		}
		return true
	})
	if found > best {
		best = found
	}
	return best
}
