package rules

import (
	"go/ast"
	"go/token"
	"go/types"
	"sort"
	"strings"

	"verif/sa/core"
)

// S2c: who may look at the CPU feature flags. The instruction-set mode selects between two
// builds of the same native routines inside internal/native's dispatch; nothing else in the
// library may branch on it, or the two modes stop computing the same function (a `if
// !cpu.HasAVX2 { return self.skip() }` in front of a fast skipper makes lazy ast operations
// validate in one mode and not in the other).

func init() {
	register(&core.Rule{ID: "S2c", Min: 2,
		Doc: "Readers of the instruction-set flags (internal/cpu.HasAVX2, HasSSE) in non-test code of the main module: only internal/native's dispatch (the function that calls useAVX2/useSSE) and, inside the x86 encoder, conditions of emitter methods that S2b proves total (both arms emit the same destinations); any other reader makes behaviour depend on the mode outside the dispatch and is a violation.",
		Run: runS2c})
}

func runS2c(c *core.Ctx) {
	p := c.Prog
	if p.GOARCH != "amd64" {
		return
	}
	cpuPk := p.Pkg("internal/cpu")
	if cpuPk == nil {
		c.Undecided("internal/cpu", token.NoPos, "package not loaded")
		return
	}
	flags := map[types.Object]bool{}
	for _, nm := range []string{"HasAVX2", "HasSSE"} {
		if o := core.Obj(cpuPk, nm); o != nil {
			flags[o] = true
		}
	}
	if len(flags) != 2 {
		c.Undecided("internal/cpu.HasAVX2/HasSSE", token.NoPos, "flags not found")
		return
	}
	type site struct {
		fn  string
		pos token.Pos
		ok  string
	}
	var sites []site
	for _, pk := range p.Pkgs {
		if pk == cpuPk {
			continue
		}
		rel := core.Rel(pk.PkgPath)
		for _, f := range pk.Syntax {
			if strings.HasSuffix(p.Fset.Position(f.Pos()).Filename, "_test.go") {
				continue
			}
			for _, d := range f.Decls {
				fd, ok := d.(*ast.FuncDecl)
				if !ok || fd.Body == nil {
					continue
				}
				// does this function call useAVX2/useSSE (the dispatch)?
				dispatch := false
				ast.Inspect(fd.Body, func(n ast.Node) bool {
					if call, ok := n.(*ast.CallExpr); ok {
						if o := p.Callee(call); o != nil && (o.Name() == "useAVX2" || o.Name() == "useSSE") {
							dispatch = true
						}
					}
					return true
				})
				ast.Inspect(fd.Body, func(n ast.Node) bool {
					id, ok := n.(*ast.Ident)
					if !ok || !flags[p.ObjectOf(id)] {
						return true
					}
					s := site{fn: core.FuncName(pk, fd), pos: id.Pos()}
					switch {
					case rel == "internal/native" && dispatch:
						s.ok = "the dispatch itself"
					case rel == "internal/encoder/x86" && strings.HasPrefix(fd.Name.Name, "_asm_OP_"):
						s.ok = "emitter branch, totality checked by S2b"
					}
					sites = append(sites, s)
					return true
				})
			}
		}
	}
	sort.Slice(sites, func(i, j int) bool { return sites[i].pos < sites[j].pos })
	seen := map[string]int{}
	for _, s := range sites {
		seen[s.fn]++
		cn := s.fn + "/reads-cpu-flag#" + itoa(seen[s.fn])
		c.Analysed(s.fn)
		if s.ok != "" {
			c.OK(cn, s.pos, "%s", s.ok)
		} else {
			c.Bad(cn, s.pos, "%s branches on the instruction-set mode outside internal/native's dispatch: what this function does now differs between AVX2 and SSE hosts (SONIC_MODE=noavx2), while the two native builds are meant to be interchangeable", s.fn)
		}
	}
}
