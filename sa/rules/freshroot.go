package rules

import (
	"go/ast"
	"go/constant"
	"go/token"
	"go/types"
	"sort"
	"strings"

	"verif/sa/core"
)

// K16: a fresh allocation made by generated decoder code must stay visible to the collector
// across calls into Go. Generated frames are registered with an argument pointer map
// (`argPtrs`, read from the source) and an *empty* locals map, so the only frame slots the GC
// scans are the argument slots whose argPtrs entry is true. A pointer returned by
// mallocgc/makeslice/... that is parked in any other frame slot across a CALL_GO (which may
// run user code and a full collection) and read back afterwards is a dangling pointer when
// nothing else referenced the object.

func init() {
	register(&core.Rule{ID: "K16", Min: 3,
		Doc: "Rooting of fresh allocations in the JIT decoder templates: in every emitted sequence of jitdec._Assembler (helpers inlined), the pointer returned in AX by a CALL_GO of an allocating runtime entry (mallocgc, makeslice, makemap_small, growslice, convT*) is tracked through MOVQ copies into registers and SP-relative frame slots; a store of it through a non-SP base publishes it to the heap. At every later CALL_GO, if the object is neither published nor held in a frame slot `_FP_base+8*i` with argPtrs[i] == true (table and frame base read from the package source), every unscanned frame slot holding it is marked stale; reloading a stale slot is a violation (the collector could free or finalize the object during the call). Linear scan per sequence; registers are dropped at each call.",
		Run: runK16})
}

func runK16(c *core.Ctx) {
	p := c.Prog
	if p.GOARCH != "amd64" {
		return
	}
	const rel = "internal/decoder/jitdec"
	a := newAsmCtx(p, rel, "_Assembler")
	if a.pk == nil {
		c.Undecided(rel, token.NoPos, "package not loaded")
		return
	}
	// frame base and scanned argument slots, from the source
	base := int64(-1)
	if k, ok := a.pk.Types.Scope().Lookup("_FP_base").(*types.Const); ok {
		if v, ok := constant.Int64Val(k.Val()); ok {
			base = v
		}
	}
	var ptrs []bool
	var ptrsPos token.Pos
	for _, f := range a.pk.Syntax {
		for _, d := range f.Decls {
			gd, ok := d.(*ast.GenDecl)
			if !ok {
				continue
			}
			for _, sp := range gd.Specs {
				vs, ok := sp.(*ast.ValueSpec)
				if !ok {
					continue
				}
				for i, nm := range vs.Names {
					if nm.Name != "argPtrs" || i >= len(vs.Values) {
						continue
					}
					if cl, ok := vs.Values[i].(*ast.CompositeLit); ok {
						ptrsPos = cl.Pos()
						for _, e := range cl.Elts {
							ptrs = append(ptrs, exprStr(e) == "true")
						}
					}
				}
			}
		}
	}
	if base < 0 || len(ptrs) == 0 {
		c.Undecided(rel+"/frame-pointer-map", token.NoPos, "_FP_base or the argPtrs literal was not found")
		return
	}
	scanned := func(o Operand) bool {
		if o.Kind != "mem" || o.Reg != "SP" || o.Index != "" || !o.DispOK {
			return false
		}
		k := o.Disp - base
		return k >= 0 && k%8 == 0 && int(k/8) < len(ptrs) && ptrs[k/8]
	}
	c.OK(rel+"/frame-pointer-map", ptrsPos, "argument slots scanned by the collector: %v at %d(SP)+8*i; locals are not scanned", ptrs, base)

	allocating := func(name string) bool {
		for _, frag := range []string{"mallocgc", "makeslice", "makemap", "growslice", "convT"} {
			if strings.Contains(name, frag) {
				return true
			}
		}
		return false
	}
	type viol struct {
		pos      token.Pos
		slot, at string
	}
	bad := map[token.Pos]viol{}
	sites := map[string]token.Pos{} // allocation sites seen, by enclosing function
	for _, fd := range sortedFuncDecls(a.methods()) {
		np := fd.Type.Params.NumFields()
		if np > 1 || (np == 1 && !strings.HasPrefix(fd.Name.Name, "_asm_OP_")) {
			continue
		}
		seqs, ok := a.seqs(fd, asmEnv{}, 0)
		if !ok {
			continue
		}
		c.Analysed(handlerName(a.pk, fd))
		for _, sq := range seqs {
			gen := 0
			taint := map[string]int{} // register or slot -> generation
			isSlot := map[string]Operand{}
			stale := map[string]string{} // slot -> call during which it was the only holder
			published := map[int]bool{}
			depth, skipTo := 0, -1
			pendingAlloc := -1
			for _, o := range sq.Ops {
				switch o.Kind {
				case "Helper":
					depth++
					if skipTo < 0 && o.Callee != nil && o.Callee.Name() == "call_go" {
						callee := "?"
						if len(o.ArgVals) > 0 && o.ArgVals[0].sym != nil {
							callee = o.ArgVals[0].sym.Name()
						}
						// a collection may run here
						held := map[int]bool{}
						for k, g := range taint {
							if op, ok := isSlot[k]; ok && scanned(op) {
								held[g] = true
							}
						}
						for k, g := range taint {
							if _, ok := isSlot[k]; !ok {
								delete(taint, k) // registers do not survive the call
								continue
							}
							if !published[g] && !held[g] {
								stale[k] = callee
							}
						}
						skipTo = depth
						if allocating(callee) {
							pendingAlloc = depth
							sites[enclosingFuncName(a, o.Pos)] = o.Pos
						}
					}
					continue
				case "HelperEnd":
					if skipTo == depth {
						skipTo = -1
						if pendingAlloc == depth {
							gen++
							taint["AX"] = gen
							pendingAlloc = -1
						}
					}
					depth--
					continue
				}
				if skipTo >= 0 || o.Kind != "Emit" || len(o.Ops) == 0 || nonWriting[o.Mnem] {
					continue
				}
				dst := o.Ops[len(o.Ops)-1]
				dkey, dIsSlot := "", false
				switch {
				case dst.Kind == "reg":
					dkey = dst.Reg
				case dst.Kind == "mem":
					if s, ok := spSlot(dst); ok {
						dkey, dIsSlot = s, true
					}
				}
				g := 0
				if o.Mnem == "MOVQ" && len(o.Ops) == 2 {
					src := o.Ops[0]
					skey := ""
					if src.Kind == "reg" {
						skey = src.Reg
					} else if s, ok := spSlot(src); ok {
						skey = s
						if via, isStale := stale[s]; isStale && taint[s] != 0 {
							if _, dup := bad[o.Pos]; !dup {
								bad[o.Pos] = viol{o.Pos, s, via}
							}
						}
					}
					if skey != "" {
						g = taint[skey]
					}
					if g != 0 && dst.Kind == "mem" && dkey == "" {
						published[g] = true // stored through a pointer: reachable from the heap
					}
				}
				if dkey == "" {
					continue
				}
				delete(stale, dkey)
				if g != 0 {
					taint[dkey] = g
					if dIsSlot {
						isSlot[dkey] = dst
					}
				} else {
					delete(taint, dkey)
				}
			}
		}
	}
	var names []string
	for fn := range sites {
		names = append(names, fn)
	}
	sort.Strings(names)
	badIn := map[string][]viol{}
	for _, v := range bad {
		fn := enclosingFuncName(a, v.pos)
		badIn[fn] = append(badIn[fn], v)
	}
	for fn, vs := range badIn {
		sort.Slice(vs, func(i, j int) bool { return vs[i].pos < vs[j].pos })
		v := vs[0]
		c.Bad(rel+"."+fn+"/fresh-rooted", v.pos, "a freshly allocated object is reloaded from frame slot %s after CALL_GO %s, during which that unscanned slot was its only holder (locals of generated frames have an empty pointer map; only argument slots with argPtrs[i]==true are scanned): a collection inside the call can free or finalize the object, and the reloaded pointer dangles", v.slot, v.at)
	}
	for _, fn := range names {
		if _, isBad := badIn[fn]; isBad {
			continue
		}
		c.OK(rel+"."+fn+"/fresh-rooted", sites[fn], "allocation result is published or held in a scanned argument slot at every later call into Go before it is read back")
	}
	if len(names) == 0 {
		c.Undecided(rel+"/fresh-rooted", token.NoPos, "no allocating CALL_GO found in the templates")
	}
}
