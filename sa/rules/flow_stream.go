package rules

import (
	"go/ast"
	"go/token"
	"go/types"

	"golang.org/x/tools/go/cfg"
	"golang.org/x/tools/go/packages"

	"verif/sa/core"
)

func init() {
	register(&core.Rule{ID: "E1", Min: 4,
		Doc: "Stream codec error discipline (1): every call through io.Writer.Write, io.Reader.Read or io.Copy in the stream encoder/decoder binds its error result to a variable (not blank, not discarded), and on every go/cfg path that variable is read (tested, returned, passed to setErr) before it is redefined or the function exits. Waiver (one idiom, mirrors encoding/json): a return guarded by scan() having found unread non-space bytes may leave the delayed reader error unread, because Read is called again on the next refill.",
		Run: runE1})
	register(&core.Rule{ID: "E2", Min: 6,
		Doc: "Stream decoder sticky error: StreamDecoder.err is written only by setErr (and by Decode's syntax-error arm, which then calls setErr); More, readMore test self.err before touching the reader; every `if err != nil` arm over a reader error reaches setErr(err) or returns err; Decode returns self.err / the named result on every path and hands Decoder.Reset a copying string([]byte) conversion of the framed value; StreamEncoder.Encode's short-write loop advances the buffer by the n that Write returned and leaves only on len==0 or error.",
		Run: runE2})
}

// ioCallKind classifies calls to the reader/writer primitives.
func ioCallKind(p *core.Program, call *ast.CallExpr) string {
	se, ok := ast.Unparen(call.Fun).(*ast.SelectorExpr)
	if !ok {
		return ""
	}
	o := p.ObjectOf(se.Sel)
	f, ok := o.(*types.Func)
	if !ok || f.Pkg() == nil {
		return ""
	}
	// the decoder's own reader wrapper hands on the reader's error
	if core.IsSonic(f.Pkg()) && f.Name() == "refill" {
		return "refill"
	}
	if f.Pkg().Path() == "io" {
		switch f.Name() {
		case "Copy", "CopyN", "CopyBuffer", "ReadFull", "ReadAtLeast", "WriteString", "ReadAll":
			return "io." + f.Name()
		case "Write", "Read":
			// method of io.Writer / io.Reader
			return "io." + f.Name()
		}
	}
	return ""
}

func streamFiles(p *core.Program) []*packages.Package {
	return []*packages.Package{p.Pkg("internal/encoder"), p.Pkg("internal/decoder/api")}
}

func runE1(c *core.Ctx) {
	p := c.Prog
	count := 0
	for _, pk := range streamFiles(p) {
		if pk == nil {
			c.Undecided("stream packages", token.NoPos, "package not loaded")
			continue
		}
		for _, fd := range core.FuncDecls(pk) {
			if fd.Body == nil {
				continue
			}
			fn := core.FuncName(pk, fd)
			// collect io calls with their statement context
			type site struct {
				call *ast.CallExpr
				kind string
			}
			var sites []site
			ast.Inspect(fd.Body, func(n ast.Node) bool {
				if call, ok := n.(*ast.CallExpr); ok {
					if k := ioCallKind(p, call); k != "" {
						sites = append(sites, site{call, k})
					}
				}
				return true
			})
			if len(sites) == 0 {
				continue
			}
			c.Analysed(fn)
			g := funcCFG(p, fd.Body)
			for idx, s := range sites {
				count++
				cn := fn + "/" + s.kind + "#" + itoa(idx)
				// find the statement holding the call
				var holder ast.Stmt
				ast.Inspect(fd.Body, func(n ast.Node) bool {
					if st, ok := n.(ast.Stmt); ok && st.Pos() <= s.call.Pos() && s.call.End() <= st.End() {
						switch st.(type) {
						case *ast.AssignStmt, *ast.ExprStmt, *ast.ReturnStmt, *ast.DeclStmt:
							holder = st
						}
					}
					return true
				})
				switch h := holder.(type) {
				case *ast.ReturnStmt:
					c.OK(cn, s.call.Pos(), "error result returned directly")
					continue
				case *ast.AssignStmt:
					if len(h.Rhs) != 1 || ast.Unparen(h.Rhs[0]) != ast.Expr(s.call) {
						c.Undecided(cn, s.call.Pos(), "call is nested inside a larger expression")
						continue
					}
					// the error result is the last one
					last := h.Lhs[len(h.Lhs)-1]
					id, ok := ast.Unparen(last).(*ast.Ident)
					if !ok || id.Name == "_" {
						c.Bad(cn, s.call.Pos(), "error result of %s is discarded (assigned to %s)", s.kind, exprStr(last))
						continue
					}
					v := p.ObjectOf(id)
					if v == nil || !isErrorType(v.Type()) {
						c.Undecided(cn, s.call.Pos(), "last result is not bound to an error variable")
						continue
					}
					named := false
					if fd.Type.Results != nil {
						for _, f := range fd.Type.Results.List {
							for _, nm := range f.Names {
								if p.ObjectOf(nm) == v {
									named = true
								}
							}
						}
					}
					b, i := locate(g, h.Pos())
					if b == nil {
						c.Undecided(cn, s.call.Pos(), "statement not found in CFG")
						continue
					}
					drops := mustUse(p, g, b, i, v, named, func(ret ast.Node, _ *cfg.Block) bool {
						return guardedByScanNonEmpty(p, fd, ret.Pos())
					})
					if len(drops) == 0 {
						c.OK(cn, s.call.Pos(), "error bound to %s and read on every path before redefinition/exit", id.Name)
					} else {
						d := drops[0]
						c.Bad(cn, s.call.Pos(), "error of %s bound to %s is %s at %s before being read: the reader/writer error never reaches the caller on that path", s.kind, id.Name, d.what, p.Pos(d.pos))
					}
				case *ast.ExprStmt:
					c.Bad(cn, s.call.Pos(), "result of %s is discarded: a failing reader/writer is not reported", s.kind)
				default:
					c.Undecided(cn, s.call.Pos(), "unrecognised statement around the call")
				}
			}
		}
	}
	if count == 0 {
		c.Undecided("stream packages", token.NoPos, "no reader/writer call found")
	}
}

// guardedByScanNonEmpty: the position lies in the then-branch of `if !empty`
// where empty is the second result of a call to the (*StreamDecoder).scan method.
func guardedByScanNonEmpty(p *core.Program, fd *ast.FuncDecl, pos token.Pos) bool {
	for _, ic := range enclosingIfs(fd, pos) {
		if !ic.inThen {
			continue
		}
		u, ok := ast.Unparen(ic.stmt.Cond).(*ast.UnaryExpr)
		if !ok || u.Op != token.NOT {
			continue
		}
		id, ok := ast.Unparen(u.X).(*ast.Ident)
		if !ok {
			continue
		}
		v := p.ObjectOf(id)
		found := false
		ast.Inspect(fd.Body, func(n ast.Node) bool {
			as, ok := n.(*ast.AssignStmt)
			if !ok || len(as.Lhs) != 2 || len(as.Rhs) != 1 {
				return true
			}
			l, ok := as.Lhs[1].(*ast.Ident)
			if !ok || p.ObjectOf(l) != v {
				return true
			}
			if call, ok := as.Rhs[0].(*ast.CallExpr); ok {
				if o := p.Callee(call); o != nil && o.Name() == "scan" {
					found = true
				}
			}
			return true
		})
		if found {
			return true
		}
	}
	return false
}

func isNilCmp(p *core.Program, e ast.Expr, op token.Token) (types.Object, bool) {
	be, ok := ast.Unparen(e).(*ast.BinaryExpr)
	if !ok || be.Op != op {
		return nil, false
	}
	if id, ok := ast.Unparen(be.Y).(*ast.Ident); !ok || id.Name != "nil" {
		return nil, false
	}
	switch x := ast.Unparen(be.X).(type) {
	case *ast.Ident:
		return p.ObjectOf(x), true
	case *ast.SelectorExpr:
		return p.ObjectOf(x.Sel), true
	}
	return nil, false
}

func runE2(c *core.Ctx) {
	p := c.Prog
	api := p.Pkg("internal/decoder/api")
	enc := p.Pkg("internal/encoder")
	sd := core.Obj(api, "StreamDecoder")
	if sd == nil {
		c.Undecided("api.StreamDecoder", token.NoPos, "not found")
		return
	}
	st, _ := sd.Type().Underlying().(*types.Struct)
	var errField types.Object
	for i := 0; st != nil && i < st.NumFields(); i++ {
		if st.Field(i).Name() == "err" {
			errField = st.Field(i)
		}
	}
	if errField == nil {
		c.Undecided("api.StreamDecoder.err", sd.Pos(), "field not found")
		return
	}
	// (a) writers of the sticky error
	for _, fd := range core.FuncDecls(api) {
		if fd.Body == nil {
			continue
		}
		fn := core.FuncName(api, fd)
		ast.Inspect(fd.Body, func(n ast.Node) bool {
			as, ok := n.(*ast.AssignStmt)
			if !ok {
				return true
			}
			for _, l := range as.Lhs {
				se, ok := ast.Unparen(l).(*ast.SelectorExpr)
				if !ok || p.ObjectOf(se.Sel) != errField {
					continue
				}
				cn := fn + "/writes-err"
				switch {
				case fd.Name.Name == "setErr":
					c.OK(cn, as.Pos(), "the one setter of the sticky error")
				case fd.Name.Name == "Decode":
					// must be followed by self.setErr(self.err) in the same block
					okFollow := false
					ast.Inspect(fd.Body, func(m ast.Node) bool {
						blk, ok := m.(*ast.BlockStmt)
						if !ok {
							return true
						}
						for i, s := range blk.List {
							if s == ast.Stmt(as) && i+1 < len(blk.List) {
								if es, ok := blk.List[i+1].(*ast.ExprStmt); ok {
									if call, ok := es.X.(*ast.CallExpr); ok {
										if o := p.Callee(call); o != nil && o.Name() == "setErr" {
											okFollow = true
										}
									}
								}
							}
						}
						return true
					})
					c.Check(okFollow, cn, as.Pos(), "syntax error recorded and passed to setErr", "Decode writes self.err without going through setErr (buffer not released / discipline broken)")
				default:
					c.Bad(cn, as.Pos(), "%s writes StreamDecoder.err directly; only setErr may", fn)
				}
			}
			return true
		})
	}
	// (b) More/readMore test the sticky error first
	for _, name := range []string{"More", "readMore"} {
		fd := core.FuncDecl(api, "StreamDecoder", name)
		cn := "internal/decoder/api.(StreamDecoder)." + name + "/sticky-first"
		if fd == nil || len(fd.Body.List) == 0 {
			c.Undecided(cn, token.NoPos, "not found")
			continue
		}
		c.Analysed("internal/decoder/api.(StreamDecoder)." + name)
		good := false
		if ifs, ok := fd.Body.List[0].(*ast.IfStmt); ok {
			if o, ok := isNilCmp(p, ifs.Cond, token.NEQ); ok && o == errField {
				for _, s := range ifs.Body.List {
					if r, ok := s.(*ast.ReturnStmt); ok && len(r.Results) == 1 && exprStr(r.Results[0]) == "false" {
						good = true
					}
				}
			}
		}
		c.Check(good, cn, fd.Pos(), "returns false at once when an error is recorded", name+" no longer stops on a recorded error before touching the reader: decoding continues after a failure")
	}
	// (c) every `if err != nil` over a local error in the stream decoder propagates it
	for _, fd := range core.FuncDecls(api) {
		if fd.Body == nil || core.RecvName(fd) != "StreamDecoder" {
			continue
		}
		fn := core.FuncName(api, fd)
		k := 0
		ast.Inspect(fd.Body, func(n ast.Node) bool {
			ifs, ok := n.(*ast.IfStmt)
			if !ok {
				return true
			}
			v, ok := isNilCmp(p, ifs.Cond, token.NEQ)
			if !ok || v == nil || v == errField || !isErrorType(v.Type()) {
				return true
			}
			k++
			cn := fn + "/propagates#" + itoa(k)
			prop := false
			ast.Inspect(ifs.Body, func(m ast.Node) bool {
				switch x := m.(type) {
				case *ast.CallExpr:
					if o := p.Callee(x); o != nil && o.Name() == "setErr" && len(x.Args) == 1 {
						if id, ok := ast.Unparen(x.Args[0]).(*ast.Ident); ok && p.ObjectOf(id) == v {
							prop = true
						}
					}
				case *ast.ReturnStmt:
					for _, r := range x.Results {
						if id, ok := ast.Unparen(r).(*ast.Ident); ok && p.ObjectOf(id) == v {
							prop = true
						}
					}
				}
				return true
			})
			c.Check(prop, cn, ifs.Pos(), "non-nil arm records (setErr) or returns the error", "the non-nil arm of `"+exprStr(ifs.Cond)+"` neither records the error with setErr nor returns it: the reader error is replaced or lost")
			return true
		})
	}
	// (d) Decode copies the framed value and returns the sticky error
	if fd := core.FuncDecl(api, "StreamDecoder", "Decode"); fd != nil {
		c.Analysed("internal/decoder/api.(StreamDecoder).Decode")
		found := false
		ast.Inspect(fd.Body, func(n ast.Node) bool {
			call, ok := n.(*ast.CallExpr)
			if !ok || len(call.Args) != 1 {
				return true
			}
			if o := p.Callee(call); o == nil || o.Name() != "Reset" {
				return true
			}
			found = true
			arg := ast.Unparen(call.Args[0])
			conv, isCall := arg.(*ast.CallExpr)
			good := false
			if isCall && len(conv.Args) == 1 {
				if tv := p.TypeOf(conv.Fun); tv != nil {
					if b, ok := tv.Underlying().(*types.Basic); ok && b.Kind() == types.String {
						if _, isSig := p.TypeOf(conv.Fun).(*types.Signature); !isSig {
							if sl, ok := p.TypeOf(conv.Args[0]).Underlying().(*types.Slice); ok {
								if eb, ok := sl.Elem().Underlying().(*types.Basic); ok && eb.Kind() == types.Byte {
									good = true
								}
							}
						}
					}
				}
			}
			c.Check(good, "internal/decoder/api.(StreamDecoder).Decode/copy-frame", call.Pos(), "Decoder.Reset receives string([]byte): the framed value is copied out of the reusable read buffer", "Decoder.Reset receives "+exprStr(arg)+", not an allocating string([]byte) conversion: decoded strings would alias the read buffer that the next Decode overwrites")
			return true
		})
		if !found {
			c.Undecided("internal/decoder/api.(StreamDecoder).Decode/copy-frame", fd.Pos(), "Reset call not found")
		}
		// every return yields self.err or the named result
		badRet := token.NoPos
		var named types.Object
		if fd.Type.Results != nil && len(fd.Type.Results.List) == 1 && len(fd.Type.Results.List[0].Names) == 1 {
			named = p.ObjectOf(fd.Type.Results.List[0].Names[0])
		}
		ast.Inspect(fd.Body, func(n ast.Node) bool {
			r, ok := n.(*ast.ReturnStmt)
			if !ok {
				return true
			}
			if len(r.Results) == 0 && named != nil {
				return true
			}
			if len(r.Results) == 1 {
				if o := p.ExprObj(r.Results[0]); o == errField || (named != nil && o == named) {
					return true
				}
			}
			badRet = r.Pos()
			return true
		})
		c.Check(!badRet.IsValid(), "internal/decoder/api.(StreamDecoder).Decode/returns", fd.Pos(), "every return yields the sticky error or the decode error", "a return in Decode yields something other than self.err / err")
	} else {
		c.Undecided("internal/decoder/api.(StreamDecoder).Decode", token.NoPos, "not found")
	}
	// (e) Encode short-write loop
	if fd := core.FuncDecl(enc, "StreamEncoder", "Encode"); fd != nil {
		c.Analysed("internal/encoder.(StreamEncoder).Encode")
		cn := "internal/encoder.(StreamEncoder).Encode/short-write-loop"
		verdict := ""
		ast.Inspect(fd.Body, func(n ast.Node) bool {
			fs, ok := n.(*ast.ForStmt)
			if !ok {
				return true
			}
			var nVar, bufVar types.Object
			adv := false
			for _, s := range fs.Body.List {
				as, ok := s.(*ast.AssignStmt)
				if !ok {
					continue
				}
				if len(as.Rhs) == 1 {
					if call, ok := as.Rhs[0].(*ast.CallExpr); ok && ioCallKind(p, call) == "io.Write" && len(as.Lhs) == 2 && len(call.Args) == 1 {
						nVar = p.ExprObj(as.Lhs[0])
						bufVar = p.ExprObj(call.Args[0])
					}
					if sl, ok := as.Rhs[0].(*ast.SliceExpr); ok && nVar != nil && len(as.Lhs) == 1 {
						if p.ExprObj(as.Lhs[0]) == bufVar && p.ExprObj(sl.X) == bufVar && sl.Low != nil && p.ExprObj(sl.Low) == nVar && sl.High == nil {
							adv = true
						}
					}
				}
			}
			if nVar == nil {
				return true
			}
			// loop condition len(buf) > 0
			condOK := false
			if be, ok := fs.Cond.(*ast.BinaryExpr); ok && be.Op == token.GTR {
				if call, ok := be.X.(*ast.CallExpr); ok && len(call.Args) == 1 && exprStr(call.Fun) == "len" && p.ExprObj(call.Args[0]) == bufVar {
					if v, ok := p.ConstInt(be.Y); ok && v == 0 {
						condOK = true
					}
				}
			}
			switch {
			case !adv:
				verdict = "the write loop does not advance the buffer by the n that Write returned (bytes are repeated or skipped on a short write)"
			case !condOK:
				verdict = "the write loop does not run until len(buf) == 0"
			default:
				verdict = "ok"
			}
			return true
		})
		switch verdict {
		case "":
			c.Bad(cn, fd.Pos(), "no loop around Writer.Write: a short write loses the rest of the value")
		case "ok":
			c.OK(cn, fd.Pos(), "for len(buf) > 0 { n, err = w.Write(buf); buf = buf[n:] ... }")
		default:
			c.Bad(cn, fd.Pos(), "%s", verdict)
		}
	} else {
		c.Undecided("internal/encoder.(StreamEncoder).Encode", token.NoPos, "not found")
	}
}

func init() {
	register(&core.Rule{ID: "E3", Min: 1,
		Doc: "Stream decoder progress: every go/cfg path through StreamDecoder.Decode that can return a nil error passes through Decoder.Decode (a value was consumed); a path that returns self.err without having decoded, recorded an error (setErr) or tested self.err != nil reports success without progress.",
		Run: runE3})
	register(&core.Rule{ID: "E4", Min: 2,
		Doc: "Fresh read offset: wherever the stream decoder calls Reader.Read(buf[l:cap(buf)]) and then sets buf = buf[:l+n], the definition l := len(buf) that reaches the Read is not separated from it by a write to buf on any go/cfg path (loop back-edges included); realloc(&buf) preserves the length and is not a write. A stale l overwrites or truncates bytes already read, only for particular chunkings.",
		Run: runE4})
}

func runE3(c *core.Ctx) {
	p := c.Prog
	api := p.Pkg("internal/decoder/api")
	fd := core.FuncDecl(api, "StreamDecoder", "Decode")
	cn := "internal/decoder/api.(StreamDecoder).Decode/progress"
	if fd == nil {
		c.Undecided(cn, token.NoPos, "not found")
		return
	}
	c.Analysed("internal/decoder/api.(StreamDecoder).Decode")
	g := funcCFG(p, fd.Body)
	// forward walk from entry; state "safe" once a decode/setErr/err-test was passed
	isSafe := func(n ast.Node) bool {
		safe := false
		ast.Inspect(n, func(m ast.Node) bool {
			if call, ok := m.(*ast.CallExpr); ok {
				if o := p.Callee(call); o != nil {
					if o.Name() == "setErr" {
						safe = true
					}
					if o.Name() == "Decode" {
						if se, ok := call.Fun.(*ast.SelectorExpr); ok && exprStr(se.X) != "" && o.Pkg() != nil && core.IsSonic(o.Pkg()) {
							safe = true
						}
					}
				}
			}
			return !safe
		})
		return safe
	}
	var bad token.Pos
	seen := map[*cfg.Block]bool{}
	var walk func(b *cfg.Block)
	walk = func(b *cfg.Block) {
		if seen[b] || bad.IsValid() {
			return
		}
		seen[b] = true
		for _, n := range b.Nodes {
			if isSafe(n) {
				return
			}
			if r, ok := n.(*ast.ReturnStmt); ok {
				bad = r.Pos()
				return
			}
		}
		succs := b.Succs
		// `self.err != nil` true branch is safe (an error is returned)
		if len(b.Nodes) > 0 && len(b.Succs) == 2 {
			if e, ok := b.Nodes[len(b.Nodes)-1].(ast.Expr); ok {
				if o, ok := isNilCmp(p, e, token.NEQ); ok && o != nil && o.Name() == "err" {
					succs = b.Succs[1:]
				}
				if o, ok := isNilCmp(p, e, token.EQL); ok && o != nil && o.Name() == "err" {
					succs = b.Succs[:1]
				}
			}
		}
		for _, s := range succs {
			walk(s)
		}
	}
	if len(g.Blocks) > 0 {
		walk(g.Blocks[0])
	}
	if bad.IsValid() {
		c.Bad(cn, bad, "Decode can return self.err == nil at %s without having consumed a value (e.g. when More() is false because the next byte is ']' or '}'): a caller looping on Decode never terminates", p.Pos(bad))
	} else {
		c.OK(cn, fd.Pos(), "every nil-able return is preceded by Decoder.Decode or setErr")
	}
}

func runE4(c *core.Ctx) {
	p := c.Prog
	api := p.Pkg("internal/decoder/api")
	n := 0
	for _, fd := range core.FuncDecls(api) {
		if fd.Body == nil || core.RecvName(fd) != "StreamDecoder" {
			continue
		}
		fn := core.FuncName(api, fd)
		var g *cfg.CFG
		ast.Inspect(fd.Body, func(nd ast.Node) bool {
			call, ok := nd.(*ast.CallExpr)
			if !ok || ioCallKind(p, call) != "io.Read" || len(call.Args) != 1 {
				return true
			}
			sl, ok := ast.Unparen(call.Args[0]).(*ast.SliceExpr)
			if !ok || sl.Low == nil {
				return true
			}
			n++
			cn := fn + "/fresh-offset"
			bufKey := exprStr(sl.X) // e.g. self.buf
			low := ast.Unparen(sl.Low)
			if lc, ok := low.(*ast.CallExpr); ok && exprStr(lc.Fun) == "len" && len(lc.Args) == 1 && exprStr(lc.Args[0]) == bufKey {
				c.OK(cn, call.Pos(), "reads into %s[len(%s):cap]", bufKey, bufKey)
				return true
			}
			lid, ok := low.(*ast.Ident)
			if !ok {
				c.Undecided(cn, call.Pos(), "unrecognised read offset %s", exprStr(low))
				return true
			}
			lv := p.ObjectOf(lid)
			if g == nil {
				g = funcCFG(p, fd.Body)
			}
			b, i := locate(g, call.Pos())
			if b == nil {
				c.Undecided(cn, call.Pos(), "call not found in CFG")
				return true
			}
			// backward walk: first event must be the definition l := len(buf)
			isDef := func(nd ast.Node) bool {
				as, ok := nd.(*ast.AssignStmt)
				if !ok || len(as.Lhs) != 1 || len(as.Rhs) != 1 {
					return false
				}
				id, ok := as.Lhs[0].(*ast.Ident)
				if !ok || p.ObjectOf(id) != lv {
					return false
				}
				lc, ok := ast.Unparen(as.Rhs[0]).(*ast.CallExpr)
				return ok && exprStr(lc.Fun) == "len" && len(lc.Args) == 1 && exprStr(lc.Args[0]) == bufKey
			}
			isBufWrite := func(nd ast.Node) bool {
				w := false
				ast.Inspect(nd, func(m ast.Node) bool {
					if as, ok := m.(*ast.AssignStmt); ok {
						for _, l := range as.Lhs {
							if exprStr(l) == bufKey {
								w = true
							}
						}
					}
					return !w
				})
				return w
			}
			var stale token.Pos
			entryReached := false
			seen := map[*cfg.Block]bool{}
			var back func(b *cfg.Block, from int)
			preds := map[*cfg.Block][]*cfg.Block{}
			for _, x := range g.Blocks {
				for _, s := range x.Succs {
					preds[s] = append(preds[s], x)
				}
			}
			back = func(b *cfg.Block, from int) {
				for j := from; j >= 0; j-- {
					nd := b.Nodes[j]
					if isDef(nd) {
						return
					}
					if isBufWrite(nd) || nodeWrites(p, nd, lv) {
						if !stale.IsValid() {
							stale = nd.Pos()
						}
						return
					}
				}
				if len(preds[b]) == 0 {
					entryReached = true
				}
				for _, pr := range preds[b] {
					if !seen[pr] {
						seen[pr] = true
						back(pr, len(pr.Nodes)-1)
					}
				}
			}
			back(b, i-1)
			switch {
			case stale.IsValid():
				c.Bad(cn, call.Pos(), "the read offset %s can be stale: %s is modified at %s on a path that reaches the Read again without recomputing %s = len(%s); bytes already read are overwritten or truncated for some chunkings", lid.Name, bufKey, p.Pos(stale), lid.Name, bufKey)
			case entryReached:
				c.Bad(cn, call.Pos(), "the read offset %s is not defined as len(%s) on every path", lid.Name, bufKey)
			default:
				c.OK(cn, call.Pos(), "%s = len(%s) reaches the Read with no intervening write to %s", lid.Name, bufKey, bufKey)
			}
			return true
		})
	}
	if n == 0 {
		c.Undecided("internal/decoder/api.(StreamDecoder)/fresh-offset", token.NoPos, "no Reader.Read(buf[l:cap]) site found")
	}
}

// E6: the io.Reader contract - "callers should always process the n > 0 bytes returned before
// considering the error err". In the stream decoder every path from a Read call to a return
// must first account for the returned count (extend the buffer by n); returning on err != nil
// before that drops the last bytes of a stream whose reader delivers data together with EOF.

func init() {
	register(&core.Rule{ID: "E6", Min: 2,
		Doc: "Bytes returned together with an error are kept: in internal/decoder/api, for every call `n, err := r.Read(...)` on an io.Reader, every go/cfg path from the call to a return statement passes a statement that reads n (the buffer is extended by the count) - no return, in particular none guarded by err != nil, comes first.",
		Run: runE6})
}

func runE6(c *core.Ctx) {
	p := c.Prog
	pk := p.Pkg("internal/decoder/api")
	if pk == nil {
		c.Undecided("internal/decoder/api", token.NoPos, "package not loaded")
		return
	}
	n := 0
	for _, fd := range core.FuncDecls(pk) {
		if fd.Body == nil {
			continue
		}
		fn := core.FuncName(pk, fd)
		// Read calls with their count variable
		type site struct {
			call *ast.CallExpr
			cnt  types.Object
			stmt ast.Stmt
		}
		var sites []site
		ast.Inspect(fd.Body, func(nd ast.Node) bool {
			as, ok := nd.(*ast.AssignStmt)
			if !ok || len(as.Lhs) != 2 || len(as.Rhs) != 1 {
				return true
			}
			call, ok := as.Rhs[0].(*ast.CallExpr)
			if !ok {
				return true
			}
			se, ok := call.Fun.(*ast.SelectorExpr)
			if !ok || se.Sel.Name != "Read" || len(call.Args) != 1 {
				return true
			}
			if id, ok := as.Lhs[0].(*ast.Ident); ok {
				if o := p.ObjectOf(id); o != nil {
					sites = append(sites, site{call, o, as})
				}
			}
			return true
		})
		if len(sites) == 0 {
			continue
		}
		g := funcCFG(p, fd.Body)
		for k, s := range sites {
			n++
			cn := fn + "/read-count#" + itoa(k+1)
			c.Analysed(fn)
			b, i := locate(g, s.stmt.Pos())
			if b == nil {
				c.Undecided(cn, s.call.Pos(), "Read call not located in the CFG")
				continue
			}
			// DFS: is there a path from the statement after the call to a return (or function end)
			// that never reads the count?
			type pos struct {
				b *cfg.Block
				i int
			}
			seen := map[*cfg.Block]bool{}
			var badPos token.Pos
			var walk func(b *cfg.Block, i int) bool // true = a count-free path to an exit exists
			walk = func(b *cfg.Block, i int) bool {
				for j := i; j < len(b.Nodes); j++ {
					nd := b.Nodes[j]
					if nodeReads(p, nd, s.cnt) {
						return false
					}
					if r, ok := nd.(*ast.ReturnStmt); ok {
						badPos = r.Pos()
						return true
					}
				}
				if len(b.Succs) == 0 {
					badPos = fd.End()
					return true
				}
				for _, sx := range b.Succs {
					if seen[sx] {
						continue
					}
					seen[sx] = true
					if walk(sx, 0) {
						return true
					}
				}
				return false
			}
			_ = pos{}
			if walk(b, i+1) {
				c.Bad(cn, s.call.Pos(), "the count returned by %s is not used on a path to the return at %s: when the reader delivers its last bytes together with an error (io.EOF), those bytes never enter the buffer and the final value(s) of the stream are lost", exprStr(s.call.Fun), p.Pos(badPos))
			} else {
				c.OK(cn, s.call.Pos(), "every path from the Read to a return first extends the buffer by the count")
			}
		}
	}
	if n < 2 {
		c.Undecided("internal/decoder/api/reads", token.NoPos, "only %d Read calls found", n)
	}
}
