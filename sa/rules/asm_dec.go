package rules

import (
	"go/ast"
	"go/token"
	"strings"

	"verif/sa/core"
)

func init() {
	register(&core.Rule{ID: "B1", Min: 40,
		Doc: "Generated-decoder input loads are bounded: in every emitted template of the jitdec handlers and of the generic decoder, each load through (IP)(IC)+d of width w is covered by `avail >= d+w`, where avail is the number of input bytes proven present at IC by the bound checks (CMPQ IC,IL; JAE eof  /  LEAQ k(IC),R; CMPQ R,IL; JA eof) since the last instruction that moved IC (ADDQ, MOVQ, native calls that write ic). Forward dataflow with min-meet at labels; a handler's first access may rely on IC < IL established by the preceding lspace.",
		Run: runB1})
	register(&core.Rule{ID: "A5", Min: 2,
		Doc: "Bitmap tests on input bytes are range-guarded: every `BTQ R, M` in the decoders where M holds the whitespace bitmap (_BM_space) is preceded, with no redefinition of R and no label in between, by `CMPQ R, $k` (k <= 63) and a JA away: BT with a register index works modulo 64, so bytes such as 'I','J','M' would otherwise be taken for whitespace.",
		Run: runA5})
}

// regOf returns the hardware register name of a package-level register variable.
func regOf(p *core.Program, rel, name string) string {
	o := core.Obj(p.Pkg(rel), name)
	if o == nil {
		return ""
	}
	return emitModel{p}.operand(p.VarInit(o), 0).Reg
}

var nonWriting = map[string]bool{"CMPQ": true, "CMPB": true, "CMPL": true, "CMPW": true, "TESTQ": true, "TESTB": true, "TESTL": true, "BTQ": true, "UCOMISD": true, "UCOMISS": true}

type decTargets struct {
	rel, recv string
	only      map[string]bool // nil = all _asm_OP_* handlers
	init      int64
}

func runB1(c *core.Ctx) {
	p := c.Prog
	if p.GOARCH != "amd64" {
		return
	}
	rel := "internal/decoder/jitdec"
	IC, IL, IP := regOf(p, rel, "_IC"), regOf(p, rel, "_IL"), regOf(p, rel, "_IP")
	if IC == "" || IL == "" || IP == "" {
		c.Undecided("jitdec/_IC,_IL,_IP", token.NoPos, "register variables not found")
		return
	}
	for _, tg := range []decTargets{{rel, "_Assembler", nil, 0}, {rel, "_ValueDecoder", map[string]bool{"compile": true}, 0}} {
		a := newAsmCtx(p, tg.rel, tg.recv)
		for _, fd := range sortedFuncDecls(a.methods()) {
			if tg.only != nil && !tg.only[fd.Name.Name] {
				continue
			}
			if tg.only == nil && !strings.HasPrefix(fd.Name.Name, "_asm_OP_") {
				continue
			}
			fn := handlerName(a.pk, fd)
			seqs, ok := a.seqs(fd, asmEnv{}, 0)
			if !ok {
				c.Undecided(fn+"/loads", fd.Pos(), "cannot enumerate emitted sequences")
				continue
			}
			c.Analysed(fn)
			nloads := 0
			reported := map[string]bool{}
			// a handler starts with no byte proven; the few whose first load relies on the
			// preceding IR instruction (derived, see B3) are analysed with that one byte and
			// the debt is discharged over the emitted IR programs by B3
			init := tg.init
			if tg.only == nil {
				if tab, _ := decAvailTable(p); tab != nil {
					op := strings.TrimPrefix(fd.Name.Name, "_asm")
					if alt, ok := handlerNameExceptions[op]; ok {
						op = alt
					}
					if tab[op].known && tab[op].req == 1 {
						init = 1
					}
				}
			}
			for _, sq := range seqs {
				g := buildSeqCFG(sq.Ops)
				in := boundFlow(g, init, IC, IL)
				for i, o := range g.ops {
					if o.Kind != "Emit" || o.Mnem == "LEAQ" {
						continue
					}
					for oi, x := range o.Ops {
						if x.Kind != "mem" || x.Reg != IP || x.Index != IC || !x.DispOK {
							continue
						}
						// destination memory operand of a store is not a load; input is never stored to
						_ = oi
						if x.Disp < 0 {
							continue // look-behind after a successful parse
						}
						nloads++
						need := x.Disp + accessWidth(o.Mnem)
						have := in[i].avail
						if !in[i].reached {
							continue // unreachable in this sequence
						}
						if have < need {
							key := p.Pos(o.Pos)
							if !reported[key] {
								reported[key] = true
								c.Bad(fn+"/load@"+siteName(o), o.Pos, "%s reads %d byte(s) at (IP)(IC)+%d but only %d byte(s) are proven to lie inside the input on some emitted path (no bound check since IC last moved): an input ending here is read past its end, and the result depends on the byte that follows it", o.String(), accessWidth(o.Mnem), x.Disp, have)
							}
						}
					}
				}
			}
			if len(reported) == 0 {
				c.OK(fn+"/loads", fd.Pos(), "%d sequence(s), %d input load(s), all covered by a bound check", len(seqs), nloads)
			}
		}
	}
}

// siteName names a load site by its enclosing emitter function (stable under line moves).
func siteName(o EmitOp) string {
	return o.Mnem + ":" + itoa(int(o.Ops[0].Disp)+int(o.Ops[len(o.Ops)-1].Disp))
}

func runA5(c *core.Ctx) {
	p := c.Prog
	if p.GOARCH != "amd64" {
		return
	}
	rel := "internal/decoder/jitdec"
	n := 0
	for _, recv := range []string{"_Assembler", "_ValueDecoder"} {
		a := newAsmCtx(p, rel, recv)
		for _, fd := range sortedFuncDecls(a.methods()) {
			// analyse each method standalone (no inlining needed: the guard sits next to the test)
			hasBT := false
			ast.Inspect(fd.Body, func(nd ast.Node) bool {
				if bl, ok := nd.(*ast.BasicLit); ok && bl.Value == `"BTQ"` {
					hasBT = true
				}
				return true
			})
			if !hasBT {
				continue
			}
			fn := handlerName(a.pk, fd)
			saved := a.maxPaths
			seqs, ok := a.seqs(fd, asmEnv{}, 4) // depth 4 = no inlining
			a.maxPaths = saved
			if !ok {
				c.Undecided(fn+"/bt-guard", fd.Pos(), "cannot enumerate emitted sequences")
				continue
			}
			c.Analysed(fn)
			bad := map[string]token.Pos{}
			sites := 0
			for _, sq := range seqs {
				// which register holds the whitespace bitmap
				bm := map[string]bool{}
				for i, o := range sq.Ops {
					if o.Kind == "Link" {
						bm = map[string]bool{} // another path may arrive with different register contents
					}
					if o.Kind != "Emit" || len(o.Ops) != 2 {
						continue
					}
					if strings.HasPrefix(o.Mnem, "MOV") && o.Ops[1].Kind == "reg" {
						bm[o.Ops[1].Reg] = o.Ops[0].Kind == "imm" && hasObj(o.Ops[0].Objs, rel, "_BM_space")
						continue
					}
					if o.Mnem != "BTQ" || o.Ops[0].Kind != "reg" || o.Ops[1].Kind != "reg" || !bm[o.Ops[1].Reg] {
						continue
					}
					sites++
					r := o.Ops[0].Reg
					guarded := false
					for j := i - 1; j >= 0; j-- {
						q := sq.Ops[j]
						if q.Kind == "Link" || q.Kind == "Helper" {
							break
						}
						if q.Kind == "Sjmp" {
							if j >= 1 && (q.Mnem == "JA" || q.Mnem == "JAE") {
								cm := sq.Ops[j-1]
								if cm.Kind == "Emit" && cm.Mnem == "CMPQ" && len(cm.Ops) == 2 && isReg(cm.Ops[0], r) && cm.Ops[1].Kind == "imm" && cm.Ops[1].ImmOK {
									lim := cm.Ops[1].Imm
									if (q.Mnem == "JA" && lim <= 63) || (q.Mnem == "JAE" && lim <= 64) {
										guarded = true
									}
								}
							}
							if guarded {
								break
							}
							continue
						}
						if q.Kind == "Emit" && len(q.Ops) >= 1 && isReg(q.Ops[len(q.Ops)-1], r) && !nonWriting[q.Mnem] {
							break // R redefined before reaching a guard
						}
					}
					if !guarded {
						bad[p.Pos(o.Pos)] = o.Pos
					}
				}
			}
			n += sites
			if len(bad) > 0 {
				for _, pos := range bad {
					c.Bad(fn+"/bt-guard", pos, "BTQ of an input byte against the whitespace bitmap without a preceding `CMPQ reg, $' '; JA`: BT takes the bit index modulo 64, so bytes above 63 that alias a whitespace bit ('I','J','M','`', 0x89, ...) are skipped as whitespace and malformed documents are accepted")
					break
				}
			} else if sites > 0 {
				c.OK(fn+"/bt-guard", fd.Pos(), "%d whitespace-bitmap test(s), each range-guarded", sites)
			}
		}
	}
	if n < 8 {
		c.Undecided("jitdec/bt-guard", token.NoPos, "only %d whitespace-bitmap tests found", n)
	}
}

// bstate is the dataflow fact of B1: bytes proven available at IC, and registers
// known to equal IC+k.
type bstate struct {
	reached bool
	avail   int64
	rel     map[string]int64
	slot    map[string]int64 // private frame slot -> bytes proven available at the input position it holds
	ravail  map[string]int64 // register (not tied to IC) -> bytes proven available at the position it holds
}

func (a bstate) clone() bstate {
	n := bstate{reached: a.reached, avail: a.avail, rel: map[string]int64{}, slot: map[string]int64{}, ravail: map[string]int64{}}
	for k, v := range a.rel {
		n.rel[k] = v
	}
	for k, v := range a.slot {
		n.slot[k] = v
	}
	for k, v := range a.ravail {
		n.ravail[k] = v
	}
	return n
}

// meetInto merges b into a; reports whether a changed.
func meetInto(a *bstate, b bstate) bool {
	if !b.reached {
		return false
	}
	if !a.reached {
		*a = b.clone()
		return true
	}
	ch := false
	if b.avail < a.avail {
		a.avail = b.avail
		ch = true
	}
	for k, v := range a.rel {
		if w, ok := b.rel[k]; !ok || w != v {
			delete(a.rel, k)
			ch = true
		}
	}
	for _, pr := range [][2]map[string]int64{{a.slot, b.slot}, {a.ravail, b.ravail}} {
		for k, v := range pr[0] {
			w, ok := pr[1][k]
			switch {
			case !ok:
				delete(pr[0], k)
				ch = true
			case w < v:
				pr[0][k] = w
				ch = true
			}
		}
	}
	return ch
}

func sameCC(jmp, cc string) bool {
	j := strings.TrimPrefix(jmp, "J")
	norm := func(x string) string {
		switch x {
		case "EQ", "Z":
			return "E"
		case "NZ":
			return "NE"
		}
		return x
	}
	return norm(j) == norm(cc)
}

func hasRel(m map[string]int64, k string) bool { _, ok := m[k]; return ok }

func boundFlow(g *seqCFG, init int64, IC, IL string) []bstate {
	in := make([]bstate, len(g.ops)+1)
	in[0] = bstate{reached: true, avail: init, rel: map[string]int64{}, slot: map[string]int64{}, ravail: map[string]int64{}}
	work := []int{0}
	seeded := false
	cmovPre := map[int]bstate{}
	// frame slots whose address is taken (handed to a native by pointer) are never tracked
	escaped := map[int64]bool{}
	for _, o := range g.ops {
		if o.Kind == "Emit" && o.Mnem == "LEAQ" && len(o.Ops) == 2 && o.Ops[0].Kind == "mem" && o.Ops[0].Reg == "SP" && o.Ops[0].Index == "" && o.Ops[0].DispOK {
			escaped[o.Ops[0].Disp] = true
		}
	}
	slotKey := func(x Operand) (string, bool) {
		if x.Kind == "mem" && x.Reg == "SP" && x.Index == "" && x.DispOK && !escaped[x.Disp] {
			return "slot:" + itoa(int(x.Disp)), true
		}
		return "", false
	}
	for len(work) > 0 || !seeded {
		if len(work) == 0 {
			// labels reached only through indirect jumps (jump tables, saved return
			// addresses): enter them knowing nothing
			seeded = true
			for i, o := range g.ops {
				if o.Kind == "Link" && !in[i].reached {
					in[i] = bstate{reached: true, avail: 0, rel: map[string]int64{}, slot: map[string]int64{}, ravail: map[string]int64{}}
					work = append(work, i)
					seeded = false
				}
			}
			if seeded {
				break
			}
			seeded = false
			continue
		}
		i := work[len(work)-1]
		work = work[:len(work)-1]
		if i >= len(g.ops) || !in[i].reached {
			continue
		}
		o := g.ops[i]
		fall := in[i].clone()
		taken := in[i].clone()
		if pre, ok := cmovPre[i]; ok && (o.Kind == "Sjmp" || o.Kind == "Xjmp") {
			// `CMOVQcc r, IC; Jcc target`: the move happened exactly when the jump is taken
			fall = pre.clone()
		}
		switch o.Kind {
		case "Emit":
			if strings.HasPrefix(o.Mnem, "CMOVQ") && len(o.Ops) == 2 && isReg(o.Ops[1], IC) && i+1 < len(g.ops) &&
				(g.ops[i+1].Kind == "Sjmp" || g.ops[i+1].Kind == "Xjmp") && sameCC(g.ops[i+1].Mnem, strings.TrimPrefix(o.Mnem, "CMOVQ")) {
				cmovPre[i+1] = in[i].clone()
			}
			if len(o.Ops) >= 1 && !nonWriting[o.Mnem] {
				dst := o.Ops[len(o.Ops)-1]
				if o.Mnem == "XCHGQ" {
					for _, x := range o.Ops {
						if x.Kind == "reg" {
							delete(fall.rel, x.Reg)
							if x.Reg == IC {
								fall.avail = 0
								fall.rel = map[string]int64{}
							}
						}
					}
				} else if dst.Kind == "mem" {
					// spill of IC (or of a register known to be IC+k) into a private frame slot
					if sk, ok := slotKey(dst); ok {
						src := o.Ops[0]
						if o.Mnem == "MOVQ" && len(o.Ops) == 2 && src.Kind == "reg" && src.Reg == IC {
							fall.slot[sk] = fall.avail
						} else if k, known := fall.rel[src.Reg]; o.Mnem == "MOVQ" && len(o.Ops) == 2 && src.Kind == "reg" && known {
							fall.slot[sk] = fall.avail - k
						} else {
							delete(fall.slot, sk)
						}
					} else if dst.Reg == "SP" && !dst.DispOK {
						fall.slot = map[string]int64{}
					}
				} else if sk, isSlot := slotKey(o.Ops[0]); dst.Kind == "reg" && dst.Reg == IC && isSlot && o.Mnem == "MOVQ" && len(o.Ops) == 2 && hasRel(fall.slot, sk) {
					// reload of the input position saved earlier: what was proven then still holds
					fall.avail = fall.slot[sk]
					if fall.avail < 0 {
						fall.avail = 0
					}
					fall.rel = map[string]int64{}
				} else if dst.Kind == "reg" {
					src := o.Ops[0]
					delete(fall.ravail, dst.Reg)
					switch {
					case dst.Reg == IC && len(o.Ops) == 2 && src.Kind == "imm" && src.ImmOK && (o.Mnem == "ADDQ" || o.Mnem == "SUBQ"):
						d := src.Imm
						if o.Mnem == "SUBQ" {
							d = -d
						}
						fall.avail -= d
						if fall.avail < 0 {
							fall.avail = 0
						}
						for k := range fall.rel {
							fall.rel[k] -= d
						}
					case dst.Reg == IC && len(o.Ops) == 2 && o.Mnem == "MOVQ" && src.Kind == "reg":
						// IC = R where R = IC+k: the bytes before R were proven available
						if k, ok := fall.rel[src.Reg]; ok {
							fall.avail -= k
							if fall.avail < 0 {
								fall.avail = 0
							}
							for r := range fall.rel {
								fall.rel[r] -= k
							}
						} else {
							fall.avail = fall.ravail[src.Reg] // 0 when nothing is known about R
							fall.rel = map[string]int64{}
						}
					case dst.Reg == IC:
						fall.avail = 0
						fall.rel = map[string]int64{}
					case o.Mnem == "LEAQ" && len(o.Ops) == 2 && src.Kind == "mem" && src.Reg == IC && src.Index == "" && src.DispOK:
						fall.rel[dst.Reg] = src.Disp
					case o.Mnem == "MOVQ" && len(o.Ops) == 2 && src.Kind == "reg" && src.Reg == IC:
						fall.rel[dst.Reg] = 0
					case (o.Mnem == "ADDQ" || o.Mnem == "SUBQ") && len(o.Ops) == 2 && src.Kind == "imm" && src.ImmOK:
						if k, ok := fall.rel[dst.Reg]; ok {
							if o.Mnem == "ADDQ" {
								fall.rel[dst.Reg] = k + src.Imm
							} else {
								fall.rel[dst.Reg] = k - src.Imm
							}
						}
					default:
						delete(fall.rel, dst.Reg)
					}
				}
			}
			taken = fall
		case "Helper", "Call":
			// helper bodies are inlined after the marker; un-inlined helpers may clobber anything
			if o.Kind == "Helper" && (i+1 >= len(g.ops) || g.ops[i+1].Kind == "HelperEnd" || true) {
				// caller-saved scratch registers are not tracked across un-inlined helpers
			}
		case "Sjmp":
			if i >= 1 && g.ops[i-1].Kind == "Emit" && g.ops[i-1].Mnem == "CMPQ" && len(g.ops[i-1].Ops) == 2 && isReg(g.ops[i-1].Ops[1], IL) {
				x := g.ops[i-1].Ops[0]
				k := int64(-1)
				if isReg(x, IC) {
					k = 0
				} else if x.Kind == "reg" {
					if kk, ok := in[i].rel[x.Reg]; ok && kk >= 0 {
						k = kk
					}
				}
				if k < 0 && x.Kind == "reg" && !isReg(x, IC) {
					// a position held in a register that is not tied to IC (a native's return value)
					switch o.Mnem {
					case "JAE", "JNB", "JNC":
						if fall.ravail[x.Reg] < 1 {
							fall.ravail[x.Reg] = 1
						}
					case "JB", "JC":
						if taken.ravail[x.Reg] < 1 {
							taken.ravail[x.Reg] = 1
						}
					}
				}
				if k >= 0 {
					switch o.Mnem {
					case "JAE", "JNB", "JNC":
						if k+1 > fall.avail {
							fall.avail = k + 1
						}
					case "JA":
						if k > fall.avail {
							fall.avail = k
						}
					case "JB", "JC":
						if k+1 > taken.avail {
							taken.avail = k + 1
						}
					case "JBE":
						if k > taken.avail {
							taken.avail = k
						}
					}
				}
			}
		}
		for _, s := range g.succ[i] {
			v := fall
			if o.Kind == "Sjmp" && s != i+1 {
				v = taken
			}
			if meetInto(&in[s], v) {
				work = append(work, s)
			}
		}
		// a local conditional jump whose label is the next instruction
		if o.Kind == "Sjmp" {
			if t, ok := g.label[o.Label]; ok && t == i+1 {
				if meetInto(&in[i+1], taken) {
					work = append(work, i+1)
				}
			}
		}
	}
	return in
}
