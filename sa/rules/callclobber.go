package rules

import (
	"go/token"
	"sort"
	"strings"

	"verif/sa/core"
)

// A9: registers across calls. Generated code calls Go functions (ABIInternal: no register
// survives) and native routines (System V: RAX, RCX, RDX, RSI, RDI, R8-R11 do not survive). The
// emitters save the registers they care about before a call and reload them afterwards
// (save/load, xsave/xload, explicit frame slots). A register that the call may clobber and that
// the template has not reloaded or redefined must not be read: whether the native happens to
// leave it intact differs between the SSE and AVX2 builds of the same routine.

func init() {
	register(&core.Rule{ID: "A9", Min: 20,
		Doc: "No register is read across a call unless it was restored: forward dataflow over the emitted templates of the three emitters; at each CALL (Rjmp \"CALL\" inside call_go / call_c / callc / call_sf / call_vf ...) the registers the callee may clobber become undefined (Go calls: all general registers except SP, BP, R14; native calls: RAX, RCX, RDX, RSI, RDI, R8-R11), the return registers AX (and BX for Go calls) are defined again, and every later read of a still-undefined register (as a source, or as base/index of a memory operand) before a write to it (reload from the frame, load helper, any other definition) is a violation. Labels merge by union of the undefined sets.",
		Run: runA9})
}

var a9NativeClobber = []string{"AX", "CX", "DX", "SI", "DI", "R8", "R9", "R10", "R11"}
var a9GoClobber = []string{"AX", "BX", "CX", "DX", "SI", "DI", "R8", "R9", "R10", "R11", "R12", "R13", "R15"}

func opReads(o EmitOp) []string {
	var rs []string
	if o.Mnem == "XCHGQ" {
		return nil // parks or restores a register; the swapped-in value is tracked by the dataflow
	}
	n := len(o.Ops)
	for i, x := range o.Ops {
		switch x.Kind {
		case "reg":
			isDst := i == n-1 && n >= 2
			readsDst := !(strings.HasPrefix(o.Mnem, "MOV") || strings.HasPrefix(o.Mnem, "LEA") || strings.HasPrefix(o.Mnem, "SET") || strings.HasPrefix(o.Mnem, "CVT") || strings.HasPrefix(o.Mnem, "VMOV") || strings.HasPrefix(o.Mnem, "PMOV"))
			if !isDst || readsDst || n == 1 {
				// XOR r, r reads nothing meaningful
				if (o.Mnem == "XORL" || o.Mnem == "XORQ" || o.Mnem == "PXOR" || o.Mnem == "XORPS") && n == 2 && o.Ops[0].Kind == "reg" && o.Ops[1].Kind == "reg" && o.Ops[0].Reg == o.Ops[1].Reg {
					continue
				}
				rs = append(rs, x.Reg)
			}
		case "mem":
			if x.Reg != "" {
				rs = append(rs, x.Reg)
			}
			if x.Index != "" {
				rs = append(rs, x.Index)
			}
		}
	}
	return rs
}

func runA9(c *core.Ctx) {
	p := c.Prog
	if p.GOARCH != "amd64" {
		return
	}
	total := 0
	for _, tg := range []decTargets{
		{"internal/decoder/jitdec", "_Assembler", nil, 0},
		{"internal/decoder/jitdec", "_ValueDecoder", map[string]bool{"compile": true}, 0},
		{"internal/encoder/x86", "Assembler", nil, 0},
	} {
		a := newAsmCtx(p, tg.rel, tg.recv)
		for _, fd := range sortedFuncDecls(a.methods()) {
			if tg.only != nil && !tg.only[fd.Name.Name] {
				continue
			}
			if tg.only == nil && !strings.HasPrefix(fd.Name.Name, "_asm_OP_") {
				continue
			}
			fn := handlerName(a.pk, fd)
			seqs, ok := a.seqs(fd, asmEnv{}, 0)
			if !ok {
				c.Undecided(fn+"/call-clobber", fd.Pos(), "cannot enumerate emitted sequences")
				continue
			}
			if anyTrunc(seqs) {
				c.Undecided(fn+"/call-clobber", fd.Pos(), "a helper could not be inlined within the path budget")
				continue
			}
			ncalls := 0
			bad := map[string]token.Pos{}
			for _, sq := range seqs {
				g := buildSeqCFG(sq.Ops)
				// enclosing helper names per op
				enc := make([][]string, len(g.ops))
				var st []string
				for i, o := range g.ops {
					switch o.Kind {
					case "Helper":
						nm := ""
						if o.Callee != nil {
							nm = o.Callee.Name()
						}
						st = append(st, nm)
					case "HelperEnd":
						if len(st) > 0 {
							st = st[:len(st)-1]
						}
					}
					enc[i] = append([]string(nil), st...)
				}
				in := make([]map[string]token.Pos, len(g.ops)+1)
				reached := make([]bool, len(g.ops)+1)
				in[0] = map[string]token.Pos{}
				reached[0] = true
				work := []int{0}
				meet := func(d int, src map[string]token.Pos) bool {
					if !reached[d] {
						reached[d] = true
						in[d] = map[string]token.Pos{}
						for k, v := range src {
							in[d][k] = v
						}
						return true
					}
					ch := false
					for k, v := range src {
						if _, ok := in[d][k]; !ok {
							in[d][k] = v
							ch = true
						}
					}
					return ch
				}
				for {
					if len(work) == 0 {
						for i, o := range g.ops {
							if o.Kind == "Link" && !reached[i] {
								reached[i] = true
								in[i] = map[string]token.Pos{}
								work = append(work, i)
								break
							}
						}
						if len(work) == 0 {
							break
						}
					}
					i := work[len(work)-1]
					work = work[:len(work)-1]
					if i >= len(g.ops) {
						continue
					}
					o := g.ops[i]
					out := map[string]token.Pos{}
					for k, v := range in[i] {
						out[k] = v
					}
					switch o.Kind {
					case "Emit":
						if len(o.Ops) >= 1 && !nonWriting[o.Mnem] {
							dst := o.Ops[len(o.Ops)-1]
							if dst.Kind == "reg" {
								delete(out, dst.Reg)
							}
							if o.Mnem == "XCHGQ" && len(o.Ops) == 2 && o.Ops[0].Kind == "reg" && o.Ops[1].Kind == "reg" {
								pa, ua := in[i][o.Ops[0].Reg]
								pb, ub := in[i][o.Ops[1].Reg]
								delete(out, o.Ops[0].Reg)
								delete(out, o.Ops[1].Reg)
								if ua {
									out[o.Ops[1].Reg] = pa
								}
								if ub {
									out[o.Ops[0].Reg] = pb
								}
							}
						}
					case "Helper":
						if o.Callee != nil && o.Callee.Name() == "Byte" && len(o.ArgVals) == 3 && o.ArgVals[0].isInt && o.ArgVals[1].isInt && o.ArgVals[2].isInt && o.ArgVals[1].i == 0x8d {
							// hand-encoded LEAQ (PC), reg: REX, 0x8d, ModRM
							regs := []string{"AX", "CX", "DX", "BX", "SP", "BP", "SI", "DI", "R8", "R9", "R10", "R11", "R12", "R13", "R14", "R15"}
							r := int((o.ArgVals[0].i>>2)&1)<<3 | int((o.ArgVals[2].i>>3)&7)
							delete(out, regs[r])
						}
						if o.Callee != nil && o.Callee.Name() == "Rjmp" && len(o.ArgVals) > 0 && o.ArgVals[0].isStr && o.ArgVals[0].s == "CALL" {
							goCall, wb := true, false
							for _, h := range enc[i] {
								if h == "call_c" || h == "callc" || h == "call_sf" || h == "call_vf" || h == "call_b64" {
									goCall = false // native routine (System V)
								}
								if h == "WriteRecNotAX" || h == "WritePtrAX" || h == "WritePtr" {
									wb = true
								}
							}
							if wb {
								// runtime.gcWriteBarrier2 preserves every register and returns the buffer in R11
								delete(out, "R11")
								break
							}
							ncalls++
							cl := a9NativeClobber
							if goCall {
								cl = a9GoClobber
							}
							for _, r := range cl {
								out[r] = o.Pos
							}
							delete(out, "AX")
							if goCall {
								// ABIInternal returns results in AX, BX, CX, DI, ...
								delete(out, "BX")
								delete(out, "CX")
								delete(out, "DI")
							}
						}
					}
					for _, s := range g.succ[i] {
						if meet(s, out) {
							work = append(work, s)
						}
					}
					if o.Kind == "Sjmp" {
						if t, ok := g.label[o.Label]; ok && t == i+1 {
							if meet(i+1, out) {
								work = append(work, i+1)
							}
						}
					}
				}
				for i, o := range g.ops {
					if !reached[i] || o.Kind != "Emit" {
						continue
					}
					for _, r := range opReads(o) {
						if cp, undef := in[i][r]; undef {
							bad[o.String()+" reads "+r+", which the call at "+p.Pos(cp)+" may have clobbered"] = o.Pos
						}
					}
				}
			}
			if ncalls == 0 {
				continue
			}
			total += ncalls
			c.Analysed(fn)
			cn := fn + "/call-clobber"
			if len(bad) == 0 {
				c.OK(cn, fd.Pos(), "%d call(s): no clobbered register is read before it is restored or redefined", ncalls)
				continue
			}
			var ks []string
			for k := range bad {
				ks = append(ks, k)
			}
			sort.Strings(ks)
			c.Bad(cn, bad[ks[0]], "%s (and %d more): the template relies on a register surviving a call; whether it does depends on the callee (for natives, on the SSE or AVX2 build)", ks[0], len(ks)-1)
		}
	}
	if total < 50 {
		c.Undecided("jit/call-clobber", token.NoPos, "only %d calls found", total)
	}
}
