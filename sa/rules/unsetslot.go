package rules

import (
	"go/ast"
	"go/token"
	"strings"

	"verif/sa/core"
)

// S25: which children a traversal may skip. Unset leaves a V_NONE node in the child's slot and
// decrements the parent's length; a child whose lazy conversion failed is replaced by a
// V_ERROR node and is still counted. Exists() is false for both, so a traversal by physical
// slot that skips `!Exists()` children also drops the broken child: the first read of the
// parent reports the syntax error, the second one silently succeeds without the element.

func init() {
	register(&core.Rule{ID: "S25", Min: 9, Arm64: true,
		Doc: "Slot-skip tests of the ast traversals: in every non-test function of package ast, a child obtained by physical slot (the result of linkedNodes/linkedPairs.At, Node.nodeAt or Node.pairAt, directly or through a local variable assigned from such a call, optionally `.Value`) is tested for \"this slot was removed\" only with unset() (or removed()/a type test against _V_NONE); calling Exists() on it is a violation, because Exists() is also false for the error node that replaces a child whose conversion failed, and skipping it loses the element and the error. Lookups that report not-found - `if !p.Exists() { ...; return .. }` on the result of a logical-index accessor (UnsetByIndex), or on the result of Get/Index - are not slot walks and are not counted.",
		Run: runS25})
}

func runS25(c *core.Ctx) {
	p := c.Prog
	pk := p.Pkg("ast")
	if pk == nil {
		c.Undecided("ast", token.NoPos, "package not loaded")
		return
	}
	slotCall := func(e ast.Expr) bool {
		call, ok := ast.Unparen(e).(*ast.CallExpr)
		if !ok {
			return false
		}
		se, ok := call.Fun.(*ast.SelectorExpr)
		return ok && (se.Sel.Name == "At" || se.Sel.Name == "nodeAt" || se.Sel.Name == "pairAt")
	}
	n := 0
	for _, fd := range core.FuncDecls(pk) {
		if fd.Body == nil || strings.HasSuffix(p.Fset.Position(fd.Pos()).Filename, "_test.go") {
			continue
		}
		// locals bound to a slot
		slotVar := map[string]bool{}
		ast.Inspect(fd.Body, func(nd ast.Node) bool {
			if as, ok := nd.(*ast.AssignStmt); ok && len(as.Lhs) == len(as.Rhs) {
				for i, r := range as.Rhs {
					if id, ok := as.Lhs[i].(*ast.Ident); ok && slotCall(r) {
						slotVar[id.Name] = true
					}
				}
			}
			return true
		})
		fn := core.FuncName(pk, fd)
		k := 0
		// `if !x.Exists() { ...; return }`: a not-found report, not a skip
		notFound := map[ast.Expr]bool{}
		ast.Inspect(fd.Body, func(nd ast.Node) bool {
			if is, ok := nd.(*ast.IfStmt); ok && len(is.Body.List) > 0 {
				if _, ret := is.Body.List[len(is.Body.List)-1].(*ast.ReturnStmt); ret {
					if u, ok := ast.Unparen(is.Cond).(*ast.UnaryExpr); ok && u.Op == token.NOT {
						notFound[ast.Unparen(u.X)] = true
					}
				}
			}
			return true
		})
		ast.Inspect(fd.Body, func(nd ast.Node) bool {
			call, ok := nd.(*ast.CallExpr)
			if !ok || len(call.Args) != 0 {
				return true
			}
			se, ok := call.Fun.(*ast.SelectorExpr)
			if !ok || (se.Sel.Name != "Exists" && se.Sel.Name != "unset" && se.Sel.Name != "removed") {
				return true
			}
			recv := ast.Unparen(se.X)
			if v, ok := recv.(*ast.SelectorExpr); ok && v.Sel.Name == "Value" {
				recv = ast.Unparen(v.X)
			}
			isSlot := slotCall(recv)
			if id, ok := recv.(*ast.Ident); ok && slotVar[id.Name] {
				isSlot = true
			}
			if !isSlot || notFound[call] {
				return true
			}
			n++
			k++
			c.Analysed(fn)
			cn := fn + "/slot-test"
			if k > 1 {
				cn += "#" + string(rune('0'+k))
			}
			if se.Sel.Name == "Exists" {
				c.Bad(cn, call.Pos(), "%s tests a child taken by physical slot with Exists(), which is false for a removed slot *and* for the error node left by a failed conversion: the broken child is skipped like a removed one, so a later read of the parent succeeds with the element missing (and the positions of the following children shift)", exprStr(call))
			} else {
				c.OK(cn, call.Pos(), "%s: only removed slots are skipped", exprStr(call))
			}
			return true
		})
	}
	if n == 0 {
		c.Undecided("ast slot tests", token.NoPos, "no slot-skip test found")
	}
}
