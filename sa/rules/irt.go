package rules

import (
	"go/ast"
	"go/token"
	"go/types"
	"sort"
	"strings"

	"golang.org/x/tools/go/packages"

	"verif/sa/core"
)

// irt: abstract interpretation of the two IR compilers' source over the
// sequence of IR instructions they would emit. The compilers are never run.

type irDialect struct {
	name              string // "jitdec" | "encoder"
	rel               string
	progType          string          // _Program | Program
	pcName            string          // pc | PC
	pinName           string          // pin | Pin
	relName           string          // rel | Rel
	tagName           string          // tag | Tag
	emitters          map[string]bool // add/chr/int/... method names that append one instruction
	intName           string          // int | Int (explicit operand)
	tabName           string          // tab (switch table) | ""
	opPrefix          string          // _OP_ | OP_
	save, drop, drop2 string
}

var jitdecDialect = irDialect{name: "jitdec", rel: "internal/decoder/jitdec", progType: "_Program",
	pcName: "pc", pinName: "pin", relName: "rel", tagName: "tag", intName: "int", tabName: "tab", opPrefix: "_OP_",
	emitters: map[string]bool{"add": true, "int": true, "chr": true, "tab": true, "rtt": true, "rtti": true, "fmv": true},
	save:     "_OP_save", drop: "_OP_drop", drop2: "_OP_drop_2"}

var encoderDialect = irDialect{name: "encoder", rel: "internal/encoder", progType: "Program",
	pcName: "PC", pinName: "Pin", relName: "Rel", tagName: "Tag", intName: "Int", tabName: "", opPrefix: "OP_",
	emitters: map[string]bool{"Add": true, "Key": true, "Int": true, "Str": true, "Rtt": true, "Vp": true, "Vtab": true, "VField": true},
	save:     "OP_save", drop: "OP_drop", drop2: "OP_drop_2"}

func init() {
	register(&core.Rule{ID: "I0", Min: 20,
		Doc: "Branch-op table cross-check: the set of IR opcodes that carry a jump target is derived independently from the x86 handlers (handlers that hand p.vi()/p.Vi()/p.vs() to a jump helper rather than to an immediate) and, for the encoder, from the vm.Execute arms that assign pc = ins.Vi(); the two readings must agree, otherwise the IR model is stale.",
		Run: runI0})
	register(&core.Rule{ID: "I1", Min: 30,
		Doc: "Every branch resolved: on every Go-level path through every compile* function of both IR compilers, each emitted branch instruction without an explicit target is pinned (pin/rel), or its label is returned to / handed to a helper that pins it, before the function returns; a label is only pinned onto a branch instruction. An unpinned branch jumps to instruction 0.",
		Run: func(c *core.Ctx) { runIRT(c, "I1") }})
	register(&core.Rule{ID: "I2", Min: 30,
		Doc: "State stack balanced: on the control flow of the emitted IR template of every path (conditional/unconditional/table branch semantics from I0), save = +1, drop = -1, drop_2 = -2, callee fragments = 0; depth is consistent at joins, never negative, and zero at the fragment's exit and at every branch handed to the caller.",
		Run: func(c *core.Ctx) { runIRT(c, "I2") }})
	register(&core.Rule{ID: "G1", Min: 20,
		Doc: "Separator grammar of the emitted decoder programs: on the control flow of every emitted template, from a `match_char ','` no path through non-consuming instructions (lspace, load, goto) reaches an instruction that accepts the closing bracket (check_char '}' / ']', check_empty) before a value or key has been consumed; otherwise `{\"a\":1,}` or `[1,]` is accepted.",
		Run: func(c *core.Ctx) { runIRT(c, "G1") }})
	register(&core.Rule{ID: "G2", Min: 8,
		Doc: "Type guard of the emitted decoder programs: in every emitted template, the instruction that follows `is_null` (the start of a value; lspace ignored) is a type guard or a delegation - check_char_0 + dismatch_err, the checkIfSkip helper, check_char '[' / '\"' (byte slices), a strict match_char, the error-raising dismatch_err/unsupported, the dynamic dispatchers any/dyn/recurse, a primitive/unmarshaler opcode passed in by the caller, checkMarshaler, or a call that compiles the value (compileOps/compileOne/...) - never an instruction that consumes or skips the value unconditionally: otherwise a value of the wrong JSON type is accepted silently where encoding/json reports an UnmarshalTypeError.",
		Run: func(c *core.Ctx) { runIRT(c, "G2") }})
	register(&core.Rule{ID: "G5", Min: 1,
		Doc: "Object keys are strings in the emitted encoder programs: no emitted template of encoder.compileMapBodyKey contains OP_number or a call of compileString (which emits OP_number for json.Number): a key of string kind is written with OP_str (quoted and escaped) whatever its named type, numeric kinds go through Program.Key (quotes around the scalar), TextMarshaler keys through the text-key helpers.",
		Run: func(c *core.Ctx) { runIRT(c, "G5") }})
	register(&core.Rule{ID: "G4", Min: 1,
		Doc: "Short JSON arrays zero the rest of a fixed-size Go array: in every emitted template of jitdec.compileArray each `check_char ']'` branch (the array ended after 0..N elements) is pinned to the array_clear / array_clear_p instruction, which zeroes the elements that were not assigned, as encoding/json does; a close branch that lands past the clear keeps stale elements of a reused destination.",
		Run: func(c *core.Ctx) { runIRT(c, "G4") }})
	register(&core.Rule{ID: "G3", Min: 1,
		Doc: "Separator discipline of the emitted encoder programs (struct bodies): in the per-field fragment of encoder.compileStructBody every `byte ','` is either guarded by the run-time first-member test (cond_testc immediately before it), or it is emitted under a compile-time flag B (`if B`), and then every Go-level path that sets `B = true` emits code for its field that cannot be skipped at run time (no branch of the field's code jumps past its key). Otherwise a struct whose leading fields are skipped (nil embedded pointer, omitempty) is encoded as `{,\"name\":...}`.",
		Run: func(c *core.Ctx) { runIRT(c, "G3") }})
	register(&core.Rule{ID: "I3", Min: 8,
		Doc: "Depth tag: every compile function that emits a save also emits tag(sp...) before it on the same path (the compile-time nesting bound that turns unbounded type nesting into an error).",
		Run: func(c *core.Ctx) { runIRT(c, "I3") }})
}

// ---------------------------------------------------------------------------
// branch-op derivation

func handlerBranchOps(p *core.Program, pk *packages.Package, recv string, viNames map[string]bool) map[string]token.Pos {
	out := map[string]token.Pos{}
	for _, fd := range core.FuncDecls(pk) {
		if fd.Body == nil || core.RecvName(fd) != recv || !strings.HasPrefix(fd.Name.Name, "_asm_OP_") && !strings.HasPrefix(fd.Name.Name, "_asm__OP_") {
			continue
		}
		op := strings.TrimPrefix(fd.Name.Name, "_asm_")
		if recv == "_Assembler" {
			op = strings.TrimPrefix(fd.Name.Name, "_asm") // jitdec: _asm_OP_x handles _OP_x
			if alt, ok := handlerNameExceptions[op]; ok {
				op = alt
			}
		}
		self := recvObj(p, fd)
		ast.Inspect(fd.Body, func(n ast.Node) bool {
			call, ok := n.(*ast.CallExpr)
			if !ok {
				return true
			}
			se, ok := call.Fun.(*ast.SelectorExpr)
			if !ok {
				return true
			}
			id, ok := ast.Unparen(se.X).(*ast.Ident)
			if !ok || p.ObjectOf(id) != self || se.Sel.Name == "Emit" {
				return true
			}
			for _, a := range call.Args {
				if c2, ok := ast.Unparen(a).(*ast.CallExpr); ok {
					if s2, ok := c2.Fun.(*ast.SelectorExpr); ok && viNames[s2.Sel.Name] {
						out[op] = call.Pos()
					}
				}
			}
			return true
		})
		// table branch: range over p.vs()
		ast.Inspect(fd.Body, func(n ast.Node) bool {
			if rs, ok := n.(*ast.RangeStmt); ok {
				if c2, ok := ast.Unparen(rs.X).(*ast.CallExpr); ok {
					if s2, ok := c2.Fun.(*ast.SelectorExpr); ok && s2.Sel.Name == "vs" {
						out[op] = rs.Pos()
					}
				}
			}
			return true
		})
	}
	return out
}

// handler name -> opcode name where the two spellings differ in the repository.
var handlerNameExceptions = map[string]string{
	"_OP_skip_empty": "_OP_skip_emtpy", // the opcode constant is misspelt in compiler.go; the handler is not
}

func vmBranchOps(p *core.Program) map[string]token.Pos {
	out := map[string]token.Pos{}
	vm := p.Pkg("internal/encoder/vm")
	fd := core.FuncDecl(vm, "", "Execute")
	if fd == nil {
		return nil
	}
	ast.Inspect(fd.Body, func(n ast.Node) bool {
		cc, ok := n.(*ast.CaseClause)
		if !ok {
			return true
		}
		assigns := false
		for _, s := range cc.Body {
			ast.Inspect(s, func(m ast.Node) bool {
				if as, ok := m.(*ast.AssignStmt); ok && len(as.Lhs) == 1 && exprStr(as.Lhs[0]) == "pc" && strings.Contains(exprStr(as.Rhs[0]), "Vi()") {
					assigns = true
				}
				return true
			})
		}
		if assigns {
			for _, e := range cc.List {
				if o := p.ExprObj(e); o != nil {
					out[o.Name()] = cc.Pos()
				}
			}
		}
		return true
	})
	return out
}

func branchOps(p *core.Program, d irDialect) map[string]token.Pos {
	key := "branchops:" + d.name
	if v, ok := p.Cache[key]; ok {
		return v.(map[string]token.Pos)
	}
	var out map[string]token.Pos
	if d.name == "jitdec" {
		out = handlerBranchOps(p, p.Pkg("internal/decoder/jitdec"), "_Assembler", map[string]bool{"vi": true, "vs": true})
	} else {
		if x86 := p.Pkg("internal/encoder/x86"); x86 != nil {
			out = handlerBranchOps(p, x86, "Assembler", map[string]bool{"Vi": true})
		} else {
			out = vmBranchOps(p)
		}
	}
	if p.Cache == nil {
		p.Cache = map[string]interface{}{}
	}
	p.Cache[key] = out
	return out
}

func runI0(c *core.Ctx) {
	p := c.Prog
	if p.GOARCH == "amd64" {
		jb := branchOps(p, jitdecDialect)
		for _, op := range sortedKeysPos(jb) {
			c.OK("jitdec/branch-op/"+op, jb[op], "handler hands the operand to a jump helper")
		}
		if len(jb) < 15 {
			c.Undecided("jitdec/branch-ops", token.NoPos, "only %d branch ops derived", len(jb))
		}
	}
	eb := branchOps(p, encoderDialect)
	vb := vmBranchOps(p)
	all := map[string]bool{}
	for k := range eb {
		all[k] = true
	}
	for k := range vb {
		all[k] = true
	}
	for _, op := range sortedKeys(all) {
		_, a := eb[op]
		_, b := vb[op]
		pos := eb[op]
		if !pos.IsValid() {
			pos = vb[op]
		}
		if a && b {
			c.OK("encoder/branch-op/"+op, pos, "x86 handler and VM arm both branch on this opcode")
		} else if a {
			c.Bad("encoder/branch-op/"+op, pos, "the x86 handler of %s jumps to its operand but the vm.Execute arm never assigns pc = ins.Vi(): the two executors disagree on the control flow of this opcode", op)
		} else {
			c.Bad("encoder/branch-op/"+op, pos, "the vm.Execute arm of %s assigns pc = ins.Vi() but the x86 handler never jumps to its operand", op)
		}
	}
	if len(all) < 10 {
		c.Undecided("encoder/branch-ops", token.NoPos, "only %d branch ops derived", len(all))
	}
}

func sortedKeysPos(m map[string]token.Pos) []string {
	var ks []string
	for k := range m {
		ks = append(ks, k)
	}
	sort.Strings(ks)
	return ks
}

// ---------------------------------------------------------------------------
// template extraction

type irInstr struct {
	op       string // opcode constant name, "?" unknown, "call:<fn>" callee fragment
	branch   int    // 1 known branch, 0 known non-branch, -1 unknown
	explicit bool   // explicit operand given (int/Int)
	target   int    // resolved target index (-1 unknown)
	targets  []int  // table targets (switch)
	pinned   bool
	handed   bool // label returned or passed to a helper
	pos      token.Pos
	arg      string // character operand of chr emissions
	single   bool   // call to a single-instruction emitter (may be a branch the caller must pin)
	needPin  bool   // single emitter whose result says it emitted (bool cond true) or void
	opx      ast.Expr // the opcode expression of an emission
}

type labelVal struct {
	idx  []int // instruction indices the label (or label list) denotes
	none bool  // the literal -1
}

type irFuncInfo struct {
	fragBody  *ast.BlockStmt // non-nil: an isolated loop body of fd
	fd        *ast.FuncDecl
	pk        *packages.Package
	prog      types.Object // the *Program parameter
	retLabel  bool         // returns an int label
	intParams []types.Object
}

type irViolation struct {
	rule string
	cons string
	pos  token.Pos
	msg  string
}

type irAnalysis struct {
	funcs           map[string]*irFuncInfo
	viols           map[string][]irViolation // per function
	paths           map[string]int
	undec           map[string]string
	single          map[string]bool
	emitsSave       map[string]bool
	untaggedCallers map[string]map[string]bool // callee -> callers that call it with no tag emitted before
	templates       map[string][][]irInstr     // per function: the emitted template of every feasible path
}

func irFuncs(p *core.Program, d irDialect) map[string]*irFuncInfo {
	out := map[string]*irFuncInfo{}
	pk := p.Pkg(d.rel)
	if pk == nil {
		return out
	}
	for _, fd := range core.FuncDecls(pk) {
		if fd.Body == nil {
			continue
		}
		info := &irFuncInfo{fd: fd, pk: pk}
		for _, f := range fd.Type.Params.List {
			t := p.TypeOf(f.Type)
			if pt, ok := t.(*types.Pointer); ok {
				if nt, ok := pt.Elem().(*types.Named); ok && nt.Obj().Name() == d.progType {
					if len(f.Names) == 1 {
						info.prog = p.ObjectOf(f.Names[0])
					}
				}
			}
			if b, ok := t.(*types.Basic); ok && b.Kind() == types.Int {
				for _, n := range f.Names {
					info.intParams = append(info.intParams, p.ObjectOf(n))
				}
			}
		}
		if info.prog == nil {
			continue
		}
		if fd.Type.Results != nil && len(fd.Type.Results.List) == 1 {
			if b, ok := p.TypeOf(fd.Type.Results.List[0].Type).(*types.Basic); ok && b.Kind() == types.Int {
				info.retLabel = true
			}
		}
		out[fd.Name.Name] = info
	}
	return out
}

type irState struct {
	p           *core.Program
	d           irDialect
	info        *irFuncInfo
	an          *irAnalysis
	branch      map[string]token.Pos
	instrs      []irInstr
	labels      map[types.Object]labelVal
	truth       map[string]bool
	tagged      bool
	viol        []irViolation
	infeasible  bool
	paramLabels map[types.Object]int // int param -> pseudo instr index
	fname       string
}

// opInfo classifies the opcode expression of an emission.
func (s *irState) opInfo(e ast.Expr) (string, int) {
	e = ast.Unparen(e)
	if o, ok := s.p.ExprObj(e).(*types.Const); ok && strings.HasPrefix(o.Name(), s.d.opPrefix) {
		if _, isB := s.branch[o.Name()]; isB {
			return o.Name(), 1
		}
		return o.Name(), 0
	}
	if call, ok := e.(*ast.CallExpr); ok {
		// function selecting an opcode: _OP_int(), OP_is_zero_ints(), local closure
		var body *ast.BlockStmt
		if o := s.p.Callee(call); o != nil {
			if fd := s.p.DeclOf(o); fd != nil {
				body = fd.Body
			} else if v, ok := o.(*types.Var); ok {
				// local closure variable: find its FuncLit
				ast.Inspect(s.info.fd.Body, func(n ast.Node) bool {
					if as, ok := n.(*ast.AssignStmt); ok && len(as.Lhs) == 1 && len(as.Rhs) == 1 {
						if id, ok := as.Lhs[0].(*ast.Ident); ok && s.p.ObjectOf(id) == v {
							if fl, ok := as.Rhs[0].(*ast.FuncLit); ok {
								body = fl.Body
							}
						}
					}
					return true
				})
			}
		}
		if body != nil {
			nb, nn := 0, 0
			ast.Inspect(body, func(n ast.Node) bool {
				if r, ok := n.(*ast.ReturnStmt); ok && len(r.Results) == 1 {
					if o, ok := s.p.ExprObj(r.Results[0]).(*types.Const); ok {
						if _, isB := s.branch[o.Name()]; isB {
							nb++
						} else {
							nn++
						}
					}
				}
				return true
			})
			switch {
			case nb > 0 && nn == 0:
				return "?branch", 1
			case nn > 0 && nb == 0:
				return "?plain", 0
			}
		}
	}
	return "?", -1
}

func (s *irState) labelOf(e ast.Expr) (labelVal, bool) {
	e = ast.Unparen(e)
	if id, ok := e.(*ast.Ident); ok {
		if o := s.p.ObjectOf(id); o != nil {
			lv, ok := s.labels[o]
			return lv, ok
		}
	}
	return labelVal{}, false
}

func (s *irState) isPcCall(e ast.Expr) bool {
	call, ok := ast.Unparen(e).(*ast.CallExpr)
	if !ok {
		return false
	}
	se, ok := call.Fun.(*ast.SelectorExpr)
	if !ok || se.Sel.Name != s.d.pcName {
		return false
	}
	id, ok := ast.Unparen(se.X).(*ast.Ident)
	return ok && s.p.ObjectOf(id) == s.info.prog
}

// evalCond: 1 true, 0 false, -1 unknown.
func (s *irState) evalCond(e ast.Expr) int {
	e = ast.Unparen(e)
	if v, ok := s.truth[exprStr(e)]; ok {
		if v {
			return 1
		}
		return 0
	}
	switch x := e.(type) {
	case *ast.UnaryExpr:
		if x.Op == token.NOT {
			switch s.evalCond(x.X) {
			case 1:
				return 0
			case 0:
				return 1
			}
		}
	case *ast.BinaryExpr:
		switch x.Op {
		case token.LAND:
			a, b := s.evalCond(x.X), s.evalCond(x.Y)
			if a == 0 || b == 0 {
				return 0
			}
			if a == 1 && b == 1 {
				return 1
			}
		case token.LOR:
			a, b := s.evalCond(x.X), s.evalCond(x.Y)
			if a == 1 || b == 1 {
				return 1
			}
			if a == 0 && b == 0 {
				return 0
			}
		case token.NEQ, token.EQL:
			// label compared with -1
			lv, ok := s.labelOf(x.X)
			if v, isC := s.p.ConstInt(x.Y); ok && isC && v == -1 {
				isNone := lv.none
				if x.Op == token.NEQ {
					if isNone {
						return 0
					}
					return 1
				}
				if isNone {
					return 1
				}
				return 0
			}
		}
	}
	return -1
}

// learn records the outcome of a condition (and what it implies for its parts).
func (s *irState) learn(e ast.Expr, taken bool) {
	e = ast.Unparen(e)
	s.truth[exprStr(e)] = taken
	switch x := e.(type) {
	case *ast.UnaryExpr:
		if x.Op == token.NOT {
			s.learn(x.X, !taken)
		}
	case *ast.BinaryExpr:
		switch x.Op {
		case token.LAND:
			if taken {
				s.learn(x.X, true)
				s.learn(x.Y, true)
			} else {
				a, b := s.evalCond(x.X), s.evalCond(x.Y)
				if a == 1 && b == -1 {
					s.learn(x.Y, false)
				}
				if b == 1 && a == -1 {
					s.learn(x.X, false)
				}
			}
		case token.LOR:
			if !taken {
				s.learn(x.X, false)
				s.learn(x.Y, false)
			} else {
				a, b := s.evalCond(x.X), s.evalCond(x.Y)
				if a == 0 && b == -1 {
					s.learn(x.Y, true)
				}
				if b == 0 && a == -1 {
					s.learn(x.X, true)
				}
			}
		}
	}
}

func (s *irState) emit(in irInstr) int {
	in.target = -1
	s.instrs = append(s.instrs, in)
	return len(s.instrs) - 1
}

func (s *irState) pinIdx(idx int, pos token.Pos, lbl string) {
	if idx < 0 || idx >= len(s.instrs) {
		return
	}
	in := &s.instrs[idx]
	if in.branch == 0 && !in.single && !strings.HasPrefix(in.op, "call:") && !strings.HasPrefix(in.op, "param:") {
		s.viol = append(s.viol, irViolation{"I1", "pin:" + lbl, pos, "label " + lbl + " is pinned onto instruction " + in.op + ", which is not a branch: the branch that was meant keeps target 0"})
	}
	in.pinned = true
	in.target = len(s.instrs)
}

// call handles one call event on the path.
func (s *irState) call(call *ast.CallExpr) {
	se, ok := ast.Unparen(call.Fun).(*ast.SelectorExpr)
	if !ok {
		return
	}
	recv, _ := ast.Unparen(se.X).(*ast.Ident)
	if recv != nil && s.p.ObjectOf(recv) == s.info.prog {
		m := se.Sel.Name
		switch {
		case m == s.d.pcName:
			return
		case m == s.d.tagName:
			s.tagged = true
			return
		case m == s.d.pinName && len(call.Args) == 1:
			if lv, ok := s.labelOf(call.Args[0]); ok && !lv.none {
				for _, i := range lv.idx {
					s.pinIdx(i, call.Pos(), exprStr(call.Args[0]))
				}
			}
			return
		case m == s.d.relName && len(call.Args) == 1:
			if lv, ok := s.labelOf(call.Args[0]); ok {
				for _, i := range lv.idx {
					s.pinIdx(i, call.Pos(), exprStr(call.Args[0]))
				}
			}
			return
		case s.d.emitters[m] && len(call.Args) >= 1:
			op, br := s.opInfo(call.Args[0])
			in := irInstr{op: op, branch: br, pos: call.Pos(), opx: call.Args[0]}
			if m == s.d.intName {
				in.explicit = true
			}
			if len(call.Args) == 2 {
				if v, ok := s.p.ConstInt(call.Args[1]); ok && v > 0 && v < 128 {
					in.arg = string(rune(v))
				}
			}
			idx := s.emit(in)
			if m == s.d.intName && len(call.Args) == 2 {
				if lv, ok := s.labelOf(call.Args[1]); ok && len(lv.idx) == 1 {
					s.instrs[idx].target = lv.idx[0]
				}
			}
			if s.d.tabName != "" && m == s.d.tabName && len(call.Args) == 2 {
				s.instrs[idx].explicit = true
				if id, ok := ast.Unparen(call.Args[1]).(*ast.Ident); ok {
					if o := s.p.ObjectOf(id); o != nil {
						// remember the table variable: targets filled by sw[i] = p.pc()
						s.labels[o] = labelVal{idx: append(s.labels[o].idx, -1000-idx)}
					}
				}
			}
			if op == s.d.save && !s.tagged {
				s.viol = append(s.viol, irViolation{"I3", "save-untagged", call.Pos(), "a state save is emitted with no preceding tag(sp) on this path: nesting of this construct is not bounded at compile time"})
			}
			return
		}
		return
	}
	// call of another compile function (opaque fragment)
	callee := s.p.Callee(call)
	if callee == nil {
		return
	}
	passesProg := false
	for _, a := range call.Args {
		if id, ok := ast.Unparen(a).(*ast.Ident); ok && s.p.ObjectOf(id) == s.info.prog {
			passesProg = true
		}
	}
	if !passesProg {
		return
	}
	in := irInstr{op: "call:" + callee.Name(), branch: -1, pos: call.Pos()}
	if !s.tagged && s.an.untaggedCallers != nil {
		if s.an.untaggedCallers[callee.Name()] == nil {
			s.an.untaggedCallers[callee.Name()] = map[string]bool{}
		}
		s.an.untaggedCallers[callee.Name()][s.fname] = true
	}
	if s.an.single[callee.Name()] {
		in.single = true
	}
	idx := s.emit(in)
	// labels handed to the callee
	for _, a := range call.Args {
		if lv, ok := s.labelOf(a); ok && !lv.none {
			for _, i := range lv.idx {
				if i >= 0 && i < len(s.instrs) {
					s.instrs[i].handed = true
					s.instrs[i].target = idx // resolved inside the callee fragment
				}
			}
		}
	}
}

func (s *irState) assign(as *ast.AssignStmt) {
	if len(as.Lhs) != len(as.Rhs) {
		// x, y := f() : callee-returned label?
		return
	}
	for i, l := range as.Lhs {
		r := ast.Unparen(as.Rhs[i])
		// sw[i] = p.pc()
		if ix, ok := ast.Unparen(l).(*ast.IndexExpr); ok && s.isPcCall(r) {
			if id, ok := ast.Unparen(ix.X).(*ast.Ident); ok {
				if o := s.p.ObjectOf(id); o != nil {
					for _, enc := range s.labels[o].idx {
						if enc <= -1000 {
							swIdx := -1000 - enc
							if swIdx < len(s.instrs) {
								s.instrs[swIdx].targets = append(s.instrs[swIdx].targets, len(s.instrs))
							}
						}
					}
				}
			}
			continue
		}
		id, ok := ast.Unparen(l).(*ast.Ident)
		if !ok {
			continue
		}
		o := s.p.ObjectOf(id)
		if o == nil {
			continue
		}
		switch {
		case s.isPcCall(r):
			s.labels[o] = labelVal{idx: []int{len(s.instrs)}}
		default:
			if v, isC := s.p.ConstInt(r); isC && v == -1 {
				s.labels[o] = labelVal{none: true}
				continue
			}
			if cl, ok := r.(*ast.CompositeLit); ok {
				// []int{p.pc()}
				lv := labelVal{}
				for _, e := range cl.Elts {
					if s.isPcCall(e) {
						lv.idx = append(lv.idx, len(s.instrs))
					}
				}
				if _, isSlice := s.p.TypeOf(cl).Underlying().(*types.Slice); isSlice {
					s.labels[o] = lv
				}
				continue
			}
			if call, ok := r.(*ast.CallExpr); ok {
				if fid, ok := call.Fun.(*ast.Ident); ok && fid.Name == "append" && len(call.Args) == 2 {
					base, _ := s.labelOf(call.Args[0])
					lv := labelVal{idx: append([]int(nil), base.idx...)}
					if s.isPcCall(call.Args[1]) {
						lv.idx = append(lv.idx, len(s.instrs))
					} else if l2, ok := s.labelOf(call.Args[1]); ok {
						lv.idx = append(lv.idx, l2.idx...)
					}
					s.labels[o] = lv
					continue
				}
				// label returned by a compile helper (checkIfSkip): the call event was
				// already processed (calls come before the assignment on the path)
				if callee := s.p.Callee(call); callee != nil {
					if ci := s.an.funcs[callee.Name()]; ci != nil && ci.retLabel && len(s.instrs) > 0 && s.instrs[len(s.instrs)-1].op == "call:"+callee.Name() {
						k := len(s.instrs) - 1
						s.instrs[k].branch = 1 // a pending branch inside the callee fragment
						s.instrs[k].op = "label-from:" + callee.Name()
						s.labels[o] = labelVal{idx: []int{k}}
						continue
					}
				}
			}
			if l2, ok := s.labelOf(r); ok {
				s.labels[o] = l2
			} else {
				delete(s.labels, o)
			}
		}
	}
}

func (s *irState) run(ev []Event) {
	for _, e := range ev {
		if s.infeasible {
			return
		}
		switch {
		case e.Frag != nil:
			s.emit(irInstr{op: "call:loop", branch: -1, pos: e.Frag.Pos()})
		case e.Call != nil:
			s.call(e.Call)
		case e.Cond != nil:
			if v := s.evalCond(e.Cond); v != -1 && (v == 1) != e.Taken {
				s.infeasible = true
				return
			}
			s.learn(e.Cond, e.Taken)
			// bool-returning single emitter used as a condition
			if call, ok := ast.Unparen(e.Cond).(*ast.CallExpr); ok && len(s.instrs) > 0 {
				last := &s.instrs[len(s.instrs)-1]
				if callee := s.p.Callee(call); callee != nil && last.op == "call:"+callee.Name() && last.single {
					last.needPin = e.Taken
				}
			}
		case e.Stmt != nil:
			switch x := e.Stmt.(type) {
			case *ast.AssignStmt:
				s.assign(x)
			case *ast.DeclStmt:
				if gd, ok := x.Decl.(*ast.GenDecl); ok {
					for _, sp := range gd.Specs {
						if vs, ok := sp.(*ast.ValueSpec); ok {
							for i, nm := range vs.Names {
								if o := s.p.ObjectOf(nm); o != nil {
									if i < len(vs.Values) {
										if v, isC := s.p.ConstInt(vs.Values[i]); isC && v == -1 {
											s.labels[o] = labelVal{none: true}
										}
									} else {
										s.labels[o] = labelVal{} // var s []int
									}
								}
							}
						}
					}
				}
			case *ast.ReturnStmt:
				for _, r := range x.Results {
					if lv, ok := s.labelOf(r); ok {
						for _, i := range lv.idx {
							if i >= 0 && i < len(s.instrs) {
								s.instrs[i].handed = true
							}
						}
					}
				}
			}
		}
	}
}

// finish evaluates the obligations of one path.
func (s *irState) finish(endPos token.Pos) {
	for i, in := range s.instrs {
		needs := in.branch == 1 && !in.explicit
		if in.single && in.needPin {
			needs = true
		}
		if strings.HasPrefix(in.op, "param:") {
			needs = true
		}
		if needs && !in.pinned && !in.handed {
			what := in.op
			s.viol = append(s.viol, irViolation{"I1", "unpinned:" + what + "#" + itoa(s.ordinal(i)), in.pos,
				"branch instruction " + what + " emitted at " + s.p.Pos(in.pos) + " is never pinned on a path that returns at " + s.p.Pos(endPos) + ": at run time it jumps to instruction 0 of the program"})
		}
	}
	s.balance(endPos)
	s.grammar()
	s.typeGuard()
	s.arrayClear()
	if s.d.name == "encoder" && s.fname == "compileMapBodyKey" {
		for _, in := range s.instrs {
			if in.op == "OP_number" || in.op == "call:compileString" {
				s.viol = append(s.viol, irViolation{"G5", "quoted-key", in.pos,
					"the key program of a map emits `" + strings.TrimPrefix(in.op, "call:") + "` (at " + s.p.Pos(in.pos) + "): a json.Number key is then written as a bare number (`{1:2}`), which is not JSON and differs from the sorted path and from encoding/json"})
			}
		}
	}
}

// arrayClear (G4): every early close of a fixed-size array reaches the clear of the rest.
func (s *irState) arrayClear() {
	if s.d.name != "jitdec" || s.fname != "compileArray" {
		return
	}
	for _, in := range s.instrs {
		if in.op != "_OP_check_char" || in.arg != "]" {
			continue
		}
		ok := in.target >= 0 && in.target < len(s.instrs) && strings.HasPrefix(s.instrs[in.target].op, "_OP_array_clear")
		if !ok {
			where := "an unresolved position"
			if in.target >= 0 && in.target < len(s.instrs) {
				where = "`" + strings.TrimPrefix(s.instrs[in.target].op, "_OP_") + "`"
			} else if in.target == len(s.instrs) {
				where = "the end of the template"
			}
			s.viol = append(s.viol, irViolation{"G4", "array-clear", in.pos,
				"the `check_char ']'` branch emitted at " + s.p.Pos(in.pos) + " lands on " + where + " instead of array_clear: when the JSON array is shorter than the Go array the remaining elements keep their old values (encoding/json zeroes them)"})
		}
	}
}

// typeGuard (G2): a value starts with is_null; what follows must check the value's type
// (or hand the value to code that does) before anything consumes it.
func (s *irState) typeGuard() {
	if s.d.name != "jitdec" {
		return
	}
	for i, in := range s.instrs {
		if in.op != "_OP_is_null" {
			continue
		}
		j := i + 1
		for j < len(s.instrs) && s.instrs[j].op == "_OP_lspace" {
			j++
		}
		if j >= len(s.instrs) {
			continue
		}
		x := s.instrs[j]
		ok := false
		switch {
		case x.op == "_OP_check_char_0":
			ok = j+1 < len(s.instrs) && s.instrs[j+1].op == "_OP_dismatch_err"
		case x.op == "_OP_check_char" && (x.arg == "[" || x.arg == "\""):
			ok = true
		case x.op == "_OP_any" || x.op == "_OP_dyn" || x.op == "_OP_recurse" || x.op == "_OP_deref":
			ok = true
		case x.op == "_OP_dismatch_err" || x.op == "_OP_unsupported" || x.op == "_OP_match_char":
			ok = true // records / raises the error itself
		case x.op == "?":
			ok = true // opcode chosen by the caller (primitive and unmarshaler opcodes validate the token themselves)
		case strings.HasPrefix(x.op, "call:"):
			ok = true
		case strings.HasPrefix(x.op, "label-from:"):
			// a helper that returns a label (checkIfSkip on the tree, whatever it is called): accepted when the
			// helper's own emission starts with the guard pair check_char_0 + dismatch_err
			ci := s.an.funcs[strings.TrimPrefix(x.op, "label-from:")]
			ok = ci != nil && startsWithTypeGuard(ci.fd)
		}
		if !ok {
			what := strings.TrimPrefix(x.op, "_OP_")
			if x.arg != "" {
				what += " '" + x.arg + "'"
			}
			s.viol = append(s.viol, irViolation{"G2", "type-guard", x.pos,
				"after is_null the emitted program executes `" + what + "` (at " + s.p.Pos(x.pos) + ") without a type guard (check_char_0 + dismatch_err / checkIfSkip): a value of another JSON type is consumed silently instead of being reported as a type mismatch"})
		}
	}
}

// startsWithTypeGuard: the first two opcodes the helper's body emits (call statements with an _OP_ constant
// among their arguments, in source order) are _OP_check_char_0 and _OP_dismatch_err.
func startsWithTypeGuard(fd *ast.FuncDecl) bool {
	if fd == nil || fd.Body == nil {
		return false
	}
	var ops []string
	ast.Inspect(fd.Body, func(n ast.Node) bool {
		call, ok := n.(*ast.CallExpr)
		if !ok || len(ops) >= 2 {
			return true
		}
		for _, a := range call.Args {
			if id, ok := ast.Unparen(a).(*ast.Ident); ok && strings.HasPrefix(id.Name, "_OP_") {
				ops = append(ops, id.Name)
				break
			}
		}
		return true
	})
	return len(ops) >= 2 && ops[0] == "_OP_check_char_0" && ops[1] == "_OP_dismatch_err"
}

// grammar (G1): after a ',' separator the emitted decoder program must not accept the
// closing bracket before a value has been consumed.
func (s *irState) grammar() {
	if s.d.name != "jitdec" {
		return
	}
	for i, in := range s.instrs {
		if in.op != "_OP_match_char" || in.arg != "," {
			continue
		}
		seen := map[int]bool{}
		work := []int{i + 1}
		for len(work) > 0 {
			j := work[len(work)-1]
			work = work[:len(work)-1]
			if j < 0 || j >= len(s.instrs) || seen[j] {
				continue
			}
			seen[j] = true
			x := s.instrs[j]
			switch {
			case x.op == "_OP_lspace" || x.op == "_OP_load":
				work = append(work, j+1)
			case x.op == "_OP_goto":
				if x.target >= 0 {
					work = append(work, x.target)
				}
			case (x.op == "_OP_check_char" && (x.arg == "}" || x.arg == "]")) || x.op == "_OP_check_empty" || x.op == "_OP_array_skip":
				s.viol = append(s.viol, irViolation{"G1", "comma-then-close", in.pos,
					"after matching ',' the emitted program reaches `" + strings.TrimPrefix(x.op, "_OP_") + " '" + x.arg + "'` (at " + s.p.Pos(x.pos) + ") before consuming a value: a trailing comma (`{\"a\":1,}` / `[1,]`) is accepted"})
			}
		}
	}
}

// ordinal: index among instructions with the same op (stable naming).
func (s *irState) ordinal(i int) int {
	n := 0
	for j := 0; j < i; j++ {
		if s.instrs[j].op == s.instrs[i].op {
			n++
		}
	}
	return n
}

func (s *irState) balance(endPos token.Pos) {
	n := len(s.instrs)
	depth := make([]int, n+1)
	seen := make([]bool, n+1)
	type item struct{ i, d int }
	work := []item{{0, 0}}
	report := func(pos token.Pos, msg string) {
		s.viol = append(s.viol, irViolation{"I2", "stack", pos, msg})
	}
	bad := false
	for len(work) > 0 && !bad {
		it := work[len(work)-1]
		work = work[:len(work)-1]
		if it.i > n {
			continue
		}
		if seen[it.i] {
			if depth[it.i] != it.d {
				pos := endPos
				if it.i < n {
					pos = s.instrs[it.i].pos
				}
				report(pos, "state-stack depth differs at a join of the emitted program ("+itoa(depth[it.i])+" vs "+itoa(it.d)+"): some path saves without dropping (or drops twice); flat data then leaks one slot per value until 'nesting too deep'")
				bad = true
			}
			continue
		}
		seen[it.i] = true
		depth[it.i] = it.d
		if it.i == n {
			if it.d != 0 {
				report(endPos, "emitted fragment leaves the state stack at depth "+itoa(it.d)+" instead of 0")
				bad = true
			}
			continue
		}
		in := s.instrs[it.i]
		d := it.d
		switch in.op {
		case s.d.save:
			d++
		case s.d.drop:
			d--
		case s.d.drop2:
			d -= 2
		}
		if d < 0 {
			report(in.pos, "state stack dropped below the fragment's entry depth")
			bad = true
			continue
		}
		uncond := strings.HasSuffix(in.op, "OP_goto")
		if in.branch == 1 || uncond || in.single || strings.HasPrefix(in.op, "label-from:") {
			if in.handed {
				if d != 0 && !strings.HasPrefix(in.op, "param:") {
					// a branch resolved by the caller must leave at entry depth... only checkable when
					// the caller pins at the fragment end; callee fragments are depth-neutral by I2 of the callee.
				}
			} else if in.target >= 0 && in.pinned || in.target >= 0 && in.explicit {
				work = append(work, item{in.target, d})
			}
		}
		for _, t := range in.targets {
			work = append(work, item{t, d})
		}
		if !uncond {
			work = append(work, item{it.i + 1, d})
		}
	}
}

func analyseIR(p *core.Program, d irDialect, unroll int) *irAnalysis {
	key := "irt:" + d.name + ":" + itoa(unroll)
	if v, ok := p.Cache[key]; ok {
		return v.(*irAnalysis)
	}
	an := &irAnalysis{funcs: irFuncs(p, d), viols: map[string][]irViolation{}, paths: map[string]int{}, undec: map[string]string{}, single: map[string]bool{}, emitsSave: map[string]bool{}, untaggedCallers: map[string]map[string]bool{}}
	br := branchOps(p, d)
	// single-instruction emitters: every path emits at most one instruction and nothing else
	pathsOf := map[string][][]Event{}
	classKey := func(info *irFuncInfo) func(cc *ast.CaseClause) string { return irClassKey(p, d, an, br, info) }
	isolate := func(info *irFuncInfo) func(loop ast.Stmt) bool { return irIsolate(p) }
	type fragment struct {
		owner string
		loop  ast.Stmt
	}
	var frags []fragment
	for name, info := range an.funcs {
		paths, ok, why := EnumPathsOpt(p, info.fd, info.fd.Body.List, unroll, 6000, classKey(info), isolate(info))
		if !ok {
			an.undec[name] = why
			continue
		}
		pathsOf[name] = paths
		seenFrag := map[ast.Stmt]bool{}
		for _, pt := range paths {
			for _, e := range pt {
				if e.Frag != nil && !seenFrag[e.Frag] {
					seenFrag[e.Frag] = true
					frags = append(frags, fragment{name, e.Frag})
				}
			}
		}
	}
	// isolated loop bodies become fragments of their own (analysed like functions)
	for k := 0; k < len(frags); k++ {
		fr := frags[k]
		owner := an.funcs[fr.owner]
		var body *ast.BlockStmt
		switch l := fr.loop.(type) {
		case *ast.ForStmt:
			body = l.Body
		case *ast.RangeStmt:
			body = l.Body
		}
		fname := fr.owner + "/loop@" + itoa(p.Fset.Position(fr.loop.Pos()).Line-p.Fset.Position(owner.fd.Pos()).Line)
		paths, ok, why := EnumPathsOpt(p, owner.fd, body.List, unroll, 6000, classKey(owner), isolate(owner))
		finfo := &irFuncInfo{fd: owner.fd, pk: owner.pk, prog: owner.prog, fragBody: body}
		an.funcs[fname] = finfo
		if !ok {
			an.undec[fname] = why
			continue
		}
		pathsOf[fname] = paths
		seenFrag := map[ast.Stmt]bool{}
		for _, pt := range paths {
			for _, e := range pt {
				if e.Frag != nil && !seenFrag[e.Frag] {
					seenFrag[e.Frag] = true
					frags = append(frags, fragment{fr.owner, e.Frag})
				}
			}
		}
	}
	for name, info := range an.funcs {
		paths := pathsOf[name]
		if paths == nil {
			continue
		}
		single := true
		anyEmit := false
		for _, pt := range paths {
			st := &irState{p: p, d: d, info: info, an: an, branch: br, labels: map[types.Object]labelVal{}, truth: map[string]bool{}, tagged: true}
			st.run(pt)
			if st.infeasible {
				continue
			}
			if len(st.instrs) > 1 {
				single = false
			}
			for _, in := range st.instrs {
				anyEmit = true
				if strings.HasPrefix(in.op, "call:") {
					single = false
				}
			}
		}
		if single && anyEmit && !info.retLabel && info.fragBody == nil {
			an.single[name] = true
		}
	}
	for name, info := range an.funcs {
		paths := pathsOf[name]
		if paths == nil {
			continue
		}
		seen := map[string]bool{}
		feasible := 0
		// G3 bookkeeping (encoder struct bodies)
		type g3path struct {
			unguarded token.Pos       // an unguarded ',' emitted on this path
			under     map[string]bool // bool identifiers tested true on this path
			sets      map[string]bool // bool identifiers assigned true on this path
			skippable token.Pos       // a branch of this path's code that can skip the key text
			emitsKey  bool
		}
		var g3 []g3path
		for _, pt := range paths {
			st := &irState{p: p, d: d, info: info, an: an, branch: br, labels: map[types.Object]labelVal{}, truth: map[string]bool{}, fname: name}
			if info.fragBody != nil {
				// labels declared outside the loop are external positions
				outer := st.emit(irInstr{op: "call:outer", branch: -1, pos: info.fragBody.Pos()})
				ast.Inspect(info.fragBody, func(n ast.Node) bool {
					if id, ok := n.(*ast.Ident); ok {
						if o, ok := p.ObjectOf(id).(*types.Var); ok && !o.IsField() && (o.Pos() < info.fragBody.Pos() || o.Pos() >= info.fragBody.End()) {
							switch t := o.Type().Underlying().(type) {
							case *types.Basic:
								if t.Kind() == types.Int {
									st.labels[o] = labelVal{idx: []int{outer}}
								}
							}
						}
					}
					return true
				})
				st.tagged = true // the tag, if any, is the owner's obligation
			}
			// incoming label parameters (compileUnmarshalEnd(p, vt, i)): pseudo instruction that must be pinned
			if info.fragBody == nil {
				for _, ip := range info.intParams {
					if isLabelParam(p, info, ip, d) {
						idx := st.emit(irInstr{op: "param:" + ip.Name(), branch: 1, pos: info.fd.Pos()})
						st.labels[ip] = labelVal{idx: []int{idx}}
					}
				}
			}
			st.run(pt)
			if st.infeasible || (len(pt) > 0 && pt[len(pt)-1].Exit == "panic") {
				continue
			}
			feasible++
			end := info.fd.End()
			if info.fragBody != nil {
				end = info.fragBody.End()
			}
			for i := len(pt) - 1; i >= 0; i-- {
				if pt[i].Stmt != nil {
					if r, ok := pt[i].Stmt.(*ast.ReturnStmt); ok {
						end = r.Pos()
					}
					break
				}
			}
			if an.single[name] {
				// the lone instruction is pinned by the caller
				for i := range st.instrs {
					st.instrs[i].handed = true
				}
			}
			st.finish(end)
			if an.templates == nil {
				an.templates = map[string][][]irInstr{}
			}
			an.templates[name] = append(an.templates[name], append([]irInstr(nil), st.instrs...))
			for _, in := range st.instrs {
				if in.op == d.save {
					an.emitsSave[name] = true
				}
			}
			for _, v := range st.viol {
				k := v.rule + "|" + v.cons + "|" + p.Pos(v.pos)
				if !seen[k] {
					seen[k] = true
					an.viols[name] = append(an.viols[name], v)
				}
			}
			if d.name == "encoder" && strings.HasPrefix(name, "compileStructBody") {
				gp := g3path{under: map[string]bool{}, sets: map[string]bool{}}
				keyAt := -1
				for i, in := range st.instrs {
					if in.op == "OP_text" && keyAt < 0 {
						keyAt = i
						gp.emitsKey = true
					}
					if in.op == "OP_byte" && in.arg == "," && !(i > 0 && st.instrs[i-1].op == "OP_cond_testc") {
						gp.unguarded = in.pos
					}
				}
				for i, in := range st.instrs {
					if keyAt >= 0 && i < keyAt && in.branch == 1 && in.op != "OP_cond_testc" && (in.target > keyAt || in.target < 0) {
						gp.skippable = in.pos
					}
				}
				for _, e := range pt {
					if e.Cond != nil {
						if id, ok := ast.Unparen(e.Cond).(*ast.Ident); ok && e.Taken {
							if b, ok := p.TypeOf(id).(*types.Basic); ok && b.Kind() == types.Bool {
								gp.under[id.Name] = true
							}
						}
					}
					if as, ok := e.Stmt.(*ast.AssignStmt); ok && len(as.Lhs) == 1 && len(as.Rhs) == 1 && exprStr(as.Rhs[0]) == "true" {
						if id, ok := as.Lhs[0].(*ast.Ident); ok {
							gp.sets[id.Name] = true
						}
					}
				}
				g3 = append(g3, gp)
			}
		}
		an.paths[name] = feasible
		if len(g3) > 0 {
			for _, gp := range g3 {
				if !gp.unguarded.IsValid() {
					continue
				}
				if len(gp.under) == 0 {
					an.viols[name] = append(an.viols[name], irViolation{"G3", "comma", gp.unguarded, "a ',' is emitted without the first-member test (cond_testc) and without a compile-time flag that proves an earlier field is always present: if the preceding fields are skipped at run time the object starts with a comma"})
					break
				}
				done := false
				for b := range gp.under {
					for _, other := range g3 {
						if other.sets[b] && other.skippable.IsValid() && !done {
							an.viols[name] = append(an.viols[name], irViolation{"G3", "comma", gp.unguarded, "a ',' is emitted without the first-member test under the compile-time flag `" + b + "`, but `" + b + " = true` is also set on a path whose field code can be skipped at run time (branch at " + p.Pos(other.skippable) + " jumps past the key, e.g. a nil embedded pointer): with the leading fields skipped the object is encoded as `{,\"name\":...}`"})
							done = true
						}
					}
				}
				if done {
					break
				}
			}
		}
	}
	if p.Cache == nil {
		p.Cache = map[string]interface{}{}
	}
	p.Cache[key] = an
	return an
}

// isLabelParam: an int parameter that is handed to pin() somewhere in the body.
func isLabelParam(p *core.Program, info *irFuncInfo, ip types.Object, d irDialect) bool {
	found := false
	ast.Inspect(info.fd.Body, func(n ast.Node) bool {
		call, ok := n.(*ast.CallExpr)
		if !ok || len(call.Args) != 1 {
			return true
		}
		if se, ok := call.Fun.(*ast.SelectorExpr); ok && se.Sel.Name == d.pinName {
			if id, ok := ast.Unparen(call.Args[0]).(*ast.Ident); ok && p.ObjectOf(id) == ip {
				found = true
			}
		}
		return true
	})
	return found
}

func runIRT(c *core.Ctx, rule string) {
	p := c.Prog
	unroll := 2
	if c.Tier == "thorough" {
		unroll = 3
	}
	for _, d := range []irDialect{jitdecDialect, encoderDialect} {
		if p.Pkg(d.rel) == nil || (d.name == "jitdec" && p.GOARCH != "amd64") {
			continue
		}
		an := analyseIR(p, d, unroll)
		var names []string
		for n := range an.funcs {
			names = append(names, n)
		}
		sort.Strings(names)
		for _, name := range names {
			info := an.funcs[name]
			fn := core.FuncName(info.pk, info.fd)
			if info.fragBody != nil {
				fn += name[strings.Index(name, "/loop@"):]
			}
			c.Analysed(fn)
			if why, bad := an.undec[name]; bad {
				c.Undecided(fn+"/"+strings.ToLower(rule), info.fd.Pos(), "cannot enumerate paths: %s", why)
				continue
			}
			if rule == "I3" && !an.emitsSave[name] {
				continue
			}
			if (rule == "G2" || rule == "G1") && d.name != "jitdec" {
				continue
			}
			if rule == "G5" && (d.name != "encoder" || name != "compileMapBodyKey") {
				continue
			}
			if rule == "G4" && (d.name != "jitdec" || name != "compileArray") {
				continue
			}
			if rule == "G3" && (d.name != "encoder" || !strings.HasPrefix(name, "compileStructBody")) {
				continue
			}
			var mine []irViolation
			for _, v := range an.viols[name] {
				if v.rule != rule {
					continue
				}
				if rule == "I3" {
					// the tag may be the caller's: every caller must have tagged before the call,
					// except callers waived by name with a reason.
					callers := an.untaggedCallers[name]
					bad := []string{}
					for cn := range callers {
						if _, waived := i3Waivers[cn+"->"+name]; !waived {
							bad = append(bad, cn)
						}
					}
					if info.fragBody != nil || (len(bad) == 0 && an.isCalled(name)) {
						continue
					}
					sort.Strings(bad)
					v.msg += " (untagged callers: " + strings.Join(bad, ", ") + ")"
				}
				mine = append(mine, v)
			}
			if len(mine) == 0 {
				switch rule {
				case "I1":
					c.OK(fn+"/branches", info.fd.Pos(), "%d feasible paths: every emitted branch is pinned or handed on", an.paths[name])
				case "I2":
					c.OK(fn+"/stack", info.fd.Pos(), "%d feasible paths: save/drop balanced on the emitted control flow", an.paths[name])
				case "I3":
					c.OK(fn+"/tag", info.fd.Pos(), "save preceded by tag on every path")
				case "G1":
					c.OK(fn+"/separators", info.fd.Pos(), "%d feasible paths: no ',' is followed by an accepted closer", an.paths[name])
				case "G5":
					c.OK(fn+"/quoted-key", info.fd.Pos(), "%d feasible paths: string-kind keys use OP_str", an.paths[name])
				case "G4":
					if name != "compileArray" {
						continue
					}
					c.OK(fn+"/array-clear", info.fd.Pos(), "%d feasible paths: every close branch lands on array_clear", an.paths[name])
				case "G3":
					if d.name != "encoder" || !strings.HasPrefix(name, "compileStructBody") {
						continue
					}
					c.OK(fn+"/comma", info.fd.Pos(), "%d feasible paths: every ',' is guarded by cond_testc or by a flag that is only set after an unskippable field", an.paths[name])
				case "G2":
					c.OK(fn+"/type-guard", info.fd.Pos(), "%d feasible paths: every is_null is followed by a type guard or a delegation", an.paths[name])
				}
				continue
			}
			done := map[string]bool{}
			for _, v := range mine {
				cn := fn + "/" + v.cons
				if done[cn] {
					continue
				}
				done[cn] = true
				c.Bad(cn, v.pos, "%s", v.msg)
			}
		}
	}
}

func irClassKey(p *core.Program, d irDialect, an *irAnalysis, br map[string]token.Pos, info *irFuncInfo) func(cc *ast.CaseClause) string {
	return func(cc *ast.CaseClause) string {
		// a clause whose body is one simple statement is represented by its shape
		if len(cc.Body) != 1 {
			return ""
		}
		switch st := cc.Body[0].(type) {
		case *ast.ExprStmt:
			call, ok := st.X.(*ast.CallExpr)
			if !ok {
				return ""
			}
			se, ok := call.Fun.(*ast.SelectorExpr)
			if !ok {
				return ""
			}
			if id, ok := ast.Unparen(se.X).(*ast.Ident); ok && p.ObjectOf(id) == info.prog && d.emitters[se.Sel.Name] && len(call.Args) >= 1 {
				tmp := &irState{p: p, d: d, info: info, an: an, branch: br}
				_, b := tmp.opInfo(call.Args[0])
				return "emit:" + se.Sel.Name + ":" + itoa(b+1) + ":" + itoa(len(call.Args))
			}
			// self.compileX(p, ...) calls with the same callee
			if callee := p.Callee(call); callee != nil {
				return "call:" + callee.Name() + ":" + exprStr(call.Args[len(call.Args)-1])
			}
		case *ast.AssignStmt:
			if len(st.Lhs) == 1 && len(st.Rhs) == 1 {
				if _, isLit := st.Rhs[0].(*ast.Ident); isLit {
					return "assign:" + exprStr(st.Lhs[0]) + "=" + exprStr(st.Rhs[0])
				}
			}
		}
		return ""
	}
}

func irIsolate(p *core.Program) func(loop ast.Stmt) bool {
	return func(loop ast.Stmt) bool {
		var body *ast.BlockStmt
		switch l := loop.(type) {
		case *ast.ForStmt:
			body = l.Body
		case *ast.RangeStmt:
			body = l.Body
		}
		if body == nil {
			return false
		}
		ok := true
		ast.Inspect(body, func(n ast.Node) bool {
			switch x := n.(type) {
			case *ast.ReturnStmt:
				ok = false
			case *ast.AssignStmt:
				for _, l := range x.Lhs {
					id, isId := ast.Unparen(l).(*ast.Ident)
					if !isId {
						continue
					}
					o := p.ObjectOf(id)
					if o == nil || (o.Pos() >= loop.Pos() && o.Pos() < loop.End()) {
						continue // declared inside the loop
					}
					switch t := o.Type().Underlying().(type) {
					case *types.Basic:
						if t.Kind() == types.Int {
							ok = false
						}
					case *types.Slice:
						ok = false
					}
				}
			}
			return ok
		})
		return ok
	}
}

// callers allowed to reach a saving helper without a tag, with the reason.
var i3Waivers = map[string]string{
	"compileSliceBin->compileSliceBody": "the element type of a []byte written as a JSON array is uint8: the saved region cannot nest",
}

func (an *irAnalysis) isCalled(name string) bool {
	for _, info := range an.funcs {
		found := false
		ast.Inspect(info.fd.Body, func(n ast.Node) bool {
			if call, ok := n.(*ast.CallExpr); ok {
				if se, ok := call.Fun.(*ast.SelectorExpr); ok && se.Sel.Name == name {
					found = true
				}
			}
			return !found
		})
		if found {
			return true
		}
	}
	return false
}
