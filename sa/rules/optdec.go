package rules

import (
	"go/ast"
	"go/token"
	"go/types"
	"strings"

	"golang.org/x/tools/go/cfg"

	"verif/sa/core"
)

func init() {
	register(&core.Rule{ID: "D2", Min: 1,
		Doc: "Temporary option changes are restored on every exit: in optdec.(*Parser).parse the option word is modified for the duration of the native parse (use_number cleared for typed roots); every go/cfg path from that modification to a return passes through the assignment that restores the saved word.",
		Run: runD2})
	register(&core.Rule{ID: "U1", Min: 2,
		Doc: "Custom unmarshalers take priority over kind-specialised fast paths in the alternative decoder: in optdec.compileSlice and compileMap every return of a decoder chosen by element/key kind alone (guarded by Kind()/Is* tests) is preceded by a check for json.Unmarshaler / encoding.TextUnmarshaler on the element (a call whose body tests Implements), or performs it itself.",
		Run: runU1})
}

func runD2(c *core.Ctx) {
	p := c.Prog
	od := p.Pkg("internal/decoder/optdec")
	fd := core.FuncDecl(od, "Parser", "parse")
	if fd == nil {
		c.Undecided("optdec.(Parser).parse", token.NoPos, "not found")
		return
	}
	c.Analysed("internal/decoder/optdec.(Parser).parse")
	// saved variable: old := p.options
	var saved types.Object
	var field string
	ast.Inspect(fd.Body, func(n ast.Node) bool {
		if as, ok := n.(*ast.AssignStmt); ok && as.Tok == token.DEFINE && len(as.Lhs) == 1 && len(as.Rhs) == 1 && saved == nil {
			if se, ok := as.Rhs[0].(*ast.SelectorExpr); ok && se.Sel.Name == "options" {
				saved = p.ExprObj(as.Lhs[0])
				field = exprStr(se)
			}
		}
		return true
	})
	if saved == nil {
		c.Undecided("optdec.(Parser).parse/restore", fd.Pos(), "no `old := p.options` found")
		return
	}
	g := funcCFG(p, fd.Body)
	isMod := func(n ast.Node) bool {
		as, ok := n.(*ast.AssignStmt)
		return ok && len(as.Lhs) == 1 && exprStr(as.Lhs[0]) == field && as.Tok != token.ASSIGN && as.Tok != token.DEFINE
	}
	isRestore := func(n ast.Node) bool {
		as, ok := n.(*ast.AssignStmt)
		return ok && len(as.Lhs) == 1 && len(as.Rhs) == 1 && exprStr(as.Lhs[0]) == field && as.Tok == token.ASSIGN && p.ExprObj(as.Rhs[0]) == saved
	}
	var bad token.Pos
	mods := 0
	for _, b := range g.Blocks {
		for i, n := range b.Nodes {
			if !isMod(n) {
				continue
			}
			mods++
			seen := map[*cfg.Block]bool{}
			var walk func(b *cfg.Block, from int)
			walk = func(b *cfg.Block, from int) {
				for j := from; j < len(b.Nodes); j++ {
					if isRestore(b.Nodes[j]) {
						return
					}
					if r, ok := b.Nodes[j].(*ast.ReturnStmt); ok {
						if !bad.IsValid() {
							bad = r.Pos()
						}
						return
					}
				}
				for _, s := range b.Succs {
					if !seen[s] {
						seen[s] = true
						walk(s, 0)
					}
				}
			}
			walk(b, i+1)
		}
	}
	switch {
	case mods == 0:
		c.Undecided("optdec.(Parser).parse/restore", fd.Pos(), "no temporary modification of %s found", field)
	case bad.IsValid():
		c.Bad("optdec.(Parser).parse/restore", bad, "a return at %s is reached with the parser's option word still modified (the caller's options are not restored): under the alternative decoder later conversions of this document see use_number cleared - only on the path taken by documents that overflow the pooled node buffer", p.Pos(bad))
	default:
		c.OK("optdec.(Parser).parse/restore", fd.Pos(), "every return after the temporary modification restores the saved option word")
	}
}

func runU1(c *core.Ctx) {
	p := c.Prog
	od := p.Pkg("internal/decoder/optdec")
	checksImpl := func(call *ast.CallExpr) bool {
		o := p.Callee(call)
		if o == nil {
			return false
		}
		if o.Name() == "Implements" {
			return true
		}
		fd := p.DeclOf(o)
		if fd == nil || fd.Body == nil || !core.IsSonic(o.Pkg()) {
			return false
		}
		found := false
		ast.Inspect(fd.Body, func(n ast.Node) bool {
			if c2, ok := n.(*ast.CallExpr); ok {
				if se, ok := c2.Fun.(*ast.SelectorExpr); ok && se.Sel.Name == "Implements" {
					found = true
				}
			}
			return !found
		})
		return found
	}
	for _, name := range []string{"compileSlice", "compileMap"} {
		fd := core.FuncDecl(od, "compiler", name)
		cn := "optdec.(compiler)." + name + "/unmarshaler-first"
		if fd == nil {
			c.Undecided(cn, token.NoPos, "not found")
			continue
		}
		c.Analysed("internal/decoder/optdec.(compiler)." + name)
		// the check must lie on the path to the fast returns: a call at the top level of the
		// body (or in an if condition/init), not inside an earlier terminating branch
		var firstCheck token.Pos
		for _, st := range fd.Body.List {
			var scope []ast.Node
			switch x := st.(type) {
			case *ast.IfStmt:
				if x.Init != nil {
					scope = append(scope, x.Init)
				}
				scope = append(scope, x.Cond)
			default:
				scope = append(scope, st)
			}
			for _, sc := range scope {
				ast.Inspect(sc, func(n ast.Node) bool {
					if call, ok := n.(*ast.CallExpr); ok && !firstCheck.IsValid() && checksImpl(call) {
						firstCheck = call.Pos()
					}
					return true
				})
			}
		}
		var bad token.Pos
		fast := 0
		for _, s := range fd.Body.List {
			ifs, ok := s.(*ast.IfStmt)
			if !ok {
				continue
			}
			cond := exprStr(ifs.Cond)
			kindGuard := strings.Contains(cond, ".Kind()") || strings.Contains(cond, ".IsInt") || strings.Contains(cond, ".IsUint") || strings.Contains(cond, "reflect.TypeOf(")
			if !kindGuard || !terminates(ifs.Body.List) {
				continue
			}
			fast++
			// the fast path performs the check itself?
			self := false
			ast.Inspect(ifs.Body, func(n ast.Node) bool {
				if call, ok := n.(*ast.CallExpr); ok && checksImpl(call) {
					self = true
				}
				return true
			})
			if !self && (!firstCheck.IsValid() || firstCheck > ifs.Pos()) && !bad.IsValid() {
				bad = ifs.Pos()
			}
		}
		switch {
		case fast == 0:
			c.Undecided(cn, fd.Pos(), "no kind-specialised fast path found")
		case bad.IsValid():
			c.Bad(cn, bad, "%s returns a decoder chosen by kind alone (`%s`) before any check for json.Unmarshaler/TextUnmarshaler on the element: named int/uint/string element types with a custom unmarshaler are decoded by the fast path and their unmarshaler is never called (the JIT decoder calls it)", name, p.Pos(bad))
		default:
			c.OK(cn, fd.Pos(), "%d kind-specialised fast path(s), all after the unmarshaler check", fast)
		}
	}
}
