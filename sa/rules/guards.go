package rules

import (
	"go/ast"
	"go/token"
	"go/types"
	"strings"

	"verif/sa/core"
)

func init() {
	register(&core.Rule{ID: "A2", Min: 10,
		Doc: "Values without a JSON representation reach an error in both executors (must-precede guards): x86 _asm_OP_f32/_f64: the native float formatter is not reachable from the all-ones-exponent edge, whose only continuation is the BitEncodeNullForInfOrNan test (error, or `null` and jump to the end); VM OP_f32/OP_f64: F32toa/F64toa follow a terminating `if IsNaN||IsInf`; json.Number: IsValidNumber with a failing edge precedes the copy (x86: call_go(isValidNumber); CMPB; JE _error_invalid_number before memmove; VM: append only on the valid branch); OP_unsupported ends in the type error in both; prim.EncodeJsonMarshaler appends user output only after Compact, or after alg.Valid with a failing return unless the NoValidateJSONMarshaler bit is tested.",
		Run: runA2})
}

// terminates reports whether a statement list always ends in return/continue/break/goto/panic.
func terminates(list []ast.Stmt) bool {
	if len(list) == 0 {
		return false
	}
	switch s := list[len(list)-1].(type) {
	case *ast.ReturnStmt, *ast.BranchStmt:
		return true
	case *ast.ExprStmt:
		if call, ok := s.X.(*ast.CallExpr); ok {
			if id, ok := call.Fun.(*ast.Ident); ok && id.Name == "panic" {
				return true
			}
		}
	case *ast.IfStmt:
		if s.Else == nil {
			return false
		}
		eb, ok := s.Else.(*ast.BlockStmt)
		if ok {
			return terminates(s.Body.List) && terminates(eb.List)
		}
		if ei, ok := s.Else.(*ast.IfStmt); ok {
			return terminates(s.Body.List) && terminates([]ast.Stmt{ei})
		}
	case *ast.BlockStmt:
		return terminates(s.List)
	}
	return false
}

func callsNamed(p *core.Program, n ast.Node, names ...string) bool {
	f := false
	ast.Inspect(n, func(m ast.Node) bool {
		if call, ok := m.(*ast.CallExpr); ok {
			if o := p.Callee(call); o != nil {
				for _, nm := range names {
					if o.Name() == nm {
						f = true
					}
				}
			}
		}
		return !f
	})
	return f
}

// guardedInList: stmt index i in list is preceded by `if <cond calling all of names> { ...terminates }`.
func precededByTerminatingGuard(p *core.Program, list []ast.Stmt, i int, names ...string) bool {
	for j := 0; j < i; j++ {
		ifs, ok := list[j].(*ast.IfStmt)
		if !ok {
			continue
		}
		all := true
		for _, nm := range names {
			if !callsNamed(p, ifs.Cond, nm) {
				all = false
			}
		}
		if all && terminates(ifs.Body.List) {
			return true
		}
	}
	return false
}

func runA2(c *core.Ctx) {
	p := c.Prog
	vm := p.Pkg("internal/encoder/vm")
	irp := p.Pkg("internal/encoder/ir")
	// ---- VM arms
	if fd := core.FuncDecl(vm, "", "Execute"); fd != nil && irp != nil {
		c.Analysed("internal/encoder/vm.Execute")
		arms := map[string]*ast.CaseClause{}
		ast.Inspect(fd.Body, func(n ast.Node) bool {
			if cc, ok := n.(*ast.CaseClause); ok {
				for _, e := range cc.List {
					if o, ok := p.ExprObj(e).(*types.Const); ok && o.Pkg() == irp.Types {
						arms[o.Name()] = cc
					}
				}
			}
			return true
		})
		for _, r := range []struct{ op, fmtFn string }{{"OP_f32", "F32toa"}, {"OP_f64", "F64toa"}} {
			cc := arms[r.op]
			cn := "vm.Execute/" + r.op + "/nan-guard"
			if cc == nil {
				c.Undecided(cn, token.NoPos, "arm not found")
				continue
			}
			idx := -1
			for i, s := range cc.Body {
				if callsNamed(p, s, r.fmtFn) {
					idx = i
				}
			}
			if idx < 0 {
				c.Undecided(cn, cc.Pos(), "%s call not found", r.fmtFn)
				continue
			}
			ok := precededByTerminatingGuard(p, cc.Body, idx, "IsNaN", "IsInf")
			c.Check(ok, cn, cc.Pos(), "float formatted only after a terminating IsNaN||IsInf guard", "the VM formats the float without a terminating NaN/Inf guard before "+r.fmtFn+": NaN/Inf produce malformed JSON text instead of an error (or null)")
			// null only under the option bit
			nullOK := false
			ast.Inspect(cc, func(n ast.Node) bool {
				if ifs, ok := n.(*ast.IfStmt); ok && strings.Contains(exprStr(ifs.Cond), "BitEncodeNullForInfOrNan") && terminates(ifs.Body.List) {
					nullOK = true
				}
				return true
			})
			c.Check(nullOK, "vm.Execute/"+r.op+"/null-only-under-option", cc.Pos(), "`null` only under BitEncodeNullForInfOrNan, else the error", "the NaN/Inf arm does not distinguish BitEncodeNullForInfOrNan")
		}
		if cc := arms["OP_number"]; cc != nil {
			// append(buf, v...) must lie on the valid branch
			good := false
			ast.Inspect(cc, func(n ast.Node) bool {
				ifs, ok := n.(*ast.IfStmt)
				if !ok {
					return true
				}
				if u, ok := ast.Unparen(ifs.Cond).(*ast.UnaryExpr); ok && u.Op == token.NOT && callsNamed(p, u.X, "IsValidNumber") && terminates(ifs.Body.List) {
					good = true
				}
				return true
			})
			c.Check(good, "vm.Execute/OP_number/valid-guard", cc.Pos(), "invalid json.Number text returns an error before it is copied", "the VM copies a json.Number without a terminating !IsValidNumber guard: arbitrary text is emitted as a number")
		} else {
			c.Undecided("vm.Execute/OP_number", token.NoPos, "arm not found")
		}
		if cc := arms["OP_unsupported"]; cc != nil {
			c.Check(terminates(cc.Body) && (callsNamed(p, cc, "Error_type") || callsNamed(p, cc, "Error_unsuppoted") || callsNamed(p, cc, "Error_unsupported")), "vm.Execute/OP_unsupported/error", cc.Pos(), "returns the type error", "OP_unsupported no longer returns the type error in the VM")
		}
	} else {
		c.Undecided("vm.Execute", token.NoPos, "not found")
	}
	// ---- prim.EncodeJsonMarshaler
	prim := p.Pkg("internal/encoder/prim")
	if fd := core.FuncDecl(prim, "", "EncodeJsonMarshaler"); fd != nil {
		c.Analysed("internal/encoder/prim.EncodeJsonMarshaler")
		var list []ast.Stmt
		idx := -1
		ast.Inspect(fd.Body, func(n ast.Node) bool {
			if blk, ok := n.(*ast.BlockStmt); ok {
				for i, s := range blk.List {
					if as, ok := s.(*ast.AssignStmt); ok && len(as.Rhs) == 1 {
						if call, ok := as.Rhs[0].(*ast.CallExpr); ok && exprStr(call.Fun) == "append" && call.Ellipsis.IsValid() {
							list, idx = blk.List, i
						}
					}
				}
			}
			return true
		})
		if idx < 0 {
			c.Undecided("prim.EncodeJsonMarshaler/validated", fd.Pos(), "append of the marshaler output not found")
		} else {
			validated := false
			for j := 0; j < idx; j++ {
				ifs, ok := list[j].(*ast.IfStmt)
				if !ok {
					continue
				}
				cond := exprStr(ifs.Cond)
				if strings.Contains(cond, "BitNoValidateJSONMarshaler") && strings.Contains(cond, "== 0") {
					inner := false
					ast.Inspect(ifs.Body, func(m ast.Node) bool {
						if i2, ok := m.(*ast.IfStmt); ok && i2.Init != nil && callsNamed(p, i2.Init, "Valid") && terminates(i2.Body.List) {
							inner = true
						}
						return true
					})
					if inner {
						validated = true
					}
				}
			}
			c.Check(validated, "prim.EncodeJsonMarshaler/validated", list[idx].Pos(), "user Marshaler output is validated (failing return) unless NoValidateJSONMarshaler is set", "the output of a user MarshalJSON is appended without alg.Valid having been checked (with a failing return) under `NoValidateJSONMarshaler == 0`: invalid JSON from a Marshaler is copied into the result")
			compact := false
			for j := 0; j < idx; j++ {
				if ifs, ok := list[j].(*ast.IfStmt); ok && strings.Contains(exprStr(ifs.Cond), "BitCompactMarshaler") && terminates(ifs.Body.List) && callsNamed(p, ifs.Body, "Compact") {
					compact = true
				}
			}
			c.Check(compact, "prim.EncodeJsonMarshaler/compact", list[idx].Pos(), "CompactMarshaler goes through Compact (which validates)", "the CompactMarshaler arm no longer returns Compact(...)")
		}
	} else {
		c.Undecided("prim.EncodeJsonMarshaler", token.NoPos, "not found")
	}
	// ---- x86 templates
	if p.GOARCH != "amd64" {
		return
	}
	rel := "internal/encoder/x86"
	a := newAsmCtx(p, rel, "Assembler")
	a.noInline = map[string]bool{"add_text": true, "store_str": true, "check_size": true, "check_size_r": true, "check_size_rl": true, "slice_grow_ax": true, "save_c": true}
	for _, r := range []struct{ h, fn, mask string }{{"_asm_OP_f32", "_F_f32toa", "_FM_exp32"}, {"_asm_OP_f64", "_F_f64toa", "_FM_exp64"}} {
		fd := core.FuncDecl(a.pk, "Assembler", r.h)
		cn := "x86.(Assembler)." + r.h + "/nan-guard"
		if fd == nil {
			c.Undecided(cn, token.NoPos, "not found")
			continue
		}
		c.Analysed(rel + ".(Assembler)." + r.h)
		seqs, ok := a.seqs(fd, asmEnv{}, 0)
		if !ok || len(seqs) != 1 {
			c.Undecided(cn, fd.Pos(), "cannot extract the template")
			continue
		}
		ops := seqs[0].Ops
		g := buildSeqCFG(ops)
		call := findEmit(ops, 0, func(e EmitOp) bool {
			return e.Kind == "Helper" && e.Callee != nil && e.Callee.Name() == "call_c" && len(e.ArgVals) == 1 && e.ArgVals[0].sym != nil && e.ArgVals[0].sym.Name() == r.fn
		})
		// the exponent test: ANDQ/XORQ with the mask, then JNZ
		jnz := -1
		maskSeen := false
		for i, o := range ops {
			if o.Kind == "Emit" && len(o.Ops) >= 1 && o.Ops[0].Kind == "imm" && hasObj(o.Ops[0].Objs, rel, r.mask) {
				maskSeen = true
			}
			if maskSeen && o.Kind == "Sjmp" && (o.Mnem == "JNZ" || o.Mnem == "JNE") && jnz < 0 {
				jnz = i
			}
		}
		if call < 0 || jnz < 0 || jnz > call {
			c.Bad(cn, fd.Pos(), "no exponent test (%s; JNZ) before the native float formatter: NaN/Inf are formatted as text", r.mask)
			continue
		}
		// reachability from the fall-through (special value) edge
		reach := map[int]bool{}
		var dfs func(i int)
		dfs = func(i int) {
			if i >= len(ops) || reach[i] {
				return
			}
			reach[i] = true
			for _, s := range g.succ[i] {
				dfs(s)
			}
		}
		dfs(jnz + 1)
		if reach[call] {
			c.Bad(cn, ops[call].Pos, "the native formatter is reachable from the all-ones-exponent edge of the test: NaN/Inf fall through into %s", strings.TrimPrefix(r.fn, "_F_"))
		} else {
			c.OK(cn, ops[jnz].Pos, "native formatter only on the finite edge")
		}
		// on the special edge: BTQ BitEncodeNullForInfOrNan ; JNC error
		bt := -1
		for i := jnz + 1; i < len(ops) && reach[i]; i++ {
			if ops[i].Kind == "Emit" && ops[i].Mnem == "BTQ" && len(ops[i].Ops) == 2 && hasObj(ops[i].Ops[0].Objs, "internal/encoder/alg", "BitEncodeNullForInfOrNan") {
				bt = i
				break
			}
		}
		okErr := bt >= 0 && bt+1 < len(ops) && ops[bt+1].Kind == "Sjmp" && ops[bt+1].Mnem == "JNC" && ops[bt+1].LblObj != nil && ops[bt+1].LblObj.Name() == "_LB_error_nan_or_infinite"
		c.Check(okErr, "x86.(Assembler)."+r.h+"/null-only-under-option", fd.Pos(), "special values: error unless BitEncodeNullForInfOrNan", "the special-value edge does not test BitEncodeNullForInfOrNan with JNC to the NaN/Inf error")
	}
	if fd := core.FuncDecl(a.pk, "Assembler", "_asm_OP_number"); fd != nil {
		c.Analysed(rel + ".(Assembler)._asm_OP_number")
		seqs, ok := a.seqs(fd, asmEnv{}, 0)
		cn := "x86.(Assembler)._asm_OP_number/valid-guard"
		if !ok || len(seqs) != 1 {
			c.Undecided(cn, fd.Pos(), "cannot extract the template")
		} else {
			ops := seqs[0].Ops
			isCallGo := func(name string) func(EmitOp) bool {
				return func(e EmitOp) bool {
					return e.Kind == "Helper" && e.Callee != nil && e.Callee.Name() == "call_go" && len(e.ArgVals) == 1 && e.ArgVals[0].sym != nil && e.ArgVals[0].sym.Name() == name
				}
			}
			v := findEmit(ops, 0, isCallGo("_F_isValidNumber"))
			m := findEmit(ops, 0, isCallGo("_F_memmove"))
			je := -1
			if v >= 0 {
				je = findEmit(ops, v, func(e EmitOp) bool {
					return e.Kind == "Sjmp" && e.Mnem == "JE" && e.LblObj != nil && e.LblObj.Name() == "_LB_error_invalid_number"
				})
			}
			c.Check(v >= 0 && m > v && je > v && je < m, cn, fd.Pos(), "isValidNumber; JE _error_invalid_number precede the memmove", "the json.Number text is copied without `call isValidNumber; JE _error_invalid_number` before the memmove")
		}
	}
	if fd := core.FuncDecl(a.pk, "Assembler", "_asm_OP_unsupported"); fd != nil {
		seqs, ok := a.seqs(fd, asmEnv{}, 0)
		good := false
		if ok {
			for _, s := range seqs {
				for _, o := range s.Ops {
					if o.Kind == "Sjmp" && o.Mnem == "JMP" && strings.Contains(o.Label, "error") {
						good = true
					}
				}
			}
		}
		c.Check(good, "x86.(Assembler)._asm_OP_unsupported/error", fd.Pos(), "jumps to the error exit", "OP_unsupported no longer jumps to the error exit in the JIT")
	}
}
