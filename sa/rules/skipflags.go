package rules

import (
	"go/token"
	"sort"
	"strings"

	"verif/sa/core"
)

// V2: the decoder's option word reaches the validating native skippers unchanged. Values the
// JIT decoder does not keep (unknown fields, empty-struct destinations, interface mismatches,
// raw messages) are consumed by native skip_one/skip_array/skip_object, whose fourth argument
// carries the option bits - among them "do not validate". The generated code must pass the
// caller's word as it is: setting a bit on the way makes every such value accept malformed
// text under all configurations.

func init() {
	register(&core.Rule{ID: "V2", Min: 1,
		Doc: "Flag word of the native skippers in the JIT decoder: in every emitted sequence of jitdec._Assembler (helpers inlined), at each native call (`callc`) of skip_one, skip_array or skip_object the last instruction that wrote CX (the flags argument) is `MOVQ _ARG_fv, CX`, a plain load of the decoder's option word from its argument slot; any other last writer (an ORQ/BTSQ/ANDQ on CX, an immediate, another slot) is a violation. Linear backward scan within the sequence from the call to the previous label.",
		Run: runV2})
}

func runV2(c *core.Ctx) {
	p := c.Prog
	if p.GOARCH != "amd64" {
		return
	}
	const rel = "internal/decoder/jitdec"
	a := newAsmCtx(p, rel, "_Assembler")
	if a.pk == nil {
		c.Undecided(rel, token.NoPos, "package not loaded")
		return
	}
	isFv := func(o Operand) bool {
		if o.Kind != "mem" {
			return false
		}
		if o.Name == "_ARG_fv" {
			return true
		}
		for _, ob := range o.Objs {
			if ob != nil && ob.Name() == "_ARG_fv" {
				return true
			}
		}
		return false
	}
	type res struct {
		pos token.Pos
		bad string
	}
	seen := map[string]*res{}
	var order []string
	for _, fd := range sortedFuncDecls(a.methods()) {
		np := fd.Type.Params.NumFields()
		if np > 1 || (np == 1 && !strings.HasPrefix(fd.Name.Name, "_asm_OP_")) {
			continue
		}
		seqs, ok := a.seqs(fd, asmEnv{}, 0)
		if !ok {
			continue
		}
		c.Analysed(handlerName(a.pk, fd))
		for _, sq := range seqs {
			for i, o := range sq.Ops {
				if o.Kind != "Helper" || o.Callee == nil || o.Callee.Name() != "callc" || len(o.ArgVals) == 0 || o.ArgVals[0].sym == nil {
					continue
				}
				nm := o.ArgVals[0].sym.Name()
				if nm != "_F_skip_one" && nm != "_F_skip_array" && nm != "_F_skip_object" {
					continue
				}
				key := enclosingFuncName(a, o.Pos) + ":" + strings.TrimPrefix(nm, "_F_")
				r := seen[key]
				if r == nil {
					r = &res{pos: o.Pos}
					seen[key] = r
					order = append(order, key)
				}
				// last writer of CX before the call
				found := false
				for j := i - 1; j >= 0 && !found; j-- {
					w := sq.Ops[j]
					if w.Kind == "Link" {
						break
					}
					if w.Kind != "Emit" || len(w.Ops) == 0 || nonWriting[w.Mnem] {
						continue
					}
					dst := w.Ops[len(w.Ops)-1]
					if !(dst.Kind == "reg" && (dst.Reg == "CX" || dst.Reg == "ECX" || dst.Reg == "CL")) {
						continue
					}
					found = true
					if !(w.Mnem == "MOVQ" && len(w.Ops) == 2 && isFv(w.Ops[0])) {
						r.bad = w.String() + " at " + p.Pos(w.Pos)
					}
				}
				if !found && r.bad == "" {
					r.bad = "no load of the option word into CX before the call"
				}
			}
		}
	}
	// one obligation per (emitter that issues the call, native routine)
	sort.Strings(order)
	n := 0
	for _, key := range order {
		r := seen[key]
		n++
		cn := rel + "/skip-flags@" + key
		if r.bad != "" {
			c.Bad(cn, r.pos, "the flags argument (CX) of the native skipper is not the decoder's option word as loaded from _ARG_fv: last writer is %s - an option bit is forced for this value only (with the no-validate bit set, malformed text inside a skipped value is accepted under every configuration)", r.bad)
		} else {
			c.OK(cn, r.pos, "CX = MOVQ _ARG_fv, CX")
		}
	}
	if n == 0 {
		c.Undecided(rel+"/skip-flags", token.NoPos, "no native skipper call found in the templates")
	}
}
