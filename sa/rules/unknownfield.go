package rules

import (
	"go/token"
	"strings"

	"verif/sa/core"
)

// W8: DisallowUnknownFields is consulted on every way a key can turn out to be unknown.
// _asm_OP_struct_field leaves the field index in the slot _VAR_sr; -1 means "no such field".
// Every path of the emitted template that leaves with sr = -1 must have tested
// `BTQ $_F_disable_unknown, fv` after that store (exact miss with CaseSensitive, hash-table
// miss, failed case-insensitive lookup).

func init() {
	register(&core.Rule{ID: "W8", Min: 1,
		Doc: "DisallowUnknownFields covers every miss: forward dataflow over the emitted template of jitdec._asm_OP_struct_field; after the field-index slot _VAR_sr is written with -1 (no such field), every path to the end of the template passes `BTQ $_F_disable_unknown, fv` (facts: sr-is-unknown = may, option-tested = must, merged at labels).",
		Run: runW8})
}

func runW8(c *core.Ctx) {
	p := c.Prog
	if p.GOARCH != "amd64" {
		return
	}
	rel := "internal/decoder/jitdec"
	a := newAsmCtx(p, rel, "_Assembler")
	fd := core.FuncDecl(a.pk, "_Assembler", "_asm_OP_struct_field")
	cn := "jitdec.(_Assembler)._asm_OP_struct_field/unknown-field-option"
	if fd == nil {
		c.Undecided(cn, token.NoPos, "handler not found")
		return
	}
	c.Analysed("internal/decoder/jitdec.(_Assembler)._asm_OP_struct_field")
	seqs, ok := a.seqs(fd, asmEnv{}, 0)
	if !ok || len(seqs) == 0 {
		c.Undecided(cn, fd.Pos(), "cannot enumerate emitted sequences")
		return
	}
	srSlot := emitModel{p}.operand(p.VarInit(core.Obj(a.pk, "_VAR_sr")), 0)
	if srSlot.Kind != "mem" {
		c.Undecided(cn, fd.Pos(), "_VAR_sr is not a memory operand")
		return
	}
	isSr := func(o Operand) bool {
		return o.Kind == "mem" && o.Reg == srSlot.Reg && o.DispOK && o.Disp == srSlot.Disp && o.Index == ""
	}
	type fact struct {
		reached bool
		unknown bool // sr may hold -1
		tested  bool // option tested since sr was set to -1 (must)
		minus1  map[string]bool
		last    string // register last stored to sr (a looked-up index)
	}
	stores := 0
	for _, sq := range seqs {
		g := buildSeqCFG(sq.Ops)
		in := make([]fact, len(g.ops)+1)
		in[0] = fact{reached: true, minus1: map[string]bool{}}
		work := []int{0}
		meet := func(dst *fact, src fact) bool {
			if !dst.reached {
				*dst = fact{reached: true, unknown: src.unknown, tested: src.tested, last: src.last, minus1: map[string]bool{}}
				for k := range src.minus1 {
					dst.minus1[k] = true
				}
				return true
			}
			ch := false
			// tested is a must-fact over the paths on which sr may be -1
			nt := dst.tested
			switch {
			case src.unknown && dst.unknown:
				nt = dst.tested && src.tested
			case src.unknown:
				nt = src.tested
			}
			if nt != dst.tested {
				dst.tested = nt
				ch = true
			}
			if src.unknown && !dst.unknown {
				dst.unknown = true
				ch = true
			}
			for k := range dst.minus1 {
				if !src.minus1[k] {
					delete(dst.minus1, k)
					ch = true
				}
			}
			if dst.last != src.last && dst.last != "" {
				dst.last = ""
				ch = true
			}
			return ch
		}
		for len(work) > 0 {
			i := work[len(work)-1]
			work = work[:len(work)-1]
			if i >= len(g.ops) || !in[i].reached {
				continue
			}
			o := g.ops[i]
			out := fact{reached: true, unknown: in[i].unknown, tested: in[i].tested, last: in[i].last, minus1: map[string]bool{}}
			for k := range in[i].minus1 {
				out.minus1[k] = true
			}
			if o.Kind == "Emit" && len(o.Ops) == 2 {
				src, dst := o.Ops[0], o.Ops[1]
				switch {
				case o.Mnem == "MOVQ" && dst.Kind == "reg":
					if src.Kind == "imm" && src.ImmOK && src.Imm == -1 {
						out.minus1[dst.Reg] = true
					} else {
						delete(out.minus1, dst.Reg)
					}
				case o.Mnem == "MOVQ" && isSr(dst):
					stores++
					if (src.Kind == "reg" && in[i].minus1[src.Reg]) || (src.Kind == "imm" && src.ImmOK && src.Imm == -1) {
						out.unknown, out.tested = true, false
					} else if src.Kind == "reg" {
						// a looked-up index: known unless a following sign test says it is negative
						out.unknown, out.tested = false, false
						out.last = src.Reg
					}
				case o.Mnem == "BTQ" && src.Kind == "imm" && hasObj(src.Objs, rel, "_F_disable_unknown"):
					out.tested = true
				case dst.Kind == "reg" && !nonWriting[o.Mnem]:
					delete(out.minus1, dst.Reg)
					if dst.Reg == out.last {
						out.last = ""
					}
				}
			}
			// sign test of the looked-up index: the negative edge means "no such field"
			outTaken := out
			if o.Kind == "Sjmp" && i >= 1 && (o.Mnem == "JNS" || o.Mnem == "JS") {
				t := g.ops[i-1]
				if t.Kind == "Emit" && t.Mnem == "TESTQ" && len(t.Ops) == 2 && t.Ops[0].Kind == "reg" && t.Ops[0].Reg == t.Ops[1].Reg && t.Ops[0].Reg == in[i].last && in[i].last != "" {
					neg := fact{reached: true, unknown: true, tested: false, last: out.last, minus1: out.minus1}
					if o.Mnem == "JNS" {
						out = neg // fall-through is the negative case
					} else {
						outTaken = neg
					}
				}
			}
			if o.Kind == "Helper" && o.Callee != nil && (o.Callee.Name() == "call_go" || o.Callee.Name() == "call_c") {
				delete(out.minus1, "AX")
			}
			for _, s := range g.succ[i] {
				v := out
				if o.Kind == "Sjmp" && s != i+1 {
					v = outTaken
				}
				if meet(&in[s], v) {
					work = append(work, s)
				}
			}
			if o.Kind == "Sjmp" {
				if t, ok := g.label[o.Label]; ok && t == i+1 {
					if meet(&in[i+1], outTaken) {
						work = append(work, i+1)
					}
				}
			}
		}
		end := in[len(g.ops)]
		if end.reached && end.unknown && !end.tested {
			c.Bad(cn, fd.Pos(), "a path of the emitted template leaves with the field index set to -1 (unknown key) without having tested `BTQ $_F_disable_unknown`: with DisallowUnknownFields (for example together with CaseSensitive) unknown keys are skipped silently instead of being reported")
			return
		}
	}
	if stores == 0 {
		c.Undecided(cn, fd.Pos(), "no store to _VAR_sr found in the template")
		return
	}
	c.OK(cn, fd.Pos(), "%d sequence(s): every exit with sr = -1 has tested _F_disable_unknown", len(seqs))
}

// W10: the unknown-field test of a field-less struct. `_asm_OP_skip_empty` decides "unknown
// field" by searching the skipped text for ':'. Only an object can carry a field; a string like
// "a:b" is a type mismatch with or without the option.

func init() {
	register(&core.Rule{ID: "W10", Min: 1,
		Doc: "DisallowUnknownFields on a struct without decodable fields: in the template of jitdec._asm_OP_skip_empty, the call that searches the skipped value for ':' (strings.IndexByte through call_go) is reached only after a `CMPB (IP)(r), $'{'` followed by a conditional jump that leaves the handler when the value is not an object.",
		Run: runW10})
}

func runW10(c *core.Ctx) {
	p := c.Prog
	if p.GOARCH != "amd64" {
		return
	}
	a := newAsmCtx(p, "internal/decoder/jitdec", "_Assembler")
	cn := "internal/decoder/jitdec.(_Assembler)._asm_OP_skip_empty/objects-only"
	for _, fd := range a.methods() {
		if fd.Name.Name != "_asm_OP_skip_empty" {
			continue
		}
		c.Analysed(handlerName(a.pk, fd))
		seqs, ok := a.seqs(fd, asmEnv{}, 0)
		if !ok || anyTrunc(seqs) {
			c.Undecided(cn, fd.Pos(), "cannot enumerate the template")
			return
		}
		found := false
		for _, sq := range seqs {
			ops := sq.Ops
			guardAt, searchAt := -1, -1
			for i, o := range ops {
				if o.Kind == "Emit" && o.Mnem == "CMPB" && len(o.Ops) == 2 && o.Ops[1].Kind == "imm" && o.Ops[1].ImmOK && o.Ops[1].Imm == '{' && o.Ops[0].Kind == "mem" {
					for j := i + 1; j < len(ops) && j <= i+2; j++ {
						if ops[j].Kind == "Xjmp" && (ops[j].Mnem == "JNE" || ops[j].Mnem == "JNZ") {
							guardAt = i
						}
					}
				}
				if o.Kind == "Helper" && o.Callee != nil && o.Callee.Name() == "call_go" && len(o.ArgVals) > 0 && o.ArgVals[0].sym != nil && strings.Contains(o.ArgVals[0].sym.Name(), "IndexByte") && searchAt < 0 {
					searchAt = i
				}
			}
			if searchAt < 0 {
				continue
			}
			found = true
			if guardAt >= 0 && guardAt < searchAt {
				c.OK(cn, ops[searchAt].Pos, "the ':' search is reached only for values that start with '{'")
			} else {
				c.Bad(cn, ops[searchAt].Pos, "the skipped value is searched for ':' whatever its type: with DisallowUnknownFields a string such as \"a:b\" (or an array containing one) given to a struct without fields is reported as an unknown field and aborts the decode, while it is a plain type mismatch without the option and in encoding/json")
			}
		}
		if !found {
			c.OK(cn, fd.Pos(), "no ':' search in the template")
		}
		return
	}
	c.Undecided(cn, token.NoPos, "handler not found")
}
