package rules

import (
	"go/ast"
	"go/token"
	"go/types"
	"sort"
	"strings"

	"golang.org/x/tools/go/packages"

	"verif/sa/core"
)

func init() {
	register(&core.Rule{ID: "S3", Min: 7,
		Doc: "Kind coverage parity: the sets of reflect.Kind handled (switch cases and comparisons, following rt.GoType.Is* helpers one level) agree between sibling implementations: value kinds in encoder.compileOps, jitdec.compileOps and optdec.compileBasic (+compileInt) equal the kinds encoding/json binds; map-key kinds agree between jitdec.compileMapUt and optdec.compileMap/compileMapKey, and between the encoder's unsorted path (compileMapBodyTextKey/compileMapBodyUtextKey) and the sorted path (alg.(*MapIterator).appendGeneric); `,string` kinds agree among the encoder's and both decoders' stringize switches.",
		Run: runS3})
	register(&core.Rule{ID: "S3m", Min: 1,
		Doc: "Encoder map-key kinds agree between the sorted path (alg.(*MapIterator).append/appendGeneric, used under SortMapKeys) and the unsorted path (Compiler.compileMapBodyKey/compileMapBodyTextKey): SortMapKeys must only reorder keys, not change which maps can be encoded.",
		Run: runS3m})
	register(&core.Rule{ID: "S6", Min: 3,
		Doc: "Post-pass twins: encoder.encodeFinish and encodeFinishWithPool test the same option constants in the same order (EscapeHTML, then ValidateString) and apply the same transformations (HTMLEscape, utf8.Validate + CorrectWith with the same replacement literal), so Encode and EncodeInto / the stream encoder agree.",
		Run: runS6})
	register(&core.Rule{ID: "S7", Min: 3,
		Doc: "Base agreement in optdec.newParser: every value derived from the input parameter that is stored in the parser or copied into its buffer is taken from data[pos:] (never the whole data); read-only validation of the whole string is allowed.",
		Run: runS7})
	register(&core.Rule{ID: "D1", Min: 6,
		Doc: "Decoder front-ends agree: jitdec.Decode and optdec.Decode perform the same pre-checks (nil type -> InvalidUnmarshalError; nil or non-pointer -> InvalidUnmarshalError{Type}; named pointer types are re-wrapped), and api selects decodeImpl, pretouchImpl and pretouchManyImpl together: defaults from jitdec, all three switched to optdec under envs.UseOptDec, each from the identically named function.",
		Run: runD1})
	register(&core.Rule{ID: "S10", Min: 4,
		Doc: "Marshaler dispatch priority of the encoder equals encoding/json's: tryCompileMarshaler checks, in this order, pointer-receiver json.Marshaler (addressable values only), value json.Marshaler, pointer-receiver encoding.TextMarshaler (addressable only), value TextMarshaler; the decoder's checkMarshaler checks *T json.Unmarshaler, T json.Unmarshaler, then *T TextUnmarshaler, T TextUnmarshaler.",
		Run: runS10})
}

// kindsIn collects reflect.Kind constants referenced in a function body, following
// calls to rt.(*GoType).Is* helpers one level.
func kindsIn(p *core.Program, body ast.Node, depth int) map[string]bool {
	out := map[string]bool{}
	if body == nil {
		return out
	}
	ast.Inspect(body, func(n ast.Node) bool {
		switch x := n.(type) {
		case *ast.SelectorExpr:
			if o, ok := p.ObjectOf(x.Sel).(*types.Const); ok && o.Pkg() != nil && o.Pkg().Path() == "reflect" {
				if nt, ok := o.Type().(*types.Named); ok && nt.Obj().Name() == "Kind" {
					out[o.Name()] = true
				}
			}
		case *ast.CallExpr:
			if depth < 1 {
				if o, ok := p.Callee(x).(*types.Func); ok && strings.HasPrefix(o.Name(), "Is") && core.IsSonic(o.Pkg()) {
					if fd := p.DeclOf(o); fd != nil {
						for k := range kindsIn(p, fd.Body, depth+1) {
							out[k] = true
						}
					}
				}
			}
		}
		return true
	})
	return out
}

func kindsOfFuncs(p *core.Program, pk *packages.Package, recv string, names ...string) (map[string]bool, bool) {
	out := map[string]bool{}
	for _, n := range names {
		fd := core.FuncDecl(pk, recv, n)
		if fd == nil {
			return nil, false
		}
		for k := range kindsIn(p, fd.Body, 0) {
			out[k] = true
		}
	}
	return out, true
}

func setDiff(a, b map[string]bool) (onlyA, onlyB []string) {
	for k := range a {
		if !b[k] {
			onlyA = append(onlyA, k)
		}
	}
	for k := range b {
		if !a[k] {
			onlyB = append(onlyB, k)
		}
	}
	sort.Strings(onlyA)
	sort.Strings(onlyB)
	return
}

var stdValueKinds = []string{"Bool", "Int", "Int8", "Int16", "Int32", "Int64", "Uint", "Uint8", "Uint16", "Uint32", "Uint64", "Uintptr",
	"Float32", "Float64", "String", "Array", "Interface", "Map", "Ptr", "Slice", "Struct"}

var mapKeyKinds = []string{"Int", "Int8", "Int16", "Int32", "Int64", "Uint", "Uint8", "Uint16", "Uint32", "Uint64", "Uintptr", "Float32", "Float64", "String"}

var stringizeKinds = []string{"Bool", "Int", "Int8", "Int16", "Int32", "Int64", "Uint", "Uint8", "Uint16", "Uint32", "Uint64", "Uintptr", "Float32", "Float64", "String"}

func toSet(xs []string) map[string]bool {
	m := map[string]bool{}
	for _, x := range xs {
		m[x] = true
	}
	return m
}

func runS3(c *core.Ctx) {
	p := c.Prog
	enc := p.Pkg("internal/encoder")
	jd := p.Pkg("internal/decoder/jitdec")
	od := p.Pkg("internal/decoder/optdec")
	cmp := func(cn string, got map[string]bool, ok bool, want map[string]bool, optional map[string]bool, what string) {
		if !ok {
			if p.GOARCH != "amd64" && strings.Contains(cn, "jitdec") {
				return
			}
			c.Undecided(cn, token.NoPos, "function(s) not found")
			return
		}
		missing, extra := setDiff(want, got)
		var ex2 []string
		for _, e := range extra {
			if !optional[e] {
				ex2 = append(ex2, e)
			}
		}
		if len(missing) == 0 && len(ex2) == 0 {
			c.OK(cn, token.NoPos, "%s: %d kinds", what, len(want))
		} else {
			c.Bad(cn, token.NoPos, "%s: missing kinds %v, unexpected kinds %v: a type of a missing kind is handled by one implementation and rejected (or mis-handled) by its sibling", what, missing, ex2)
		}
	}
	val := toSet(stdValueKinds)
	g, ok := kindsOfFuncs(p, enc, "Compiler", "compileOps")
	cmp("encoder.(Compiler).compileOps/value-kinds", g, ok, val, nil, "value kinds = kinds encoding/json supports")
	if jd != nil && core.FuncDecl(jd, "_Compiler", "compileOps") != nil {
		g, ok = kindsOfFuncs(p, jd, "_Compiler", "compileOps")
		cmp("jitdec.(_Compiler).compileOps/value-kinds", g, ok, val, nil, "value kinds = kinds encoding/json supports")
	}
	g, ok = kindsOfFuncs(p, od, "compiler", "compileBasic", "compileInt")
	cmp("optdec.(compiler).compileBasic/value-kinds", g, ok, val, nil, "value kinds = kinds encoding/json supports")
	// map keys
	mk := toSet(mapKeyKinds)
	if jd != nil && core.FuncDecl(jd, "_Compiler", "compileMapUt") != nil {
		g, ok = kindsOfFuncs(p, jd, "_Compiler", "compileMapUt")
		cmp("jitdec.(_Compiler).compileMapUt/map-key-kinds", g, ok, mk, nil, "map-key kinds")
	}
	g, ok = kindsOfFuncs(p, od, "compiler", "compileMap", "compileMapKey")
	cmp("optdec.(compiler).compileMap/map-key-kinds", g, ok, mk, map[string]bool{"Interface": true, "Ptr": true}, "map-key kinds")
	// ,string
	sk := toSet(stringizeKinds)
	g, ok = kindsOfFuncs(p, enc, "Compiler", "compileStructFieldStr")
	cmp("encoder.(Compiler).compileStructFieldStr/stringize-kinds", g, ok, sk, map[string]bool{"Ptr": true}, "`,string` kinds")
	if jd != nil && core.FuncDecl(jd, "_Compiler", "compileStructFieldStr") != nil {
		g, ok = kindsOfFuncs(p, jd, "_Compiler", "compileStructFieldStr")
		cmp("jitdec.(_Compiler).compileStructFieldStr/stringize-kinds", g, ok, sk, map[string]bool{"Ptr": true}, "`,string` kinds")
	}
}

func runS6(c *core.Ctx) {
	p := c.Prog
	enc := p.Pkg("internal/encoder")
	sig := func(name string) ([]string, token.Pos, bool) {
		fd := core.FuncDecl(enc, "", name)
		if fd == nil {
			return nil, token.NoPos, false
		}
		c.Analysed("internal/encoder." + name)
		var out []string
		for _, s := range fd.Body.List {
			ifs, ok := s.(*ast.IfStmt)
			if !ok {
				continue
			}
			var step []string
			ast.Inspect(ifs.Cond, func(n ast.Node) bool {
				switch x := n.(type) {
				case *ast.Ident:
					if o, ok := p.ObjectOf(x).(*types.Const); ok && core.IsSonic(o.Pkg()) {
						step = append(step, "opt:"+o.Name())
					}
				case *ast.CallExpr:
					if o := p.Callee(x); o != nil {
						step = append(step, "cond-call:"+o.Name())
					}
				case *ast.UnaryExpr:
					if x.Op == token.NOT {
						step = append(step, "not")
					}
				}
				return true
			})
			ast.Inspect(ifs.Body, func(n ast.Node) bool {
				if call, ok := n.(*ast.CallExpr); ok {
					if o := p.Callee(call); o != nil {
						switch o.Name() {
						case "HTMLEscape", "HtmlEscape", "CorrectWith":
							step = append(step, "do:"+o.Name())
							for _, a := range call.Args {
								if bl, ok := a.(*ast.BasicLit); ok {
									step = append(step, "lit:"+bl.Value)
								}
							}
						}
					}
				}
				return true
			})
			out = append(out, strings.Join(step, ","))
		}
		return out, fd.Pos(), true
	}
	a, pa, ok1 := sig("encodeFinish")
	b, _, ok2 := sig("encodeFinishWithPool")
	if !ok1 || !ok2 {
		c.Undecided("encoder.encodeFinish/twins", token.NoPos, "functions not found")
		return
	}
	n := len(a)
	if len(b) > n {
		n = len(b)
	}
	for i := 0; i < n; i++ {
		x, y := "", ""
		if i < len(a) {
			x = a[i]
		}
		if i < len(b) {
			y = b[i]
		}
		c.Check(x == y && x != "", "encoder.encodeFinish~encodeFinishWithPool/step"+itoa(i+1), pa, "same step: "+x, "post-pass step "+itoa(i+1)+" differs: encodeFinish does ["+x+"], encodeFinishWithPool does ["+y+"]: Encode and EncodeInto/stream produce different bytes under that option")
	}
	c.Check(len(a) >= 2, "encoder.encodeFinish/steps", pa, "EscapeHTML and ValidateString steps present", "a post-pass step is missing")
}

func runS7(c *core.Ctx) {
	p := c.Prog
	od := p.Pkg("internal/decoder/optdec")
	fd := core.FuncDecl(od, "", "newParser")
	if fd == nil {
		c.Undecided("optdec.newParser", token.NoPos, "not found")
		return
	}
	c.Analysed("internal/decoder/optdec.newParser")
	data := p.ObjectOf(fd.Type.Params.List[0].Names[0])
	pos := p.ObjectOf(fd.Type.Params.List[1].Names[0])
	n := 0
	// parent tracking
	var stack []ast.Node
	ast.Inspect(fd.Body, func(nd ast.Node) bool {
		if nd == nil {
			stack = stack[:len(stack)-1]
			return true
		}
		stack = append(stack, nd)
		id, ok := nd.(*ast.Ident)
		if !ok || p.ObjectOf(id) != data {
			return true
		}
		// an assignment *to* data (the corrected copy replaces the input, with pos reset) is not a use
		if len(stack) >= 2 {
			if as, ok := stack[len(stack)-2].(*ast.AssignStmt); ok {
				isLHS := false
				for _, l := range as.Lhs {
					if l == ast.Expr(id) {
						isLHS = true
					}
				}
				if isLHS {
					// the new value must come with pos = 0 in the same statement
					resets := false
					for i, l := range as.Lhs {
						if p.ExprObj(l) == pos && i < len(as.Rhs) && exprStr(as.Rhs[i]) == "0" {
							resets = true
						}
					}
					n++
					c.Check(resets, "optdec.newParser/data-use#"+itoa(n), id.Pos(), "the input is replaced together with pos = 0", "the input variable is replaced without resetting pos in the same statement: data[pos:] then skips part of the replacement")
					return true
				}
			}
		}
		// classify the use by its ancestors
		sliced := false
		validated := false
		stored := false
		lenOnly := false
		for i := len(stack) - 2; i >= 0; i-- {
			switch x := stack[i].(type) {
			case *ast.SliceExpr:
				if x.X == ast.Expr(id) && x.Low != nil && p.ExprObj(x.Low) == pos && x.High == nil {
					sliced = true
				}
			case *ast.CallExpr:
				if o := p.Callee(x); o != nil {
					if strings.HasPrefix(o.Name(), "Validate") {
						validated = true
					}
					if o.Name() == "len" {
						lenOnly = true
					}
				}
				if fid, ok := x.Fun.(*ast.Ident); ok && fid.Name == "append" {
					stored = true
				}
				if fid, ok := x.Fun.(*ast.Ident); ok && fid.Name == "len" {
					lenOnly = true
				}
			case *ast.AssignStmt:
				stored = true
			}
		}
		n++
		cn := "optdec.newParser/data-use#" + itoa(n)
		switch {
		case validated && !stored:
			c.OK(cn, id.Pos(), "read-only validation of the input")
		case lenOnly:
			c.OK(cn, id.Pos(), "length only")
		case sliced:
			c.OK(cn, id.Pos(), "data[pos:]")
		case stored:
			c.Bad(cn, id.Pos(), "newParser stores or copies the whole `data` instead of data[pos:]: for pos > 0 (second Decode on one Decoder) positions, end-of-input and string references are computed against the wrong base")
		default:
			c.OK(cn, id.Pos(), "transient use")
		}
		return true
	})
	if n < 3 {
		c.Undecided("optdec.newParser/data-uses", fd.Pos(), "only %d uses of the input parameter found", n)
	}
}

func runD1(c *core.Ctx) {
	p := c.Prog
	od := p.Pkg("internal/decoder/optdec")
	jd := p.Pkg("internal/decoder/jitdec")
	guards := func(pk *packages.Package) ([]string, token.Pos, bool) {
		fd := core.FuncDecl(pk, "", "Decode")
		if fd == nil {
			return nil, token.NoPos, false
		}
		c.Analysed(core.Rel(pk.PkgPath) + ".Decode")
		var out []string
		ast.Inspect(fd.Body, func(n ast.Node) bool {
			ifs, ok := n.(*ast.IfStmt)
			if !ok {
				return true
			}
			body := exprStrStmts(ifs.Body)
			switch {
			case strings.Contains(body, "InvalidUnmarshalError"):
				lit := "InvalidUnmarshalError{}"
				if strings.Contains(body, "Type:") {
					lit = "InvalidUnmarshalError{Type}"
				}
				out = append(out, exprStr(ifs.Cond)+" => "+lit)
			case strings.Contains(exprStr(ifs.Cond), "IsNamed"):
				out = append(out, exprStr(ifs.Cond)+" => rewrap")
			}
			return true
		})
		sort.Strings(out)
		return out, fd.Pos(), true
	}
	og, opos, ok1 := guards(od)
	if !ok1 {
		c.Undecided("optdec.Decode", token.NoPos, "not found")
		return
	}
	kinds := map[string]bool{}
	for _, g := range og {
		switch {
		case strings.Contains(g, "== nil") && strings.Contains(g, "InvalidUnmarshalError") && !strings.Contains(g, "Kind()"):
			kinds["nil-type"] = true
		case strings.Contains(g, "reflect.Ptr") && strings.Contains(g, "InvalidUnmarshalError"):
			kinds["non-pointer"] = true
		case strings.Contains(g, "IsNamed"):
			kinds["named-pointer"] = true
		}
	}
	for _, k := range []string{"nil-type", "non-pointer", "named-pointer"} {
		c.Check(kinds[k], "optdec.Decode/guard:"+k, opos, "pre-check present", "optdec.Decode lacks the `"+k+"` pre-check that the JIT front-end performs")
	}
	if jd != nil && core.FuncDecl(jd, "", "Decode") != nil {
		jg, jpos, _ := guards(jd)
		c.Check(strings.Join(jg, ";") == strings.Join(og, ";"), "jitdec.Decode~optdec.Decode/guards", jpos, "identical pre-check sets", "the pre-check sets differ: jitdec ["+strings.Join(jg, "; ")+"] vs optdec ["+strings.Join(og, "; ")+"]")
	}
	// selection wiring
	api := p.Pkg("internal/decoder/api")
	if p.GOARCH != "amd64" {
		return
	}
	for _, v := range []struct{ name, fn string }{{"decodeImpl", "Decode"}, {"pretouchImpl", "Pretouch"}, {"pretouchManyImpl", "PretouchMany"}} {
		o := core.Obj(api, v.name)
		if o == nil {
			c.Undecided("api."+v.name, token.NoPos, "not found")
			continue
		}
		init := p.ExprObj(p.VarInit(o))
		c.Check(init != nil && init.Name() == v.fn && core.Rel(init.Pkg().Path()) == "internal/decoder/jitdec", "api."+v.name+"/default", o.Pos(), "defaults to jitdec."+v.fn, "api."+v.name+" does not default to jitdec."+v.fn)
	}
	var initFd *ast.FuncDecl
	for _, fd := range core.FuncDecls(api) {
		if fd.Name.Name == "init" && fd.Recv == nil {
			ast.Inspect(fd.Body, func(n ast.Node) bool {
				if se, ok := n.(*ast.SelectorExpr); ok && se.Sel.Name == "UseOptDec" {
					initFd = fd
				}
				return true
			})
		}
	}
	if initFd == nil {
		c.Bad("api.init/UseOptDec", token.NoPos, "no init switches the decoder implementation on envs.UseOptDec")
		return
	}
	switched := map[string]string{}
	ast.Inspect(initFd.Body, func(n ast.Node) bool {
		ifs, ok := n.(*ast.IfStmt)
		if !ok || !strings.Contains(exprStr(ifs.Cond), "UseOptDec") {
			return true
		}
		for _, s := range ifs.Body.List {
			if as, ok := s.(*ast.AssignStmt); ok && len(as.Lhs) == 1 {
				if r := p.ExprObj(as.Rhs[0]); r != nil && r.Pkg() != nil {
					switched[exprStr(as.Lhs[0])] = core.Rel(r.Pkg().Path()) + "." + r.Name()
				}
			}
		}
		return true
	})
	for _, v := range []struct{ name, fn string }{{"decodeImpl", "Decode"}, {"pretouchImpl", "Pretouch"}, {"pretouchManyImpl", "PretouchMany"}} {
		c.Check(switched[v.name] == "internal/decoder/optdec."+v.fn, "api.init/"+v.name, initFd.Pos(), "switched to optdec."+v.fn, "under UseOptDec "+v.name+" is set to `"+switched[v.name]+"`, expected optdec."+v.fn+": Pretouch and Decode would use different implementations")
	}
}

func exprStrStmts(b *ast.BlockStmt) string {
	var sb strings.Builder
	ast.Inspect(b, func(n ast.Node) bool {
		if e, ok := n.(ast.Expr); ok {
			sb.WriteString(exprStr(e))
			sb.WriteString(" ")
			if cl, ok := e.(*ast.CompositeLit); ok {
				for _, el := range cl.Elts {
					if kv, ok := el.(*ast.KeyValueExpr); ok {
						sb.WriteString(exprStr(kv.Key) + ": ")
					}
				}
			}
			return false
		}
		return true
	})
	return sb.String()
}

func runS10(c *core.Ctx) {
	p := c.Prog
	enc := p.Pkg("internal/encoder")
	order := func(pk *packages.Package, recv, name string) ([]string, token.Pos, bool) {
		fd := core.FuncDecl(pk, recv, name)
		if fd == nil {
			return nil, token.NoPos, false
		}
		c.Analysed(core.FuncName(pk, fd))
		var out []string
		ast.Inspect(fd.Body, func(n ast.Node) bool {
			call, ok := n.(*ast.CallExpr)
			if !ok {
				return true
			}
			se, ok := call.Fun.(*ast.SelectorExpr)
			if !ok || se.Sel.Name != "Implements" || len(call.Args) != 1 {
				return true
			}
			who := exprStr(se.X)
			kind := "T"
			if strings.HasPrefix(who, "p") || strings.Contains(who, "PtrTo") {
				kind = "*T"
			}
			iface := exprStr(call.Args[0])
			which := "json"
			if strings.Contains(strings.ToLower(iface), "text") {
				which = "text"
			}
			out = append(out, kind+":"+which)
			return true
		})
		return out, fd.Pos(), true
	}
	got, pos, ok := order(enc, "Compiler", "tryCompileMarshaler")
	want := "*T:json,T:json,*T:text,T:text"
	if !ok {
		c.Undecided("encoder.(Compiler).tryCompileMarshaler/order", token.NoPos, "not found")
	} else {
		c.Check(strings.Join(got, ",") == want, "encoder.(Compiler).tryCompileMarshaler/order", pos, "dispatch order "+want, "Marshaler dispatch order is ["+strings.Join(got, ",")+"], encoding/json's is ["+want+"]: a type with a value-receiver MarshalText and a pointer-receiver MarshalJSON (or vice versa) is encoded through the wrong method when addressable")
		// pointer-receiver checks guarded by addressability (pv)
		fd := core.FuncDecl(enc, "Compiler", "tryCompileMarshaler")
		guarded := 0
		ast.Inspect(fd.Body, func(n ast.Node) bool {
			if ifs, ok := n.(*ast.IfStmt); ok {
				s := exprStr(ifs.Cond)
				if strings.Contains(s, "pv") && strings.Contains(s, "Implements") {
					guarded++
				}
			}
			return true
		})
		c.Check(guarded == 2, "encoder.(Compiler).tryCompileMarshaler/addressable-only", pos, "both pointer-receiver checks require addressability", "pointer-receiver marshalers are not restricted to addressable values (pv)")
	}
	if jd := p.Pkg("internal/decoder/jitdec"); jd != nil && core.FuncDecl(jd, "_Compiler", "checkMarshaler") != nil {
		got, pos, _ := order(jd, "_Compiler", "checkMarshaler")
		c.Check(strings.Join(got, ",") == want, "jitdec.(_Compiler).checkMarshaler/order", pos, "dispatch order "+want, "Unmarshaler dispatch order is ["+strings.Join(got, ",")+"], expected ["+want+"]")
	}
	od := p.Pkg("internal/decoder/optdec")
	if fd := core.FuncDecl(od, "compiler", "tryCompilePtrUnmarshaler"); fd != nil {
		got, pos, _ := order(od, "compiler", "tryCompilePtrUnmarshaler")
		c.Check(len(got) >= 2 && strings.HasSuffix(got[0], ":json"), "optdec.(compiler).tryCompilePtrUnmarshaler/order", pos, "json.Unmarshaler before TextUnmarshaler", "optdec checks TextUnmarshaler before json.Unmarshaler: ["+strings.Join(got, ",")+"]")
	}
}

func runS3m(c *core.Ctx) {
	p := c.Prog
	enc := p.Pkg("internal/encoder")
	alg := p.Pkg("internal/encoder/alg")
	// encoder: sorted path (alg) and unsorted path (compiler) must support the same key kinds
	ga, oka := kindsOfFuncs(p, alg, "MapIterator", "append", "appendGeneric")
	gb, okb := kindsOfFuncs(p, enc, "Compiler", "compileMapBodyKey", "compileMapBodyTextKey")
	if !oka || !okb {
		c.Undecided("encoder/map-key-kinds", token.NoPos, "functions not found")
	} else {
		for _, k := range []string{"Interface", "Ptr", "Invalid"} {
			delete(ga, k)
			delete(gb, k)
		}
		onlyA, onlyB := setDiff(ga, gb)
		if len(onlyA) == 0 && len(onlyB) == 0 && len(ga) >= 12 {
			c.OK("encoder/map-key-kinds:sorted~unsorted", token.NoPos, "alg.(MapIterator).append* and Compiler.compileMapBody*Key handle the same %d key kinds", len(ga))
		} else {
			c.Bad("encoder/map-key-kinds:sorted~unsorted", token.NoPos, "map-key kinds differ between the sorted path (only there: %v) and the unsorted path (only there: %v): a map with such a key encodes under one SortMapKeys setting and fails or differs under the other", onlyA, onlyB)
		}
	}
}
