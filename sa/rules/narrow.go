package rules

import (
	"go/ast"
	"go/constant"
	"go/token"
	"go/types"
	"math"

	"golang.org/x/tools/go/cfg"

	"verif/sa/core"
)

func init() {
	register(&core.Rule{ID: "N1", Min: 15,
		Doc: "Narrowing guards of the alternative decoder: every conversion intN(x)/uintN(x)/float32(x), N < 64, of a parsed 64-bit number in internal/decoder/optdec is reached only on go/cfg paths on which x was compared against bounds that fit the destination width (x > Max / x < Min with the out-of-range edge leaving), since x was last assigned; a missing or wider guard makes out-of-range literals wrap silently. float32(x) rounds and overflows to an infinity instead: there the narrowed value must be tested with math.IsInf before use (testing the float64 against MaxFloat32 first is what N3 forbids).",
		Run: runN1})
}

type nbounds struct {
	ub, lb map[types.Object]constant.Value
}

func (b nbounds) clone() nbounds {
	n := nbounds{ub: map[types.Object]constant.Value{}, lb: map[types.Object]constant.Value{}}
	for k, v := range b.ub {
		n.ub[k] = v
	}
	for k, v := range b.lb {
		n.lb[k] = v
	}
	return n
}

// meetN weakens a with b; reports change.
func meetN(a *nbounds, b nbounds) bool {
	ch := false
	for k, v := range a.ub {
		w, ok := b.ub[k]
		if !ok {
			delete(a.ub, k)
			ch = true
		} else if constant.Compare(w, token.GTR, v) {
			a.ub[k] = w
			ch = true
		}
	}
	for k, v := range a.lb {
		w, ok := b.lb[k]
		if !ok {
			delete(a.lb, k)
			ch = true
		} else if constant.Compare(w, token.LSS, v) {
			a.lb[k] = w
			ch = true
		}
	}
	return ch
}

type narrowT struct {
	min, max constant.Value
	signed   bool
	isFloat  bool
}

func narrowInfo(t types.Type) (narrowT, bool) {
	b, ok := t.Underlying().(*types.Basic)
	if !ok {
		return narrowT{}, false
	}
	mk := constant.MakeInt64
	switch b.Kind() {
	case types.Int8:
		return narrowT{mk(math.MinInt8), mk(math.MaxInt8), true, false}, true
	case types.Int16:
		return narrowT{mk(math.MinInt16), mk(math.MaxInt16), true, false}, true
	case types.Int32:
		return narrowT{mk(math.MinInt32), mk(math.MaxInt32), true, false}, true
	case types.Uint8:
		return narrowT{mk(0), mk(math.MaxUint8), false, false}, true
	case types.Uint16:
		return narrowT{mk(0), mk(math.MaxUint16), false, false}, true
	case types.Uint32:
		return narrowT{mk(0), mk(math.MaxUint32), false, false}, true
	case types.Float32:
		return narrowT{constant.MakeFloat64(-math.MaxFloat32), constant.MakeFloat64(math.MaxFloat32), true, true}, true
	}
	return narrowT{}, false
}

func runN1(c *core.Ctx) {
	p := c.Prog
	od := p.Pkg("internal/decoder/optdec")
	if od == nil {
		c.Undecided("optdec", token.NoPos, "package not loaded")
		return
	}
	total := 0
	for _, fd := range core.FuncDecls(od) {
		if fd.Body == nil {
			continue
		}
		// conversion sites
		type site struct {
			call *ast.CallExpr
			x    types.Object
			nt   narrowT
			tn   string
		}
		var sites []site
		ast.Inspect(fd.Body, func(n ast.Node) bool {
			call, ok := n.(*ast.CallExpr)
			if !ok || len(call.Args) != 1 {
				return true
			}
			tv := p.TypeOf(call.Fun)
			if tv == nil {
				return true
			}
			if _, isSig := tv.Underlying().(*types.Signature); isSig {
				return true
			}
			nt, ok := narrowInfo(tv)
			if !ok {
				return true
			}
			id, ok := ast.Unparen(call.Args[0]).(*ast.Ident)
			if !ok {
				return true
			}
			x := p.ObjectOf(id)
			xb, ok := x.Type().Underlying().(*types.Basic)
			if !ok {
				return true
			}
			switch xb.Kind() {
			case types.Int64, types.Uint64, types.Float64, types.Int, types.Uint:
			default:
				return true
			}
			sites = append(sites, site{call, x, nt, exprStr(call.Fun)})
			return true
		})
		if len(sites) == 0 {
			continue
		}
		fn := core.FuncName(od, fd)
		c.Analysed(fn)
		g := funcCFG(p, fd.Body)
		in := map[*cfg.Block]nbounds{}
		reached := map[*cfg.Block]bool{}
		in[g.Blocks[0]] = nbounds{ub: map[types.Object]constant.Value{}, lb: map[types.Object]constant.Value{}}
		reached[g.Blocks[0]] = true
		work := []*cfg.Block{g.Blocks[0]}
		atSite := map[*ast.CallExpr]nbounds{}
		for iter := 0; len(work) > 0 && iter < 20000; iter++ {
			b := work[len(work)-1]
			work = work[:len(work)-1]
			f := in[b].clone()
			for _, nd := range b.Nodes {
				ast.Inspect(nd, func(m ast.Node) bool {
					if call, ok := m.(*ast.CallExpr); ok {
						for _, s := range sites {
							if s.call == call {
								if old, seen := atSite[call]; seen {
									o := old.clone()
									meetN(&o, f)
									atSite[call] = o
								} else {
									atSite[call] = f.clone()
								}
							}
						}
					}
					return true
				})
				switch s := nd.(type) {
				case *ast.AssignStmt:
					for _, l := range s.Lhs {
						if id, ok := ast.Unparen(l).(*ast.Ident); ok {
							o := p.ObjectOf(id)
							delete(f.ub, o)
							delete(f.lb, o)
						}
					}
				case *ast.IncDecStmt:
					if id, ok := ast.Unparen(s.X).(*ast.Ident); ok {
						o := p.ObjectOf(id)
						delete(f.ub, o)
						delete(f.lb, o)
					}
				}
			}
			tf, ff := f, f
			if len(b.Nodes) > 0 && len(b.Succs) == 2 {
				if e, ok := b.Nodes[len(b.Nodes)-1].(ast.Expr); ok {
					tf, ff = f.clone(), f.clone()
					applyCond(p, e, true, &tf)
					applyCond(p, e, false, &ff)
				}
			}
			for i, s := range b.Succs {
				out := f
				if len(b.Succs) == 2 {
					if i == 0 {
						out = tf
					} else {
						out = ff
					}
				}
				if !reached[s] {
					reached[s] = true
					in[s] = out.clone()
					work = append(work, s)
					continue
				}
				cur := in[s]
				if meetN(&cur, out) {
					in[s] = cur
					work = append(work, s)
				}
			}
		}
		for i, s := range sites {
			total++
			cn := fn + "/narrow:" + s.tn + "#" + itoa(i+1)
			f, ok := atSite[s.call]
			if !ok {
				c.Undecided(cn, s.call.Pos(), "conversion not reached in CFG")
				continue
			}
			if s.nt.isFloat {
				// float64 -> float32 rounds and overflows to an infinity, it does not wrap: the
				// range is decided on the narrowed value (N3 explains why not before narrowing)
				if postInfCheck(p, fd, s.call) {
					c.OK(cn, s.call.Pos(), "%s(%s): the narrowed value is tested with math.IsInf before it is used", s.tn, s.x.Name())
				} else {
					c.Bad(cn, s.call.Pos(), "%s(%s): the narrowed value is not tested for infinity (`v := float32(x); if math.IsInf(float64(v), 0) { error }`): an out-of-range JSON number becomes +Inf/-Inf silently under the alternative decoder", s.tn, s.x.Name())
				}
				continue
			}
			ub, hasU := f.ub[s.x]
			lb, hasL := f.lb[s.x]
			srcUnsigned := false
			if xb, ok := s.x.Type().Underlying().(*types.Basic); ok && xb.Info()&types.IsUnsigned != 0 {
				srcUnsigned = true
			}
			upOK := hasU && constant.Compare(ub, token.LEQ, s.nt.max)
			loOK := srcUnsigned || (hasL && constant.Compare(lb, token.GEQ, s.nt.min))
			if upOK && loOK {
				c.OK(cn, s.call.Pos(), "%s(%s) guarded by bounds of its width", s.tn, s.x.Name())
			} else {
				why := "no upper-bound check against Max of " + s.tn
				if hasU && !upOK {
					why = "the upper bound checked (" + ub.String() + ") is wider than " + s.tn
				} else if upOK && !loOK {
					why = "no lower-bound check that fits " + s.tn
				}
				c.Bad(cn, s.call.Pos(), "%s(%s) is reached on a path where %s since %s was assigned: out-of-range JSON numbers wrap silently under the alternative decoder instead of being rejected", s.tn, s.x.Name(), why, s.x.Name())
			}
		}
	}
	if total < 15 {
		c.Undecided("optdec/narrowing", token.NoPos, "only %d narrowing conversions found", total)
	}
}

func exprOf(n ast.Node) ast.Expr {
	if e, ok := n.(ast.Expr); ok {
		return e
	}
	return &ast.BadExpr{}
}

// applyCond adds to b the bounds implied by cond evaluating to outcome.
// go/cfg (x/tools v0.29) keeps a short-circuit condition as one node, so the
// && / || / ! structure is interpreted here.
func applyCond(p *core.Program, cond ast.Expr, outcome bool, b *nbounds) {
	cond = ast.Unparen(cond)
	switch x := cond.(type) {
	case *ast.UnaryExpr:
		if x.Op == token.NOT {
			applyCond(p, x.X, !outcome, b)
		}
	case *ast.BinaryExpr:
		switch x.Op {
		case token.LOR:
			if !outcome { // both operands false
				applyCond(p, x.X, false, b)
				applyCond(p, x.Y, false, b)
			}
		case token.LAND:
			if outcome { // both operands true
				applyCond(p, x.X, true, b)
				applyCond(p, x.Y, true, b)
			}
		case token.GTR, token.GEQ, token.LSS, token.LEQ:
			id, ok := ast.Unparen(x.X).(*ast.Ident)
			k := p.ConstOf(x.Y)
			if !ok || k == nil {
				return
			}
			o := p.ObjectOf(id)
			op := x.Op
			if !outcome { // negate
				switch op {
				case token.GTR:
					op = token.LEQ
				case token.GEQ:
					op = token.LSS
				case token.LSS:
					op = token.GEQ
				case token.LEQ:
					op = token.GTR
				}
			}
			switch op {
			case token.LEQ, token.LSS:
				b.ub[o] = k
			case token.GEQ, token.GTR:
				b.lb[o] = k
			}
		}
	}
}

// postInfCheck: the conversion initialises a local v, and a later if statement whose condition
// calls math.IsInf on v (possibly widened again) leaves the function.
func postInfCheck(p *core.Program, fd *ast.FuncDecl, conv *ast.CallExpr) bool {
	var v types.Object
	ast.Inspect(fd.Body, func(n ast.Node) bool {
		if as, ok := n.(*ast.AssignStmt); ok {
			for i, r := range as.Rhs {
				if ast.Unparen(r) == conv && i < len(as.Lhs) {
					if id, ok := as.Lhs[i].(*ast.Ident); ok {
						v = p.ObjectOf(id)
					}
				}
			}
		}
		return true
	})
	if v == nil {
		return false
	}
	ok := false
	ast.Inspect(fd.Body, func(n ast.Node) bool {
		is, isIf := n.(*ast.IfStmt)
		if !isIf || is.Pos() < conv.End() {
			return true
		}
		tests := false
		ast.Inspect(is.Cond, func(x ast.Node) bool {
			if call, isCall := x.(*ast.CallExpr); isCall {
				if o := p.Callee(call); o != nil && o.Pkg() != nil && o.Pkg().Path() == "math" && o.Name() == "IsInf" && len(call.Args) >= 1 {
					ast.Inspect(call.Args[0], func(y ast.Node) bool {
						if id, isId := y.(*ast.Ident); isId && p.ObjectOf(id) == v {
							tests = true
						}
						return true
					})
				}
			}
			return true
		})
		if !tests {
			return true
		}
		for _, st := range is.Body.List {
			if _, isRet := st.(*ast.ReturnStmt); isRet {
				ok = true
			}
		}
		return true
	})
	return ok
}
