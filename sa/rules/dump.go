package rules

import (
	"fmt"
	"sort"

	"verif/sa/core"
)

// DumpBitUses prints the consumer map (developer aid for freezing tables).
func DumpBitUses(c *core.Ctx) {
	u := bitUses(c)
	var bs []string
	for b := range u {
		bs = append(bs, b)
	}
	sort.Strings(bs)
	for _, b := range bs {
		var fs []string
		for f := range u[b] {
			fs = append(fs, f)
		}
		sort.Strings(fs)
		for _, f := range fs {
			fmt.Printf("%-28s %s (%d)\n", b, f, len(u[b][f]))
		}
	}
}

// Dev dispatches developer dumps.
func Dev(name string, c *core.Ctx) {
	switch name {
	case "bituses":
		DumpBitUses(c)
	case "pkgstate":
		DumpPkgState(c)
	default:
		fmt.Println("unknown dev dump", name)
	}
}
