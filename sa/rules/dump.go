package rules

import (
	"fmt"
	"go/types"
	"sort"
	"strings"

	"verif/sa/core"
)

// DumpBitUses prints the consumer map (developer aid for freezing tables).
func DumpBitUses(c *core.Ctx) {
	u := bitUses(c)
	var bs []string
	for b := range u {
		bs = append(bs, b)
	}
	sort.Strings(bs)
	for _, b := range bs {
		var fs []string
		for f := range u[b] {
			fs = append(fs, f)
		}
		sort.Strings(fs)
		for _, f := range fs {
			fmt.Printf("%-28s %s (%d)\n", b, f, len(u[b][f]))
		}
	}
}

// Dev dispatches developer dumps.
func Dev(name string, c *core.Ctx) {
	switch name {
	case "bituses":
		DumpBitUses(c)
	case "pkgstate":
		DumpPkgState(c)
	default:
		if strings.HasPrefix(name, "asm:") {
			parts := strings.Split(name, ":")
			only := ""
			if len(parts) > 3 {
				only = parts[3]
			}
			DumpAsm(c, parts[1], parts[2], only)
			return
		}
		if strings.HasPrefix(name, "ir:") {
			parts := strings.Split(name, ":")
			DumpIR(c, parts[1], parts[2])
			return
		}
		fmt.Println("unknown dev dump", name)
	}
}

// DumpIR prints the templates of one compile function (developer aid).
func DumpIR(c *core.Ctx, dialect, fn string) {
	d := jitdecDialect
	if dialect == "encoder" {
		d = encoderDialect
	}
	p := c.Prog
	an := &irAnalysis{funcs: irFuncs(p, d), viols: map[string][]irViolation{}, paths: map[string]int{}, undec: map[string]string{}, single: map[string]bool{}, emitsSave: map[string]bool{}, untaggedCallers: map[string]map[string]bool{}}
	info := an.funcs[fn]
	if info == nil {
		fmt.Println("no such function")
		return
	}
	br := branchOps(p, d)
	paths, ok, why := EnumPathsOpt(p, info.fd, info.fd.Body.List, 2, 6000, irClassKey(p, d, an, br, info), irIsolate(p))
	fmt.Println("paths:", len(paths), ok, why)
	for i, pt := range paths {
		st := &irState{p: p, d: d, info: info, an: an, branch: br, labels: map[types.Object]labelVal{}, truth: map[string]bool{}}
		st.run(pt)
		if st.infeasible {
			continue
		}
		st.finish(info.fd.End())
		if len(st.viol) == 0 {
			continue
		}
		fmt.Printf("--- path %d violations %d\n", i, len(st.viol))
		for _, e := range pt {
			if e.Cond != nil {
				fmt.Printf("   cond %s = %v\n", exprStr(e.Cond), e.Taken)
			}
		}
		for j, in := range st.instrs {
			fmt.Printf("   %3d %-28s br=%d pinned=%v handed=%v target=%d %s\n", j, in.op, in.branch, in.pinned, in.handed, in.target, p.Pos(in.pos))
		}
		for _, v := range st.viol {
			fmt.Println("   !!", v.rule, v.cons)
		}
		break
	}
}

// DumpAsm prints sequence counts of emitter methods (developer aid).
func DumpAsm(c *core.Ctx, rel, recv, only string) {
	a := newAsmCtx(c.Prog, rel, recv)
	for _, fd := range sortedFuncDecls(a.methods()) {
		if only != "" && fd.Name.Name != only {
			continue
		}
		seqs, ok := a.seqs(fd, asmEnv{}, 0)
		fmt.Printf("%-40s ok=%v seqs=%d\n", fd.Name.Name, ok, len(seqs))
		if only != "" && ok {
			for i, s := range seqs {
				if i > 1 {
					break
				}
				for _, o := range s.Ops {
					fmt.Println("    ", o.Kind, o.String())
				}
				fmt.Println("  ----")
			}
		}
	}
}
