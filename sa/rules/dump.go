package rules

import (
	"fmt"
	"go/ast"
	"go/types"
	"os"
	"sort"
	"strings"

	"verif/sa/core"
)

// DumpBitUses prints the consumer map (developer aid for freezing tables).
func DumpBitUses(c *core.Ctx) {
	u := bitUses(c)
	var bs []string
	for b := range u {
		bs = append(bs, b)
	}
	sort.Strings(bs)
	for _, b := range bs {
		var fs []string
		for f := range u[b] {
			fs = append(fs, f)
		}
		sort.Strings(fs)
		for _, f := range fs {
			fmt.Printf("%-28s %s (%d)\n", b, f, len(u[b][f]))
		}
	}
}

// Dev dispatches developer dumps.
func Dev(name string, c *core.Ctx) {
	switch name {
	case "bituses":
		DumpBitUses(c)
	case "dbgenc":
		DebugEncodeString(c)
	case "sccs":
		DumpSCCs(c)
	case "avail":
		tab, why := decAvailTable(c.Prog)
		fmt.Println(why)
		var ks []string
		for k := range tab {
			ks = append(ks, k)
		}
		sort.Strings(ks)
		for _, k := range ks {
			fmt.Printf("%-28s %+v\n", k, tab[k])
		}
		if h := os.Getenv("AVAILH"); h != "" {
			a := newAsmCtx(c.Prog, "internal/decoder/jitdec", "_Assembler")
			for _, fd := range a.methods() {
				if fd.Name.Name != h {
					continue
				}
				seqs, _ := a.seqs(fd, asmEnv{}, 0)
				for _, sq := range seqs {
					g := buildSeqCFG(sq.Ops)
					in := boundFlow(g, 1, "R11", "R12")
					for i, o := range g.ops {
						fmt.Printf("%3d r=%v av=%d  %s %s\n", i, in[i].reached, in[i].avail, o.Kind, o.String())
					}
					fmt.Printf("end r=%v av=%d\n", in[len(g.ops)].reached, in[len(g.ops)].avail)
				}
			}
		}
	case "pkgstate":
		DumpPkgState(c)
	default:
		if strings.HasPrefix(name, "asm:") {
			parts := strings.Split(name, ":")
			only := ""
			if len(parts) > 3 {
				only = parts[3]
			}
			DumpAsm(c, parts[1], parts[2], only)
			return
		}
		if strings.HasPrefix(name, "ir:") {
			parts := strings.Split(name, ":")
			DumpIR(c, parts[1], parts[2])
			return
		}
		fmt.Println("unknown dev dump", name)
	}
}

// DumpIR prints the templates of one compile function (developer aid).
func DumpIR(c *core.Ctx, dialect, fn string) {
	d := jitdecDialect
	if dialect == "encoder" {
		d = encoderDialect
	}
	p := c.Prog
	an := &irAnalysis{funcs: irFuncs(p, d), viols: map[string][]irViolation{}, paths: map[string]int{}, undec: map[string]string{}, single: map[string]bool{}, emitsSave: map[string]bool{}, untaggedCallers: map[string]map[string]bool{}}
	info := an.funcs[fn]
	if info == nil {
		fmt.Println("no such function")
		return
	}
	br := branchOps(p, d)
	paths, ok, why := EnumPathsOpt(p, info.fd, info.fd.Body.List, 2, 6000, irClassKey(p, d, an, br, info), irIsolate(p))
	fmt.Println("paths:", len(paths), ok, why)
	for i, pt := range paths {
		st := &irState{p: p, d: d, info: info, an: an, branch: br, labels: map[types.Object]labelVal{}, truth: map[string]bool{}}
		st.run(pt)
		if st.infeasible {
			continue
		}
		st.finish(info.fd.End())
		if os.Getenv("IRALL") != "" {
			var ops []string
			for _, in := range st.instrs {
				o := strings.TrimPrefix(in.op, "_OP_")
				if in.arg != "" {
					o += "'" + in.arg + "'"
				}
				ops = append(ops, o)
			}
			fmt.Printf("path %d: %s\n", i, strings.Join(ops, " "))
		}
		if len(st.viol) == 0 {
			continue
		}
		fmt.Printf("--- path %d violations %d\n", i, len(st.viol))
		for _, e := range pt {
			if e.Cond != nil {
				fmt.Printf("   cond %s = %v\n", exprStr(e.Cond), e.Taken)
			}
		}
		for j, in := range st.instrs {
			fmt.Printf("   %3d %-28s br=%d pinned=%v handed=%v target=%d %s\n", j, in.op, in.branch, in.pinned, in.handed, in.target, p.Pos(in.pos))
		}
		for _, v := range st.viol {
			fmt.Println("   !!", v.rule, v.cons)
		}
		break
	}
}

// DumpAsm prints sequence counts of emitter methods (developer aid).
func DumpAsm(c *core.Ctx, rel, recv, only string) {
	a := newAsmCtx(c.Prog, rel, recv)
	if rel == "internal/encoder/x86" {
		a.noInline = map[string]bool{"add_text": true, "store_str": true, "check_size": true, "check_size_r": true, "check_size_rl": true, "slice_grow_ax": true}
	}
	for _, fd := range sortedFuncDecls(a.methods()) {
		if only != "" && fd.Name.Name != only {
			continue
		}
		seqs, ok := a.seqs(fd, asmEnv{}, 0)
		fmt.Printf("%-40s ok=%v seqs=%d\n", fd.Name.Name, ok, len(seqs))
		if only != "" && ok {
			for i, s := range seqs {
				if i > 1 {
					break
				}
				for _, o := range s.Ops {
					fmt.Println("    ", o.Kind, o.String())
				}
				fmt.Println("  ----")
			}
		}
	}
}

func DebugEncodeString(c *core.Ctx) {
	a := newAsmCtx(c.Prog, "internal/encoder/x86", "Assembler")
	a.noInline = map[string]bool{"add_text": true, "store_str": true, "check_size": true, "check_size_r": true, "check_size_rl": true, "slice_grow_ax": true}
	fd := core.FuncDecl(a.pk, "Assembler", "encode_string")
	par := c.Prog.ObjectOf(fd.Type.Params.List[0].Names[0])
	env := asmEnv{par: envVal{isBool: true, b: true}}
	ast.Inspect(fd.Body, func(n ast.Node) bool {
		if ifs, ok := n.(*ast.IfStmt); ok {
			v, ok := a.evalIn(ifs.Cond, env)
			fmt.Printf("cond %s -> %+v %v\n", exprStr(ifs.Cond), v, ok)
		}
		return true
	})
	seqs, ok := a.seqs(fd, env, 1)
	fmt.Println("seqs", len(seqs), ok)
	for _, sq := range seqs {
		for _, o := range sq.Ops {
			fmt.Println("    ", o.Kind, o.String())
		}
	}
	paths, ok2, why := EnumPathsFull(c.Prog, fd, fd.Body.List, 3, 4096, nil, nil, nil, nil)
	fmt.Println("paths", len(paths), ok2, why)
	for _, cn := range []string{"check_size_r", "add_char", "add_long", "save_c", "call_c", "check_size", "add_text", "slice_grow_ax"} {
		cfd := core.FuncDecl(a.pk, "Assembler", cn)
		s2, ok3 := a.seqs(cfd, asmEnv{}, 2)
		fmt.Println(cn, len(s2), ok3)
	}
}
