package rules

import (
	"go/ast"
	"go/token"
	"go/types"
	"strings"

	"golang.org/x/tools/go/cfg"

	"verif/sa/core"
)

// L10: re-test the representation after taking the node lock. On a concurrently readable
// node another reader may convert a raw node (p,l = text pointer and length) into a parsed
// one (p = *linkedNodes/*linkedPairs, l = child count) while this goroutine waits for the
// lock; whoever takes the lock must therefore test isRaw() again *after* acquiring it
// before it interprets p,l as text.

func init() {
	register(&core.Rule{ID: "L10", Min: 4, Arm64: true,
		Doc: "Re-test after lock (ast): in every function of package ast that calls (*Node).rlock or (*Node).lock on a node X, each call X.toString() (which reads X.p, X.l as text) is reached only through an edge that proves X.isRaw() (the test itself, its negation's false edge, or a conjunction/disjunction containing it) and lies after the lock call and before any non-deferred runlock/unlock of X (forward must-dataflow over the go/cfg graph, states unlocked < locked < locked-and-retested, meet = minimum). A test made before the lock does not count: the representation may change while waiting for the lock.",
		Run: runL10})
}

func runL10(c *core.Ctx) {
	p := c.Prog
	pk := p.Pkg("ast")
	if pk == nil {
		c.Undecided("ast", token.NoPos, "package not loaded")
		return
	}
	// method classification through the type checker
	kindOf := func(call *ast.CallExpr) (string, string) {
		se, ok := call.Fun.(*ast.SelectorExpr)
		if !ok {
			return "", ""
		}
		fn, ok := p.ObjectOf(se.Sel).(*types.Func)
		if !ok || fn.Pkg() != pk.Types {
			return "", ""
		}
		sig := fn.Type().(*types.Signature)
		if sig.Recv() == nil || !strings.HasSuffix(types.TypeString(sig.Recv().Type(), nil), "ast.Node") {
			return "", ""
		}
		switch fn.Name() {
		case "rlock", "lock":
			return "lock", exprStr(se.X)
		case "runlock", "unlock":
			return "unlock", exprStr(se.X)
		case "toString":
			return "text", exprStr(se.X)
		case "isRaw":
			return "israw", exprStr(se.X)
		}
		return "", ""
	}
	n := 0
	for _, f := range pk.Syntax {
		if strings.HasSuffix(p.Fset.Position(f.Pos()).Filename, "_test.go") {
			continue
		}
		for _, d := range f.Decls {
			fd, ok := d.(*ast.FuncDecl)
			if !ok || fd.Body == nil {
				continue
			}
			// which node expressions are locked and read as text here?
			locked, text := map[string]bool{}, map[string]bool{}
			ast.Inspect(fd.Body, func(x ast.Node) bool {
				if call, ok := x.(*ast.CallExpr); ok {
					switch k, r := kindOf(call); k {
					case "lock":
						locked[r] = true
					case "text":
						text[r] = true
					}
				}
				return true
			})
			for recv := range locked {
				if !text[recv] {
					continue
				}
				fname := core.FuncName(pk, fd)
				c.Analysed(fname)
				g := funcCFG(p, fd.Body)
				// transfer over one node; reports text reads met in state < 2
				type rd struct {
					pos token.Pos
					st  int
				}
				step := func(nd ast.Node, st int, out *[]rd) int {
					if _, isDefer := nd.(*ast.DeferStmt); isDefer {
						return st
					}
					ast.Inspect(nd, func(x ast.Node) bool {
						if _, lit := x.(*ast.FuncLit); lit {
							return false
						}
						call, ok := x.(*ast.CallExpr)
						if !ok {
							return true
						}
						k, r := kindOf(call)
						if r != recv {
							return true
						}
						switch k {
						case "lock":
							st = 1
						case "unlock":
							st = 0
						case "text":
							if out != nil {
								*out = append(*out, rd{call.Pos(), st})
							}
						}
						return true
					})
					return st
				}
				// does cond == val imply X.isRaw()? (go/cfg keeps `a && b` in one node)
				var implies func(e ast.Expr, val bool) bool
				implies = func(e ast.Expr, val bool) bool {
					switch x := ast.Unparen(e).(type) {
					case *ast.CallExpr:
						k, r := kindOf(x)
						return val && k == "israw" && r == recv
					case *ast.UnaryExpr:
						if x.Op == token.NOT {
							return implies(x.X, !val)
						}
					case *ast.BinaryExpr:
						switch {
						case x.Op == token.LAND && val, x.Op == token.LOR && !val:
							return implies(x.X, val) || implies(x.Y, val)
						case x.Op == token.LAND && !val, x.Op == token.LOR && val:
							return implies(x.X, val) && implies(x.Y, val)
						}
					}
					return false
				}
				// +1: the true edge proves the node raw, -1: the false edge does
				polarity := func(b *cfg.Block) int {
					if len(b.Succs) != 2 || len(b.Nodes) == 0 {
						return 0
					}
					e, ok := b.Nodes[len(b.Nodes)-1].(ast.Expr)
					if !ok {
						return 0
					}
					if implies(e, true) {
						return 1
					}
					if implies(e, false) {
						return -1
					}
					return 0
				}
				in := map[*cfg.Block]int{}
				for _, b := range g.Blocks {
					in[b] = -1
				}
				in[g.Blocks[0]] = 0
				work := []*cfg.Block{g.Blocks[0]}
				for len(work) > 0 {
					b := work[0]
					work = work[1:]
					st := in[b]
					for _, nd := range b.Nodes {
						st = step(nd, st, nil)
					}
					pol := polarity(b)
					for i, s := range b.Succs {
						o := st
						if st >= 1 && ((pol == 1 && i == 0) || (pol == -1 && i == 1)) {
							o = 2
						}
						if in[s] == -1 || o < in[s] {
							in[s] = o
							work = append(work, s)
						}
					}
				}
				var reads []rd
				for _, b := range g.Blocks {
					if in[b] < 0 {
						continue
					}
					st := in[b]
					for _, nd := range b.Nodes {
						st = step(nd, st, &reads)
					}
				}
				for i, r := range reads {
					n++
					cn := fname + "/text-read"
					if len(reads) > 1 {
						cn += "#" + string(rune('1'+i))
					}
					switch r.st {
					case 2:
						c.OK(cn, r.pos, "%s.toString() is reached only after %s.isRaw() was tested again under the lock", recv, recv)
					case 1:
						c.Bad(cn, r.pos, "%s.toString() reads p,l as text under the lock without testing %s.isRaw() after acquiring it: a concurrent reader may have parsed the node while this goroutine waited, so p is a *linkedNodes/*linkedPairs and l a child count, and the bytes returned are heap memory", recv, recv)
					default:
						c.Bad(cn, r.pos, "%s.toString() reads p,l as text on a path where the node lock taken by this function is not held: a concurrent reader can convert the node between the test and the read", recv)
					}
				}
			}
		}
	}
	if n == 0 {
		c.Undecided("ast text reads under lock", token.NoPos, "no function that locks a node and reads its text found")
	}
}
