package rules

import (
	"go/ast"
	"go/token"
	"go/types"

	"golang.org/x/tools/go/cfg"

	"verif/sa/core"
)

// funcCFG builds the go/cfg graph of a function body; calls to panic (and
// os.Exit, log.Fatal*) do not return.
func funcCFG(p *core.Program, body *ast.BlockStmt) *cfg.CFG {
	return cfg.New(body, func(call *ast.CallExpr) bool {
		if id, ok := call.Fun.(*ast.Ident); ok && id.Name == "panic" {
			if _, isB := p.ObjectOf(id).(*types.Builtin); isB {
				return false
			}
		}
		return true
	})
}

// nodeReads reports whether node n reads variable v (any use that is not the
// bare left-hand side of an assignment/definition).
func nodeReads(p *core.Program, n ast.Node, v types.Object) bool {
	lhs := map[*ast.Ident]bool{}
	ast.Inspect(n, func(m ast.Node) bool {
		switch s := m.(type) {
		case *ast.AssignStmt:
			if s.Tok == token.ASSIGN || s.Tok == token.DEFINE {
				for _, l := range s.Lhs {
					if id, ok := ast.Unparen(l).(*ast.Ident); ok {
						lhs[id] = true
					}
				}
			}
		case *ast.FuncLit:
			// a closure capturing v counts as a read (conservative)
		}
		return true
	})
	found := false
	ast.Inspect(n, func(m ast.Node) bool {
		if id, ok := m.(*ast.Ident); ok && !lhs[id] && p.ObjectOf(id) == v {
			found = true
		}
		return !found
	})
	return found
}

// nodeWrites reports whether node n assigns v (as a bare identifier on the LHS).
func nodeWrites(p *core.Program, n ast.Node, v types.Object) bool {
	w := false
	ast.Inspect(n, func(m ast.Node) bool {
		if s, ok := m.(*ast.AssignStmt); ok {
			for _, l := range s.Lhs {
				if id, ok := ast.Unparen(l).(*ast.Ident); ok && p.ObjectOf(id) == v {
					w = true
				}
			}
		}
		return !w
	})
	return w
}

// locate finds the block and node index holding the AST node that contains pos.
func locate(g *cfg.CFG, pos token.Pos) (*cfg.Block, int) {
	for _, b := range g.Blocks {
		for i, n := range b.Nodes {
			if n.Pos() <= pos && pos < n.End() {
				return b, i
			}
		}
	}
	return nil, -1
}

// dropSite describes where a value is lost.
type dropSite struct {
	pos  token.Pos
	what string // "redefined" | "exit"
	node ast.Node
}

// propagates reports whether node n hands v on: returns it, passes it to a
// call, or stores it somewhere else. A mere test (v != nil) does not count.
func propagates(p *core.Program, n ast.Node, v types.Object) bool {
	mentions := func(e ast.Node) bool {
		f := false
		ast.Inspect(e, func(m ast.Node) bool {
			if id, ok := m.(*ast.Ident); ok && p.ObjectOf(id) == v {
				f = true
			}
			return !f
		})
		return f
	}
	found := false
	ast.Inspect(n, func(m ast.Node) bool {
		if found {
			return false
		}
		switch x := m.(type) {
		case *ast.ReturnStmt:
			for _, r := range x.Results {
				if mentions(r) {
					found = true
				}
			}
		case *ast.CallExpr:
			for _, a := range x.Args {
				if mentions(a) {
					found = true
				}
			}
		case *ast.AssignStmt:
			for _, r := range x.Rhs {
				if _, isCall := ast.Unparen(r).(*ast.CallExpr); !isCall && mentions(r) {
					found = true
				}
			}
		case *ast.FuncLit:
			if mentions(x) {
				found = true
			}
			return false
		}
		return true
	})
	return found
}

// nilTest classifies a block-ending condition: +1 if it is `v != nil`,
// -1 if it is `v == nil`, 0 otherwise.
func nilTest(p *core.Program, n ast.Node, v types.Object) int {
	e, ok := n.(ast.Expr)
	if !ok {
		return 0
	}
	be, ok := ast.Unparen(e).(*ast.BinaryExpr)
	if !ok || (be.Op != token.NEQ && be.Op != token.EQL) {
		return 0
	}
	x, y := ast.Unparen(be.X), ast.Unparen(be.Y)
	if id, ok := y.(*ast.Ident); !ok || id.Name != "nil" {
		x, y = y, x
		if id, ok := y.(*ast.Ident); !ok || id.Name != "nil" {
			return 0
		}
	}
	id, ok := x.(*ast.Ident)
	if !ok || p.ObjectOf(id) != v {
		return 0
	}
	if be.Op == token.NEQ {
		return 1
	}
	return -1
}

// mustUse walks forward from (b,i) exclusive and returns the sites where the
// (possibly non-nil) error value v is redefined, or the function exits, before
// v has been propagated. Branches on which v is known to be nil are discharged.
// namedResult says v is a named result (a bare return then returns it).
// exempt may waive an exit node.
func mustUse(p *core.Program, g *cfg.CFG, b *cfg.Block, i int, v types.Object, namedResult bool, exempt func(ret ast.Node, blk *cfg.Block) bool) []dropSite {
	var drops []dropSite
	seen := map[*cfg.Block]bool{}
	var walk func(b *cfg.Block, from int)
	walk = func(b *cfg.Block, from int) {
		for j := from; j < len(b.Nodes); j++ {
			n := b.Nodes[j]
			if rs, ok := n.(*ast.ReturnStmt); ok {
				if propagates(p, rs, v) {
					return
				}
				if namedResult && len(rs.Results) == 0 {
					return
				}
				if exempt != nil && exempt(rs, b) {
					return
				}
				drops = append(drops, dropSite{rs.Pos(), "exit", rs})
				return
			}
			if propagates(p, n, v) {
				return
			}
			if nodeWrites(p, n, v) {
				drops = append(drops, dropSite{n.Pos(), "redefined", n})
				return
			}
		}
		succs := b.Succs
		if len(b.Nodes) > 0 && len(b.Succs) == 2 {
			switch nilTest(p, b.Nodes[len(b.Nodes)-1], v) {
			case 1:
				succs = b.Succs[:1]
			case -1:
				succs = b.Succs[1:]
			}
		}
		if len(b.Succs) == 0 {
			if len(b.Nodes) > 0 {
				if es, ok := b.Nodes[len(b.Nodes)-1].(*ast.ExprStmt); ok {
					if call, ok := es.X.(*ast.CallExpr); ok {
						if id, ok := call.Fun.(*ast.Ident); ok && id.Name == "panic" {
							return
						}
					}
				}
			}
			if !namedResult {
				drops = append(drops, dropSite{token.NoPos, "exit", nil})
			}
			return
		}
		for _, s := range succs {
			if !seen[s] {
				seen[s] = true
				walk(s, 0)
			}
		}
	}
	walk(b, i+1)
	return drops
}

// enclosingIfs returns the chain of if statements lexically enclosing pos
// inside fn, innermost last, with whether pos lies in the then-branch.
type ifCtx struct {
	stmt   *ast.IfStmt
	inThen bool
}

func enclosingIfs(fn *ast.FuncDecl, pos token.Pos) []ifCtx {
	var out []ifCtx
	ast.Inspect(fn.Body, func(n ast.Node) bool {
		if n == nil || pos < n.Pos() || pos >= n.End() {
			return false
		}
		if s, ok := n.(*ast.IfStmt); ok {
			if s.Body.Pos() <= pos && pos < s.Body.End() {
				out = append(out, ifCtx{s, true})
			} else if s.Else != nil && s.Else.Pos() <= pos && pos < s.Else.End() {
				out = append(out, ifCtx{s, false})
			}
		}
		return true
	})
	return out
}

// isErrorType reports whether t is the predeclared error interface.
func isErrorType(t types.Type) bool {
	return t != nil && types.Identical(t, types.Universe.Lookup("error").Type())
}
