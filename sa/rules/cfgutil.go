package rules

import (
	"go/ast"
	"go/token"
	"go/types"

	"golang.org/x/tools/go/cfg"

	"verif/sa/core"
)

// funcCFG builds the go/cfg graph of a function body; calls to panic (and
// os.Exit, log.Fatal*) do not return.
func funcCFG(p *core.Program, body *ast.BlockStmt) *cfg.CFG {
	return cfg.New(body, func(call *ast.CallExpr) bool {
		if id, ok := call.Fun.(*ast.Ident); ok && id.Name == "panic" {
			if _, isB := p.ObjectOf(id).(*types.Builtin); isB {
				return false
			}
		}
		return true
	})
}

// nodeReads reports whether node n reads variable v (any use that is not the
// bare left-hand side of an assignment/definition).
func nodeReads(p *core.Program, n ast.Node, v types.Object) bool {
	lhs := map[*ast.Ident]bool{}
	ast.Inspect(n, func(m ast.Node) bool {
		switch s := m.(type) {
		case *ast.AssignStmt:
			if s.Tok == token.ASSIGN || s.Tok == token.DEFINE {
				for _, l := range s.Lhs {
					if id, ok := ast.Unparen(l).(*ast.Ident); ok {
						lhs[id] = true
					}
				}
			}
		case *ast.FuncLit:
			// a closure capturing v counts as a read (conservative)
		}
		return true
	})
	found := false
	ast.Inspect(n, func(m ast.Node) bool {
		if id, ok := m.(*ast.Ident); ok && !lhs[id] && p.ObjectOf(id) == v {
			found = true
		}
		return !found
	})
	return found
}

// nodeWrites reports whether node n assigns v (as a bare identifier on the LHS).
func nodeWrites(p *core.Program, n ast.Node, v types.Object) bool {
	w := false
	ast.Inspect(n, func(m ast.Node) bool {
		if s, ok := m.(*ast.AssignStmt); ok {
			for _, l := range s.Lhs {
				if id, ok := ast.Unparen(l).(*ast.Ident); ok && p.ObjectOf(id) == v {
					w = true
				}
			}
		}
		return !w
	})
	return w
}

// locate finds the block and node index holding the AST node that contains pos.
func locate(g *cfg.CFG, pos token.Pos) (*cfg.Block, int) {
	for _, b := range g.Blocks {
		for i, n := range b.Nodes {
			if n.Pos() <= pos && pos < n.End() {
				return b, i
			}
		}
	}
	return nil, -1
}

// useResult describes one path outcome of mustUse.
type dropSite struct {
	pos  token.Pos
	what string // "redefined" | "exit"
	node ast.Node
}

// mustUse walks forward from (b,i) exclusive and returns the sites where v is
// redefined, or the function exits, before any read of v. namedResult says v is
// a named result (a bare return then reads it). exempt may waive an exit node.
func mustUse(p *core.Program, g *cfg.CFG, b *cfg.Block, i int, v types.Object, namedResult bool, exempt func(ret ast.Node, blk *cfg.Block) bool) []dropSite {
	var drops []dropSite
	seen := map[*cfg.Block]bool{}
	var walk func(b *cfg.Block, from int)
	walk = func(b *cfg.Block, from int) {
		for j := from; j < len(b.Nodes); j++ {
			n := b.Nodes[j]
			if nodeReads(p, n, v) {
				return
			}
			if rs, ok := n.(*ast.ReturnStmt); ok {
				if namedResult && len(rs.Results) == 0 {
					return
				}
				if exempt != nil && exempt(rs, b) {
					return
				}
				drops = append(drops, dropSite{rs.Pos(), "exit", rs})
				return
			}
			if nodeWrites(p, n, v) {
				drops = append(drops, dropSite{n.Pos(), "redefined", n})
				return
			}
		}
		if len(b.Succs) == 0 {
			// fell off the end of the function (or a no-return call)
			if len(b.Nodes) > 0 {
				if es, ok := b.Nodes[len(b.Nodes)-1].(*ast.ExprStmt); ok {
					if call, ok := es.X.(*ast.CallExpr); ok {
						if id, ok := call.Fun.(*ast.Ident); ok && id.Name == "panic" {
							return
						}
					}
				}
			}
			if !namedResult {
				drops = append(drops, dropSite{token.NoPos, "exit", nil})
			}
			return
		}
		for _, s := range b.Succs {
			if !seen[s] {
				seen[s] = true
				walk(s, 0)
			}
		}
	}
	walk(b, i+1)
	return drops
}

// enclosingIfs returns the chain of if statements lexically enclosing pos
// inside fn, innermost last, with whether pos lies in the then-branch.
type ifCtx struct {
	stmt   *ast.IfStmt
	inThen bool
}

func enclosingIfs(fn *ast.FuncDecl, pos token.Pos) []ifCtx {
	var out []ifCtx
	ast.Inspect(fn.Body, func(n ast.Node) bool {
		if n == nil || pos < n.Pos() || pos >= n.End() {
			return false
		}
		if s, ok := n.(*ast.IfStmt); ok {
			if s.Body.Pos() <= pos && pos < s.Body.End() {
				out = append(out, ifCtx{s, true})
			} else if s.Else != nil && s.Else.Pos() <= pos && pos < s.Else.End() {
				out = append(out, ifCtx{s, false})
			}
		}
		return true
	})
	return out
}

// isErrorType reports whether t is the predeclared error interface.
func isErrorType(t types.Type) bool {
	return t != nil && types.Identical(t, types.Universe.Lookup("error").Type())
}
