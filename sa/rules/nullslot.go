package rules

import (
	"go/ast"
	"go/token"
	"go/types"
	"sort"
	"strings"

	"verif/sa/core"
)

// N4: `null` clears a pointer-shaped slot, nothing else. Several optdec decoders answer a JSON
// null with `*(*unsafe.Pointer)(vp) = nil`, an 8-byte store at the destination. That is right
// when the destination is a pointer, a map or an interface; when the same decoder type is also
// built for a plain value (a uint8 with a pointer-receiver unmarshaler), the store wipes the
// value and up to seven bytes of its neighbours.

func init() {
	register(&core.Rule{ID: "N4", Min: 8, Arm64: true,
		Doc: "Pointer-width nil stores of the alternative decoder: for every optdec decoder type whose FromDom stores nil through `*(*unsafe.Pointer)(vp)` (or a two-word interface header) without an enclosing test of the destination kind, each composite literal that builds the type stands where the destination is pointer-shaped: inside compilePtr, compileInterface or a compileMap* function, or inside a `case reflect.Ptr / reflect.Map / reflect.Interface` clause. A construction site for plain values makes `null` overwrite the value and its neighbours.",
		Run: runN4})
}

func runN4(c *core.Ctx) {
	p := c.Prog
	pk := p.Pkg("internal/decoder/optdec")
	if pk == nil {
		c.Undecided("internal/decoder/optdec", token.NoPos, "package not loaded")
		return
	}
	// decoder types with an unguarded nil store at their first parameter
	storing := map[string]token.Pos{}
	for _, fd := range core.FuncDecls(pk) {
		if fd.Body == nil || fd.Name.Name != "FromDom" || fd.Recv == nil || len(fd.Type.Params.List) == 0 || len(fd.Type.Params.List[0].Names) == 0 {
			continue
		}
		vp := p.ObjectOf(fd.Type.Params.List[0].Names[0])
		var stack []ast.Node
		ast.Inspect(fd.Body, func(n ast.Node) bool {
			if n == nil {
				stack = stack[:len(stack)-1]
				return true
			}
			stack = append(stack, n)
			as, ok := n.(*ast.AssignStmt)
			if !ok || len(as.Lhs) != 1 || len(as.Rhs) != 1 {
				return true
			}
			st, ok := ast.Unparen(as.Lhs[0]).(*ast.StarExpr)
			if !ok {
				return true
			}
			conv, ok := ast.Unparen(st.X).(*ast.CallExpr)
			if !ok || len(conv.Args) != 1 {
				return true
			}
			if id, ok := ast.Unparen(conv.Args[0]).(*ast.Ident); !ok || p.ObjectOf(id) != vp {
				return true
			}
			r := exprStr(as.Rhs[0])
			if r != "nil" && !strings.HasSuffix(r, "{}") {
				return true
			}
			ts := exprStr(conv.Fun)
			if !strings.Contains(ts, "unsafe.Pointer") && !strings.Contains(ts, "GoIface") && !strings.Contains(ts, "GoEface") {
				return true
			}
			// guarded by a kind test?
			for _, a := range stack {
				if is, ok := a.(*ast.IfStmt); ok && strings.Contains(exprStr(is.Cond), "Kind()") {
					return true
				}
			}
			storing[core.RecvName(fd)] = as.Pos()
			return true
		})
	}
	if len(storing) == 0 {
		c.Undecided("optdec/null-slot", token.NoPos, "no decoder stores nil at vp")
		return
	}
	var names []string
	for k := range storing {
		names = append(names, k)
	}
	sort.Strings(names)
	// construction sites
	for _, tn := range names {
		cn := "internal/decoder/optdec." + tn + "/null-store-sites"
		var badPos token.Pos
		badWhere := ""
		sites := 0
		for _, fd := range core.FuncDecls(pk) {
			if fd.Body == nil {
				continue
			}
			var stack []ast.Node
			ast.Inspect(fd.Body, func(n ast.Node) bool {
				if n == nil {
					stack = stack[:len(stack)-1]
					return true
				}
				stack = append(stack, n)
				cl, ok := n.(*ast.CompositeLit)
				if !ok || cl.Type == nil {
					return true
				}
				t := p.TypeOf(cl.Type)
				nt, ok := t.(*types.Named)
				if !ok || nt.Obj().Name() != tn || nt.Obj().Pkg() != pk.Types {
					return true
				}
				sites++
				okSite := fd.Name.Name == "compilePtr" || fd.Name.Name == "compileInterface" || strings.HasPrefix(fd.Name.Name, "compileMap")
				for _, a := range stack {
					if cc, ok := a.(*ast.CaseClause); ok {
						for _, e := range cc.List {
							switch exprStr(e) {
							case "reflect.Ptr", "reflect.Map", "reflect.Interface", "reflect.Pointer":
								okSite = true
							}
						}
					}
				}
				if !okSite && badWhere == "" {
					badPos, badWhere = cl.Pos(), fd.Name.Name
				}
				return true
			})
		}
		c.Analysed("internal/decoder/optdec.(" + tn + ").FromDom")
		switch {
		case sites == 0:
			c.Undecided(cn, storing[tn], "no construction site of %s found", tn)
		case badWhere != "":
			c.Bad(cn, badPos, "%s answers null with an unguarded pointer-width nil store at vp (%s), but it is also built in %s, where the destination is the value itself rather than a pointer, map or interface slot: `null` then overwrites the value and the bytes next to it", tn, p.Pos(storing[tn]), badWhere)
		default:
			c.OK(cn, storing[tn], "%d construction site(s), all for pointer-shaped destinations", sites)
		}
	}
}
