package rules

import (
	"go/ast"
	"go/token"
	"go/types"
	"sort"
	"strings"

	"verif/sa/core"
)

// D3: CopyString in the alternative decoder (Go code, package optdec). Text that refers to the
// caller's input is produced by a small set of "reference" functions (they slice Parser.Json).
// Every use of such a reference must be transient (compared, parsed, copied), be made under a
// test that the CopyString option is off, be itself inside a reference function, or sit in a
// function that is only reachable when canUseFastMap() has established that the option is off.

var optdecRefFuncs = map[string]bool{"Raw": true, "StringRef": true, "Number": true, "AsStrRef": true, "AsRaw": true}

// functions only reached on the fast-map path (canUseFastMap requires copy_string == 0)
var optdecFastOnly = map[string]string{
	"AsEfaceFast":    "fast-map path",
	"asEfaceFast":    "fast-map path",
	"AsMapEfaceFast": "fast-map path",
}

func init() {
	register(&core.Rule{ID: "D3", Min: 10,
		Doc: "CopyString in the alternative decoder: every call of a reference-producing accessor of optdec.Node (Raw, StringRef, Number, AsStrRef, AsRaw - they slice Parser.Json, the caller's text) and every direct slice of Parser.Json is (a) inside another reference accessor, (b) a transient use (operand of a comparison, argument of a parsing/validating/copying call, receiver of a conversion method), (c) inside a branch that tested `_F_copy_string` off, or (d) in a function on the fast-map path whose selector canUseFastMap tests `_F_copy_string`; otherwise the decoded value retains the caller's buffer although CopyString was requested.",
		Run: runD3})
}

func runD3(c *core.Ctx) {
	p := c.Prog
	pk := p.Pkg("internal/decoder/optdec")
	if pk == nil {
		c.Undecided("optdec", token.NoPos, "package not loaded")
		return
	}
	// (d) canUseFastMap tests the option
	if fd := core.FuncDecl(pk, "", "canUseFastMap"); fd != nil {
		c.Check(strings.Contains(exprStrStmts(fd.Body), "_F_copy_string"), "optdec.canUseFastMap/tests-copy-string", fd.Pos(), "the fast-map selector requires copy_string == 0", "canUseFastMap no longer tests _F_copy_string: the fast-map decoders keep references into the input under CopyString")
	} else {
		c.Undecided("optdec.canUseFastMap", token.NoPos, "not found")
	}
	isRefCall := func(e ast.Expr) (string, bool) {
		switch x := ast.Unparen(e).(type) {
		case *ast.CallExpr:
			if se, ok := x.Fun.(*ast.SelectorExpr); ok && optdecRefFuncs[se.Sel.Name] {
				if o := p.Callee(x); o != nil && o.Pkg() != nil && core.Rel(o.Pkg().Path()) == "internal/decoder/optdec" {
					return se.Sel.Name, true
				}
			}
		case *ast.SliceExpr:
			if se, ok := ast.Unparen(x.X).(*ast.SelectorExpr); ok && se.Sel.Name == "Json" {
				return "Parser.Json[..]", true
			}
		}
		return "", false
	}
	for _, fd := range core.FuncDecls(pk) {
		if fd.Body == nil || strings.HasSuffix(p.Fset.Position(fd.Pos()).Filename, "_test.go") {
			continue
		}
		fname := fd.Name.Name
		fn := core.FuncName(pk, fd)
		// parent map for context classification
		parents := map[ast.Node]ast.Node{}
		var stack []ast.Node
		ast.Inspect(fd.Body, func(n ast.Node) bool {
			if n == nil {
				stack = stack[:len(stack)-1]
				return true
			}
			if len(stack) > 0 {
				parents[n] = stack[len(stack)-1]
			}
			stack = append(stack, n)
			return true
		})
		underCopyOff := func(n ast.Node) bool {
			for cur := n; cur != nil; cur = parents[cur] {
				par := parents[cur]
				is, ok := par.(*ast.IfStmt)
				if !ok {
					continue
				}
				cond := exprStr(is.Cond)
				if !strings.Contains(cond, "_F_copy_string") {
					continue
				}
				off := strings.Contains(cond, "== 0")
				if cur == ast.Node(is.Body) && off {
					return true
				}
				if is.Else != nil && cur == ast.Node(is.Else) && !off {
					return true
				}
			}
			return false
		}
		type site struct {
			pos  token.Pos
			what string
		}
		var bad []site
		nsites := 0
		tainted := map[types.Object]token.Pos{} // locals holding a retained reference
		var classify func(n ast.Node, what string)
		classify = func(n ast.Node, what string) {
			par := parents[n]
			switch x := par.(type) {
			case *ast.ParenExpr:
				classify(x, what)
			case *ast.BinaryExpr:
				// comparison / concatenation into a new string: transient
			case *ast.SelectorExpr:
				// method on the result (.Float64(), .Int64()): transient
			case *ast.CallExpr:
				if x.Fun == n {
					return
				}
				// argument of a call: copying conversions and parsers are transient; boxing retains
				callee := exprStr(x.Fun)
				switch {
				case strings.Contains(callee, "ConvTstring") || strings.Contains(callee, "ConvTnum"):
					bad = append(bad, site{n.Pos(), what + " boxed by " + callee})
				case callee == "string" || callee == "[]byte" || callee == "json.Number":
					if callee == "json.Number" {
						classify(x, what) // type conversion keeps the reference
					}
				default:
					// Str2Mem / Mem2Str are views, keep following
					if strings.HasSuffix(callee, "Str2Mem") || strings.HasSuffix(callee, "Mem2Str") {
						classify(x, what)
					}
				}
			case *ast.ReturnStmt:
				bad = append(bad, site{n.Pos(), what + " returned"})
			case *ast.AssignStmt:
				for i, r := range x.Rhs {
					if r == n || (len(x.Rhs) == 1 && ast.Unparen(x.Rhs[0]) == n) {
						if i < len(x.Lhs) {
							lhs := ast.Unparen(x.Lhs[i])
							if id, ok := lhs.(*ast.Ident); ok {
								if o := p.ObjectOf(id); o != nil {
									tainted[o] = n.Pos()
									_ = what
								}
							} else {
								bad = append(bad, site{n.Pos(), what + " stored to " + exprStr(lhs)})
							}
						}
					}
				}
				if len(x.Rhs) == 1 && len(x.Lhs) == 2 {
					// s, ok := val.AsStrRef(ctx)
					if id, ok := ast.Unparen(x.Lhs[0]).(*ast.Ident); ok && ast.Unparen(x.Rhs[0]) == n {
						if o := p.ObjectOf(id); o != nil {
							tainted[o] = n.Pos()
						}
					}
				}
			case *ast.ValueSpec:
				for _, nm := range x.Names {
					if o := p.ObjectOf(nm); o != nil {
						tainted[o] = n.Pos()
					}
				}
			case *ast.KeyValueExpr, *ast.CompositeLit:
				bad = append(bad, site{n.Pos(), what + " placed in a composite value"})
			}
		}
		ast.Inspect(fd.Body, func(n ast.Node) bool {
			e, ok := n.(ast.Expr)
			if !ok {
				return true
			}
			what, isRef := isRefCall(e)
			if !isRef {
				return true
			}
			nsites++
			if optdecRefFuncs[fname] || underCopyOff(n) {
				return true
			}
			classify(n, what)
			return true
		})
		// second pass: what happens to locals that hold a reference
		type asg struct {
			pos token.Pos
			ref bool
		}
		lastAssign := map[types.Object][]asg{}
		ast.Inspect(fd.Body, func(n ast.Node) bool {
			as, ok := n.(*ast.AssignStmt)
			if !ok {
				return true
			}
			for i, l := range as.Lhs {
				id, ok := ast.Unparen(l).(*ast.Ident)
				if !ok {
					continue
				}
				o := p.ObjectOf(id)
				if o == nil {
					continue
				}
				ref := false
				if len(as.Rhs) == len(as.Lhs) {
					_, ref = isRefCall(as.Rhs[i])
				} else if len(as.Rhs) == 1 && i == 0 {
					_, ref = isRefCall(as.Rhs[0])
				}
				// the use of the variable on the right-hand side comes before the assignment takes effect
				lastAssign[o] = append(lastAssign[o], asg{as.End(), ref})
			}
			return true
		})
		if len(tainted) > 0 && !optdecRefFuncs[fname] {
			ast.Inspect(fd.Body, func(n ast.Node) bool {
				id, ok := n.(*ast.Ident)
				if !ok || !p.IsUse(id) {
					return true
				}
				o := p.ObjectOf(id)
				if _, t := tainted[o]; !t {
					return true
				}
				if underCopyOff(n) {
					return true
				}
				// the latest assignment before this use decides (straight-line approximation):
				// `s, err := Unquote(s)` replaces the reference by a fresh string
				if last, ok := lastAssign[o]; ok {
					lp, isRef := token.NoPos, false
					for _, a := range last {
						if a.pos < n.Pos() && a.pos > lp {
							lp, isRef = a.pos, a.ref
						}
					}
					if lp.IsValid() && !isRef {
						return true
					}
				}
				switch x := parents[n].(type) {
				case *ast.ReturnStmt:
					bad = append(bad, site{n.Pos(), "reference held in `" + id.Name + "` returned"})
				case *ast.CallExpr:
					callee := exprStr(x.Fun)
					if x.Fun != n && (strings.Contains(callee, "ConvTstring") || strings.Contains(callee, "ConvTnum")) {
						bad = append(bad, site{n.Pos(), "reference held in `" + id.Name + "` boxed by " + callee})
					}
					if callee == "json.Number" {
						if _, isRet := parents[x].(*ast.ReturnStmt); isRet {
							bad = append(bad, site{n.Pos(), "reference held in `" + id.Name + "` returned"})
						}
					}
					// map assignment keeps the key's string header, append keeps the element
					lc := strings.ToLower(callee)
					if x.Fun != n && (strings.Contains(lc, "assign") || lc == "append") {
						bad = append(bad, site{n.Pos(), "reference held in `" + id.Name + "` retained by " + callee + " (a map stores the key's string header, not a copy of its bytes)"})
					}
				case *ast.AssignStmt:
					for i, r := range x.Rhs {
						if ast.Unparen(r) == n && i < len(x.Lhs) {
							if _, isId := ast.Unparen(x.Lhs[i]).(*ast.Ident); !isId {
								bad = append(bad, site{n.Pos(), "reference held in `" + id.Name + "` stored to " + exprStr(x.Lhs[i])})
							}
						}
					}
				}
				return true
			})
		}
		if nsites == 0 {
			continue
		}
		c.Analysed(fn)
		cn := fn + "/copy-string"
		switch {
		case optdecRefFuncs[fname]:
			c.OK(cn, fd.Pos(), "reference accessor (%d site(s))", nsites)
		case len(bad) == 0:
			c.OK(cn, fd.Pos(), "%d reference site(s): transient or under a copy_string test", nsites)
		case optdecFastOnly[fname] != "":
			c.OK(cn, fd.Pos(), "%d reference site(s) retained, function only reached on the %s (canUseFastMap requires copy_string == 0)", nsites, optdecFastOnly[fname])
		default:
			sort.Slice(bad, func(i, j int) bool { return bad[i].pos < bad[j].pos })
			var ws []string
			for _, b := range bad {
				ws = append(ws, b.what+" ("+p.Pos(b.pos)+")")
			}
			c.Bad(cn, bad[0].pos, "%s keeps text of the caller's input without consulting CopyString: %s", fname, strings.Join(ws, "; "))
		}
	}
}

// D4: Node.StringRef slices the JSON text with the node's stored length, which is the length
// of the raw text only for strings without escapes (KStringCommon). For KStringEscaped nodes the
// stored length is the unescaped one, and the text lives in the padded buffer
// (StringCopyEsc / AsStrRef handle that). Every call must therefore sit under a test that the
// node is a common string.

func init() {
	register(&core.Rule{ID: "D4", Min: 5,
		Doc: "Precondition of optdec.Node.StringRef: every call lies inside a `case KStringCommon:` clause of a switch over the same node's Type(), or inside the then-branch of `X.Type() == KStringCommon`; anywhere else an escaped string (key or value) is sliced with its unescaped length from the raw text (`\\\"na\\\\u006de\\\"` becomes `na\\\\u`).",
		Run: runD4})
}

func runD4(c *core.Ctx) {
	p := c.Prog
	pk := p.Pkg("internal/decoder/optdec")
	if pk == nil {
		c.Undecided("optdec", token.NoPos, "package not loaded")
		return
	}
	n := 0
	for _, fd := range core.FuncDecls(pk) {
		if fd.Body == nil || strings.HasSuffix(p.Fset.Position(fd.Pos()).Filename, "_test.go") || fd.Name.Name == "StringRef" {
			continue
		}
		fn := core.FuncName(pk, fd)
		parents := map[ast.Node]ast.Node{}
		var stack []ast.Node
		ast.Inspect(fd.Body, func(nd ast.Node) bool {
			if nd == nil {
				stack = stack[:len(stack)-1]
				return true
			}
			if len(stack) > 0 {
				parents[nd] = stack[len(stack)-1]
			}
			stack = append(stack, nd)
			return true
		})
		k := 0
		ast.Inspect(fd.Body, func(nd ast.Node) bool {
			call, ok := nd.(*ast.CallExpr)
			if !ok {
				return true
			}
			se, ok := call.Fun.(*ast.SelectorExpr)
			if !ok || se.Sel.Name != "StringRef" {
				return true
			}
			if o := p.Callee(call); o == nil || o.Pkg() == nil || core.Rel(o.Pkg().Path()) != "internal/decoder/optdec" {
				return true
			}
			n++
			k++
			cn := fn + "/StringRef#" + itoa(k)
			c.Analysed(fn)
			guarded := false
			for cur := ast.Node(call); cur != nil && !guarded; cur = parents[cur] {
				switch x := parents[cur].(type) {
				case *ast.CaseClause:
					for _, e := range x.List {
						if exprStr(e) == "KStringCommon" {
							// the switch tag is a Type() call
							if sw, ok := parents[parents[x]].(*ast.SwitchStmt); ok && sw.Tag != nil && strings.HasSuffix(exprStr(sw.Tag), ".Type()") {
								guarded = true
							}
						}
					}
				case *ast.IfStmt:
					if cur == ast.Node(x.Body) {
						cs := exprStr(x.Cond)
						if strings.Contains(cs, ".Type() == KStringCommon") {
							guarded = true
						}
					}
				}
			}
			if guarded {
				c.OK(cn, call.Pos(), "under a KStringCommon test")
			} else {
				c.Bad(cn, call.Pos(), "%s calls StringRef on a node that has not been tested to be KStringCommon: for an escaped string the stored length is the unescaped one and the raw text is sliced short (escaped keys no longer match their field, values are truncated)", fn)
			}
			return true
		})
	}
	if n < 5 {
		c.Undecided("optdec/StringRef", token.NoPos, "only %d StringRef calls found", n)
	}
}
