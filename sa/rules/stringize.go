package rules

import (
	"go/ast"
	"go/token"
	"sort"
	"strings"

	"verif/sa/core"
)

// S18: which kinds the `,string` tag option applies to. encoding/json quotes booleans, all
// integer and float kinds and strings; every implementation in the repository that decides
// "can this field be stringized" must use the same set, otherwise one back end decodes
// `"80"` into a `uint8 ",string"` field and another rejects it.

func init() {
	register(&core.Rule{ID: "S18", Min: 4, Arm64: true,
		Doc: "Kind set of the `,string` option: the set of reflect kinds selected by (a) the `sv = true` switch of jitdec.compileStructFieldStr, (b) the per-kind opcode switch of the same function (whose default is unreachable), (c) the `sv = true` switch of encoder.compileStructFieldStr, (d) optdec.compileFieldStringOption (Ptr excluded), and (e) the switch of resolver.typeFields that sets `quoted`, all equal the set read from encoding/json.typeFields in the analysing toolchain's GOROOT (syntactic: case lists of the switch whose clause assigns `quoted = true`).",
		Run: runS18})
}

// kindsOfSwitch collects the reflect.X case names of sw (clauses accepted by keep).
func kindsOfSwitch(sw *ast.SwitchStmt, keep func(cc *ast.CaseClause) bool) map[string]bool {
	out := map[string]bool{}
	for _, st := range sw.Body.List {
		cc, ok := st.(*ast.CaseClause)
		if !ok || cc.List == nil || (keep != nil && !keep(cc)) {
			continue
		}
		for _, e := range cc.List {
			if se, ok := ast.Unparen(e).(*ast.SelectorExpr); ok {
				if id, ok := se.X.(*ast.Ident); ok && id.Name == "reflect" {
					out[se.Sel.Name] = true
				}
			}
		}
	}
	return out
}

func assignsTrue(name string) func(cc *ast.CaseClause) bool {
	return func(cc *ast.CaseClause) bool {
		hit := false
		for _, s := range cc.Body {
			ast.Inspect(s, func(n ast.Node) bool {
				if as, ok := n.(*ast.AssignStmt); ok && len(as.Lhs) == 1 && len(as.Rhs) == 1 && exprStr(as.Lhs[0]) == name && exprStr(as.Rhs[0]) == "true" {
					hit = true
				}
				return !hit
			})
		}
		return hit
	}
}

// switchesOnKind returns the switch statements of fd whose tag is `<x>.Kind()`.
func switchesOnKind(fd *ast.FuncDecl) []*ast.SwitchStmt {
	var out []*ast.SwitchStmt
	ast.Inspect(fd.Body, func(n ast.Node) bool {
		if _, lit := n.(*ast.FuncLit); lit {
			return false
		}
		if sw, ok := n.(*ast.SwitchStmt); ok && sw.Tag != nil {
			if call, ok := ast.Unparen(sw.Tag).(*ast.CallExpr); ok {
				if se, ok := call.Fun.(*ast.SelectorExpr); ok && se.Sel.Name == "Kind" {
					out = append(out, sw)
				}
			}
		}
		return true
	})
	return out
}

func runS18(c *core.Ctx) {
	p := c.Prog
	// reference: encoding/json.typeFields
	std, dir, err := stdFuncs("encoding/json")
	if err != nil || std[".typeFields"] == nil {
		c.Undecided("encoding/json.typeFields", token.NoPos, "cannot parse %s", dir)
		return
	}
	var ref map[string]bool
	for _, sw := range switchesOnKind(std[".typeFields"]) {
		if k := kindsOfSwitch(sw, assignsTrue("quoted")); len(k) > 0 {
			ref = k
		}
	}
	if len(ref) < 10 {
		c.Undecided("encoding/json.typeFields/quoted", token.NoPos, "the `quoted = true` kind switch was not found in %s", dir)
		return
	}
	type site struct {
		rel, recv, fn, what string
		pick                func(fd *ast.FuncDecl) (map[string]bool, token.Pos)
	}
	first := func(keep func(*ast.CaseClause) bool, drop ...string) func(fd *ast.FuncDecl) (map[string]bool, token.Pos) {
		return func(fd *ast.FuncDecl) (map[string]bool, token.Pos) {
			for _, sw := range switchesOnKind(fd) {
				if k := kindsOfSwitch(sw, keep); len(k) > 0 {
					for _, d := range drop {
						delete(k, d)
					}
					return k, sw.Pos()
				}
			}
			return nil, token.NoPos
		}
	}
	emitsOp := func(cc *ast.CaseClause) bool {
		// per-kind opcode clause: a single p.add(...) statement
		if len(cc.Body) != 1 {
			return false
		}
		es, ok := cc.Body[0].(*ast.ExprStmt)
		if !ok {
			return false
		}
		call, ok := es.X.(*ast.CallExpr)
		if !ok {
			return false
		}
		se, ok := call.Fun.(*ast.SelectorExpr)
		return ok && se.Sel.Name == "add"
	}
	sites := []site{
		{"internal/decoder/jitdec", "_Compiler", "compileStructFieldStr", "stringizable", first(assignsTrue("sv"))},
		{"internal/decoder/jitdec", "_Compiler", "compileStructFieldStr", "opcode-per-kind", first(emitsOp)},
		{"internal/encoder", "Compiler", "compileStructFieldStr", "stringizable", first(assignsTrue("sv"))},
		{"internal/decoder/optdec", "compiler", "compileFieldStringOption", "decoder-per-kind", first(nil, "Ptr")},
		{"internal/resolver", "", "typeFields", "quoted", first(assignsTrue("quoted"))},
	}
	n := 0
	for _, s := range sites {
		pk := p.Pkg(s.rel)
		if pk == nil {
			if p.GOARCH != "amd64" && strings.HasSuffix(s.rel, "jitdec") {
				continue
			}
			c.Undecided(s.rel+"."+s.fn+"/"+s.what, token.NoPos, "package not loaded")
			continue
		}
		fd := core.FuncDecl(pk, s.recv, s.fn)
		cn := s.rel + "." + s.fn + "/string-kinds/" + s.what
		if fd == nil {
			c.Undecided(cn, token.NoPos, "function not found")
			continue
		}
		c.Analysed(core.FuncName(pk, fd))
		got, pos := s.pick(fd)
		if got == nil {
			c.Undecided(cn, fd.Pos(), "kind switch not found")
			continue
		}
		n++
		var missing, extra []string
		for k := range ref {
			if !got[k] {
				missing = append(missing, k)
			}
		}
		for k := range got {
			if !ref[k] {
				extra = append(extra, k)
			}
		}
		sort.Strings(missing)
		sort.Strings(extra)
		switch {
		case len(missing) > 0:
			c.Bad(cn, pos, "the `,string` option is not applied to kind(s) %s here, although encoding/json (and the other implementations) quote them: a field of that kind tagged `,string` is encoded or decoded unquoted by this back end", strings.Join(missing, ", "))
		case len(extra) > 0:
			c.Bad(cn, pos, "the `,string` option is applied to kind(s) %s here, which encoding/json leaves unquoted", strings.Join(extra, ", "))
		default:
			c.OK(cn, pos, "%d kinds, equal to encoding/json's", len(got))
		}
	}
	if n == 0 {
		c.Undecided("string-kinds", token.NoPos, "no implementation found")
	}
}
