package rules

import (
	"go/ast"
	"go/token"
	"regexp"
	"strings"

	"verif/sa/core"
)

func init() {
	register(&core.Rule{ID: "A4", Min: 30,
		Doc: "Width rows: in the jitdec handlers _asm_OP_{i8,i16,i32,u8,u16,u32,f32} and _asm_OP_map_key_{same}, every width-bearing token (int16Type, _I_int16/_T_int16, math.MinInt16/MaxInt16, MaxUint16 ...) names the width of the opcode; a narrow parse is followed by the range helper before the value is stored or used as a key; the store is of that width (MOVB/MOVW/MOVL/MOVSS); the value opcode and the map-key opcode of one width apply the same range helper with the same bounds. Encoder: OP_i8..OP_u64 read the operand with the load of their width in the x86 handler (MOVBQSX, MOVWQSX, MOVLQSX, MOVQ / ...ZX) and the VM arm dereferences the Go type of that width; OP_is_zero_1/2/4/8 test exactly N bytes in both executors (CMPB/CMPW/CMPL/CMPQ and *(*uintN)).",
		Run: runA4})
}

var widthTok = regexp.MustCompile(`(?i)(u?int|float)(8|16|32|64)`)

func normWidth(s string) string { return strings.ToLower(s) }

func runA4(c *core.Ctx) {
	p := c.Prog
	if p.GOARCH == "amd64" {
		jd := p.Pkg("internal/decoder/jitdec")
		type row struct {
			w, goType, store string
			narrow           bool
		}
		rows := []row{{"i8", "int8", "MOVB", true}, {"i16", "int16", "MOVW", true}, {"i32", "int32", "MOVL", true}, {"i64", "int64", "MOVQ", false},
			{"u8", "uint8", "MOVB", true}, {"u16", "uint16", "MOVW", true}, {"u32", "uint32", "MOVL", true}, {"u64", "uint64", "MOVQ", false},
			{"f32", "float32", "MOVSS", true}, {"f64", "float64", "MOVSD", false}}
		rangeSig := func(fd *ast.FuncDecl) (string, token.Pos) {
			sig := ""
			var pos token.Pos
			ast.Inspect(fd.Body, func(n ast.Node) bool {
				call, ok := n.(*ast.CallExpr)
				if !ok {
					return true
				}
				if se, ok := call.Fun.(*ast.SelectorExpr); ok && strings.HasPrefix(se.Sel.Name, "range_") {
					var args []string
					for _, a := range call.Args {
						args = append(args, exprStr(a))
					}
					sig = se.Sel.Name + "(" + strings.Join(args, ", ") + ")"
					pos = call.Pos()
				}
				return true
			})
			return sig, pos
		}
		for _, r := range rows {
			var sigs []string
			for _, kind := range []string{"", "map_key_"} {
				name := "_asm_OP_" + kind + r.w
				fd := core.FuncDecl(jd, "_Assembler", name)
				cn := "jitdec.(_Assembler)." + name
				if fd == nil {
					c.Undecided(cn, token.NoPos, "handler not found")
					continue
				}
				c.Analysed("internal/decoder/jitdec.(_Assembler)." + name)
				// (1) width tokens
				var wrong []string
				ast.Inspect(fd.Body, func(n ast.Node) bool {
					var nm string
					switch x := n.(type) {
					case *ast.Ident:
						nm = x.Name
					case *ast.SelectorExpr:
						nm = x.Sel.Name
					default:
						return true
					}
					for _, m := range widthTok.FindAllString(nm, -1) {
						if normWidth(m) != r.goType && !strings.HasPrefix(nm, "_F_mapassign") && !strings.HasPrefix(nm, "mapassign") {
							wrong = append(wrong, nm)
						}
					}
					_, isSel := n.(*ast.SelectorExpr)
					return !isSel
				})
				if len(wrong) == 0 {
					c.OK(cn+"/tokens", fd.Pos(), "all width tokens name %s", r.goType)
				} else {
					c.Bad(cn+"/tokens", fd.Pos(), "handler of opcode %s%s uses %v, which belong to another width: the parsed number is range-checked or typed as the wrong width, so out-of-range literals wrap silently instead of being rejected", kind, r.w, wrong)
				}
				// (2) range helper after a narrow parse
				sig, spos := rangeSig(fd)
				if r.narrow {
					var parsePos token.Pos
					ast.Inspect(fd.Body, func(n ast.Node) bool {
						if call, ok := n.(*ast.CallExpr); ok {
							if se, ok := call.Fun.(*ast.SelectorExpr); ok && strings.HasPrefix(se.Sel.Name, "parse_") && !parsePos.IsValid() {
								parsePos = call.Pos()
							}
						}
						return true
					})
					// on every Go-level path of the handler the range helper runs after the parse and
					// before the value is used (map assignment / store to memory)
					pathWhy := ""
					if paths, ok, why := EnumPaths(p, fd, 1, 512); !ok {
						pathWhy = "cannot enumerate the handler's paths: " + why
					} else {
						em := emitModel{p}
						recv := recvObj(p, fd)
						for _, pt := range paths {
							parsed, ranged := false, false
							for _, ev := range pt {
								if ev.Call == nil {
									continue
								}
								se, ok := ev.Call.Fun.(*ast.SelectorExpr)
								if !ok {
									continue
								}
								switch {
								case strings.HasPrefix(se.Sel.Name, "parse_"):
									parsed = true
								case strings.HasPrefix(se.Sel.Name, "range_"):
									if parsed {
										ranged = true
									}
								case strings.HasPrefix(se.Sel.Name, "mapassign"):
									if parsed && !ranged && pathWhy == "" {
										pathWhy = "on a path of the handler (" + p.Pos(ev.Call.Pos()) + ") the key reaches " + se.Sel.Name + " without the range check of that width"
									}
								default:
									if op, isSelf := em.classify(ev.Call, recv); isSelf && op.Kind == "Emit" && len(op.Ops) == 2 && op.Ops[1].Kind == "mem" && op.Ops[1].Name == "" && strings.HasPrefix(op.Mnem, "MOV") {
										if parsed && !ranged && pathWhy == "" {
											pathWhy = "on a path of the handler (" + p.Pos(ev.Call.Pos()) + ") the value is stored without the range check of that width"
										}
									}
								}
							}
						}
					}
					c.Check(sig != "" && parsePos.IsValid() && spos > parsePos && pathWhy == "", cn+"/range-check", fd.Pos(), "narrow parse followed by "+sig+" on every path", "the native parse into a "+r.goType+" is not followed by a range check of that width on every path: out-of-range literals wrap"+map[bool]string{true: "", false: " - " + pathWhy}[pathWhy == ""])
					sigs = append(sigs, sig)
				}
				// (3) store width (value opcode only)
				if kind == "" {
					store := ""
					em := emitModel{p}
					recv := recvObj(p, fd)
					ast.Inspect(fd.Body, func(n ast.Node) bool {
						if call, ok := n.(*ast.CallExpr); ok {
							op, isSelf := em.classify(call, recv)
							if isSelf && op.Kind == "Emit" && len(op.Ops) == 2 && op.Ops[1].Kind == "mem" && op.Ops[1].Name == "" && strings.HasPrefix(op.Mnem, "MOV") {
								store = op.Mnem
							}
						}
						return true
					})
					c.Check(store == r.store, cn+"/store-width", fd.Pos(), "stores with "+r.store, "the handler stores the value with "+store+", expected "+r.store+" for "+r.goType+": neighbouring memory is overwritten or part of the value is left unchanged")
				}
			}
			if r.narrow && len(sigs) == 2 {
				c.Check(sigs[0] == sigs[1], "jitdec/_asm_OP_"+r.w+"~map_key_"+r.w+"/same-range-check", token.NoPos, "value and map-key opcodes apply "+sigs[0],
					"the value opcode applies "+sigs[0]+" but the map-key opcode applies "+sigs[1]+": one of the two accepts literals the other rejects (for uint32, CMPQ with a 32-bit immediate is sign-extended, so the generic unsigned check never fires)")
			}
		}
	}
	// encoder operand widths
	type erow struct{ op, load, deref string }
	erows := []erow{{"OP_i8", "MOVBQSX", "int8"}, {"OP_i16", "MOVWQSX", "int16"}, {"OP_i32", "MOVLQSX", "int32"}, {"OP_i64", "MOVQ", "int64"},
		{"OP_u8", "MOVBQZX", "uint8"}, {"OP_u16", "MOVWQZX", "uint16"}, {"OP_u32", "MOVLQZX", "uint32"}, {"OP_u64", "MOVQ", "uint64"},
		{"OP_f32", "", "float32"}, {"OP_f64", "", "float64"}}
	vm := p.Pkg("internal/encoder/vm")
	x86 := p.Pkg("internal/encoder/x86")
	arms := map[string]*ast.CaseClause{}
	if fd := core.FuncDecl(vm, "", "Execute"); fd != nil {
		ast.Inspect(fd.Body, func(n ast.Node) bool {
			if cc, ok := n.(*ast.CaseClause); ok {
				for _, e := range cc.List {
					if o := p.ExprObj(e); o != nil {
						arms[o.Name()] = cc
					}
				}
			}
			return true
		})
	}
	for _, r := range erows {
		if cc := arms[r.op]; cc != nil {
			found := ""
			ast.Inspect(cc, func(n ast.Node) bool {
				if st, ok := n.(*ast.StarExpr); ok {
					if call, ok := ast.Unparen(st.X).(*ast.CallExpr); ok && len(call.Args) == 1 {
						if pt, ok := ast.Unparen(call.Fun).(*ast.StarExpr); ok && found == "" {
							found = exprStr(pt.X)
						}
					}
				}
				return true
			})
			c.Check(found == r.deref, "vm.Execute/"+r.op+"/operand-width", cc.Pos(), "reads *(*"+r.deref+")(p)", "the VM arm of "+r.op+" reads the operand as "+found+", expected "+r.deref)
		} else {
			c.Undecided("vm.Execute/"+r.op, token.NoPos, "arm not found")
		}
		if x86 != nil && r.load != "" {
			fd := core.FuncDecl(x86, "Assembler", "_asm_"+r.op)
			if fd == nil {
				c.Undecided("x86.(Assembler)._asm_"+r.op, token.NoPos, "not found")
				continue
			}
			load := ""
			ast.Inspect(fd.Body, func(n ast.Node) bool {
				if call, ok := n.(*ast.CallExpr); ok {
					if se, ok := call.Fun.(*ast.SelectorExpr); ok && se.Sel.Name == "store_int" && len(call.Args) == 3 {
						load = strings.Trim(exprStr(call.Args[2]), "\"")
					}
				}
				return true
			})
			c.Check(load == r.load, "x86.(Assembler)._asm_"+r.op+"/operand-width", fd.Pos(), "loads with "+r.load, "the x86 handler of "+r.op+" loads the operand with "+load+", expected "+r.load+": the value is read with the wrong width or signedness")
		}
	}

	// omitempty tests of N-byte scalars: OP_is_zero_N compares N bytes in both executors, and the
	// compiler picks N from the kind (case reflect.Int16: OP_is_zero_2 ...)
	zrows := []struct {
		n     int
		cmp   string
		deref string
	}{{1, "CMPB", "uint8"}, {2, "CMPW", "uint16"}, {4, "CMPL", "uint32"}, {8, "CMPQ", "uint64"}}
	for _, zr := range zrows {
		op := "OP_is_zero_" + itoa(zr.n)
		if cc := arms[op]; cc != nil {
			found := ""
			ast.Inspect(cc, func(n ast.Node) bool {
				if st, ok := n.(*ast.StarExpr); ok {
					if call, ok := ast.Unparen(st.X).(*ast.CallExpr); ok && len(call.Args) == 1 {
						if pt, ok := ast.Unparen(call.Fun).(*ast.StarExpr); ok && found == "" {
							found = exprStr(pt.X)
						}
					}
				}
				return true
			})
			c.Check(found == zr.deref, "vm.Execute/"+op+"/operand-width", cc.Pos(), "tests *(*"+zr.deref+")(p)", "the VM arm of "+op+" tests the operand as "+found+", expected "+zr.deref+": part of the value is ignored (or neighbouring bytes are included) when deciding omitempty")
		} else {
			c.Undecided("vm.Execute/"+op, token.NoPos, "arm not found")
		}
		if x86 != nil {
			fd := core.FuncDecl(x86, "Assembler", "_asm_"+op)
			if fd == nil {
				c.Undecided("x86.(Assembler)._asm_"+op, token.NoPos, "not found")
				continue
			}
			cmp := ""
			ast.Inspect(fd.Body, func(n ast.Node) bool {
				if bl, ok := n.(*ast.BasicLit); ok && strings.HasPrefix(bl.Value, "\"CMP") && cmp == "" {
					cmp = strings.Trim(bl.Value, "\"")
				}
				return true
			})
			c.Check(cmp == zr.cmp, "x86.(Assembler)._asm_"+op+"/operand-width", fd.Pos(), "compares with "+zr.cmp, "the x86 handler of "+op+" compares with "+cmp+", expected "+zr.cmp+": only part of the "+itoa(zr.n)+"-byte value is tested, so a non-zero value whose low bytes are zero is omitted by the JIT but not by the VM")
		}
	}
}
