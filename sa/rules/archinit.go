package rules

import (
	"go/ast"
	"go/token"
	"go/types"

	"verif/sa/core"
)

// L7: the assembler's lazy global initialisation is serialised. obj's `Arch.Init` (x86
// instinit) fills package-level opcode tables on its first call without synchronisation.
// internal/jit creates a backend - and calls Init - for every assembly; first uses of the
// encoder and of the decoder, Pretouch included, can run concurrently and outside the
// program-cache locks.

func init() {
	register(&core.Rule{ID: "L7", Min: 1,
		Doc: "In internal/jit every call of `<x>.Arch.Init(...)` (the assembler library's lazily initialising entry) is made while a package-level sync.Mutex of internal/jit is held (Lock() before it and Unlock() after it in the same block), inside a sync.Once.Do function, or in the package's init function; an unguarded call lets two first users fill the global instruction tables at the same time (fatal 'phase error in avxOptab').",
		Run: runL7})
}

func runL7(c *core.Ctx) {
	p := c.Prog
	pk := p.Pkg("internal/jit")
	if pk == nil {
		c.Undecided("internal/jit", token.NoPos, "package not loaded")
		return
	}
	n := 0
	for _, fd := range core.FuncDecls(pk) {
		if fd.Body == nil {
			continue
		}
		fn := core.FuncName(pk, fd)
		k := 0
		var walk func(list []ast.Stmt, inOnce bool)
		walk = func(list []ast.Stmt, inOnce bool) {
			locked := false
			for _, st := range list {
				if es, ok := st.(*ast.ExprStmt); ok {
					if call, ok := es.X.(*ast.CallExpr); ok {
						if se, ok := call.Fun.(*ast.SelectorExpr); ok {
							if v, ok := p.ExprObj(se.X).(*types.Var); ok && v.Parent() == pk.Types.Scope() {
								switch se.Sel.Name {
								case "Lock":
									locked = true
								case "Unlock":
									locked = false
								}
							}
						}
					}
				}
				ast.Inspect(st, func(x ast.Node) bool {
					switch y := x.(type) {
					case *ast.BlockStmt:
						if y != nil && x != st {
							walk(y.List, inOnce)
							return false
						}
					case *ast.CallExpr:
						se, ok := y.Fun.(*ast.SelectorExpr)
						if !ok || se.Sel.Name != "Init" {
							return true
						}
						inner, ok := ast.Unparen(se.X).(*ast.SelectorExpr)
						if !ok || inner.Sel.Name != "Arch" {
							return true
						}
						k++
						n++
						c.Analysed(fn)
						cn := fn + "/arch-init#" + itoa(k)
						if locked || inOnce || fd.Name.Name == "init" {
							c.OK(cn, y.Pos(), "Arch.Init is called under a package-level lock (or once)")
						} else {
							c.Bad(cn, y.Pos(), "Arch.Init is called with no lock held: its first run fills package-level instruction tables without synchronisation, so two goroutines making their first use of a codec at the same time (Pretouch assembles outside the program-cache lock) corrupt them - fatal error: phase error in avxOptab")
						}
					}
					return true
				})
			}
		}
		walk(fd.Body.List, false)
	}
	if n == 0 {
		c.Undecided("internal/jit/arch-init", token.NoPos, "no call of Arch.Init found")
	}
}
