package rules

import (
	"go/ast"
	"go/token"
	"sort"
	"strings"

	"verif/sa/core"
)

// L5: what Load() leaves behind. Load promises that every child (and grandchild) can afterwards
// be read concurrently. The parser run it starts creates the remaining children in one of
// three modes: fully parsed (noLazy), raw with a mutex (loadOnce: newRawNode(..., true), the
// first reader parses under the lock), or raw without a mutex (skipValue / default lazy).
// Only the first two keep the promise.

func init() {
	register(&core.Rule{ID: "L5", Min: 2, Arm64: true,
		Doc: "Parser mode on the Load path: for every Node method reachable from Load()/LoadAll() (callee closure inside package ast, three levels) that starts a parser run itself (today loadAllIndex, loadAllKey), on every enumerated path that reaches the parser run (`parser.decodeArray` / `parser.decodeObject`), the parser flags assigned `true` before it include noLazy or loadOnce and do not include skipValue: otherwise the remaining children are created raw and unlocked, and concurrent readers parse them in place, racing on the node.",
		Run: runL5})
}

func runL5(c *core.Ctx) {
	p := c.Prog
	pk := p.Pkg("ast")
	load := core.FuncDecl(pk, "Node", "Load")
	if load == nil || load.Body == nil {
		c.Undecided("ast.(Node).Load", token.NoPos, "not found")
		return
	}
	c.Analysed(core.FuncName(pk, load))
	// loaders: the Node methods reachable from Load (callee closure inside the package, three
	// levels) that start a parser run themselves
	var loaders []*ast.FuncDecl
	seen := map[string]bool{"Load": true}
	runsParser := func(fd *ast.FuncDecl) bool {
		hit := false
		ast.Inspect(fd.Body, func(n ast.Node) bool {
			if call, ok := n.(*ast.CallExpr); ok {
				if se, ok := call.Fun.(*ast.SelectorExpr); ok && (se.Sel.Name == "decodeArray" || se.Sel.Name == "decodeObject") {
					hit = true
				}
			}
			return !hit
		})
		return hit
	}
	var walk func(fd *ast.FuncDecl, depth int)
	walk = func(fd *ast.FuncDecl, depth int) {
		ast.Inspect(fd.Body, func(n ast.Node) bool {
			call, ok := n.(*ast.CallExpr)
			if !ok {
				return true
			}
			o := p.Callee(call)
			if o == nil || o.Pkg() != pk.Types || seen[o.Name()] {
				return true
			}
			callee := core.FuncDecl(pk, "Node", o.Name())
			if callee == nil || callee.Body == nil {
				return true
			}
			seen[o.Name()] = true
			if runsParser(callee) {
				loaders = append(loaders, callee)
			} else if depth < 3 {
				walk(callee, depth+1)
			}
			return true
		})
	}
	walk(load, 0)
	if len(loaders) == 0 {
		c.Undecided("ast.(Node).Load/loaders", load.Pos(), "Load calls no loader in its switch arms")
		return
	}
	for _, fd := range loaders {
		fn := core.FuncName(pk, fd)
		c.Analysed(fn)
		cn := fn + "/load-mode"
		paths, ok, why := EnumPaths(p, fd, 1, 2000)
		if !ok {
			c.Undecided(cn, fd.Pos(), "cannot enumerate paths: %s", why)
			continue
		}
		runs, bad := 0, map[string]token.Pos{}
		for _, pt := range paths {
			flags := map[string]bool{}
			for _, e := range pt {
				if as, ok := e.Stmt.(*ast.AssignStmt); ok && len(as.Lhs) == 1 && len(as.Rhs) == 1 && exprStr(as.Rhs[0]) == "true" {
					if se, ok := as.Lhs[0].(*ast.SelectorExpr); ok {
						flags[se.Sel.Name] = true
					}
				}
				if e.Call != nil {
					if se, ok := e.Call.Fun.(*ast.SelectorExpr); ok && (se.Sel.Name == "decodeArray" || se.Sel.Name == "decodeObject" || se.Sel.Name == "Parse") {
						runs++
						var fs []string
						for f := range flags {
							fs = append(fs, f)
						}
						sort.Strings(fs)
						switch {
						case flags["skipValue"]:
							bad["the parser runs with skipValue set (flags: "+strings.Join(fs, ", ")+"): the remaining children are created as raw nodes without a mutex (newRawNode(..., false)), so after Load() concurrent readers parse them in place and race"] = e.Call.Pos()
						case !flags["noLazy"] && !flags["loadOnce"]:
							bad["the parser runs with neither noLazy nor loadOnce set (flags: "+strings.Join(fs, ", ")+"): the remaining children stay lazy and unlocked after Load()"] = e.Call.Pos()
						}
					}
				}
			}
		}
		if runs == 0 {
			c.Undecided(cn, fd.Pos(), "no parser run found on any path")
			continue
		}
		if len(bad) == 0 {
			c.OK(cn, fd.Pos(), "%d path(s) to the parser run, each with noLazy or loadOnce and without skipValue", runs)
			continue
		}
		var ks []string
		for k := range bad {
			ks = append(ks, k)
		}
		sort.Strings(ks)
		c.Bad(cn, bad[ks[0]], "%s", ks[0])
	}
}
