package rules

import (
	"go/token"
	"sort"
	"strings"

	"verif/sa/core"
)

// A11: a state register is saved with its state in it. The x86 encoder keeps the output
// length in RL (SI) and saves it around calls with xsave(..., RL). SI is also the register in
// which the fifth argument travels. If a handler loads that argument into SI *before* the
// xsave, the save slot holds the argument; on the callee's error path the reload hands the
// argument to the error exit, which stores it as the buffer length.

func init() {
	register(&core.Rule{ID: "A11", Min: 3,
		Doc: "Output-length register discipline of the x86 encoder: in every handler template, between a write of RL (SI) that does not derive from its own value or from the buffer header (MOVQ 8(r), RL after load_buffer, xload) and the next such reload, there is neither a save of RL into the frame by the xsave helper nor a jump to the error exit `_error` (which stores RL as len(*buf)); an argument load into SI must come after xsave.",
		Run: runA11})
}

func runA11(c *core.Ctx) {
	p := c.Prog
	if p.GOARCH != "amd64" {
		return
	}
	rel := "internal/encoder/x86"
	RL := regOf(p, rel, "_RL")
	if RL == "" {
		c.Undecided(rel+"/_RL", token.NoPos, "register variable not found")
		return
	}
	a := newAsmCtx(p, rel, "Assembler")
	n := 0
	for _, fd := range sortedFuncDecls(a.methods()) {
		if !strings.HasPrefix(fd.Name.Name, "_asm_OP_") {
			continue
		}
		seqs, ok := a.seqs(fd, asmEnv{}, 0)
		if !ok || anyTrunc(seqs) {
			continue
		}
		fn := handlerName(a.pk, fd)
		writes := 0
		bad := map[string]token.Pos{}
		for _, sq := range seqs {
			dirty := ""
			var dirtyPos token.Pos
			var helpers []string
			for _, o := range sq.Ops {
				switch o.Kind {
				case "Helper":
					nm := ""
					if o.Callee != nil {
						nm = o.Callee.Name()
					}
					helpers = append(helpers, nm)
					continue
				case "HelperEnd":
					if len(helpers) > 0 {
						helpers = helpers[:len(helpers)-1]
					}
					continue
				case "Link":
					continue
				case "Sjmp":
					if dirty != "" && o.Label == "_LB_error" {
						bad["jumps to the error exit while "+RL+" holds "+dirty+" ("+p.Pos(dirtyPos)+"): the exit stores it as len(*buf)"] = o.Pos
					}
					continue
				}
				if o.Kind != "Emit" || len(o.Ops) < 1 {
					continue
				}
				inHelper := func(name string) bool {
					for _, h := range helpers {
						if h == name {
							return true
						}
					}
					return false
				}
				dst := o.Ops[len(o.Ops)-1]
				src := o.Ops[0]
				// a save of RL by xsave
				if inHelper("xsave") && o.Mnem == "MOVQ" && len(o.Ops) == 2 && isReg(src, RL) && dst.Kind == "mem" && dst.Reg == "SP" && dirty != "" {
					bad["xsave stores "+RL+" while it holds "+dirty+" ("+p.Pos(dirtyPos)+") instead of the output length: after the call the reload gives the wrong value back, and the callee's error path turns it into len(*buf)"] = o.Pos
				}
				if dst.Kind != "reg" || dst.Reg != RL || nonWriting[o.Mnem] {
					continue
				}
				writes++
				switch {
				case inHelper("xload") || inHelper("load"):
					dirty = ""
				case o.Mnem == "MOVQ" && len(o.Ops) == 2 && src.Kind == "mem" && src.DispOK && src.Disp == 8 && src.Reg != "SP":
					dirty = "" // reload of len from the buffer header
				case (o.Mnem == "ADDQ" || o.Mnem == "SUBQ" || o.Mnem == "LEAQ" || o.Mnem == "INCQ" || o.Mnem == "DECQ" || o.Mnem == "XCHGQ"):
					// arithmetic on the length itself
				case o.Mnem == "BTSQ" || o.Mnem == "ORQ" || o.Mnem == "ANDQ":
					// bit twiddling keeps whatever it was
				default:
					dirty = "`" + o.String() + "`"
					dirtyPos = o.Pos
				}
			}
		}
		if writes == 0 {
			continue
		}
		n++
		c.Analysed(fn)
		cn := fn + "/length-register"
		if len(bad) == 0 {
			c.OK(cn, fd.Pos(), "%d write(s) of %s: none is saved or reported as the length while it holds something else", writes, RL)
			continue
		}
		var ks []string
		for k := range bad {
			ks = append(ks, k)
		}
		sort.Strings(ks)
		c.Bad(cn, bad[ks[0]], "%s", ks[0])
	}
	if n == 0 {
		c.Undecided(rel+"/length-register", token.NoPos, "no handler writes %s", RL)
	}
}

// A13: the input base and length registers of the JIT decoder are constants of a decode. IP and
// IL are set by the prologue and only ever reloaded from their save slots. The emitters borrow
// IL as a scratch register for call targets, which is fine *between* a save(...) that stored it
// and the load(...) that restores it; a write before the save makes the save slot hold the
// scratch value, and every bound check after the call compares against it.

func init() {
	register(&core.Rule{ID: "A13", Min: 2,
		Doc: "Input base/length registers of the JIT decoder (IP, IL): in every template of jitdec._Assembler (handlers and stand-alone routines, helpers inlined), a write to IP or IL outside the register-restoring helper `load` happens only while the register is parked, i.e. after a `save` helper stored it to the frame and before the matching `load` restored it; a write while it is live replaces the input length (or base) for the rest of the decode.",
		Run: runA13})
}

func runA13(c *core.Ctx) {
	p := c.Prog
	if p.GOARCH != "amd64" {
		return
	}
	rel := "internal/decoder/jitdec"
	regs := map[string]string{}
	for _, nm := range []string{"_IP", "_IL"} {
		if r := regOf(p, rel, nm); r != "" {
			regs[r] = nm
		}
	}
	if len(regs) != 2 {
		c.Undecided(rel+"/_IP,_IL", token.NoPos, "register variables not found")
		return
	}
	a := newAsmCtx(p, rel, "_Assembler")
	n := 0
	for _, fd := range sortedFuncDecls(a.methods()) {
		isHandler := strings.HasPrefix(fd.Name.Name, "_asm_OP_")
		if !isHandler && fd.Type.Params.NumFields() != 0 {
			continue
		}
		if fd.Name.Name == "prologue" || fd.Name.Name == "compile" || fd.Name.Name == "instrs" || fd.Name.Name == "builtins" {
			continue // the prologue defines the registers; the whole-program roots repeat every routine
		}
		seqs, ok := a.seqs(fd, asmEnv{}, 0)
		if !ok || anyTrunc(seqs) {
			continue
		}
		fn := handlerName(a.pk, fd)
		writes := 0
		bad := map[string]token.Pos{}
		for _, sq := range seqs {
			parked := map[string]bool{}
			var helpers []string
			in := func(name string) bool {
				for _, h := range helpers {
					if h == name {
						return true
					}
				}
				return false
			}
			for _, o := range sq.Ops {
				switch o.Kind {
				case "Helper":
					nm := ""
					if o.Callee != nil {
						nm = o.Callee.Name()
					}
					helpers = append(helpers, nm)
					continue
				case "HelperEnd":
					if len(helpers) > 0 {
						helpers = helpers[:len(helpers)-1]
					}
					continue
				case "Link":
					// a label may be entered from elsewhere: nothing is known to be parked
					parked = map[string]bool{}
					continue
				}
				if o.Kind != "Emit" || len(o.Ops) < 2 {
					continue
				}
				src, dst := o.Ops[0], o.Ops[len(o.Ops)-1]
				if in("save") && o.Mnem == "MOVQ" && src.Kind == "reg" && regs[src.Reg] != "" && dst.Kind == "mem" && dst.Reg == "SP" {
					parked[src.Reg] = true
					continue
				}
				if dst.Kind != "reg" || regs[dst.Reg] == "" || nonWriting[o.Mnem] {
					continue
				}
				writes++
				if in("load") {
					parked[dst.Reg] = false
					continue
				}
				if !parked[dst.Reg] {
					bad["`"+o.String()+"` overwrites "+regs[dst.Reg]+" ("+dst.Reg+") while it is live (no save(...) has parked it): the save that follows stores this value, the load after the call brings it back, and every later bound check of the enclosing decoder compares the cursor with it instead of the input length"] = o.Pos
				}
			}
		}
		if writes == 0 {
			continue
		}
		n++
		c.Analysed(fn)
		cn := fn + "/input-registers"
		if len(bad) == 0 {
			c.OK(cn, fd.Pos(), "%d write(s) of IP/IL, all while the register is parked in the frame or restoring it", writes)
			continue
		}
		var ks []string
		for k := range bad {
			ks = append(ks, k)
		}
		sort.Strings(ks)
		c.Bad(cn, bad[ks[0]], "%s", ks[0])
	}
	if n == 0 {
		c.Undecided(rel+"/input-registers", token.NoPos, "no template writes IP or IL")
	}
}
