package rules

import (
	"go/ast"
	"go/token"
	"regexp"
	"sort"
	"strings"

	"verif/sa/core"
)

// S4: ast.Preorder's traverser is a hand-kept copy of the Parser's recursive descent
// ("NOTE: keep in sync with (*Parser).Parse"). Both must accept the same grammar: the
// decisions that look at the input (conditions over the cursor self.p / the text self.s /
// the scanned token njs, the switches over the token type and the delimiter byte) must agree.

type parityPair struct{ parserFn, travFn string }

var parityPairs = []parityPair{
	{"Parse", "decodeValue"},
	{"decodeArray", "decodeArray"},
	{"decodeObject", "decodeObject"},
}

type grammarView struct {
	ifs      []string            // input-dependent if conditions, in order
	switches map[string][]string // switch tag -> sorted case labels ("default" for the default clause)
	tags     []string
}

// roleNames maps the local names of one reader function to role names, so that the comparison does not
// depend on how a function calls its receiver, its end-of-text local or its token variable: the receiver
// becomes `self`, a local initialised once with len(<recv>[.parser].s) becomes `ns`, a local of type
// types.JsonState becomes `njs`.
func roleNames(p *core.Program, fd *ast.FuncDecl) map[string]string {
	m := map[string]string{}
	recv := ""
	if fd.Recv != nil && len(fd.Recv.List) == 1 && len(fd.Recv.List[0].Names) == 1 {
		recv = fd.Recv.List[0].Names[0].Name
		if recv != "self" {
			m[recv] = "self"
		}
	}
	bind := func(id *ast.Ident, init ast.Expr) {
		if id == nil || id.Name == "_" {
			return
		}
		if o := p.ObjectOf(id); o != nil && o.Type() != nil && strings.HasSuffix(o.Type().String(), "types.JsonState") {
			if id.Name != "njs" {
				m[id.Name] = "njs"
			}
			return
		}
		if init == nil {
			return
		}
		if call, ok := ast.Unparen(init).(*ast.CallExpr); ok && len(call.Args) == 1 {
			if f, ok := call.Fun.(*ast.Ident); ok && f.Name == "len" {
				a := exprStr(call.Args[0])
				if a == recv+".s" || a == recv+".parser.s" {
					if id.Name != "ns" {
						m[id.Name] = "ns"
					}
				}
			}
		}
	}
	ast.Inspect(fd.Body, func(n ast.Node) bool {
		switch x := n.(type) {
		case *ast.AssignStmt:
			if x.Tok == token.DEFINE {
				for i, l := range x.Lhs {
					id, _ := l.(*ast.Ident)
					var init ast.Expr
					if len(x.Rhs) == len(x.Lhs) {
						init = x.Rhs[i]
					}
					bind(id, init)
				}
			}
		case *ast.ValueSpec:
			for i, id := range x.Names {
				var init ast.Expr
				if len(x.Values) == len(x.Names) {
					init = x.Values[i]
				}
				bind(id, init)
			}
		}
		return true
	})
	return m
}

func grammarOf(body *ast.BlockStmt, skipCond string, roles map[string]string) grammarView {
	gv := grammarView{switches: map[string][]string{}}
	norm := func(e ast.Expr) string {
		s := exprStr(e)
		for from, to := range roles {
			s = regexp.MustCompile(`\b`+regexp.QuoteMeta(from)+`\b`).ReplaceAllString(s, to)
		}
		return strings.ReplaceAll(s, "self.parser.", "self.")
	}
	inputDep := func(s string) bool {
		return strings.Contains(s, "self.s[") || strings.Contains(s, "self.p ") || strings.Contains(s, "njs.") || strings.Contains(s, " ns")
	}
	var walk func(n ast.Node)
	walk = func(n ast.Node) {
		ast.Inspect(n, func(m ast.Node) bool {
			switch x := m.(type) {
			case *ast.FuncLit:
				return false
			case *ast.IfStmt:
				c := norm(x.Cond)
				if skipCond != "" && c == skipCond {
					// the parser's skip mode has no counterpart in the traverser: only the else branch is compared
					if x.Else != nil {
						walk(x.Else)
					}
					return false
				}
				// a condition is compared conjunct by conjunct: conjuncts that look at the input are
				// kept, conjuncts over the reader's own resume state (the parser's `ret.Len() == 0`:
				// "no child read yet" - the traverser is never resumed inside a container, its
				// empty-container test runs once, before the loop) have no counterpart
				var parts []string
				for _, cj := range conjuncts(x.Cond) {
					if cs := norm(cj); inputDep(cs + " ") {
						parts = append(parts, cs)
					}
				}
				if len(parts) > 0 {
					gv.ifs = append(gv.ifs, strings.Join(parts, " && "))
				}
				_ = c
			case *ast.SwitchStmt:
				if x.Tag == nil {
					return true
				}
				tag := norm(x.Tag)
				var labels []string
				for _, cc := range x.Body.List {
					cl := cc.(*ast.CaseClause)
					if cl.List == nil {
						labels = append(labels, "default")
					}
					for _, e := range cl.List {
						labels = append(labels, norm(e))
					}
				}
				sort.Strings(labels)
				gv.switches[tag] = labels
				gv.tags = append(gv.tags, tag)
			}
			return true
		})
	}
	walk(body)
	return gv
}

func init() {
	register(&core.Rule{ID: "S4", Min: 3,
		Doc: "Sibling parity of the two recursive-descent readers in package ast: for (Parser.Parse, traverser.decodeValue), (Parser.decodeArray, traverser.decodeArray) and (Parser.decodeObject, traverser.decodeObject) the switches over the token type / delimiter byte have the same case sets, and (array/object) the input-dependent conditions (over self.p, self.s, ns, njs; the parser's skip-mode branch and conjuncts over its resume state excluded) form the same sequence, so ast.Preorder accepts and delimits exactly what the parser does.",
		Run: runS4})
}

func runS4(c *core.Ctx) {
	pk := c.Prog.Pkg("ast")
	for _, pr := range parityPairs {
		cn := "parity:Parser." + pr.parserFn + "~traverser." + pr.travFn
		a := core.FuncDecl(pk, "Parser", pr.parserFn)
		b := core.FuncDecl(pk, "traverser", pr.travFn)
		if a == nil || b == nil || a.Body == nil || b.Body == nil {
			c.Undecided(cn, token.NoPos, "function not found")
			continue
		}
		c.Analysed(core.FuncName(pk, a))
		c.Analysed(core.FuncName(pk, b))
		ga := grammarOf(a.Body, "self.skipValue", roleNames(c.Prog, a))
		gb := grammarOf(b.Body, "", roleNames(c.Prog, b))
		var diffs []string
		// switches: every switch of the parser has a same-tag switch in the traverser with equal case sets
		for _, tag := range ga.tags {
			la, lb := ga.switches[tag], gb.switches[tag]
			if lb == nil {
				diffs = append(diffs, "traverser has no `switch "+tag+"`")
				continue
			}
			if strings.Join(la, "|") != strings.Join(lb, "|") {
				diffs = append(diffs, "`switch "+tag+"`: parser cases {"+strings.Join(la, ", ")+"} vs traverser cases {"+strings.Join(lb, ", ")+"}")
			}
		}
		if len(ga.tags) == 0 {
			diffs = append(diffs, "no switch found in the parser function")
		}
		if pr.parserFn != "Parse" {
			if strings.Join(ga.ifs, " ; ") != strings.Join(gb.ifs, " ; ") {
				diffs = append(diffs, "input-dependent conditions differ: parser ["+strings.Join(ga.ifs, " ; ")+"] vs traverser ["+strings.Join(gb.ifs, " ; ")+"]")
			}
		}
		if len(diffs) > 0 {
			c.Bad(cn, b.Pos(), "%s", strings.Join(diffs, "; "))
		} else {
			c.OK(cn, b.Pos(), "%d switch(es) with equal case sets, %d input-dependent conditions in the same order", len(ga.tags), len(ga.ifs))
		}
	}
}
