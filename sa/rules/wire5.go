package rules

import (
	"go/ast"
	"go/token"
	"go/types"
	"sort"
	"strings"

	"verif/sa/core"
)

// W5: consumer parity. For every canonical option bit, the set of functions
// that *consume* it (reference it, or one of its aliases, outside constant
// declarations, setters and Froze) must contain the frozen row.

// bit -> required consumer functions (core.FuncName form). Confirmed by reading.
var consumerTable = map[string][]string{
	// encoder
	"BitSortMapKeys":             {"internal/encoder/alg.IteratorStart", "internal/encoder/x86.(Assembler)._asm_OP_map_write_key", "internal/encoder/vm.Execute"},
	"BitEscapeHTML":              {"internal/encoder.encodeFinish", "internal/encoder.encodeFinishWithPool"},
	"BitCompactMarshaler":        {"internal/encoder/prim.EncodeJsonMarshaler"},
	"BitNoQuoteTextMarshaler":    {"internal/encoder/prim.EncodeTextMarshaler"},
	"BitNoNullSliceOrMap":        {"internal/encoder/x86.(Assembler)._asm_OP_empty_arr", "internal/encoder/x86.(Assembler)._asm_OP_empty_obj", "internal/encoder/vm.Execute"},
	"BitValidateString":          {"internal/encoder.encodeFinish", "internal/encoder.encodeFinishWithPool"},
	"BitNoValidateJSONMarshaler": {"internal/encoder/prim.EncodeJsonMarshaler"},
	"BitNoEncoderNewline":        {"internal/encoder.(StreamEncoder).Encode"},
	"BitEncodeNullForInfOrNan":   {"internal/encoder/x86.(Assembler)._asm_OP_f32", "internal/encoder/x86.(Assembler)._asm_OP_f64", "internal/encoder/vm.Execute"},
	"BitPointerValue":            {"internal/encoder/x86.(Assembler)._asm_OP_recurse", "internal/encoder/x86.EncodeTypedPointer", "internal/encoder/vm.Execute", "internal/encoder/vm.EncodeTypedPointer"},
	// decoder
	"F_use_int64":       {"internal/decoder/jitdec.(_ValueDecoder).compile", "internal/decoder/optdec.(Node).AsEfaceFallback", "internal/decoder/optdec.canUseFastMap"},
	"F_use_number":      {"internal/decoder/jitdec.(_ValueDecoder).compile", "internal/decoder/optdec.(Node).AsEfaceFallback", "internal/decoder/optdec.(Parser).parse", "internal/decoder/optdec.NewContext"},
	"F_disable_urc":     {"internal/decoder/jitdec.(_Assembler).escape_string", "internal/decoder/jitdec.(_Assembler).escape_string_twice", "internal/decoder/jitdec.(_ValueDecoder).compile"},
	"F_disable_unknown": {"internal/decoder/jitdec.(_Assembler)._asm_OP_struct_field", "internal/decoder/jitdec.(_Assembler)._asm_OP_skip_empty", "internal/decoder/optdec.(structDecoder).FromDom"},
	"F_copy_string":     {"internal/decoder/jitdec.(_Assembler).unquote_once", "internal/decoder/jitdec.(_Assembler).unquote_twice", "internal/decoder/jitdec.(_Assembler)._asm_OP_num", "internal/decoder/jitdec.(_ValueDecoder).compile", "internal/decoder/optdec.(Node).AsStr", "internal/decoder/optdec.canUseFastMap"},
	"F_validate_string": {"internal/decoder/jitdec.Decode", "internal/decoder/optdec.newParser"},
	"F_case_sensitive":  {"internal/decoder/jitdec.(_Assembler)._asm_OP_struct_field", "internal/decoder/optdec.(structDecoder).FromDom"},
	"F_allow_control":   {"internal/decoder/jitdec.(_ValueDecoder).compile"},
}

func init() {
	register(&core.Rule{ID: "W5e", Min: 20,
		Doc: "W5 restricted to the encoder option word (alg.Bit*): each bit keeps its consumers in the x86 emitter, the VM and the shared primitives, and every bit tested by one executor is tested by the other.",
		Run: func(c *core.Ctx) { runW5f(c, "Bit") }})
	register(&core.Rule{ID: "W5d", Min: 20,
		Doc: "W5 restricted to the decoder option word (consts.F_*): each bit keeps its consumers in jitdec and optdec, and every bit tested by one decoder implementation is tested by the other.",
		Run: func(c *core.Ctx) { runW5f(c, "F_") }})
	register(&core.Rule{ID: "W5", Min: 40,
		Doc: "Consumer parity: for every canonical option bit, each consumer function of the frozen table (x86 emitter handler, VM arm, shared Go primitive or post-pass, in both executors of the same IR) still references that bit (by object, through aliases), itself or in a helper it calls (two levels). A consumer that disappears or is re-pointed to another bit is a dropped/crossed wire below the API layer.",
		Run: runW5})
}

// bitUses returns bitName -> funcName -> positions.
func bitUses(c *core.Ctx) map[string]map[string][]token.Pos {
	p := c.Prog
	bf := bitFamily{p}
	out := map[string]map[string][]token.Pos{}
	for _, pk := range p.Pkgs {
		for _, f := range pk.Syntax {
			for _, d := range f.Decls {
				fd, ok := d.(*ast.FuncDecl)
				if !ok || fd.Body == nil {
					continue
				}
				fn := core.FuncName(pk, fd)
				ast.Inspect(fd.Body, func(n ast.Node) bool {
					var e ast.Expr
					switch x := n.(type) {
					case *ast.SelectorExpr:
						e = x
					case *ast.Ident:
						e = x
					default:
						return true
					}
					o := p.ExprObj(e)
					k, ok := o.(*types.Const)
					if !ok || !core.IsSonic(k.Pkg()) {
						return true
					}
					bits, _, ok := bf.bitsOf(e, 0)
					if !ok || len(bits) != 1 {
						return true
					}
					b := bits[0].Name()
					if out[b] == nil {
						out[b] = map[string][]token.Pos{}
					}
					out[b][fn] = append(out[b][fn], e.Pos())
					_, isSel := n.(*ast.SelectorExpr)
					return !isSel
				})
			}
		}
	}
	return out
}

func runW5(c *core.Ctx) { runW5f(c, "") }

// runW5f evaluates W5 restricted to bits whose name starts with prefix ("Bit": encoder word, "F_": decoder word).
func runW5f(c *core.Ctx, prefix string) {
	uses := bitUses(c)
	if prefix != "" {
		f := map[string]map[string][]token.Pos{}
		for b, m := range uses {
			if strings.HasPrefix(b, prefix) {
				f[b] = m
			}
		}
		uses = f
	}
	var bits []string
	for b := range consumerTable {
		bits = append(bits, b)
	}
	sort.Strings(bits)
	for _, b := range bits {
		if !strings.HasPrefix(b, prefix) {
			continue
		}
		for _, fn := range consumerTable[b] {
			cn := b + "@" + fn
			ps := uses[b][fn]
			via := ""
			if len(ps) == 0 {
				// the reference may sit in a helper the consumer calls (two levels): moving the
				// test into a shared helper does not drop the wire
				for _, callee := range calleeClosure(c.Prog, fn, 2) {
					if q := uses[b][callee]; len(q) > 0 {
						ps, via = q, callee
						break
					}
				}
			}
			if len(ps) > 0 {
				c.Analysed(fn)
				if via != "" {
					c.OK(cn, ps[0], "consumes %s through its helper %s", b, via)
				} else {
					c.OK(cn, ps[0], "consumes %s (%d reference(s))", b, len(ps))
				}
			} else {
				var have []string
				for f := range uses[b] {
					have = append(have, f)
				}
				sort.Strings(have)
				c.Bad(cn, token.NoPos, "%s no longer references option bit %s (remaining consumers: %s)", fn, b, strings.Join(have, ", "))
			}
		}
	}
	// executor parity: a bit consumed by one executor of an IR must be consumed by its sibling.
	inPkg := func(b, rel string) (token.Pos, bool) {
		for f, ps := range uses[b] {
			if strings.HasPrefix(f, rel+".") {
				return ps[0], true
			}
		}
		return token.NoPos, false
	}
	for _, b := range []string{"F_use_int64", "F_use_number", "F_disable_urc", "F_disable_unknown", "F_copy_string", "F_validate_string", "F_case_sensitive"} {
		if !strings.HasPrefix(b, prefix) {
			continue
		}
		for _, rel := range []string{"internal/decoder/jitdec", "internal/decoder/optdec"} {
			pos, ok := inPkg(b, rel)
			if ok {
				c.OK(b+"@"+rel, pos, "executor %s consumes %s", rel, b)
			} else {
				c.Bad(b+"@"+rel, token.NoPos, "decoder implementation %s never tests option bit %s although its sibling does: the option has no effect under this implementation", rel, b)
			}
		}
	}
	for _, b := range []string{"BitSortMapKeys", "BitNoNullSliceOrMap", "BitEncodeNullForInfOrNan", "BitPointerValue"} {
		if !strings.HasPrefix(b, prefix) {
			continue
		}
		for _, rel := range []string{"internal/encoder/x86", "internal/encoder/vm"} {
			pos, ok := inPkg(b, rel)
			if ok {
				c.OK(b+"@"+rel, pos, "executor %s consumes %s", rel, b)
			} else {
				c.Bad(b+"@"+rel, token.NoPos, "encoder executor %s never tests option bit %s although its sibling does", rel, b)
			}
		}
	}
	// every canonical bit must be in the table
	for b := range uses {
		if _, ok := consumerTable[b]; !ok && b != "F_no_validate_json" {
			c.Bad(b+"@<table>", token.NoPos, "option bit %s has consumers but no row in the consumer table", b)
		}
	}
}

func init() {
	register(&core.Rule{ID: "W7", Min: 40,
		Doc: "Bit index vs mask: every use of a canonical option-bit *position* (alg.Bit*, consts.F_* and their aliases that were not shifted) is a shift count (1 << bit), the argument of has_opts, or the jit.Imm operand of a bit-test instruction (BTQ/BTSQ/BTRQ); a position used directly as an operand of & | &^ tests the wrong bits.",
		Run: runW7})
}

func runW7(c *core.Ctx) {
	p := c.Prog
	bf := bitFamily{p}
	for _, pk := range p.Pkgs {
		for _, f := range pk.Syntax {
			for _, d := range f.Decls {
				fd, ok := d.(*ast.FuncDecl)
				if !ok || fd.Body == nil {
					continue
				}
				fn := core.FuncName(pk, fd)
				// parent map
				parents := map[ast.Node]ast.Node{}
				var stack []ast.Node
				ast.Inspect(fd.Body, func(n ast.Node) bool {
					if n == nil {
						stack = stack[:len(stack)-1]
						return true
					}
					if len(stack) > 0 {
						parents[n] = stack[len(stack)-1]
					}
					stack = append(stack, n)
					return true
				})
				k := 0
				ast.Inspect(fd.Body, func(n ast.Node) bool {
					var e ast.Expr
					switch x := n.(type) {
					case *ast.SelectorExpr:
						e = x
					case *ast.Ident:
						e = x
					default:
						return true
					}
					kobj, ok := p.ExprObj(e).(*types.Const)
					if !ok || !core.IsSonic(kobj.Pkg()) {
						return true
					}
					bits, shifted, ok := bf.bitsOf(e, 0)
					if !ok || len(bits) != 1 || shifted {
						_, isSel := n.(*ast.SelectorExpr)
						return !isSel
					}
					// e denotes a bit position. classify its context.
					k++
					cn := fn + "/bitpos#" + itoa(k) + ":" + bits[0].Name()
					var par ast.Node = parents[n]
					for {
						if pe, ok := par.(*ast.ParenExpr); ok {
							par = parents[pe]
							continue
						}
						if ce, ok := par.(*ast.CallExpr); ok && len(ce.Args) == 1 && ce.Args[0] == e {
							// conversion int64(bit)/uint64(bit)
							if tv := p.TypeOf(ce.Fun); tv != nil {
								if _, isSig := tv.Underlying().(*types.Signature); !isSig {
									e = ce
									par = parents[ce]
									continue
								}
							}
						}
						break
					}
					verdict := ""
					switch x := par.(type) {
					case *ast.BinaryExpr:
						switch {
						case x.Op == token.SHL && ast.Unparen(x.Y) == e || x.Op == token.SHL && containsExpr(x.Y, e):
							verdict = "ok"
						case x.Op == token.AND || x.Op == token.OR || x.Op == token.AND_NOT || x.Op == token.XOR:
							verdict = "bit position " + bits[0].Name() + " is used directly as an operand of `" + x.Op.String() + "` (as if it were the mask 1<<" + bits[0].Name() + "): the test reads unrelated option bits"
						default:
							verdict = "ok"
						}
					case *ast.AssignStmt:
						switch x.Tok {
						case token.OR_ASSIGN, token.AND_ASSIGN, token.AND_NOT_ASSIGN, token.XOR_ASSIGN:
							verdict = "bit position " + bits[0].Name() + " is used directly in `" + x.Tok.String() + "`"
						default:
							verdict = "ok"
						}
					case *ast.CallExpr:
						verdict = "ok" // has_opts(flags, bit), jit.Imm(bit)
					default:
						verdict = "ok"
					}
					if verdict == "ok" {
						c.OK(cn, e.Pos(), "used as a bit position")
					} else {
						c.Bad(cn, e.Pos(), "%s", verdict)
					}
					_, isSel := n.(*ast.SelectorExpr)
					return !isSel
				})
			}
		}
	}
}

func containsExpr(root ast.Expr, e ast.Expr) bool {
	f := false
	ast.Inspect(root, func(n ast.Node) bool {
		if n == ast.Node(e) {
			f = true
		}
		return !f
	})
	return f
}

// calleeClosure lists the sonic functions fn calls, directly or through depth levels of callees.
func calleeClosure(p *core.Program, fn string, depth int) []string {
	idx, ok := p.Cache["funcdecl-index"].(map[string]*funcRef)
	if !ok {
		idx = map[string]*funcRef{}
		for _, pk := range p.Pkgs {
			for _, fd := range core.FuncDecls(pk) {
				if fd.Body != nil {
					idx[core.FuncName(pk, fd)] = &funcRef{pk.PkgPath, fd}
				}
			}
		}
		if p.Cache == nil {
			p.Cache = map[string]interface{}{}
		}
		p.Cache["funcdecl-index"] = idx
	}
	byObj, ok := p.Cache["funcdecl-byobj"].(map[types.Object]string)
	if !ok {
		byObj = map[types.Object]string{}
		for name, r := range idx {
			if o := p.ObjectOf(r.fd.Name); o != nil {
				byObj[o] = name
			}
		}
		p.Cache["funcdecl-byobj"] = byObj
	}
	seen := map[string]bool{fn: true}
	var out []string
	frontier := []string{fn}
	for d := 0; d < depth; d++ {
		var next []string
		for _, f := range frontier {
			r := idx[f]
			if r == nil {
				continue
			}
			ast.Inspect(r.fd.Body, func(n ast.Node) bool {
				if call, ok := n.(*ast.CallExpr); ok {
					if o := p.Callee(call); o != nil {
						if name, ok := byObj[o]; ok && !seen[name] {
							seen[name] = true
							out = append(out, name)
							next = append(next, name)
						}
					}
				}
				return true
			})
		}
		frontier = next
	}
	sort.Strings(out)
	return out
}

type funcRef struct {
	pkg string
	fd  *ast.FuncDecl
}
