package rules

import (
	"go/ast"
	"go/constant"
	"go/token"
	"go/types"
	"strings"

	"verif/sa/core"
)

// S22: what counts as a blank. JSON whitespace is exactly space, \t, \n, \r. The Go-level
// scanners (stream decoder, ast, trailing-character checks) test it with the mask helpers
// (utils.IsSpace, isSpace, types.SPACE_MASK). A range test `c <= ' '` is not equivalent: it
// also steps over NUL, \v, \f and the other control bytes, so garbage between values is
// accepted silently.

func init() {
	register(&core.Rule{ID: "S22", Min: 4, Arm64: true,
		Doc: "Blank tests of the Go-level scanners (packages internal/decoder/api, internal/decoder/optdec, ast, decoder, internal/utils and the root package; non-test files): every use of the mask helpers (utils.IsSpace, ast.isSpace, types.SPACE_MASK) is recorded, and no ordered comparison (<, <=, >, >=) of a byte-typed operand with the constant ' ' (0x20) or 0x21 occurs in these packages: such a range test classifies every control byte as whitespace; unicode.IsSpace is rejected for the same reason (it also accepts \\v, \\f, U+0085, U+00A0, U+2028 ...).",
		Run: runS22})
}

func runS22(c *core.Ctx) {
	p := c.Prog
	scope := map[string]bool{"internal/encoder/alg": true, "internal/decoder/api": true, "internal/decoder/optdec": true, "ast": true, "decoder": true, "internal/utils": true, "": true}
	n := 0
	for _, pk := range p.Pkgs {
		if !scope[core.Rel(pk.PkgPath)] {
			continue
		}
		for _, f := range pk.Syntax {
			if strings.HasSuffix(p.Fset.Position(f.Pos()).Filename, "_test.go") {
				continue
			}
			for _, d := range f.Decls {
				fd, ok := d.(*ast.FuncDecl)
				if !ok || fd.Body == nil {
					continue
				}
				fn := core.FuncName(pk, fd)
				masks, k := 0, 0
				ast.Inspect(fd.Body, func(nd ast.Node) bool {
					switch x := nd.(type) {
					case *ast.Ident:
						if o := p.ObjectOf(x); o != nil && p.IsUse(x) {
							if o.Pkg() != nil && o.Pkg().Path() == "unicode" && (o.Name() == "IsSpace" || o.Name() == "White_Space") {
								k++
								n++
								c.Analysed(fn)
								c.Bad(fn+"/blank-unicode-test#"+itoa(k), x.Pos(), "unicode.%s is wider than JSON whitespace: \\v, \\f, U+0085, U+00A0, U+2028 ... are stepped over as blanks, so bytes that encoding/json rejects after (or between) values are accepted", o.Name())
								return true
							}
							switch o.Name() {
							case "IsSpace", "isSpace", "SPACE_MASK":
								masks++
							}
						}
					case *ast.BinaryExpr:
						// `1 << (c & 63)`: masking the shift count folds bytes >= 64 onto the blanks
						if x.Op == token.SHL {
							if cnt, ok := ast.Unparen(x.Y).(*ast.BinaryExpr); ok && (cnt.Op == token.AND || cnt.Op == token.REM) {
								if v, isC := p.ConstInt(cnt.Y); isC && (v == 63 || v == 64) {
									k++
									n++
									c.Analysed(fn)
									c.Bad(fn+"/blank-mask-shift#"+itoa(k), x.Pos(), "`%s` masks the shift count of a bit-mask test: a shift by 64 or more yields 0 in Go, which is what rejects bytes >= 64; with the count reduced modulo 64, 'I', 'J', 'M', '`', 0x89 ... test like \\t, \\n, \\r and space", exprStr(x))
								}
							}
							return true
						}
						switch x.Op {
						case token.LSS, token.LEQ, token.GTR, token.GEQ:
						default:
							return true
						}
						for _, pr := range [][2]ast.Expr{{x.X, x.Y}, {x.Y, x.X}} {
							tv, ok := pk.TypesInfo.Types[pr[1]]
							if !ok || tv.Value == nil || tv.Value.Kind() != constant.Int {
								continue
							}
							v, exact := constant.Int64Val(tv.Value)
							if !exact || (v != 0x20 && v != 0x21) {
								continue
							}
							t := pk.TypesInfo.TypeOf(pr[0])
							if t == nil {
								continue
							}
							b, ok := t.Underlying().(*types.Basic)
							if !ok || (b.Kind() != types.Uint8 && b.Kind() != types.Int32 && b.Kind() != types.UntypedRune) {
								continue
							}
							if otv := pk.TypesInfo.Types[pr[0]]; otv.Value != nil {
								continue
							}
							k++
							n++
							c.Analysed(fn)
							c.Bad(fn+"/blank-range-test#"+itoa(k), x.Pos(), "`%s` classifies a byte by range: every control byte (NUL, \\v, \\f, ...) passes as whitespace, while JSON allows only space, \\t, \\n and \\r (use the mask helper)", exprStr(x))
						}
					}
					return true
				})
				if masks > 0 {
					n++
					c.Analysed(fn)
					c.OK(fn+"/blank-test", fd.Pos(), "%d blank test(s) through the whitespace mask", masks)
				}
			}
		}
	}
	if n == 0 {
		c.Undecided("blank-tests", token.NoPos, "no blank test found in the Go-level scanners")
	}
}
