package rules

import (
	"go/ast"
	"go/token"
	"go/types"
	"strings"

	"verif/sa/core"
)

// Rules written from the defects of the sixth round (each is the structural condition whose
// absence was the defect; see DESIGN.md §6 F-65 ... F-68).

func init() {
	register(&core.Rule{ID: "G8", Min: 1, Arm64: true,
		Doc: "The nil guard of a non-empty interface tests the interface, not its data word: in encoder.compileInterface the instruction emitted immediately before OP_iface is OP_is_nil (word 0, the itab); OP_is_nil_p1 (word 1) also fires for a non-nil interface whose dynamic value is a zero pointer-shaped word (nil map of a named type, struct of one nil pointer), which must be encoded by its own rules, not as null.",
		Run: runG8})
	register(&core.Rule{ID: "U9", Min: 1, Arm64: true,
		Doc: "ast.(*Node).Move validates both positions against the logical length (`< 0` and `>= len()`, returning) before the loop that translates them to physical slots: an unvalidated position that the loop cannot resolve is used as a physical slot.",
		Run: runU9})
	register(&core.Rule{ID: "X8", Min: 1, Arm64: true,
		Doc: "Mutators of package ast that append when a lookup found nothing: wherever the result p of self.Get / self.Index is tested with `!p.Exists()` and the branch pushes into the container (Push / Add on the pair or node table), an earlier statement tests p for being an error node (`p.t == V_ERROR`, p.Check()) and returns: Exists() is false for an error node too, and after a syntax error the node is still lazy, so its parser stack would be taken for the table.",
		Run: runX8})
	register(&core.Rule{ID: "D5", Min: 2, Arm64: true,
		Doc: "The alternative decoder never parses in its source text: in optdec.newParser every assignment of Parser.start takes the address of Parser.padded (the scratch copy in which the native parser unescapes strings in place), and Parser.JsonBytes returns Parser.padded on every path; Parser.Json, which raw values are re-read from, stays intact.",
		Run: runD5})
}

func runG8(c *core.Ctx) {
	p := c.Prog
	pk := p.Pkg("internal/encoder")
	fd := core.FuncDecl(pk, "Compiler", "compileInterface")
	cn := "internal/encoder.(Compiler).compileInterface/nil-guard"
	if fd == nil || fd.Body == nil {
		c.Undecided(cn, token.NoPos, "not found")
		return
	}
	c.Analysed(core.FuncName(pk, fd))
	var ops []string
	var poss []token.Pos
	ast.Inspect(fd.Body, func(n ast.Node) bool {
		if call, ok := n.(*ast.CallExpr); ok && len(call.Args) >= 1 {
			if se, ok := call.Fun.(*ast.SelectorExpr); ok && se.Sel.Name == "Add" {
				ops = append(ops, exprStr(call.Args[0]))
				poss = append(poss, call.Pos())
			}
		}
		return true
	})
	for i, o := range ops {
		if strings.HasSuffix(o, "OP_iface") {
			if i == 0 {
				c.Bad(cn, poss[i], "OP_iface is emitted without a preceding nil guard")
				return
			}
			prev := ops[i-1]
			c.Check(strings.HasSuffix(prev, "OP_is_nil"), cn, poss[i-1], "OP_iface is guarded by OP_is_nil (the itab word)",
				"OP_iface is guarded by "+prev+": that tests the data word, so a non-nil interface holding a zero pointer-shaped value (nil named map with its own MarshalJSON, struct{*T}{}) is written as null and a nil func in the interface is accepted instead of being an unsupported type")
			return
		}
	}
	c.Undecided(cn, fd.Pos(), "OP_iface is not emitted here")
}

func runU9(c *core.Ctx) {
	p := c.Prog
	pk := p.Pkg("ast")
	fd := core.FuncDecl(pk, "Node", "Move")
	cn := "ast.(Node).Move/positions-validated"
	if fd == nil || fd.Body == nil {
		c.Undecided(cn, token.NoPos, "not found")
		return
	}
	c.Analysed(core.FuncName(pk, fd))
	var params []string
	for _, fl := range fd.Type.Params.List {
		for _, nm := range fl.Names {
			params = append(params, nm.Name)
		}
	}
	loopPos := token.NoPos
	ast.Inspect(fd.Body, func(n ast.Node) bool {
		if fs, ok := n.(*ast.ForStmt); ok && loopPos == token.NoPos {
			loopPos = fs.Pos()
		}
		return true
	})
	if loopPos == token.NoPos {
		c.OK(cn, fd.Pos(), "no slot-translation loop")
		return
	}
	ok := map[string][2]bool{}
	ast.Inspect(fd.Body, func(n ast.Node) bool {
		is, isIf := n.(*ast.IfStmt)
		if !isIf || is.Pos() >= loopPos {
			return true
		}
		returns := false
		for _, st := range is.Body.List {
			if _, r := st.(*ast.ReturnStmt); r {
				returns = true
			}
		}
		if !returns {
			return true
		}
		for _, cj := range disjuncts(is.Cond) {
			be, isB := cj.(*ast.BinaryExpr)
			if !isB {
				continue
			}
			for _, pn := range params {
				if exprStr(be.X) == pn {
					v := ok[pn]
					if be.Op == token.LSS && exprStr(be.Y) == "0" {
						v[0] = true
					}
					if be.Op == token.GEQ {
						v[1] = true
					}
					ok[pn] = v
				}
			}
		}
		return true
	})
	var missing []string
	for _, pn := range params {
		if v := ok[pn]; !v[0] || !v[1] {
			missing = append(missing, pn)
		}
	}
	if len(missing) == 0 {
		c.OK(cn, fd.Pos(), "%s are checked against 0 and the length before the translation loop", strings.Join(params, ", "))
	} else {
		c.Bad(cn, loopPos, "%s reach the slot-translation loop unvalidated: with an unset slot present, a position one past the end (or -1) is not resolved by the loop and is then used as a physical slot - Move(2,0) on the two visible elements of [a,_,c] swaps them, the same call on a freshly parsed [a,c] does nothing", strings.Join(missing, ", "))
	}
}

func disjuncts(e ast.Expr) []ast.Expr {
	e = ast.Unparen(e)
	if be, ok := e.(*ast.BinaryExpr); ok && be.Op == token.LOR {
		return append(disjuncts(be.X), disjuncts(be.Y)...)
	}
	return []ast.Expr{e}
}

func runX8(c *core.Ctx) {
	p := c.Prog
	pk := p.Pkg("ast")
	n := 0
	for _, fd := range core.FuncDecls(pk) {
		if fd.Body == nil || core.RecvName(fd) != "Node" {
			continue
		}
		fn := core.FuncName(pk, fd)
		ast.Inspect(fd.Body, func(nd ast.Node) bool {
			is, ok := nd.(*ast.IfStmt)
			if !ok {
				return true
			}
			ue, ok := ast.Unparen(is.Cond).(*ast.UnaryExpr)
			if !ok || ue.Op != token.NOT {
				return true
			}
			call, ok := ue.X.(*ast.CallExpr)
			if !ok {
				return true
			}
			se, ok := call.Fun.(*ast.SelectorExpr)
			if !ok || se.Sel.Name != "Exists" {
				return true
			}
			v := exprStr(se.X)
			pushes := false
			ast.Inspect(is.Body, func(x ast.Node) bool {
				if cl, ok := x.(*ast.CallExpr); ok {
					if s2, ok := cl.Fun.(*ast.SelectorExpr); ok && (s2.Sel.Name == "Push" || s2.Sel.Name == "Add") {
						pushes = true
					}
				}
				return true
			})
			if !pushes {
				return true
			}
			n++
			c.Analysed(fn)
			cn := fn + "/append-after-miss(" + v + ")"
			guarded := false
			ast.Inspect(fd.Body, func(x ast.Node) bool {
				g, ok := x.(*ast.IfStmt)
				if !ok || g.Pos() >= is.Pos() {
					return true
				}
				cs := exprStr(g.Cond)
				if (strings.Contains(cs, v+".t == V_ERROR") || strings.Contains(cs, v+".Check()")) && len(g.Body.List) > 0 {
					if _, r := g.Body.List[len(g.Body.List)-1].(*ast.ReturnStmt); r {
						guarded = true
					}
				}
				return true
			})
			c.Check(guarded, cn, is.Pos(), "an error node is reported before the append arm", "`!"+v+".Exists()` is also true when the lookup ran into a syntax error (an error node): the append arm then treats the still-lazy node as fully loaded and takes its parser stack for the table - Set on `{\"a\":1` crashes instead of returning the error")
			return true
		})
	}
	if n == 0 {
		c.Undecided("ast/append-after-miss", token.NoPos, "no mutator appends under !Exists()")
	}
}

func runD5(c *core.Ctx) {
	p := c.Prog
	pk := p.Pkg("internal/decoder/optdec")
	np := core.FuncDecl(pk, "", "newParser")
	cn := "internal/decoder/optdec.newParser/parse-buffer"
	if np == nil || np.Body == nil {
		c.Undecided(cn, token.NoPos, "not found")
	} else {
		c.Analysed(core.FuncName(pk, np))
		sites, bad := 0, token.NoPos
		ast.Inspect(np.Body, func(n ast.Node) bool {
			as, ok := n.(*ast.AssignStmt)
			if !ok || len(as.Lhs) != 1 || len(as.Rhs) != 1 {
				return true
			}
			if se, ok := as.Lhs[0].(*ast.SelectorExpr); !ok || se.Sel.Name != "start" {
				return true
			}
			sites++
			if !strings.Contains(exprStr(as.Rhs[0]), ".padded") && bad == token.NoPos {
				bad = as.Pos()
			}
			return true
		})
		switch {
		case sites == 0:
			c.Undecided(cn, np.Pos(), "Parser.start is not assigned")
		case bad != token.NoPos:
			c.Bad(cn, bad, "Parser.start is pointed at memory other than Parser.padded: the native parser unescapes strings in place, so parsing inside the source text (Parser.Json) damages what json.RawMessage, json.Unmarshaler and generic map keys re-read from it")
		default:
			c.OK(cn, np.Pos(), "the parse buffer is Parser.padded (%d assignment(s) of start)", sites)
		}
	}
	jb := core.FuncDecl(pk, "Parser", "JsonBytes")
	cn2 := "internal/decoder/optdec.(Parser).JsonBytes/parse-buffer"
	if jb == nil || jb.Body == nil {
		c.Undecided(cn2, token.NoPos, "not found")
		return
	}
	c.Analysed(core.FuncName(pk, jb))
	bad := token.NoPos
	rets := 0
	ast.Inspect(jb.Body, func(n ast.Node) bool {
		if r, ok := n.(*ast.ReturnStmt); ok && len(r.Results) == 1 {
			rets++
			if !strings.HasSuffix(exprStr(r.Results[0]), ".padded") && bad == token.NoPos {
				bad = r.Pos()
			}
		}
		return true
	})
	if bad != token.NoPos {
		c.Bad(cn2, bad, "JsonBytes returns something else than Parser.padded on some path: escaped strings are then read from a buffer the parser did not unescape (or from the source it damaged)")
	} else {
		c.OK(cn2, jb.Pos(), "JsonBytes returns Parser.padded (%d return(s))", rets)
	}
}

// L9: a rebuilt option struct keeps every option. Copying an options value field by field
// (`SearchOptions{ValidateJSON: self.ValidateJSON, CopyReturn: true}`) silently resets the fields
// that are not listed - for the searcher that is ConcurrentRead, without which the node handed
// out has no mutex although the caller asked for one.

func init() {
	register(&core.Rule{ID: "L9", Min: 0, Arm64: true,
		Doc: "Option structs of package ast (struct types whose name ends in Options) are not rebuilt partially: a keyed composite literal of such a type in which some field is copied from the same field of another value (`F: x.F`) lists every field of the struct; the fields it leaves out are reset to their zero value (ConcurrentRead dropped by a copying GetByPathCopy makes concurrent readers race on an unlocked raw node). Literals that copy nothing (fresh defaults) are not concerned; the number of option literals examined is recorded.",
		Run: runL9})
}

func runL9(c *core.Ctx) {
	p := c.Prog
	pk := p.Pkg("ast")
	n := 0
	for _, fd := range core.FuncDecls(pk) {
		if fd.Body == nil {
			continue
		}
		fn := core.FuncName(pk, fd)
		k := 0
		ast.Inspect(fd.Body, func(nd ast.Node) bool {
			cl, ok := nd.(*ast.CompositeLit)
			if !ok || cl.Type == nil {
				return true
			}
			t := p.TypeOf(cl.Type)
			if t == nil {
				return true
			}
			nt, ok := t.(*types.Named)
			if !ok || !strings.HasSuffix(nt.Obj().Name(), "Options") {
				return true
			}
			st, ok := nt.Underlying().(*types.Struct)
			if !ok {
				return true
			}
			keys := map[string]bool{}
			copies := false
			for _, e := range cl.Elts {
				kv, ok := e.(*ast.KeyValueExpr)
				if !ok {
					return true // positional literal: the compiler demands every field
				}
				key := exprStr(kv.Key)
				keys[key] = true
				if se, ok := ast.Unparen(kv.Value).(*ast.SelectorExpr); ok && se.Sel.Name == key {
					copies = true
				}
			}
			n++
			if !copies {
				return true
			}
			k++
			c.Analysed(fn)
			cn := fn + "/rebuilt-options#" + itoa(k)
			var missing []string
			for i := 0; i < st.NumFields(); i++ {
				if !keys[st.Field(i).Name()] {
					missing = append(missing, st.Field(i).Name())
				}
			}
			if len(missing) == 0 {
				c.OK(cn, cl.Pos(), "%s is rebuilt with all %d fields", nt.Obj().Name(), st.NumFields())
			} else {
				c.Bad(cn, cl.Pos(), "%s is rebuilt from another value field by field but %s is left out and silently becomes false: with ConcurrentRead dropped the node handed out has no mutex, and concurrent first reads parse it in place", nt.Obj().Name(), strings.Join(missing, ", "))
			}
			return true
		})
	}
	if n == 0 {
		c.OK("ast/option-literals", token.NoPos, "no keyed option literal in package ast")
	} else {
		c.OK("ast/option-literals", token.NoPos, "%d keyed option literal(s) examined", n)
	}
}

// U10: the logical length of a Node is not recomputed from the physical length of its table in
// a mutator. linkedNodes / linkedPairs keep soft-deleted slots, so their Len() counts holes; the
// node's own length l does not. Only the functions that install a fresh table (set*/new*) may
// take l from the table.
//
// K15: a slice header is emptied as a whole. Setting Ptr = nil (and Len = 0) while Cap keeps
// its value leaves a header that claims capacity it does not have; the next user that checks
// `need > Cap` skips the allocation and writes through nil.

func init() {
	register(&core.Rule{ID: "U10", Min: 2, Arm64: true,
		Doc: "In package ast an assignment of a Node's length field l from the Len() of its node/pair table occurs only in functions that install a table (names starting with set or new); mutators that add or remove one element update l by one, because the table's Len() also counts soft-deleted slots.",
		Run: runU10})
	register(&core.Rule{ID: "K15", Min: 0, Arm64: true,
		Doc: "rt.GoSlice headers are emptied as a whole: in every block of non-test code that assigns nil to the Ptr field of a GoSlice value, the Cap field of the same value is assigned in that block too; a header with Ptr == nil and a stale Cap makes the next `count > Cap` test skip the allocation (the sorted map encoder then writes its first pair through nil).",
		Run: runK15})
}

func runU10(c *core.Ctx) {
	p := c.Prog
	pk := p.Pkg("ast")
	n := 0
	for _, fd := range core.FuncDecls(pk) {
		if fd.Body == nil {
			continue
		}
		fn := core.FuncName(pk, fd)
		k := 0
		ast.Inspect(fd.Body, func(nd ast.Node) bool {
			as, ok := nd.(*ast.AssignStmt)
			if !ok || len(as.Lhs) != 1 || len(as.Rhs) != 1 {
				return true
			}
			se, ok := as.Lhs[0].(*ast.SelectorExpr)
			if !ok || se.Sel.Name != "l" {
				return true
			}
			if t := p.TypeOf(se.X); t == nil || !strings.HasSuffix(types.TypeString(t, nil), "ast.Node") {
				return true
			}
			if !strings.Contains(exprStr(as.Rhs[0]), ".Len()") {
				return true
			}
			k++
			n++
			c.Analysed(fn)
			cn := fn + "/length-from-table#" + itoa(k)
			name := fd.Name.Name
			if strings.HasPrefix(name, "set") || strings.HasPrefix(name, "new") {
				c.OK(cn, as.Pos(), "%s installs the table and takes its length", name)
			} else {
				c.Bad(cn, as.Pos(), "%s recomputes the node's length from the table (%s): the table also counts unset slots, so after UnsetByIndex of a middle element followed by this call Len() is one too many and Index(i) behind the hole returns the deleted slot", name, exprStr(as.Rhs[0]))
			}
			return true
		})
	}
	if n == 0 {
		c.Undecided("ast/length-from-table", token.NoPos, "no assignment of Node.l from a table length found")
	}
}

func runK15(c *core.Ctx) {
	p := c.Prog
	n := 0
	for _, pk := range p.Pkgs {
		for _, fd := range core.FuncDecls(pk) {
			if fd.Body == nil || strings.HasSuffix(p.Fset.Position(fd.Pos()).Filename, "_test.go") {
				continue
			}
			fn := core.FuncName(pk, fd)
			k := 0
			ast.Inspect(fd.Body, func(nd ast.Node) bool {
				blk, ok := nd.(*ast.BlockStmt)
				if !ok {
					return true
				}
				nilPtr := map[string]token.Pos{}
				capSet := map[string]bool{}
				for _, st := range blk.List {
					as, ok := st.(*ast.AssignStmt)
					if !ok {
						continue
					}
					for i, l := range as.Lhs {
						se, ok := l.(*ast.SelectorExpr)
						if !ok {
							continue
						}
						t := p.TypeOf(se.X)
						if t == nil || !strings.HasSuffix(strings.TrimPrefix(types.TypeString(t, nil), "*"), "rt.GoSlice") {
							continue
						}
						base := exprStr(se.X)
						switch se.Sel.Name {
						case "Ptr":
							if i < len(as.Rhs) && exprStr(as.Rhs[i]) == "nil" {
								nilPtr[base] = as.Pos()
							}
						case "Cap":
							capSet[base] = true
						}
					}
				}
				for base, pos := range nilPtr {
					k++
					n++
					c.Analysed(fn)
					cn := fn + "/emptied-header#" + itoa(k)
					c.Check(capSet[base], cn, pos, "Ptr and Cap of "+base+" are reset together", base+".Ptr is set to nil while "+base+".Cap keeps its value: the next user that tests `count > Cap` believes the storage is there, skips the allocation and writes through the nil pointer")
				}
				return true
			})
		}
	}
	if n == 0 {
		c.OK("goslice/emptied-header", token.NoPos, "no GoSlice header is emptied by hand")
	}
}
