package rules

import (
	"go/ast"
	"go/constant"
	"go/token"
	"go/types"
	"sort"
	"strconv"
	"strings"

	"golang.org/x/tools/go/packages"

	"verif/sa/core"
)

// asm: abstract interpretation of the x86 emitters' source over the
// instruction sequence they would emit. Helper methods on the same receiver
// are inlined (bounded depth) with their constant arguments bound, so that
// `check_eof(4)` contributes `LEAQ 4(IC),AX; CMPQ AX,IL; JA _eof_error`.

type asmEnv map[types.Object]envVal

type envVal struct {
	isInt  bool
	i      int64
	isNil  bool // known nil
	nonNil bool // known non-nil
	isBool bool
	b      bool
	isStr  bool
	s      string
	isLen  bool         // a variadic parameter bound to i arguments
	sym    types.Object // a package-level symbol passed by name (e.g. _F_i64toa, _AX)
	opnd   *Operand     // an operand built at the call site (jit.Ptr(_VP, 8), ...)
	elts   []envVal     // isLen: the bound elements of a variadic parameter, when known
}

type asmSeq struct {
	Ops   []EmitOp
	Trunc bool // inlining bound reached somewhere
}

type asmCtx struct {
	p        *core.Program
	pk       *packages.Package
	recvType string
	em       emitModel
	maxPaths int
	cache    map[string][]asmSeq
	noInline map[string]bool // helpers kept as markers (summarised by the rule)
}

func newAsmCtx(p *core.Program, rel, recvType string) *asmCtx {
	a := &asmCtx{p: p, pk: p.Pkg(rel), recvType: recvType, em: emitModel{p}, maxPaths: 512, cache: map[string][]asmSeq{}}
	if rel == "internal/encoder/x86" {
		// buffer-management helpers of the encoder are summarised, not inlined: their loops and
		// growth paths multiply the sequences of every handler without adding facts any rule uses
		a.noInline = map[string]bool{"add_text": true, "store_str": true, "check_size": true, "check_size_r": true, "check_size_rl": true, "slice_grow_ax": true}
	}
	return a
}

// anyTrunc reports whether some sequence hit the inlining bound (the rule then has no verdict).
func anyTrunc(seqs []asmSeq) bool {
	for _, s := range seqs {
		if s.Trunc {
			return true
		}
	}
	return false
}

// evalIn evaluates an expression to a constant under env (ints, bools, nil-ness, strings).
func (a *asmCtx) evalIn(e ast.Expr, env asmEnv) (envVal, bool) {
	e = ast.Unparen(e)
	if v := a.p.ConstOf(e); v != nil {
		switch v.Kind() {
		case constant.Int:
			if i, ok := constant.Int64Val(v); ok {
				return envVal{isInt: true, i: i}, true
			}
		case constant.Bool:
			return envVal{isBool: true, b: constant.BoolVal(v)}, true
		case constant.String:
			return envVal{isStr: true, s: constant.StringVal(v)}, true
		}
	}
	switch x := e.(type) {
	case *ast.Ident:
		if x.Name == "nil" {
			return envVal{isNil: true}, true
		}
		if o := a.p.ObjectOf(x); o != nil {
			if v, ok := env[o]; ok {
				return v, true
			}
			if vv, ok := o.(*types.Var); ok && !vv.IsField() && vv.Parent() == vv.Pkg().Scope() {
				if _, isStruct := vv.Type().Underlying().(*types.Struct); isStruct {
					return envVal{sym: vv}, true // obj.Addr operands and function addresses
				}
				// package-level variables such as int16Type are initialised non-nil values
				if _, isPtrLike := vv.Type().Underlying().(*types.Interface); isPtrLike {
					return envVal{nonNil: true}, true
				}
				if _, isPtr := vv.Type().Underlying().(*types.Pointer); isPtr {
					return envVal{nonNil: true}, true
				}
			}
		}
	case *ast.BinaryExpr:
		l, lok := a.evalIn(x.X, env)
		r, rok := a.evalIn(x.Y, env)
		if lok && rok {
			switch {
			case l.isInt && r.isInt:
				switch x.Op {
				case token.ADD:
					return envVal{isInt: true, i: l.i + r.i}, true
				case token.SUB:
					return envVal{isInt: true, i: l.i - r.i}, true
				case token.MUL:
					return envVal{isInt: true, i: l.i * r.i}, true
				case token.EQL:
					return envVal{isBool: true, b: l.i == r.i}, true
				case token.NEQ:
					return envVal{isBool: true, b: l.i != r.i}, true
				case token.LSS:
					return envVal{isBool: true, b: l.i < r.i}, true
				case token.GTR:
					return envVal{isBool: true, b: l.i > r.i}, true
				case token.LEQ:
					return envVal{isBool: true, b: l.i <= r.i}, true
				case token.GEQ:
					return envVal{isBool: true, b: l.i >= r.i}, true
				}
			case (l.isNil || l.nonNil) && r.isNil:
				if x.Op == token.EQL {
					return envVal{isBool: true, b: l.isNil}, true
				}
				if x.Op == token.NEQ {
					return envVal{isBool: true, b: !l.isNil}, true
				}
			case l.isBool && r.isBool:
				switch x.Op {
				case token.LAND:
					return envVal{isBool: true, b: l.b && r.b}, true
				case token.LOR:
					return envVal{isBool: true, b: l.b || r.b}, true
				}
			case l.isStr && r.isStr && x.Op == token.ADD:
				return envVal{isStr: true, s: l.s + r.s}, true
			}
		}
	case *ast.UnaryExpr:
		if x.Op == token.NOT {
			if v, ok := a.evalIn(x.X, env); ok && v.isBool {
				return envVal{isBool: true, b: !v.b}, true
			}
		}
		if x.Op == token.SUB {
			if v, ok := a.evalIn(x.X, env); ok && v.isInt {
				return envVal{isInt: true, i: -v.i}, true
			}
		}
	case *ast.CallExpr:
		// operand constructors: jit.Ptr / jit.Sib / jit.Imm / jit.Reg
		if callee := a.p.Callee(x); isJitFunc(callee, "Ptr") || isJitFunc(callee, "Sib") || isJitFunc(callee, "Reg") {
			o := a.resolveOperand(a.em.operand(x, 0), env)
			if o.Kind == "mem" || o.Kind == "reg" {
				return envVal{opnd: &o}, true
			}
		}
		// strconv.Itoa(i) with a bound i (labels such as "_no_writeBarrier" + strconv.Itoa(i) + "_{n}")
		if callee := a.p.Callee(x); callee != nil && callee.Pkg() != nil && callee.Pkg().Path() == "strconv" && callee.Name() == "Itoa" && len(x.Args) == 1 {
			if v, ok := a.evalIn(x.Args[0], env); ok && v.isInt {
				return envVal{isStr: true, s: strconv.FormatInt(v.i, 10)}, true
			}
		}
		// conversions int64(x)
		if len(x.Args) == 1 {
			if tv := a.p.TypeOf(x.Fun); tv != nil {
				if _, isSig := tv.Underlying().(*types.Signature); !isSig {
					return a.evalIn(x.Args[0], env)
				}
			}
		}
	}
	return envVal{}, false
}

// regOfExpr resolves an expression naming a register (package-level variable or bound parameter).
func (a *asmCtx) regOfExpr(e ast.Expr, env asmEnv) string {
	if e == nil {
		return ""
	}
	if v, ok := a.evalIn(e, env); ok {
		if v.opnd != nil && v.opnd.Kind == "reg" {
			return v.opnd.Reg
		}
		if v.sym != nil {
			if init := a.p.VarInit(v.sym); init != nil {
				if r := a.em.operand(init, 0); r.Kind == "reg" {
					return r.Reg
				}
			}
		}
	}
	return ""
}

// resolveOperand patches one operand under env.
func (a *asmCtx) resolveOperand(o Operand, env asmEnv) Operand {
	if o.Kind == "imm" && !o.ImmOK && o.ImmExpr != nil {
		if v, ok := a.evalIn(o.ImmExpr, env); ok && v.isInt {
			o.Imm, o.ImmOK = v.i, true
		}
	}
	if o.Kind == "mem" {
		if !o.DispOK && o.DispExp != nil {
			if v, ok := a.evalIn(o.DispExp, env); ok && v.isInt {
				o.Disp, o.DispOK = v.i, true
			}
		}
		if o.Reg == "" && o.BaseExp != nil {
			o.Reg = a.regOfExpr(o.BaseExp, env)
		}
		if o.Index == "" && o.IdxExp != nil {
			o.Index = a.regOfExpr(o.IdxExp, env)
		}
	}
	if o.Kind == "other" && o.Expr != nil {
		// a parameter holding a register/operand passed by name or built at the call site
		if v, ok := a.evalIn(o.Expr, env); ok {
			if v.opnd != nil {
				r := *v.opnd
				r.Expr = o.Expr
				return r
			}
			if v.sym != nil {
				if init := a.p.VarInit(v.sym); init != nil {
					r := a.em.operand(init, 0)
					r.Name = v.sym.Name()
					r.Expr = o.Expr
					return r
				}
			}
		}
	}
	return o
}

// resolveOps patches operands whose displacement/immediate depend on bound parameters.
func (a *asmCtx) resolveOp(op EmitOp, env asmEnv) EmitOp {
	if op.Kind == "Helper" && op.Call != nil {
		for _, arg := range op.Call.Args {
			v, ok := a.evalIn(arg, env)
			op.ArgVals = append(op.ArgVals, v)
			op.ArgOK = append(op.ArgOK, ok)
		}
	}
	if len(env) == 0 {
		return op
	}
	if strings.HasPrefix(op.Mnem, "?") && op.Call != nil && len(op.Call.Args) > 0 {
		if v, ok := a.evalIn(op.Call.Args[0], env); ok && v.isStr {
			op.Mnem = v.s
		}
	}
	ops := append([]Operand(nil), op.Ops...)
	for i := range ops {
		ops[i] = a.resolveOperand(ops[i], env)
	}
	op.Ops = ops
	if op.Label != "" && op.LblObj == nil && op.Call != nil {
		// label built from a parameter: "_lspace" + subfix
		idx := 0
		if op.Kind == "Sjmp" {
			idx = 1
		}
		if idx < len(op.Call.Args) {
			if v, ok := a.evalIn(op.Call.Args[idx], env); ok && v.isStr {
				op.Label = v.s
			}
		}
	}
	return op
}

// seqs returns the inlined emitted sequences of a method for given bound arguments.
func (a *asmCtx) seqs(fd *ast.FuncDecl, env asmEnv, depth int) ([]asmSeq, bool) {
	loopCount := func(loop ast.Stmt) (int, bool) {
		switch l := loop.(type) {
		case *ast.RangeStmt:
			if id, ok := ast.Unparen(l.X).(*ast.Ident); ok {
				if v, ok := env[a.p.ObjectOf(id)]; ok && v.isLen {
					return int(v.i), true
				}
			}
		case *ast.ForStmt:
			// for i := A; i < B; i++ with constant A, B
			as, ok1 := l.Init.(*ast.AssignStmt)
			be, ok2 := l.Cond.(*ast.BinaryExpr)
			inc, ok3 := l.Post.(*ast.IncDecStmt)
			if ok1 && ok2 && ok3 && len(as.Rhs) == 1 && inc.Tok == token.INC && (be.Op == token.LSS || be.Op == token.LEQ) {
				lo, okl := a.evalIn(as.Rhs[0], env)
				hi, okh := a.evalIn(be.Y, env)
				if okl && okh && lo.isInt && hi.isInt {
					n := hi.i - lo.i
					if be.Op == token.LEQ {
						n++
					}
					if n >= 0 && n <= 64 {
						return int(n), true
					}
				}
			}
		}
		return 0, false
	}
	decide := func(cond ast.Expr) int {
		if v, ok := a.evalIn(cond, env); ok && v.isBool {
			if v.b {
				return 1
			}
			return 0
		}
		return -1
	}
	paths, ok, _ := EnumPathsFull(a.p, fd, fd.Body.List, 3, 4096, nil, nil, loopCount, decide)
	if !ok {
		return nil, false
	}
	recv := recvObj(a.p, fd)
	var out []asmSeq
	for _, pt := range paths {
		if len(pt) > 0 && pt[len(pt)-1].Exit == "panic" {
			continue
		}
		// feasibility under env + local constant bindings (for i := 0; i < 3; i++ handled by unrolling)
		local := asmEnv{}
		for k, v := range env {
			local[k] = v
		}
		feasible := true
		cur := []asmSeq{{}}
		for _, ev := range pt {
			if !feasible {
				break
			}
			switch {
			case ev.Loop > 0 && ev.Range != nil:
				// for i, v := range r  with r a bound variadic / register list
				if xo := a.p.ExprObj(ev.Range.X); xo != nil {
					if rv, ok := local[xo]; ok && rv.isLen && ev.Loop-1 < len(rv.elts) {
						if id, ok := ev.Range.Key.(*ast.Ident); ok && id.Name != "_" {
							if o := a.p.ObjectOf(id); o != nil {
								local[o] = envVal{isInt: true, i: int64(ev.Loop - 1)}
							}
						}
						if id, ok := ev.Range.Value.(*ast.Ident); ok && id.Name != "_" {
							if o := a.p.ObjectOf(id); o != nil {
								local[o] = rv.elts[ev.Loop-1]
							}
						}
					}
				}
			case ev.Loop == -2:
				local = asmEnv{}
				for k, v := range env {
					local[k] = v
				}
			case ev.Cond != nil:
				if v, ok := a.evalIn(ev.Cond, local); ok && v.isBool && v.b != ev.Taken {
					feasible = false
				}
			case ev.Stmt != nil:
				if as, ok := ev.Stmt.(*ast.AssignStmt); ok && len(as.Lhs) == len(as.Rhs) {
					for i, l := range as.Lhs {
						if id, ok := l.(*ast.Ident); ok {
							if o := a.p.ObjectOf(id); o != nil {
								if v, ok := a.evalIn(as.Rhs[i], local); ok && as.Tok != token.ADD_ASSIGN {
									local[o] = v
								} else {
									delete(local, o)
								}
							}
						}
					}
				}
				if ds, ok := ev.Stmt.(*ast.DeclStmt); ok {
					if gd, ok := ds.Decl.(*ast.GenDecl); ok {
						for _, sp := range gd.Specs {
							if vs, ok := sp.(*ast.ValueSpec); ok && len(vs.Values) == len(vs.Names) {
								for i, nm := range vs.Names {
									if v, ok := a.evalIn(vs.Values[i], local); ok {
										local[a.p.ObjectOf(nm)] = v
									}
								}
							}
						}
					}
				}
				if inc, ok := ev.Stmt.(*ast.IncDecStmt); ok {
					if id, ok := inc.X.(*ast.Ident); ok {
						if o := a.p.ObjectOf(id); o != nil {
							if v, ok := local[o]; ok && v.isInt {
								if inc.Tok == token.INC {
									v.i++
								} else {
									v.i--
								}
								local[o] = v
							}
						}
					}
				}
			case ev.Call != nil:
				op, isSelf := a.em.classify(ev.Call, recv)
				if !isSelf {
					continue
				}
				op = a.resolveOp(op, local)
				if op.Kind != "Helper" {
					for i := range cur {
						cur[i].Ops = append(cur[i].Ops, op)
					}
					continue
				}
				// inline helper
				cfd := a.p.DeclOf(op.Callee)
				if cfd == nil || cfd.Body == nil || depth >= 4 || a.noInline[op.Callee.Name()] || core.RecvName(cfd) != a.recvType || a.p.ObjectOf(cfd.Name) == nil || a.p.ObjectOf(cfd.Name).Pkg() != a.pk.Types {
					for i := range cur {
						cur[i].Ops = append(cur[i].Ops, op, EmitOp{Kind: "HelperEnd", Callee: op.Callee, Pos: op.Pos})
					}
					continue
				}
				cenv := asmEnv{}
				pi := 0
				for _, f := range cfd.Type.Params.List {
					if _, variadic := f.Type.(*ast.Ellipsis); variadic && len(f.Names) == 1 {
						if !ev.Call.Ellipsis.IsValid() {
							n := len(ev.Call.Args) - pi
							if n < 0 {
								n = 0
							}
							var elts []envVal
							for k := pi; k < len(ev.Call.Args); k++ {
								v, _ := a.evalIn(ev.Call.Args[k], local)
								elts = append(elts, v)
							}
							cenv[a.p.ObjectOf(f.Names[0])] = envVal{isLen: true, i: int64(n), elts: elts}
						} else if pi < len(ev.Call.Args) {
							// f(xs...) with xs a package-level slice literal, or a bound variadic of the caller
							arg := ast.Unparen(ev.Call.Args[pi])
							if o := a.p.ExprObj(arg); o != nil {
								if v, ok := local[o]; ok && v.isLen {
									cenv[a.p.ObjectOf(f.Names[0])] = v
								} else if cl, ok := a.p.VarInit(o).(*ast.CompositeLit); ok {
									var elts []envVal
									for _, el := range cl.Elts {
										v, _ := a.evalIn(el, asmEnv{})
										elts = append(elts, v)
									}
									cenv[a.p.ObjectOf(f.Names[0])] = envVal{isLen: true, i: int64(len(cl.Elts)), elts: elts}
								}
							}
						}
						pi = len(ev.Call.Args)
						continue
					}
					for _, nm := range f.Names {
						if pi < len(ev.Call.Args) {
							if v, ok := a.evalIn(ev.Call.Args[pi], local); ok {
								cenv[a.p.ObjectOf(nm)] = v
							}
						}
						pi++
					}
				}
				sub, ok := a.seqs(cfd, cenv, depth+1)
				if !ok || len(sub) == 0 {
					for i := range cur {
						cur[i].Ops = append(cur[i].Ops, op)
						cur[i].Trunc = true
					}
					continue
				}
				// keep the helper marker (for rules that look at calls) followed by its body
				var next []asmSeq
				for _, c0 := range cur {
					for _, s := range sub {
						n := asmSeq{Ops: append(append(append([]EmitOp(nil), c0.Ops...), op), s.Ops...), Trunc: c0.Trunc || s.Trunc}
						n.Ops = append(n.Ops, EmitOp{Kind: "HelperEnd", Callee: op.Callee, Pos: op.Pos})
						next = append(next, n)
					}
				}
				if len(next) > a.maxPaths {
					return nil, false
				}
				cur = next
			}
		}
		if feasible {
			out = append(out, cur...)
			if len(out) > a.maxPaths {
				return nil, false
			}
		}
	}
	return out, true
}

// methods lists the emitter methods of the receiver type.
func (a *asmCtx) methods() []*ast.FuncDecl {
	var out []*ast.FuncDecl
	for _, fd := range core.FuncDecls(a.pk) {
		if fd.Body != nil && core.RecvName(fd) == a.recvType {
			out = append(out, fd)
		}
	}
	return out
}

// ---------------------------------------------------------------------------
// sequence CFG and forward dataflow

type seqCFG struct {
	ops    []EmitOp
	label  map[string]int // label -> index of its Link
	succ   [][]int
	isExit []bool // Sjmp to a label not linked in this sequence
}

func condJump(m string) bool { return m != "JMP" }

func buildSeqCFG(ops []EmitOp) *seqCFG {
	g := &seqCFG{ops: ops, label: map[string]int{}, succ: make([][]int, len(ops)+1), isExit: make([]bool, len(ops))}
	for i, o := range ops {
		if o.Kind == "Link" {
			g.label[o.Label] = i
		}
	}
	for i, o := range ops {
		switch o.Kind {
		case "Sjmp":
			if t, ok := g.label[o.Label]; ok {
				g.succ[i] = append(g.succ[i], t)
			} else {
				g.isExit[i] = true
			}
			if condJump(o.Mnem) {
				g.succ[i] = append(g.succ[i], i+1)
			}
		case "Xjmp":
			if condJump(o.Mnem) {
				g.succ[i] = append(g.succ[i], i+1)
			}
		case "Emit":
			if o.Mnem == "RET" || o.Mnem == "JMP" {
				continue
			}
			g.succ[i] = append(g.succ[i], i+1)
		default:
			if o.Kind == "Rjmp" {
				continue
			}
			g.succ[i] = append(g.succ[i], i+1)
		}
	}
	return g
}

// forward runs a forward dataflow with integer-valued facts and min-meet.
// transfer returns the fact on the fall-through edge and on the taken edge.
func (g *seqCFG) forward(init int64, transfer func(i int, in int64) (fall, taken int64)) []int64 {
	const top = int64(1) << 40
	in := make([]int64, len(g.ops)+1)
	for i := range in {
		in[i] = top
	}
	in[0] = init
	work := []int{0}
	for len(work) > 0 {
		i := work[len(work)-1]
		work = work[:len(work)-1]
		if i >= len(g.ops) {
			continue
		}
		fall, taken := transfer(i, in[i])
		for _, s := range g.succ[i] {
			v := fall
			if g.ops[i].Kind == "Sjmp" && s != i+1 {
				v = taken
			} else if g.ops[i].Kind == "Sjmp" && s == i+1 {
				if t, ok := g.label[g.ops[i].Label]; ok && t == i+1 {
					if taken < v {
						v = taken
					}
				}
			}
			if v < in[s] {
				in[s] = v
				work = append(work, s)
			}
		}
	}
	return in
}

func accessWidth(mnem string) int64 {
	switch {
	case strings.HasPrefix(mnem, "MOVOU"), strings.HasPrefix(mnem, "MOVDQU"), strings.HasPrefix(mnem, "PCMP"):
		return 16
	case strings.HasPrefix(mnem, "VMOVDQU"):
		return 32
	case strings.HasPrefix(mnem, "MOVBQ"), strings.HasPrefix(mnem, "MOVBL"), mnem == "MOVB", mnem == "CMPB", mnem == "TESTB":
		return 1
	case strings.HasPrefix(mnem, "MOVWQ"), strings.HasPrefix(mnem, "MOVWL"), mnem == "MOVW", mnem == "CMPW":
		return 2
	case strings.HasPrefix(mnem, "MOVLQ"), mnem == "MOVL", mnem == "CMPL", mnem == "TESTL":
		return 4
	}
	return 8
}

func isReg(o Operand, name string) bool { return o.Kind == "reg" && o.Reg == name }

func handlerName(pk *packages.Package, fd *ast.FuncDecl) string { return core.FuncName(pk, fd) }

func sortedFuncDecls(fs []*ast.FuncDecl) []*ast.FuncDecl {
	sort.Slice(fs, func(i, j int) bool { return fs[i].Name.Name < fs[j].Name.Name })
	return fs
}
