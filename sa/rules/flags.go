package rules

import (
	"go/token"
	"strings"

	"verif/sa/core"
)

// A8: condition-flag discipline of the emitted templates. A conditional jump / SETcc / CMOVcc
// consumes the flags of the nearest preceding flag-writing instruction on the straight line
// before it. If that instruction is a register-zeroing idiom (XORL R, R - CF=0, ZF=1 always)
// the consumer no longer tests what the template meant it to test: the classic slip is moving
// the zeroing of the destination register between a BT/CMP and its SETcc.

func init() {
	register(&core.Rule{ID: "A8", Min: 40,
		Doc: "Flag producers reach their consumers: in every emitted template of the three JIT emitters (jitdec._Assembler handlers, the generic _ValueDecoder, x86.Assembler handlers), for each flag consumer (conditional Sjmp/Xjmp, SETcc, CMOVcc) the nearest preceding flag-writing instruction in straight-line order (MOV*, LEA*, vector moves, XCHG, PUSH/POP do not write flags; a label or an un-inlined helper ends the search) is not a register-zeroing XOR (XORL/XORQ R, R), whose flags are constants.",
		Run: runA8})
}

func writesFlags(m string) bool {
	switch {
	case strings.HasPrefix(m, "MOV"), strings.HasPrefix(m, "LEA"), strings.HasPrefix(m, "SET"), strings.HasPrefix(m, "CMOV"),
		strings.HasPrefix(m, "PUSH"), strings.HasPrefix(m, "POP"), strings.HasPrefix(m, "XCHG"), strings.HasPrefix(m, "NOT"),
		strings.HasPrefix(m, "BSWAP"), strings.HasPrefix(m, "CVT"), strings.HasPrefix(m, "VMOV"), strings.HasPrefix(m, "PXOR"),
		strings.HasPrefix(m, "XORPS"), strings.HasPrefix(m, "XORPD"), strings.HasPrefix(m, "PSHUF"), strings.HasPrefix(m, "PCMP"),
		strings.HasPrefix(m, "PMOV"), strings.HasPrefix(m, "VP"), strings.HasPrefix(m, "MULS"), strings.HasPrefix(m, "ADDS"),
		strings.HasPrefix(m, "SUBS"), strings.HasPrefix(m, "DIVS"), strings.HasPrefix(m, "ANDP"), strings.HasPrefix(m, "ORP"),
		m == "NOP", m == "CALL", m == "RET", m == "JMP", m == "CQTO", m == "CLTQ", m == "CWTL":
		return false
	}
	return true
}

func isFlagConsumer(o EmitOp) bool {
	switch o.Kind {
	case "Sjmp", "Xjmp":
		return o.Mnem != "JMP" && strings.HasPrefix(o.Mnem, "J")
	case "Emit":
		return strings.HasPrefix(o.Mnem, "SET") || strings.HasPrefix(o.Mnem, "CMOV") || o.Mnem == "ADCQ" || o.Mnem == "SBBQ"
	}
	return false
}

func runA8(c *core.Ctx) {
	p := c.Prog
	if p.GOARCH != "amd64" {
		return
	}
	total := 0
	for _, tg := range []decTargets{
		{"internal/decoder/jitdec", "_Assembler", nil, 0},
		{"internal/decoder/jitdec", "_ValueDecoder", map[string]bool{"compile": true}, 0},
		{"internal/encoder/x86", "Assembler", nil, 0},
	} {
		a := newAsmCtx(p, tg.rel, tg.recv)
		for _, fd := range sortedFuncDecls(a.methods()) {
			if tg.only != nil && !tg.only[fd.Name.Name] {
				continue
			}
			// handlers, and the stand-alone routines linked once per program (escape_string_twice,
			// skip_one, type_error ...: methods without operands); helpers that take operands are
			// judged where they are inlined
			isHandler := strings.HasPrefix(fd.Name.Name, "_asm_OP_")
			if tg.only == nil && !isHandler && fd.Type.Params.NumFields() != 0 {
				continue
			}
			fn := handlerName(a.pk, fd)
			seqs, ok := a.seqs(fd, asmEnv{}, 0)
			if !ok {
				if !isHandler && tg.only == nil {
					continue
				}
				c.Undecided(fn+"/flags", fd.Pos(), "cannot enumerate emitted sequences")
				continue
			}
			if anyTrunc(seqs) {
				c.Undecided(fn+"/flags", fd.Pos(), "a helper could not be inlined within the path budget")
				continue
			}
			ncons := 0
			var badPos token.Pos
			badWhy := ""
			for _, sq := range seqs {
				for i, o := range sq.Ops {
					if !isFlagConsumer(o) {
						continue
					}
					ncons++
					for j := i - 1; j >= 0; j-- {
						q := sq.Ops[j]
						if q.Kind == "Link" {
							break
						}
						if q.Kind == "Helper" || q.Kind == "HelperEnd" {
							continue // inlined helper bodies are part of the line; un-inlined ones have no ops
						}
						if q.Kind == "Sjmp" || q.Kind == "Xjmp" {
							continue // a conditional jump leaves the flags for the next consumer
						}
						if q.Kind != "Emit" || !writesFlags(q.Mnem) {
							continue
						}
						if (q.Mnem == "XORL" || q.Mnem == "XORQ") && len(q.Ops) == 2 && q.Ops[0].Kind == "reg" && q.Ops[1].Kind == "reg" && q.Ops[0].Reg == q.Ops[1].Reg && badWhy == "" {
							badPos = o.Pos
							badWhy = o.String() + " consumes the flags of the register-zeroing `" + q.String() + "` (" + p.Pos(q.Pos) + "): its outcome is a constant, the comparison or bit test before it is lost"
						}
						break
					}
				}
			}
			if ncons == 0 {
				continue
			}
			total += ncons
			c.Analysed(fn)
			if badWhy != "" {
				c.Bad(fn+"/flags", badPos, "%s", badWhy)
			} else {
				c.OK(fn+"/flags", fd.Pos(), "%d flag consumer(s), none fed by a zeroing idiom", ncons)
			}
		}
	}
	if total < 100 {
		c.Undecided("jit/flags", token.NoPos, "only %d flag consumers found", total)
	}
}
