package rules

import (
	"go/ast"
	"go/token"
	"go/types"
	"strings"

	"verif/sa/core"
)

// X4: error exits that take the error code from a register. The JIT decoder has an exit
// (`_parsing_error_v`) that builds the reported error code as -AX: it is meant to be taken
// right after a native routine returned a negative errno in AX (or after the errno field of
// the parser state was loaded into AX). Any other jump to it turns whatever AX happens to hold
// (an input byte, a length) into a ParsingError value far outside the message table, which
// the error formatter then cannot render.
//
// X5: the formatter side of the same contract: a table of messages indexed by an unsigned
// error code must be bounded in the unsigned domain (or also checked >= 0 after the signed
// conversion); `int(code) < len(table)` alone admits every code >= 1<<63.

func init() {
	register(&core.Rule{ID: "X4", Min: 8,
		Doc: "Error-code-in-register exits of the JIT decoder: a label whose block starts `MOVQ AX, r; NEGQ r` (discovered from the templates) may only be reached by `JS` immediately after `TESTQ AX, AX`, where the reaching definition of AX in the template is a CALL (native return value) or a load from a frame slot (the parser state's errno); every source call site `Sjmp(_, <that label>)` must have been seen in some template.",
		Run: runX4})
	register(&core.Rule{ID: "X5", Min: 1, Arm64: true,
		Doc: "Message tables indexed by an unsigned code (types.ParsingError and siblings): every `table[code]` with code of an unsigned integer type and table a package-level array/slice is dominated by a guard that bounds code in the unsigned domain (`code < T(len(table))`, `uint(code) < uint(len(table))`) or by `int(code) < len(table)` together with `int(code) >= 0`; the signed comparison alone is a violation.",
		Run: runX5})
}

func runX4(c *core.Ctx) {
	p := c.Prog
	if p.GOARCH != "amd64" {
		return
	}
	for _, tg := range []decTargets{
		{"internal/decoder/jitdec", "_Assembler", nil, 0},
		{"internal/decoder/jitdec", "_ValueDecoder", map[string]bool{"compile": true}, 0},
	} {
		a := newAsmCtx(p, tg.rel, tg.recv)
		type tmpl struct {
			fn   string
			fd   *ast.FuncDecl
			seqs []asmSeq
		}
		var ts []tmpl
		for _, fd := range sortedFuncDecls(a.methods()) {
			if tg.only != nil && !tg.only[fd.Name.Name] {
				continue
			}
			// roots: methods without parameters, or handlers taking the instruction
			np := fd.Type.Params.NumFields()
			if np > 1 || (np == 1 && !strings.HasPrefix(fd.Name.Name, "_asm_OP_")) {
				continue
			}
			seqs, ok := a.seqs(fd, asmEnv{}, 0)
			if !ok || anyTrunc(seqs) {
				continue // covered (or not) by the call-site coverage obligation below
			}
			ts = append(ts, tmpl{handlerName(a.pk, fd), fd, seqs})
		}
		// 1. discover the labels whose block negates AX into the error register
		errLabels := map[string]token.Pos{}
		for _, t := range ts {
			for _, sq := range t.seqs {
				ops := realOps(sq.Ops)
				for i, o := range ops {
					if o.Kind != "Link" || i+2 >= len(ops) {
						continue
					}
					m, n := ops[i+1], ops[i+2]
					if m.Kind == "Emit" && m.Mnem == "MOVQ" && len(m.Ops) == 2 && isReg(m.Ops[0], "AX") && m.Ops[1].Kind == "reg" &&
						n.Kind == "Emit" && n.Mnem == "NEGQ" && len(n.Ops) == 1 && isReg(n.Ops[0], m.Ops[1].Reg) {
						errLabels[o.Label] = o.Pos
					}
				}
			}
		}
		if len(errLabels) == 0 {
			if tg.only == nil {
				c.Undecided(tg.rel+"."+tg.recv+"/errcode-exit", token.NoPos, "no `MOVQ AX, r; NEGQ r` error exit found in the templates")
			}
			continue
		}
		// 2. every jump to such a label
		seen := map[token.Pos]bool{}
		for _, t := range ts {
			for _, sq := range t.seqs {
				ops := realOps(sq.Ops)
				for i, o := range ops {
					if o.Kind != "Sjmp" {
						continue
					}
					if _, isErr := errLabels[o.Label]; !isErr {
						continue
					}
					if seen[o.Pos] {
						continue
					}
					seen[o.Pos] = true
					c.Analysed(t.fn)
					cn := tg.rel + "." + tg.recv + "/errcode-exit@" + enclosingFuncName(a, o.Pos) + "#" + o.Mnem
					if o.Mnem != "JS" {
						c.Bad(cn, o.Pos, "%s %s: this exit reports -AX as the error code, but the jump is not taken on the sign of a native return value; AX holds whatever the preceding comparison left there (error code out of the ParsingError range)", o.Mnem, o.Label)
						continue
					}
					if i == 0 || !(ops[i-1].Kind == "Emit" && ops[i-1].Mnem == "TESTQ" && len(ops[i-1].Ops) == 2 && isReg(ops[i-1].Ops[0], "AX") && isReg(ops[i-1].Ops[1], "AX")) {
						c.Bad(cn, o.Pos, "JS %s is not immediately preceded by TESTQ AX, AX: the sign tested is not that of the error code in AX", o.Label)
						continue
					}
					// reaching definition of AX, straight-line backwards
					def := ""
					for j := i - 2; j >= 0 && def == ""; j-- {
						q := ops[j]
						switch q.Kind {
						case "Link":
							def = "label " + q.Label
						case "CALL":
							def = "call"
						case "Emit":
							if len(q.Ops) >= 1 && !nonWriting[q.Mnem] && isReg(q.Ops[len(q.Ops)-1], "AX") {
								src := q.Ops[0]
								if q.Mnem == "MOVQ" && src.Kind == "mem" && src.Reg == "SP" && src.Index == "" {
									def = "frame"
								} else {
									def = q.String()
								}
							}
						}
					}
					switch def {
					case "call", "frame":
						c.OK(cn, o.Pos, "JS after TESTQ AX, AX; AX is a %s value", map[string]string{"call": "CALL return", "frame": "frame-slot (errno)"}[def])
					case "":
						c.Undecided(cn, o.Pos, "no definition of AX found before the test")
					default:
						c.Bad(cn, o.Pos, "the AX tested before JS %s is defined by `%s`, not by a native call or the errno slot", o.Label, def)
					}
				}
			}
		}
		// 3. coverage: every source-level Sjmp(_, label) was visited
		for _, f := range a.pk.Syntax {
			ast.Inspect(f, func(n ast.Node) bool {
				ce, ok := n.(*ast.CallExpr)
				if !ok || len(ce.Args) != 2 {
					return true
				}
				se, ok := ce.Fun.(*ast.SelectorExpr)
				if !ok || se.Sel.Name != "Sjmp" {
					return true
				}
				k, ok := p.ExprObj(ce.Args[1]).(*types.Const)
				if !ok {
					return true
				}
				isErr := false
				for l := range errLabels {
					if l == k.Name() {
						isErr = true
					}
				}
				if isErr && !seen[ce.Pos()] && recvOfEnclosing(a, ce.Pos()) == tg.recv {
					c.Undecided(tg.rel+"."+tg.recv+"/errcode-exit@"+enclosingFuncName(a, ce.Pos()), ce.Pos(), "jump to %s not reached by any enumerated template", k.Name())
				}
				return true
			})
		}
	}
}

// realOps drops helper markers and turns `Rjmp("CALL", ...)` helpers into a CALL pseudo-op.
func realOps(in []EmitOp) []EmitOp {
	var out []EmitOp
	for _, o := range in {
		switch o.Kind {
		case "HelperEnd":
			continue
		case "Helper":
			if o.Callee != nil && o.Callee.Name() == "Rjmp" && len(o.ArgVals) > 0 && o.ArgVals[0].isStr && o.ArgVals[0].s == "CALL" {
				o.Kind = "CALL"
				out = append(out, o)
			}
			continue
		}
		out = append(out, o)
	}
	return out
}

func enclosingFuncDecl(a *asmCtx, pos token.Pos) *ast.FuncDecl {
	for _, f := range a.pk.Syntax {
		if f.Pos() <= pos && pos < f.End() {
			for _, d := range f.Decls {
				if fd, ok := d.(*ast.FuncDecl); ok && fd.Pos() <= pos && pos < fd.End() {
					return fd
				}
			}
		}
	}
	return nil
}

func enclosingFuncName(a *asmCtx, pos token.Pos) string {
	if fd := enclosingFuncDecl(a, pos); fd != nil {
		return fd.Name.Name
	}
	return "?"
}

func recvOfEnclosing(a *asmCtx, pos token.Pos) string {
	fd := enclosingFuncDecl(a, pos)
	if fd == nil || fd.Recv == nil || len(fd.Recv.List) == 0 {
		return ""
	}
	t := fd.Recv.List[0].Type
	if st, ok := t.(*ast.StarExpr); ok {
		t = st.X
	}
	if id, ok := t.(*ast.Ident); ok {
		return id.Name
	}
	return ""
}

// ---------------------------------------------------------------------------

func runX5(c *core.Ctx) {
	p := c.Prog
	n := 0
	for _, rel := range []string{"internal/native/types", "internal/decoder/errors", "internal/decoder/consts", "internal/encoder/vars", "ast", "internal/decoder/optdec"} {
		pk := p.Pkg(rel)
		if pk == nil {
			continue
		}
		for _, f := range pk.Syntax {
			for _, d := range f.Decls {
				fd, ok := d.(*ast.FuncDecl)
				if !ok || fd.Body == nil {
					continue
				}
				var stack []ast.Node
				ast.Inspect(fd.Body, func(nd ast.Node) bool {
					if nd == nil {
						stack = stack[:len(stack)-1]
						return true
					}
					stack = append(stack, nd)
					ix, ok := nd.(*ast.IndexExpr)
					if !ok {
						return true
					}
					tab := p.ExprObj(ix.X)
					tv, isVar := tab.(*types.Var)
					if !isVar || tv.Parent() != pk.Types.Scope() {
						return true
					}
					switch tv.Type().Underlying().(type) {
					case *types.Array, *types.Slice:
					default:
						return true
					}
					it := pk.TypesInfo.TypeOf(ix.Index)
					if it == nil {
						return true
					}
					b, ok := it.Underlying().(*types.Basic)
					if !ok || b.Info()&types.IsUnsigned == 0 {
						return true
					}
					if _, isConst := pk.TypesInfo.Types[ix.Index]; isConst && pk.TypesInfo.Types[ix.Index].Value != nil {
						return true
					}
					// only 64-bit wide codes can exceed the int range
					if b.Kind() != types.Uint && b.Kind() != types.Uint64 && b.Kind() != types.Uintptr {
						return true
					}
					n++
					cn := core.FuncName(pk, fd) + "/" + tv.Name() + "[" + exprStr(ix.Index) + "]"
					c.Analysed(core.FuncName(pk, fd))
					idx := exprStr(ix.Index)
					var upper, lower, unsignedUpper bool
					for k := len(stack) - 2; k >= 0; k-- {
						is, ok := stack[k].(*ast.IfStmt)
						if !ok {
							continue
						}
						// the index must be in the then-branch
						if !(is.Body.Pos() <= ix.Pos() && ix.Pos() < is.Body.End()) {
							continue
						}
						for _, cj := range conjuncts(is.Cond) {
							be, ok := cj.(*ast.BinaryExpr)
							if !ok {
								continue
							}
							l, r, op := be.X, be.Y, be.Op
							if op == token.GTR || op == token.GEQ {
								l, r = r, l
								if op == token.GTR {
									op = token.LSS
								} else {
									op = token.LEQ
								}
							}
							// l < r  (or l <= r)
							if op == token.LSS && mentionsLen(r, tv, p) {
								if exprStr(l) == idx {
									unsignedUpper = true
								} else if ce, ok := l.(*ast.CallExpr); ok && len(ce.Args) == 1 && exprStr(ce.Args[0]) == idx {
									if tt := pk.TypesInfo.TypeOf(ce); tt != nil {
										if bb, ok := tt.Underlying().(*types.Basic); ok && bb.Info()&types.IsUnsigned != 0 {
											unsignedUpper = true
										} else {
											upper = true
										}
									}
								}
							}
							// 0 <= int(idx)
							if (op == token.LEQ) && exprStr(l) == "0" {
								if ce, ok := r.(*ast.CallExpr); ok && len(ce.Args) == 1 && exprStr(ce.Args[0]) == idx {
									lower = true
								}
							}
						}
					}
					switch {
					case unsignedUpper || (upper && lower):
						c.OK(cn, ix.Pos(), "index bounded in the unsigned domain")
					case upper:
						c.Bad(cn, ix.Pos(), "%s is unsigned but bounded only by a signed comparison `int(%s) < len(%s)`: codes >= 1<<63 convert to negative ints, pass the guard and index the table out of range (the error's message then panics)", idx, idx, tv.Name())
					default:
						c.Undecided(cn, ix.Pos(), "no recognised bound on %s before indexing %s", idx, tv.Name())
					}
					return true
				})
			}
		}
	}
	_ = n
}

func conjuncts(e ast.Expr) []ast.Expr {
	e = ast.Unparen(e)
	if be, ok := e.(*ast.BinaryExpr); ok && be.Op == token.LAND {
		return append(conjuncts(be.X), conjuncts(be.Y)...)
	}
	return []ast.Expr{e}
}

// mentionsLen: e is len(tab) or T(len(tab)).
func mentionsLen(e ast.Expr, tab *types.Var, p *core.Program) bool {
	e = ast.Unparen(e)
	ce, ok := e.(*ast.CallExpr)
	if !ok || len(ce.Args) != 1 {
		return false
	}
	if id, ok := ce.Fun.(*ast.Ident); ok && id.Name == "len" {
		return p.ExprObj(ce.Args[0]) == tab
	}
	return mentionsLen(ce.Args[0], tab, p)
}
