package rules

import (
	"go/ast"
	"go/token"
	"go/types"
	"strings"

	"verif/sa/core"
)

// L4: check-then-act on lock-guarded map caches. A cache that is read under the read lock and
// filled under the write lock must look the key up again once it holds the write lock:
// otherwise two first users of one type both miss, both compute, and the second store replaces
// a value that is already in use (the x86 encoder embeds &fields[i] of the first table in
// generated code, which is not a GC root).

func init() {
	register(&core.Rule{ID: "L4", Min: 1, Arm64: true,
		Doc: "Double-checked fill of lock-guarded map caches: for every store `M[k] = v` into a package-level map of the main module's non-test code that happens in a function which takes a package-level sync.Mutex/RWMutex write lock, the statements between the Lock() call and the store (same block) contain a comma-ok lookup of M[k] whose success branch returns; a store with no re-check after acquiring the lock publishes a second value for a key that may already be in use.",
		Run: runL4})
}

func runL4(c *core.Ctx) {
	p := c.Prog
	n := 0
	for _, pk := range p.Pkgs {
		for _, f := range pk.Syntax {
			if strings.HasSuffix(p.Fset.Position(f.Pos()).Filename, "_test.go") {
				continue
			}
			for _, d := range f.Decls {
				fd, ok := d.(*ast.FuncDecl)
				if !ok || fd.Body == nil {
					continue
				}
				ast.Inspect(fd.Body, func(nd ast.Node) bool {
					blk, ok := nd.(*ast.BlockStmt)
					if !ok {
						return true
					}
					lockAt := -1
					for i, st := range blk.List {
						if es, ok := st.(*ast.ExprStmt); ok {
							if call, ok := es.X.(*ast.CallExpr); ok {
								if se, ok := call.Fun.(*ast.SelectorExpr); ok && se.Sel.Name == "Lock" {
									if v, ok := p.ExprObj(se.X).(*types.Var); ok && v.Parent() == pk.Types.Scope() {
										lockAt = i
									}
								}
							}
						}
						as, ok := st.(*ast.AssignStmt)
						if !ok || lockAt < 0 || as.Tok != token.ASSIGN || len(as.Lhs) != 1 {
							continue
						}
						ix, ok := as.Lhs[0].(*ast.IndexExpr)
						if !ok {
							continue
						}
						mv, ok := p.ExprObj(ix.X).(*types.Var)
						if !ok || mv.Parent() != pk.Types.Scope() {
							continue
						}
						if _, isMap := mv.Type().Underlying().(*types.Map); !isMap {
							continue
						}
						n++
						fn := core.FuncName(pk, fd)
						c.Analysed(fn)
						cn := fn + "/fill " + mv.Name()
						rechecked := false
						for _, mid := range blk.List[lockAt+1 : i] {
							is, ok := mid.(*ast.IfStmt)
							if !ok {
								continue
							}
							looks := false
							ast.Inspect(is, func(x ast.Node) bool {
								if x == is.Body || x == is.Else {
									return false
								}
								if a2, ok := x.(*ast.AssignStmt); ok && len(a2.Lhs) == 2 && len(a2.Rhs) == 1 {
									if i2, ok := a2.Rhs[0].(*ast.IndexExpr); ok && p.ExprObj(i2.X) == mv && exprStr(i2.Index) == exprStr(ix.Index) {
										looks = true
									}
								}
								return true
							})
							returns := false
							for _, bs := range is.Body.List {
								if _, ok := bs.(*ast.ReturnStmt); ok {
									returns = true
								}
							}
							if looks && returns {
								rechecked = true
							}
						}
						if rechecked {
							c.OK(cn, as.Pos(), "the key is looked up again under the write lock before the store")
						} else {
							c.Bad(cn, as.Pos(), "%s[%s] is stored under the write lock without looking the key up again after acquiring it: two concurrent first users both miss under the read lock, both compute a value, and the later store replaces the one already handed out (values of this cache are referenced from generated code by address)", mv.Name(), exprStr(ix.Index))
						}
					}
					return true
				})
			}
		}
	}
	if n == 0 {
		c.Undecided("lock-guarded map caches", token.NoPos, "no store into a package-level map under a package-level lock found")
	}
}
