package rules

import (
	"go/ast"
	"go/token"
	"go/types"
	"sort"
	"strings"

	"verif/sa/core"
)

// O7: state carried through a sync.Pool. An object taken from a pool keeps whatever its last
// user left in it. Every field that any code writes after construction must therefore be
// (a) assigned on every path of the acquire function before it returns, or (b) assigned in the
// reset function that runs when the object goes back to / comes out of the pool. A field that
// is written on some path only (a flag set in one branch of the constructor, a cursor advanced
// during use) and is not reset makes a later call depend on an earlier, unrelated one.

type pooledType struct {
	rel, typ string
	acquire  string   // function that takes the object from the pool
	resets   []string // functions (recv.name or name) that run at the pool boundary
	waive    map[string]string
}

var pooledTypes = []pooledType{
	{rel: "internal/decoder/optdec", typ: "Parser", acquire: "newParser", resets: []string{"Parser.reset"},
		waive: map[string]string{
			"dbuf": "scratch buffer for number parsing: its contents are never read before being written",
		}},
	{rel: "internal/encoder/alg", typ: "MapIterator", acquire: "newIterator", resets: []string{"resetIterator"}},
}

func init() {
	register(&core.Rule{ID: "O7", Min: 8,
		Doc: "Pooled objects carry no state across users: for optdec.Parser (parsePool) and alg.MapIterator (iteratorPool), every field that any non-constructor code of the package writes is either assigned on every enumerated path of the acquire function (newParser / newIterator) or assigned in the reset function that runs at the pool boundary (Parser.reset / resetIterator); fields written only by the pool's New literal are constants. A field set on one branch only and never reset leaks a previous call's mode into the next one.",
		Run: runO7})
}

// fieldWrites returns the fields of *T written in body through any expression of type *T / T.
func fieldWrites(p *core.Program, body ast.Node, isT func(types.Type) bool) map[string]token.Pos {
	out := map[string]token.Pos{}
	root := func(e ast.Expr) (string, bool) {
		// find the outermost selector X.f with X of type T / *T
		for {
			switch x := ast.Unparen(e).(type) {
			case *ast.SelectorExpr:
				if t := p.TypeOf(x.X); t != nil && isT(t) {
					return x.Sel.Name, true
				}
				e = x.X
			case *ast.IndexExpr:
				e = x.X
			case *ast.SliceExpr:
				e = x.X
			case *ast.StarExpr:
				e = x.X
			default:
				return "", false
			}
		}
	}
	ast.Inspect(body, func(n ast.Node) bool {
		switch x := n.(type) {
		case *ast.AssignStmt:
			for _, l := range x.Lhs {
				if f, ok := root(l); ok {
					out[f] = x.Pos()
				}
			}
		case *ast.IncDecStmt:
			if f, ok := root(x.X); ok {
				out[f] = x.Pos()
			}
		case *ast.UnaryExpr:
			if x.Op == token.AND {
				if f, ok := root(x.X); ok {
					out[f] = x.Pos() // address taken: may be written through
				}
			}
		case *ast.CallExpr:
			// method call on a field: p.f.m(...) with pointer receiver may write f
			if se, ok := x.Fun.(*ast.SelectorExpr); ok {
				if fn, ok := p.ObjectOf(se.Sel).(*types.Func); ok {
					if sig, ok := fn.Type().(*types.Signature); ok && sig.Recv() != nil {
						if _, ptr := sig.Recv().Type().(*types.Pointer); ptr {
							if f, ok := root(se.X); ok {
								out[f] = x.Pos()
							}
						}
					}
				}
			}
		}
		return true
	})
	return out
}

func runO7(c *core.Ctx) {
	p := c.Prog
	for _, pt := range pooledTypes {
		pk := p.Pkg(pt.rel)
		if pk == nil {
			c.Undecided(pt.rel+"."+pt.typ, token.NoPos, "package not loaded")
			continue
		}
		tn, _ := core.Obj(pk, pt.typ).(*types.TypeName)
		if tn == nil {
			c.Undecided(pt.rel+"."+pt.typ, token.NoPos, "type not found")
			continue
		}
		st, _ := tn.Type().Underlying().(*types.Struct)
		isT := func(t types.Type) bool {
			if ptr, ok := t.(*types.Pointer); ok {
				t = ptr.Elem()
			}
			return types.Identical(t, tn.Type())
		}
		find := func(name string) *ast.FuncDecl {
			if i := strings.Index(name, "."); i >= 0 {
				return core.FuncDecl(pk, name[:i], name[i+1:])
			}
			return core.FuncDecl(pk, "", name)
		}
		acq := find(pt.acquire)
		if acq == nil || st == nil {
			c.Undecided(pt.rel+"."+pt.typ, token.NoPos, "acquire function %s not found", pt.acquire)
			continue
		}
		c.Analysed(core.FuncName(pk, acq))
		resetW := map[string]token.Pos{}
		resetSet := map[*ast.FuncDecl]bool{}
		for _, r := range pt.resets {
			fd := find(r)
			if fd == nil {
				c.Undecided(pt.rel+"."+pt.typ+"/reset:"+r, token.NoPos, "reset function not found")
				continue
			}
			c.Analysed(core.FuncName(pk, fd))
			resetSet[fd] = true
			for f, pos := range fieldWrites(p, fd.Body, isT) {
				resetW[f] = pos
			}
		}
		// definite assignment in the acquire function
		paths, ok, why := EnumPaths(p, acq, 1, 2048)
		if !ok {
			c.Undecided(pt.rel+"."+pt.typ+"/acquire", acq.Pos(), "cannot enumerate paths of %s: %s", pt.acquire, why)
			continue
		}
		var definite map[string]bool
		npaths := 0
		for _, path := range paths {
			w := map[string]bool{}
			fromPool := false
			for _, ev := range path {
				if ev.Call != nil {
					// delegation to a reset function counts as its writes
					if o := p.Callee(ev.Call); o != nil {
						if fd := p.DeclOf(o); fd != nil && resetSet[fd] {
							for f := range resetW {
								w[f] = true
							}
						}
					}
					if se, ok := ev.Call.Fun.(*ast.SelectorExpr); ok && se.Sel.Name == "Get" {
						fromPool = true
					}
				}
				if ev.Stmt != nil {
					for f := range fieldWrites(p, ev.Stmt, isT) {
						w[f] = true
					}
					if rs, ok := ev.Stmt.(*ast.ReturnStmt); ok && len(rs.Results) == 1 {
						// `return new(T)` / composite literal: a fresh object, every field is zero
						switch r := ast.Unparen(rs.Results[0]).(type) {
						case *ast.CallExpr:
							if id, ok := r.Fun.(*ast.Ident); ok && id.Name == "new" {
								fromPool = false
							}
						case *ast.UnaryExpr:
							if _, ok := r.X.(*ast.CompositeLit); ok {
								fromPool = false
							}
						}
					}
				}
			}
			if !fromPool {
				continue
			}
			npaths++
			if definite == nil {
				definite = w
			} else {
				for f := range definite {
					if !w[f] {
						delete(definite, f)
					}
				}
			}
		}
		if npaths == 0 {
			c.Undecided(pt.rel+"."+pt.typ+"/acquire", acq.Pos(), "no path of %s takes an object from the pool", pt.acquire)
			continue
		}
		// who writes each field (outside the pool's New literal)?
		writers := map[string][]string{}
		for _, fd := range core.FuncDecls(pk) {
			if fd.Body == nil || strings.HasSuffix(p.Fset.Position(fd.Pos()).Filename, "_test.go") {
				continue
			}
			for f := range fieldWrites(p, fd.Body, isT) {
				writers[f] = append(writers[f], fd.Name.Name)
			}
		}
		for i := 0; i < st.NumFields(); i++ {
			f := st.Field(i).Name()
			cn := pt.rel + "." + pt.typ + "." + f + "/pool-reset"
			ws := writers[f]
			sort.Strings(ws)
			switch {
			case len(ws) == 0:
				c.OK(cn, st.Field(i).Pos(), "never written after construction")
			case definite[f]:
				c.OK(cn, st.Field(i).Pos(), "assigned on every path of %s", pt.acquire)
			case resetW[f].IsValid():
				c.OK(cn, st.Field(i).Pos(), "assigned by the reset function at the pool boundary")
			case pt.waive[f] != "":
				c.OK(cn, st.Field(i).Pos(), "waived: %s", pt.waive[f])
			default:
				c.Bad(cn, st.Field(i).Pos(), "field %s of the pooled %s is written by %s but is neither assigned on every path of %s nor reset at the pool boundary (%s): a value left by one call is seen by the next call that draws this object from the pool", f, pt.typ, strings.Join(ws, ", "), pt.acquire, strings.Join(pt.resets, ", "))
			}
		}
	}
}
