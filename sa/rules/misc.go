package rules

import (
	"go/ast"
	"go/token"
	"go/types"
	"strings"

	"verif/sa/core"
)

func init() {
	register(&core.Rule{ID: "S8b", Min: 3,
		Doc: "Pairs are constructed with their hash: every composite literal of ast.Pair that carries a key is inside NewPair (which fills the unexported hash the key index trusts); elsewhere only the empty Pair{} / the error pair with an empty key may be written; the Key field of an existing Pair is never assigned in package ast (key and hash are set together by NewPair).",
		Run: runS8b})
	register(&core.Rule{ID: "T2", Min: 3,
		Doc: "Node type dispatch strips both state flags: wherever ast code masks Node.t with _MASK_RAW or _MASK_LAZY the same expression applies both masks (as itype()/Type() do); masking only one of them classifies partially parsed (lazy) or raw nodes as neither array nor object.",
		Run: runT2})
	register(&core.Rule{ID: "O4", Min: 4,
		Doc: "Values handed to ast.Visitor callbacks are not views of traverser-owned reusable storage: no argument of a Visitor method call is rt.Mem2Str/StrFrom of a field of the traverser (a visitor that keeps the key would see it change on the next event).",
		Run: runO4})
	register(&core.Rule{ID: "M3", Min: 2,
		Doc: "Work-list propagation keeps the per-type flag: in the pretouch drivers, a loop that copies entries of one map into the next work list (`for k, v := range src { dst[k] = ... }`, same value type) stores the value variable of that very range statement, not a variable of an enclosing scope; and encoder.PretouchMany seeds top-level types with the non-addressable flag (0), the value Marshal itself compiles top-level values with.",
		Run: runM3})
	register(&core.Rule{ID: "L2b", Min: 1,
		Doc: "Copy completeness of the RCU map: caching._ProgramMap.copy() carries every field of the struct over from the receiver (n, m from self; b freshly allocated with the same length): a field left at its zero value (e.g. the element count that drives rehashing) silently changes the map's behaviour after the first insert.",
		Run: runL2b})
}

func runS8b(c *core.Ctx) {
	p := c.Prog
	pk := p.Pkg("ast")
	pairObj := core.Obj(pk, "Pair")
	if pairObj == nil {
		c.Undecided("ast.Pair", token.NoPos, "not found")
		return
	}
	n := 0
	for _, fd := range core.FuncDecls(pk) {
		if fd.Body == nil {
			continue
		}
		fn := core.FuncName(pk, fd)
		k := 0
		ast.Inspect(fd.Body, func(nd ast.Node) bool {
			cl, ok := nd.(*ast.CompositeLit)
			if !ok {
				return true
			}
			t := p.TypeOf(cl)
			if t == nil {
				return true
			}
			if nt, ok := t.(*types.Named); !ok || nt.Obj() != pairObj {
				return true
			}
			n++
			k++
			cn := fn + "/Pair-literal#" + itoa(k)
			if fd.Name.Name == "NewPair" {
				hasHash := false
				for _, el := range cl.Elts {
					if kv, ok := el.(*ast.KeyValueExpr); ok && exprStr(kv.Key) == "hash" {
						hasHash = true
					}
				}
				c.Check(hasHash, cn, cl.Pos(), "NewPair fills hash", "NewPair no longer fills Pair.hash")
				return true
			}
			// key expression
			keyExpr := ""
			for i, el := range cl.Elts {
				if kv, ok := el.(*ast.KeyValueExpr); ok {
					if exprStr(kv.Key) == "Key" {
						keyExpr = exprStr(kv.Value)
					}
				} else if i == 1 {
					keyExpr = exprStr(el)
				}
			}
			if keyExpr == "" || keyExpr == `""` {
				c.OK(cn, cl.Pos(), "empty pair / empty key")
			} else {
				c.Bad(cn, cl.Pos(), "%s builds a Pair with key %s without going through NewPair: Pair.hash stays 0, so once the object's key index is built (objects with more than 16 pairs) every lookup by key misses", fn, keyExpr)
			}
			return true
		})
	}
	// the key of an existing Pair is never re-assigned (hash and Key are set together)
	nk := 0
	for _, fd := range core.FuncDecls(pk) {
		if fd.Body == nil || strings.HasSuffix(p.Fset.Position(fd.Pos()).Filename, "_test.go") {
			continue
		}
		fn := core.FuncName(pk, fd)
		ast.Inspect(fd.Body, func(nd ast.Node) bool {
			as, ok := nd.(*ast.AssignStmt)
			if !ok {
				return true
			}
			for _, l := range as.Lhs {
				se, ok := ast.Unparen(l).(*ast.SelectorExpr)
				if !ok || se.Sel.Name != "Key" {
					continue
				}
				t := p.TypeOf(se.X)
				if pt, ok := t.(*types.Pointer); ok {
					t = pt.Elem()
				}
				if nt, ok := t.(*types.Named); !ok || nt.Obj() != pairObj {
					continue
				}
				nk++
				c.Bad(fn+"/Pair.Key-assigned#"+itoa(nk), as.Pos(), "%s assigns %s after the Pair was built: Pair.hash still is the hash of the old key text (for example the still-escaped key), so the key index of objects with more than 16 pairs misses this key", fn, exprStr(l))
			}
			return true
		})
	}
	if nk == 0 {
		c.OK("ast/Pair.Key-never-reassigned", pairObj.Pos(), "no assignment to the Key field of an existing Pair in package ast")
	}
	if n < 3 {
		c.Undecided("ast/Pair-literals", token.NoPos, "only %d Pair literals found", n)
	}
}

func runT2(c *core.Ctx) {
	p := c.Prog
	pk := p.Pkg("ast")
	mr, ml := core.Obj(pk, "_MASK_RAW"), core.Obj(pk, "_MASK_LAZY")
	if mr == nil || ml == nil {
		c.Undecided("ast._MASK_*", token.NoPos, "mask constants not found")
		return
	}
	n := 0
	for _, fd := range core.FuncDecls(pk) {
		if fd.Body == nil {
			continue
		}
		fn := core.FuncName(pk, fd)
		k := 0
		// outermost & chains
		var visit func(nd ast.Node, insideAnd bool)
		visit = func(nd ast.Node, insideAnd bool) {
			ast.Inspect(nd, func(m ast.Node) bool {
				be, ok := m.(*ast.BinaryExpr)
				if !ok || be.Op != token.AND {
					return true
				}
				hasR, hasL := false, false
				ast.Inspect(be, func(x ast.Node) bool {
					if id, ok := x.(*ast.Ident); ok {
						switch p.ObjectOf(id) {
						case mr:
							hasR = true
						case ml:
							hasL = true
						}
					}
					return true
				})
				if hasR || hasL {
					n++
					k++
					cn := fn + "/type-mask#" + itoa(k)
					if hasR && hasL {
						c.OK(cn, be.Pos(), "both state flags stripped")
					} else {
						which := "_MASK_RAW"
						if hasL {
							which = "_MASK_LAZY"
						}
						c.Bad(cn, be.Pos(), "%s masks Node.t with %s only: a node that is still lazy (partially parsed) or raw is then classified as neither array nor object, so the result depends on which reads happened before", fn, which)
					}
				}
				return false // do not descend into the chain again
			})
		}
		visit(fd.Body, false)
	}
	if n < 3 {
		c.Undecided("ast/type-masks", token.NoPos, "only %d mask uses found", n)
	}
}

func runO4(c *core.Ctx) {
	p := c.Prog
	pk := p.Pkg("ast")
	vis := core.Obj(pk, "Visitor")
	if vis == nil {
		c.Undecided("ast.Visitor", token.NoPos, "not found")
		return
	}
	iface, _ := vis.Type().Underlying().(*types.Interface)
	n := 0
	for _, fd := range core.FuncDecls(pk) {
		if fd.Body == nil || fd.Recv == nil {
			continue
		}
		recv := recvObj(p, fd)
		fn := core.FuncName(pk, fd)
		k := 0
		ast.Inspect(fd.Body, func(nd ast.Node) bool {
			call, ok := nd.(*ast.CallExpr)
			if !ok {
				return true
			}
			se, ok := call.Fun.(*ast.SelectorExpr)
			if !ok {
				return true
			}
			m, ok := p.ObjectOf(se.Sel).(*types.Func)
			if !ok || iface == nil {
				return true
			}
			isVisitorMethod := false
			for i := 0; i < iface.NumMethods(); i++ {
				if iface.Method(i) == m {
					isVisitorMethod = true
				}
			}
			if !isVisitorMethod {
				return true
			}
			n++
			k++
			cn := fn + "/visitor-arg:" + m.Name() + "#" + itoa(k)
			bad := ""
			for _, a := range call.Args {
				// resolve one level of local definitions: key := rt.Mem2Str(self.kbuf)
				exprs := []ast.Expr{a}
				if id, ok := ast.Unparen(a).(*ast.Ident); ok {
					o := p.ObjectOf(id)
					ast.Inspect(fd.Body, func(x ast.Node) bool {
						if as, ok := x.(*ast.AssignStmt); ok {
							for i, l := range as.Lhs {
								if lid, ok := l.(*ast.Ident); ok && p.ObjectOf(lid) == o && i < len(as.Rhs) {
									exprs = append(exprs, as.Rhs[i])
								}
							}
						}
						return true
					})
				}
				for _, e := range exprs {
					ast.Inspect(e, func(x ast.Node) bool {
						c2, ok := x.(*ast.CallExpr)
						if !ok {
							return true
						}
						if o := p.Callee(c2); o != nil && (o.Name() == "Mem2Str" || o.Name() == "StrFrom") {
							for _, aa := range c2.Args {
								if rid := rootIdentOf(aa); rid != nil && p.ObjectOf(rid) == recv {
									bad = exprStr(c2)
								}
							}
						}
						return true
					})
				}
			}
			if bad != "" {
				c.Bad(cn, call.Pos(), "the visitor callback %s receives %s, a view of storage the traverser reuses: a visitor that keeps the value sees it overwritten by a later event", m.Name(), bad)
			} else {
				c.OK(cn, call.Pos(), "arguments do not alias traverser-owned buffers")
			}
			return true
		})
	}
	if n < 4 {
		c.Undecided("ast/visitor-calls", token.NoPos, "only %d Visitor method calls found", n)
	}
}

func rootIdentOf(e ast.Expr) *ast.Ident {
	for {
		switch x := ast.Unparen(e).(type) {
		case *ast.Ident:
			return x
		case *ast.SelectorExpr:
			e = x.X
		case *ast.IndexExpr:
			e = x.X
		case *ast.SliceExpr:
			e = x.X
		case *ast.StarExpr:
			e = x.X
		case *ast.UnaryExpr:
			e = x.X
		default:
			return nil
		}
	}
}

func runM3(c *core.Ctx) {
	p := c.Prog
	n := 0
	for _, r := range []struct{ rel, fn string }{{"internal/encoder", "pretouchRec"}, {"internal/encoder", "pretouchRecX86"}, {"internal/decoder/jitdec", "pretouchRec"}, {"internal/decoder/optdec", "pretouchRec"}} {
		pk := p.Pkg(r.rel)
		fd := core.FuncDecl(pk, "", r.fn)
		if fd == nil {
			continue
		}
		c.Analysed(r.rel + "." + r.fn)
		k := 0
		ast.Inspect(fd.Body, func(nd ast.Node) bool {
			rs, ok := nd.(*ast.RangeStmt)
			if !ok {
				return true
			}
			srcT, ok := p.TypeOf(rs.X).Underlying().(*types.Map)
			if !ok {
				return true
			}
			for _, s := range rs.Body.List {
				as, ok := s.(*ast.AssignStmt)
				if !ok || len(as.Lhs) != 1 || len(as.Rhs) != 1 {
					continue
				}
				ix, ok := as.Lhs[0].(*ast.IndexExpr)
				if !ok {
					continue
				}
				dstT, ok := p.TypeOf(ix.X).Underlying().(*types.Map)
				if !ok || !types.Identical(dstT.Elem(), srcT.Elem()) || !types.Identical(dstT.Key(), srcT.Key()) {
					continue
				}
				if rs.Key == nil || p.ExprObj(ix.Index) != p.ExprObj(rs.Key) {
					continue
				}
				n++
				k++
				cn := r.rel + "." + r.fn + "/worklist-copy#" + itoa(k)
				rhs := ast.Unparen(as.Rhs[0])
				if _, isConst := rhs.(*ast.Ident); isConst && (exprStr(rhs) == "true" || exprStr(rhs) == "false") {
					c.OK(cn, as.Pos(), "constant marker")
					continue
				}
				if rs.Value != nil && p.ExprObj(rhs) == p.ExprObj(rs.Value) {
					c.OK(cn, as.Pos(), "copies the value of the ranged entry")
				} else {
					c.Bad(cn, as.Pos(), "the loop copies the keys of %s into %s but stores `%s`, which is not the value of the ranged entry: the per-type flag (pointer-value / addressability) of nested types is replaced by an unrelated one", exprStr(rs.X), exprStr(ix.X), exprStr(rhs))
				}
			}
			return true
		})
	}
	// top-level seed
	enc := p.Pkg("internal/encoder")
	if fd := core.FuncDecl(enc, "", "PretouchMany"); fd != nil {
		c.Analysed("internal/encoder.PretouchMany")
		found := false
		ast.Inspect(fd.Body, func(nd ast.Node) bool {
			as, ok := nd.(*ast.AssignStmt)
			if !ok || len(as.Lhs) != 1 {
				return true
			}
			if ix, ok := as.Lhs[0].(*ast.IndexExpr); ok && exprStr(ix.X) == "vtm" {
				found = true
				n++
				v, isC := p.ConstInt(as.Rhs[0])
				c.Check(isC && v == 0, "internal/encoder.PretouchMany/top-level-flag", as.Pos(), "top-level types seeded with flag 0 (not addressable), as Marshal compiles them", "PretouchMany seeds top-level types with flag "+exprStr(as.Rhs[0])+" instead of 0: Pretouch caches the pointer-value variant, so output depends on whether Pretouch ran before Marshal")
			}
			return true
		})
		if !found {
			c.Undecided("internal/encoder.PretouchMany/top-level-flag", fd.Pos(), "seed assignment not found")
		}
	}
	if n < 2 {
		c.Undecided("pretouch/worklists", token.NoPos, "only %d work-list sites found", n)
	}
}

func runL2b(c *core.Ctx) {
	p := c.Prog
	pk := p.Pkg("internal/caching")
	fd := core.FuncDecl(pk, "_ProgramMap", "copy")
	st := structOf(pk, "_ProgramMap")
	if fd == nil || st == nil {
		c.Undecided("caching.(_ProgramMap).copy", token.NoPos, "not found")
		return
	}
	c.Analysed("internal/caching.(_ProgramMap).copy")
	recv := recvObj(p, fd)
	set := map[string]string{}
	ast.Inspect(fd.Body, func(nd ast.Node) bool {
		if cl, ok := nd.(*ast.CompositeLit); ok {
			for _, el := range cl.Elts {
				if kv, ok := el.(*ast.KeyValueExpr); ok {
					set[exprStr(kv.Key)] = exprStr(kv.Value)
				}
			}
		}
		if as, ok := nd.(*ast.AssignStmt); ok && len(as.Lhs) == 1 {
			if se, ok := as.Lhs[0].(*ast.SelectorExpr); ok {
				if _, isRecv := selOn(p, se, recv); !isRecv {
					set[se.Sel.Name] = exprStr(as.Rhs[0])
				}
			}
		}
		return true
	})
	var missing []string
	for i := 0; i < st.NumFields(); i++ {
		f := st.Field(i).Name()
		v, ok := set[f]
		if !ok {
			missing = append(missing, f)
			continue
		}
		if _, isSlice := st.Field(i).Type().Underlying().(*types.Slice); !isSlice && !strings.Contains(v, recv.Name()+"."+f) {
			missing = append(missing, f+" (set to "+v+")")
		}
	}
	if len(missing) == 0 {
		c.OK("internal/caching.(_ProgramMap).copy/complete", fd.Pos(), "all %d fields carried over", st.NumFields())
	} else {
		c.Bad("internal/caching.(_ProgramMap).copy/complete", fd.Pos(), "copy() does not carry over field(s) %v from the receiver: the copy starts with zero there (for n: the load factor is never reached, the table never grows and panics with 'no available slots' once 4096 types are cached)", missing)
	}
}
