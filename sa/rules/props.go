package rules

import "verif/sa/core"

// Props lists, per claimed property, the rules that decide its structural clauses.
func Props() []core.PropSpec {
	return []core.PropSpec{
		{ID: "C05", Rules: []string{"B1", "B2", "K4"},
			Explanation: "Go/generator side only: every input load the JIT decoder templates perform through (IP)(IC) is covered by a bound check established since IC last moved; optdec parses a private copy followed by at least 64 padding bytes. Reads performed inside the native routines (SIMD loads, tails, page-boundary logic) are NOT decided: they exist in the build only as byte arrays.",
			Assumptions: []string{"a handler's first access may rely on IC < IL established by the preceding lspace opcode", "native routines are not analysed"}},
		{ID: "C01", Rules: []string{"I0", "I1", "I2", "I3", "S1"},
			Explanation: "Decides well-formedness of the decoder IR the JIT compiler emits (every branch resolved, state stack balanced, nesting tagged), opcode totality, and wiring clauses; decoded values, field selection semantics and natives are NOT decided.",
			Assumptions: []string{"the emitter DSL model (add/chr/int/rtt/pin/rel/tag) is complete for the compile* functions"}},
		{ID: "C09", Rules: []string{"M1", "M2", "L2"},
			Explanation: "Decides that nothing outside the cache key flows into a cached compilation, that batch-loaded code is associated with its type positionally or by an injective key, and that the cache compares keys by type-pointer identity. That two compilations of one type are observationally equal (inline depth etc.) is NOT decided.",
			Assumptions: []string{"compile options (inline/recursion depth) do not change codec semantics"}},
		{ID: "C06", Rules: []string{"O1", "O2", "O3", "A1"},
			Explanation: "Decides pool typestate (no use after put, no pooled memory escaping to the caller) path-sensitively over go/cfg, and the copy-before-retain instances. That natives honour the capacity they are told, and byte-identity of output across capacities, are NOT decided.",
			Assumptions: []string{"alias summaries of append/HTMLEscape/CorrectWith/Quote: result aliases the first argument"}},
		{ID: "C15", Rules: []string{"S5", "S8", "S9", "R1"},
			Explanation: "Thin structural clauses: one duplicate-key policy on the indexed and the linear lookup path, index maintenance paired with every slot writer, mutators force the parsed form before writing, lookups are effect-free. Equality with an ordered-map model over operation histories is NOT decided.",
			Assumptions: []string{"operation sequences are not explored"}},
		{ID: "C14", Rules: []string{"S5", "R1", "O3"},
			Explanation: "Thin structural clauses: duplicate-key policy identical on both lookup paths (first occurrence), lookups effect-free. The native path search and typed accessor values are NOT decided.",
			Assumptions: []string{"native get_by_path is not analysed (byte arrays)"}},
		{ID: "C16", Rules: []string{"L3", "R1"},
			Explanation: "Per-node lock discipline of ast.Node decided on go/cfg locksets: raw text is read under the node lock, the representation switch is published atomically and never replaces the mutex while it is held, load-once children carry their own lock. Interleavings themselves are NOT explored.",
			Assumptions: []string{"sync.RWMutex is correct", "LoadAll/parseRaw(full) are exclusive by contract"}},
		{ID: "C08", Rules: []string{"L1", "L2", "O1", "O2"},
			Explanation: "Decides the guarded-by discipline of all package-level state (locksets over go/cfg, atomic-only, init-only, RCU/copy-on-write cache) and pool typestate. Interleavings themselves and value-level determinism are NOT decided.",
			Assumptions: []string{"sync.Pool/sync.Mutex are correct", "objects handed to natives are not shared"}},
		{ID: "C02", Rules: []string{"T1", "K1", "A5"},
			Explanation: "Decides that each JSON-consuming entry point owes and performs a trailing check after a validating native, and that the nesting limit is one constant everywhere. The accept language of the native FSM (byte arrays) is NOT decided.",
			Assumptions: []string{"native.ValidateOne / SkipOne(flags=0) validate structure (not analysed: byte arrays)"}},
		{ID: "C17", Rules: []string{"E1", "E2", "E3", "E4"},
			Explanation: "Error/ownership clauses of the stream codec, decided on go/cfg graphs: no reader/writer error is dropped, the sticky error discipline holds, the framed value is copied before decoding, the short-write loop is well-formed. Value-sequence equality over all chunkings is NOT decided.",
			Assumptions: []string{"io.Reader implementations repeat a delayed error on the next Read (the encoding/json idiom)"}},
		{ID: "C10", Rules: []string{"K1", "K2", "K3"},
			Explanation: "Runtime-cooperation clauses visible in Go source: GC pointer bitmaps equal the generated functions' signatures, stack pre-growth covers the generated + native frames, prologue/epilogue/Load use one frame constant, hard-coded state-stack offsets equal struct offsets. pcsp/funcdata tables, preemption and stack-move safety per instruction are NOT decided.",
			Assumptions: []string{"types.SizesFor(gc, amd64) models the compiler's layout", "native _stack__ constants generated by asm2asm are truthful"}},
		{ID: "C13", Rules: []string{"S2"},
			Explanation: "Dispatch clause only: the SSE and AVX2 dispatch tables are complete, uncrossed, each drawn from its own package, and the generated export rows are identical in shape. A missing or crossed row changes behaviour in exactly one SIMD mode. Equality of the two compiled variants of each routine (byte arrays) is NOT decided.",
			Assumptions: []string{"the native byte arrays are not analysed", "linux/amd64"}},
		{ID: "C18", Rules: []string{"W1", "W2", "W3", "W4", "W5", "W6", "W7"},
			Explanation: "Static wiring check: every Config field / setter / exported option constant is followed by object identity through its constant chain to one canonical bit; decides that each switch reaches its own bit and no other. Does not decide the value-level 'and no other effect'.",
			Assumptions: []string{"linux/amd64 build configuration (thorough: also arm64)", "option semantics below the bit consumers are not decided"}},
	}
}
