package rules

import "verif/sa/core"

// Props lists, per claimed property, the rules that decide its structural clauses.
func Props() []core.PropSpec {
	return []core.PropSpec{
		{ID: "C18", Rules: []string{"W1", "W2", "W3", "W4", "W5"},
			Explanation: "Static wiring check: every Config field / setter / exported option constant is followed by object identity through its constant chain to one canonical bit; decides that each switch reaches its own bit and no other. Does not decide the value-level 'and no other effect'.",
			Assumptions: []string{"linux/amd64 build configuration (thorough: also arm64)", "option semantics below the bit consumers are not decided"}},
	}
}
