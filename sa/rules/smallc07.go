package rules

import (
	"go/ast"
	"go/token"
	"go/types"
	"strings"

	"verif/sa/core"
)

// E7: cursor and buffer of the stream decoder go together. scanp indexes buf; whenever buf is
// released (set to nil / re-sliced to empty) the cursor must be reset in the same function,
// otherwise a later `buf[scanp:]` (Buffered, scan) slices a shorter buffer at the old cursor.
//
// X6: exported entry points that take raw input index it only after looking at its length.

func init() {
	register(&core.Rule{ID: "E7", Min: 1, Arm64: true,
		Doc: "Stream decoder cursor discipline: every function of internal/decoder/api that assigns nil (or an empty re-slice) to StreamDecoder.buf also assigns StreamDecoder.scanp in the same function, so that no cursor outlives the buffer it indexes (Buffered() slices buf[scanp:]).",
		Run: runE7})
	register(&core.Rule{ID: "X6", Min: 1, Arm64: true,
		Doc: "Raw input is indexed only after its length was examined: in every exported function or method of the packages sonic, ast, decoder, encoder, internal/decoder/api and internal/encoder that has a []byte or string parameter, an index expression with a constant index on that parameter is preceded (source order, same function) by an expression that takes len() of the parameter.",
		Run: runX6})
}

func runE7(c *core.Ctx) {
	p := c.Prog
	pk := p.Pkg("internal/decoder/api")
	if pk == nil {
		c.Undecided("internal/decoder/api", token.NoPos, "package not loaded")
		return
	}
	n := 0
	for _, fd := range core.FuncDecls(pk) {
		if fd.Body == nil || core.RecvName(fd) != "StreamDecoder" {
			continue
		}
		recv := recvObj(p, fd)
		var release token.Pos
		resets := false
		ast.Inspect(fd.Body, func(nd ast.Node) bool {
			as, ok := nd.(*ast.AssignStmt)
			if !ok {
				return true
			}
			for i, l := range as.Lhs {
				f, ok := selOn(p, l, recv)
				if !ok || i >= len(as.Rhs) {
					continue
				}
				switch f {
				case "buf":
					r := exprStr(as.Rhs[i])
					if r == "nil" || strings.HasSuffix(r, "[:0]") {
						release = as.Pos()
					}
				case "scanp":
					resets = true
				}
			}
			return true
		})
		if release == token.NoPos {
			continue
		}
		n++
		fn := core.FuncName(pk, fd)
		c.Analysed(fn)
		c.Check(resets, fn+"/cursor-with-buffer", release, "scanp is assigned where buf is released", "buf is released here but scanp keeps its old value: the next Buffered() (or scan) slices the new, shorter buffer at the stale cursor and panics with slice bounds out of range")
	}
	if n == 0 {
		c.Undecided("internal/decoder/api/cursor-with-buffer", token.NoPos, "no function releases StreamDecoder.buf")
	}
}

func runX6(c *core.Ctx) {
	p := c.Prog
	n := 0
	for _, rel := range []string{"", "ast", "decoder", "encoder", "internal/decoder/api", "internal/encoder"} {
		pk := p.Pkg(rel)
		if pk == nil {
			continue
		}
		for _, fd := range core.FuncDecls(pk) {
			if fd.Body == nil || !fd.Name.IsExported() {
				continue
			}
			params := map[types.Object]bool{}
			for _, fl := range fd.Type.Params.List {
				for _, nm := range fl.Names {
					o := p.ObjectOf(nm)
					if o == nil {
						continue
					}
					switch t := o.Type().Underlying().(type) {
					case *types.Slice:
						if b, ok := t.Elem().(*types.Basic); ok && b.Kind() == types.Byte {
							params[o] = true
						}
					case *types.Basic:
						if t.Kind() == types.String {
							params[o] = true
						}
					}
				}
			}
			if len(params) == 0 {
				continue
			}
			lenSeen := map[types.Object]token.Pos{}
			ast.Inspect(fd.Body, func(nd ast.Node) bool {
				if call, ok := nd.(*ast.CallExpr); ok && len(call.Args) == 1 {
					if id, ok := call.Fun.(*ast.Ident); ok && id.Name == "len" {
						if a, ok := ast.Unparen(call.Args[0]).(*ast.Ident); ok && params[p.ObjectOf(a)] {
							if _, seen := lenSeen[p.ObjectOf(a)]; !seen {
								lenSeen[p.ObjectOf(a)] = call.Pos()
							}
						}
					}
				}
				return true
			})
			fn := core.FuncName(pk, fd)
			k := 0
			ast.Inspect(fd.Body, func(nd ast.Node) bool {
				ix, ok := nd.(*ast.IndexExpr)
				if !ok {
					return true
				}
				a, ok := ast.Unparen(ix.X).(*ast.Ident)
				if !ok || !params[p.ObjectOf(a)] {
					return true
				}
				if _, isConst := p.ConstInt(ix.Index); !isConst {
					return true
				}
				k++
				n++
				c.Analysed(fn)
				cn := fn + "/index-after-len#" + itoa(k)
				if lp, ok := lenSeen[p.ObjectOf(a)]; ok && lp < ix.Pos() {
					c.OK(cn, ix.Pos(), "len(%s) is examined before %s", a.Name, exprStr(ix))
				} else {
					c.Bad(cn, ix.Pos(), "%s is read without looking at len(%s) first: an empty argument makes this exported entry point panic with index out of range", exprStr(ix), a.Name)
				}
				return true
			})
		}
	}
	if n == 0 {
		c.Undecided("api/index-after-len", token.NoPos, "no constant index on a raw-input parameter found")
	}
}

// E8: only syntax (and reader) errors end a stream. The error of Decoder.Decode on one framed
// value may be a type mismatch or come from a user Unmarshaler: decoding value by value goes on
// behind it, so the stream decoder must not record it as its permanent error.

func init() {
	register(&core.Rule{ID: "E8", Min: 1, Arm64: true,
		Doc: "StreamDecoder.Decode records the error of the embedded Decoder.Decode as the stream's permanent error (setErr) only under a type test for SyntaxError; an unconditional setErr(err) makes a type mismatch on one value swallow every later value.",
		Run: runE8})
}

func runE8(c *core.Ctx) {
	p := c.Prog
	pk := p.Pkg("internal/decoder/api")
	fd := core.FuncDecl(pk, "StreamDecoder", "Decode")
	cn := "internal/decoder/api.(StreamDecoder).Decode/permanent-error"
	if fd == nil || fd.Body == nil {
		c.Undecided(cn, token.NoPos, "not found")
		return
	}
	c.Analysed(core.FuncName(pk, fd))
	// the variable assigned from self.Decoder.Decode(val)
	var errObj types.Object
	ast.Inspect(fd.Body, func(n ast.Node) bool {
		as, ok := n.(*ast.AssignStmt)
		if !ok || len(as.Rhs) != 1 || len(as.Lhs) != 1 {
			return true
		}
		if call, ok := as.Rhs[0].(*ast.CallExpr); ok {
			if se, ok := call.Fun.(*ast.SelectorExpr); ok && se.Sel.Name == "Decode" && strings.HasSuffix(exprStr(se.X), "Decoder") {
				if id, ok := as.Lhs[0].(*ast.Ident); ok {
					errObj = p.ObjectOf(id)
				}
			}
		}
		return true
	})
	if errObj == nil {
		c.Undecided(cn, fd.Pos(), "the result of Decoder.Decode is not assigned to a variable")
		return
	}
	var stack []ast.Node
	sites, bad := 0, token.NoPos
	ast.Inspect(fd.Body, func(n ast.Node) bool {
		if n == nil {
			stack = stack[:len(stack)-1]
			return true
		}
		stack = append(stack, n)
		call, ok := n.(*ast.CallExpr)
		if !ok || len(call.Args) != 1 {
			return true
		}
		se, ok := call.Fun.(*ast.SelectorExpr)
		if !ok || se.Sel.Name != "setErr" {
			return true
		}
		id, ok := ast.Unparen(call.Args[0]).(*ast.Ident)
		if !ok || p.ObjectOf(id) != errObj {
			return true
		}
		sites++
		guarded := false
		for _, a := range stack {
			switch x := a.(type) {
			case *ast.IfStmt:
				hit := false
				ast.Inspect(x, func(y ast.Node) bool {
					if y == x.Body || y == x.Else {
						return false
					}
					if ta, ok := y.(*ast.TypeAssertExpr); ok && ta.Type != nil && strings.Contains(exprStr(ta.Type), "SyntaxError") {
						hit = true
					}
					return true
				})
				if hit {
					guarded = true
				}
			case *ast.CaseClause:
				for _, e := range x.List {
					if strings.Contains(exprStr(e), "SyntaxError") {
						guarded = true
					}
				}
			}
		}
		if !guarded && bad == token.NoPos {
			bad = call.Pos()
		}
		return true
	})
	switch {
	case bad != token.NoPos:
		c.Bad(cn, bad, "every error of Decoder.Decode is recorded as the stream's permanent error: after a type mismatch (or an error returned by a user Unmarshaler) on one value, all later Decode calls return that error and the values behind it are never delivered; decoding value by value, and encoding/json's stream decoder, go on")
	case sites == 0:
		c.OK(cn, fd.Pos(), "the error of Decoder.Decode is never recorded as permanent")
	default:
		c.OK(cn, fd.Pos(), "setErr(err) after Decoder.Decode only under a SyntaxError type test (%d site(s))", sites)
	}
}

// E9: the blank skipper does not touch the buffer. StreamDecoder.scan() is called at the top
// level (between values) and by readMore() on every freshly read chunk while a value is still
// incomplete. In the second situation the blanks it steps over may lie inside a string of the
// pending value, so scan may move the cursor but must not drop bytes from buf or count them as
// consumed.

func init() {
	register(&core.Rule{ID: "E9", Min: 1, Arm64: true,
		Doc: "StreamDecoder.scan, which readMore calls in the middle of an incomplete value, assigns no field of its receiver other than scanp (in particular not buf and not scanned): truncating or recycling the buffer there makes a Read that returns only blanks vanish from inside a string.",
		Run: runE9})
}

func runE9(c *core.Ctx) {
	p := c.Prog
	pk := p.Pkg("internal/decoder/api")
	scan := core.FuncDecl(pk, "StreamDecoder", "scan")
	rm := core.FuncDecl(pk, "StreamDecoder", "readMore")
	cn := "internal/decoder/api.(StreamDecoder).scan/cursor-only"
	if scan == nil || scan.Body == nil || rm == nil || rm.Body == nil {
		c.Undecided(cn, token.NoPos, "scan or readMore not found")
		return
	}
	c.Analysed(core.FuncName(pk, scan))
	midValue := false
	ast.Inspect(rm.Body, func(n ast.Node) bool {
		if call, ok := n.(*ast.CallExpr); ok {
			if se, ok := call.Fun.(*ast.SelectorExpr); ok && se.Sel.Name == "scan" {
				midValue = true
			}
		}
		return true
	})
	if !midValue {
		c.OK(cn, scan.Pos(), "readMore no longer calls scan: the skipper is only used between values")
		return
	}
	recv := recvObj(p, scan)
	var bad []string
	var badPos token.Pos
	ast.Inspect(scan.Body, func(n ast.Node) bool {
		var lhs []ast.Expr
		switch x := n.(type) {
		case *ast.AssignStmt:
			lhs = x.Lhs
		case *ast.IncDecStmt:
			lhs = []ast.Expr{x.X}
		}
		for _, l := range lhs {
			if f, ok := selOn(p, l, recv); ok && f != "scanp" {
				bad = append(bad, f)
				if badPos == token.NoPos {
					badPos = l.Pos()
				}
			}
		}
		return true
	})
	if len(bad) > 0 {
		c.Bad(cn, badPos, "scan writes %s of the decoder although readMore calls it on every chunk of an incomplete value: blanks that belong to a string of that value are dropped or counted as consumed when they arrive in a Read of their own (\"a  b\" delivered as `\"a`, ` `, ` b\"` decodes as \"a b\")", strings.Join(bad, ", "))
	} else {
		c.OK(cn, scan.Pos(), "scan only moves scanp")
	}
}
