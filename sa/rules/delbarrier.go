package rules

import (
	"go/token"
	"sort"
	"strings"

	"verif/sa/core"
)

// K13: the deletion half of the GC write barrier. Go's hybrid barrier shades the value a
// pointer slot held before it is overwritten; a goroutine whose stack was already scanned may
// have copied that pointer to its stack without any barrier, and if the heap slot is then
// cleared or replaced by a plain store the collector never sees the old referent again and
// frees it while it is still in use. Generated code therefore has to overwrite pointer words
// of the destination through the barrier helpers even when the new value is nil or static.

func init() {
	register(&core.Rule{ID: "K13", Min: 8,
		Doc: "Overwrites of pointer words of the decode destination go through the write-barrier helpers: in every _asm_OP_* handler of the JIT decoder (and in the generic value decoder) whose destination is not a scalar (opcodes bool, i8..i64, u8..u64, f32, f64 store numbers and are exempt), each emitted store whose memory operand is based on the value pointer VP and overlaps a pointer word of the destination layout (word 0; words 0 and 1 for interface destinations: nil_2, any, dyn and the generic decoder) lies inside WriteRecNotAX / WritePtrAX / WritePtr, whatever is stored (nil and static pointers included).",
		Run: runK13})
}

var k13Scalar = map[string]bool{"_asm_OP_bool": true, "_asm_OP_i8": true, "_asm_OP_i16": true, "_asm_OP_i32": true, "_asm_OP_i64": true,
	"_asm_OP_u8": true, "_asm_OP_u16": true, "_asm_OP_u32": true, "_asm_OP_u64": true, "_asm_OP_f32": true, "_asm_OP_f64": true}

var k13Iface = map[string]bool{"_asm_OP_nil_2": true, "_asm_OP_any": true, "_asm_OP_dyn": true, "compile": true}

func storeWidth(mnem string) int64 {
	switch {
	case strings.HasPrefix(mnem, "MOVOU"), strings.HasPrefix(mnem, "MOVUPS"), strings.HasPrefix(mnem, "MOVDQU"), strings.HasPrefix(mnem, "VMOVDQU"):
		return 16
	case mnem == "MOVQ", mnem == "MOVSD", strings.HasSuffix(mnem, "Q"):
		return 8
	case mnem == "MOVL", mnem == "MOVSS", strings.HasSuffix(mnem, "L"):
		return 4
	case mnem == "MOVW", strings.HasSuffix(mnem, "W"):
		return 2
	case mnem == "MOVB", strings.HasSuffix(mnem, "B"):
		return 1
	}
	return 8
}

func runK13(c *core.Ctx) {
	p := c.Prog
	if p.GOARCH != "amd64" {
		return
	}
	rel := "internal/decoder/jitdec"
	VP := regOf(p, rel, "_VP")
	if VP == "" {
		c.Undecided("jitdec/_VP", token.NoPos, "register variable not found")
		return
	}
	wbHelper := map[string]bool{"WriteRecNotAX": true, "WritePtrAX": true, "WritePtr": true}
	total := 0
	for _, tg := range []decTargets{{rel, "_Assembler", nil, 0}, {rel, "_ValueDecoder", map[string]bool{"compile": true}, 0}} {
		a := newAsmCtx(p, tg.rel, tg.recv)
		for _, fd := range sortedFuncDecls(a.methods()) {
			if tg.only != nil && !tg.only[fd.Name.Name] {
				continue
			}
			if tg.only == nil && (!strings.HasPrefix(fd.Name.Name, "_asm_OP_") || k13Scalar[fd.Name.Name]) {
				continue
			}
			fn := handlerName(a.pk, fd)
			seqs, ok := a.seqs(fd, asmEnv{}, 0)
			if !ok || anyTrunc(seqs) {
				c.Undecided(fn+"/deletion-barrier", fd.Pos(), "cannot enumerate emitted sequences")
				continue
			}
			ptrWords := []int64{0}
			if k13Iface[fd.Name.Name] {
				ptrWords = []int64{0, 8}
			}
			n := 0
			bad := map[string]token.Pos{}
			for _, sq := range seqs {
				depth := 0
				var st []bool
				// VP itself may be advanced (index, deref): a store is judged relative to the VP of the moment
				for _, o := range sq.Ops {
					switch o.Kind {
					case "Helper":
						w := o.Callee != nil && wbHelper[o.Callee.Name()]
						st = append(st, w)
						if w {
							depth++
						}
					case "HelperEnd":
						if len(st) > 0 {
							if st[len(st)-1] {
								depth--
							}
							st = st[:len(st)-1]
						}
					case "Emit":
						if len(o.Ops) < 2 || nonWriting[o.Mnem] {
							continue
						}
						dst := o.Ops[len(o.Ops)-1]
						if dst.Kind != "mem" || dst.Reg != VP || dst.Index != "" || !dst.DispOK {
							continue
						}
						w := storeWidth(o.Mnem)
						hit := false
						for _, pw := range ptrWords {
							if dst.Disp < pw+8 && pw < dst.Disp+w {
								hit = true
							}
						}
						if !hit {
							continue
						}
						n++
						if depth == 0 {
							bad[o.String()] = o.Pos
						}
					}
				}
			}
			if n == 0 {
				continue
			}
			total += n
			c.Analysed(fn)
			cn := fn + "/deletion-barrier"
			if len(bad) == 0 {
				c.OK(cn, fd.Pos(), "%d store(s) over pointer words of the destination, all inside a write-barrier helper", n)
				continue
			}
			var ks []string
			for k := range bad {
				ks = append(ks, k)
			}
			sort.Strings(ks)
			c.Bad(cn, bad[ks[0]], "a pointer word of the destination is overwritten by a plain store (%s): the pointer it held is not shaded, so an object that a goroutine with an already scanned stack has just loaded from this slot is freed during the current GC cycle while still in use", strings.Join(ks, "; "))
		}
	}
	if total < 8 {
		c.Undecided("jitdec/deletion-barrier", token.NoPos, "only %d destination stores found", total)
	}
}
