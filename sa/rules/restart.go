package rules

import (
	"go/ast"
	"go/token"
	"go/types"
	"strings"

	"verif/sa/core"
)

func init() {
	register(&core.Rule{ID: "P1", Min: 10,
		Doc: "Restart protocol of the buffer-full path, at alg.Quote, alg.HtmlEscape and the x86 encode_string template: inside the retry loop (1) the byte count the native reports through dn is added to the output length before its result is tested; (2) a non-negative result leaves the loop; (3) otherwise the buffer is grown; (4) the result is complemented and *added* to the input cursor (a plain assignment loses the progress of earlier rounds); (5) the native is re-entered with the advanced cursor. utf8.CorrectWith: the copy cursor is re-synchronised with the scan cursor inside the loop before each native call, and the position list is reset when the native reports it was full.",
		Run: runP1})
	register(&core.Rule{ID: "P1s", Min: 1, Arm64: true,
		Doc: "The pool-state row of P1 alone: utf8.CorrectWith clears the Sp of the pooled state machine it draws (the pool is shared with Valid / Skip / Get, which leave Sp at the nesting depth of a failed scan) before the first native call; otherwise what ConfigStd Marshal / Unmarshal return depends on what other goroutines did with the pool.",
		Run: func(c *core.Ctx) {
			c.Keep = func(cn string) bool { return strings.Contains(cn, "P1-init-reset") }
			runP1(c)
			c.Keep = nil
		}})
}

func nativeCallIn(p *core.Program, body ast.Node, names ...string) (*ast.CallExpr, *ast.AssignStmt) {
	var call *ast.CallExpr
	var asg *ast.AssignStmt
	ast.Inspect(body, func(n ast.Node) bool {
		as, ok := n.(*ast.AssignStmt)
		if !ok || len(as.Rhs) != 1 {
			return true
		}
		c, ok := ast.Unparen(as.Rhs[0]).(*ast.CallExpr)
		if !ok {
			return true
		}
		o := p.Callee(c)
		if o == nil || o.Pkg() == nil || core.Rel(o.Pkg().Path()) != "internal/native" {
			return true
		}
		for _, nm := range names {
			if o.Name() == nm {
				call, asg = c, as
			}
		}
		return true
	})
	return call, asg
}

func mentions(p *core.Program, n ast.Node, o types.Object) bool {
	f := false
	ast.Inspect(n, func(m ast.Node) bool {
		if id, ok := m.(*ast.Ident); ok && p.ObjectOf(id) == o {
			f = true
		}
		return !f
	})
	return f
}

func runP1(c *core.Ctx) {
	p := c.Prog
	alg := p.Pkg("internal/encoder/alg")
	for _, site := range []struct{ fn, native string }{{"Quote", "Quote"}, {"HtmlEscape", "HTMLEscape"}} {
		fd := core.FuncDecl(alg, "", site.fn)
		base := "internal/encoder/alg." + site.fn
		if fd == nil {
			c.Undecided(base, token.NoPos, "not found")
			continue
		}
		c.Analysed(base)
		// the retry loop containing the native call
		var loop *ast.ForStmt
		ast.Inspect(fd.Body, func(n ast.Node) bool {
			if fs, ok := n.(*ast.ForStmt); ok {
				if call, _ := nativeCallIn(p, fs.Body, site.native); call != nil {
					loop = fs
				}
			}
			return true
		})
		if loop == nil {
			c.Bad(base+"/retry-loop", fd.Pos(), "no loop around native.%s: an output buffer that fills up truncates the result", site.native)
			continue
		}
		call, asg := nativeCallIn(p, loop.Body, site.native)
		res := p.ExprObj(asg.Lhs[0])
		var dn types.Object
		for _, a := range call.Args {
			if u, ok := ast.Unparen(a).(*ast.UnaryExpr); ok && u.Op == token.AND {
				dn = p.ExprObj(u.X)
			}
		}
		if res == nil || dn == nil {
			c.Undecided(base+"/retry-loop", call.Pos(), "result / dn variables not identified")
			continue
		}
		// (1) X.Len += dn before the test of the result
		var addPos, testPos, growPos token.Pos
		var testIf *ast.IfStmt
		ast.Inspect(loop.Body, func(n ast.Node) bool {
			switch x := n.(type) {
			case *ast.AssignStmt:
				if x.Tok == token.ADD_ASSIGN && len(x.Rhs) == 1 && mentions(p, x.Rhs[0], dn) && strings.HasSuffix(exprStr(x.Lhs[0]), ".Len") && x.Pos() > call.Pos() && !addPos.IsValid() {
					addPos = x.Pos()
				}
				for _, r := range x.Rhs {
					if cl, ok := ast.Unparen(r).(*ast.CallExpr); ok {
						if o := p.Callee(cl); o != nil && o.Name() == "GrowSlice" && x.Pos() > call.Pos() {
							growPos = x.Pos()
						}
					}
				}
			case *ast.IfStmt:
				if be, ok := ast.Unparen(x.Cond).(*ast.BinaryExpr); ok && be.Op == token.GEQ && p.ExprObj(be.X) == res && x.Pos() > call.Pos() && testIf == nil {
					if v, ok := p.ConstInt(be.Y); ok && v == 0 {
						testIf = x
						testPos = x.Cond.Pos()
					}
				}
			}
			return true
		})
		c.Check(addPos.IsValid() && testPos.IsValid() && addPos < testPos, base+"/P1.1-count-added-first", call.Pos(),
			"output length += dn before the result is tested", "the bytes the native reports through dn are not added to the output length before its result is tested: output of a round is lost or counted twice when the buffer fills")
		// (2) non-negative result leaves the loop
		leaves := false
		if testIf != nil {
			for _, s := range testIf.Body.List {
				if b, ok := s.(*ast.BranchStmt); ok && b.Tok == token.BREAK {
					leaves = true
				}
				if _, ok := s.(*ast.ReturnStmt); ok {
					leaves = true
				}
			}
		}
		c.Check(leaves, base+"/P1.2-done-leaves", call.Pos(), "result >= 0 leaves the loop", "a non-negative result does not leave the retry loop")
		// (3) grow
		c.Check(growPos.IsValid() && testPos.IsValid() && growPos > testPos, base+"/P1.3-grow", call.Pos(), "buffer grown after an incomplete round", "the buffer is not grown after an incomplete round: the loop cannot make progress")
		// (4)+(5) complement and additive cursor update
		complemented := false
		var badAssign token.Pos
		additive := false
		ast.Inspect(loop.Body, func(n ast.Node) bool {
			if u, ok := n.(*ast.UnaryExpr); ok && u.Op == token.XOR && p.ExprObj(u.X) == res {
				complemented = true
			}
			as, ok := n.(*ast.AssignStmt)
			if !ok || as.Pos() < testPos || len(as.Lhs) != 1 || len(as.Rhs) != 1 {
				return true
			}
			if !mentions(p, as.Rhs[0], res) {
				return true
			}
			lo := p.ExprObj(as.Lhs[0])
			if lo == res {
				return true // ret = ^ret
			}
			switch as.Tok {
			case token.ADD_ASSIGN, token.SUB_ASSIGN:
				additive = true
			case token.ASSIGN, token.DEFINE:
				if lo != nil && mentions(p, as.Rhs[0], lo) {
					additive = true // sp = sp + ret
				} else {
					badAssign = as.Pos()
				}
			}
			return true
		})
		c.Check(complemented, base+"/P1.4-complement", call.Pos(), "negative result complemented before it advances the cursor", "the negative result is never complemented (^ret): the cursor moves by a negative amount")
		if badAssign.IsValid() {
			c.Bad(base+"/P1.4-additive", badAssign, "the input cursor is *assigned* the consumed count of the last round instead of being advanced by it: from the second buffer growth on, input that was already encoded is encoded again")
		} else {
			c.Check(additive, base+"/P1.4-additive", call.Pos(), "cursor advanced additively by the consumed count", "the consumed count never advances the input cursor")
		}
		// (5) the call's input arguments are the cursor variables updated above (re-entered with the advanced cursor)
		reent := false
		ast.Inspect(loop.Body, func(n ast.Node) bool {
			as, ok := n.(*ast.AssignStmt)
			if !ok || as.Pos() < testPos || len(as.Lhs) != 1 {
				return true
			}
			lo := p.ExprObj(as.Lhs[0])
			if lo == nil || lo == res {
				return true
			}
			// lo feeds the call (directly, or through locals computed from it at the loop head)
			for _, a := range call.Args {
				if mentions(p, a, lo) {
					reent = true
				}
			}
			ast.Inspect(loop.Body, func(m ast.Node) bool {
				if a2, ok := m.(*ast.AssignStmt); ok && a2.Pos() < call.Pos() && len(a2.Rhs) == 1 && mentions(p, a2.Rhs[0], lo) {
					for _, l := range a2.Lhs {
						if lo2 := p.ExprObj(l); lo2 != nil {
							for _, a := range call.Args {
								if mentions(p, a, lo2) {
									reent = true
								}
							}
						}
					}
				}
				return true
			})
			return true
		})
		c.Check(reent, base+"/P1.5-reenter", call.Pos(), "native re-entered with the advanced cursor", "the advanced cursor does not feed the next native call")
	}

	// utf8.CorrectWith
	u8 := p.Pkg("utf8")
	if fd := core.FuncDecl(u8, "", "CorrectWith"); fd != nil {
		c.Analysed("utf8.CorrectWith")
		findCall := func(body ast.Node) *ast.CallExpr {
			var call *ast.CallExpr
			ast.Inspect(body, func(n ast.Node) bool {
				if cl, ok := n.(*ast.CallExpr); ok {
					if o := p.Callee(cl); o != nil && o.Name() == "ValidateUTF8" && o.Pkg() != nil && core.Rel(o.Pkg().Path()) == "internal/native" {
						call = cl
					}
				}
				return true
			})
			return call
		}
		var loop *ast.ForStmt
		ast.Inspect(fd.Body, func(n ast.Node) bool {
			if fs, ok := n.(*ast.ForStmt); ok && loop == nil {
				if findCall(fs.Body) != nil {
					loop = fs
				}
			}
			return true
		})
		if loop == nil {
			c.Bad("utf8.CorrectWith/retry-loop", fd.Pos(), "no loop around native.ValidateUTF8")
		} else {
			call := findCall(loop.Body)
			// the pooled state machine is reset before its first use
			initReset := false
			for _, st := range fd.Body.List {
				if st.Pos() >= loop.Pos() {
					break
				}
				if as, ok := st.(*ast.AssignStmt); ok && len(as.Lhs) == 1 && strings.HasSuffix(exprStr(as.Lhs[0]), ".Sp") {
					if v, ok := p.ConstInt(as.Rhs[0]); ok && v == 0 {
						initReset = true
					}
				}
			}
			c.Check(initReset, "utf8.CorrectWith/P1-init-reset", fd.Pos(), "pooled state machine's Sp cleared before the first native call", "the state machine comes from a pool shared with the JSON validators but its Sp is not cleared before the first ValidateUTF8 call: positions left by a failed validation are replayed as invalid-byte positions")
			var cur types.Object
			for _, a := range call.Args {
				if u, ok := ast.Unparen(a).(*ast.UnaryExpr); ok && u.Op == token.AND {
					if o := p.ExprObj(u.X); o != nil {
						if b, ok := o.Type().Underlying().(*types.Basic); ok && b.Kind() == types.Int {
							cur = o
						}
					}
				}
			}
			// copy cursor: low bound of the first slice expression appended inside the inner loop
			var copyCur types.Object
			ast.Inspect(loop.Body, func(n ast.Node) bool {
				if se, ok := n.(*ast.SliceExpr); ok && se.Low != nil && copyCur == nil {
					copyCur = p.ExprObj(se.Low)
				}
				return true
			})
			synced := false
			if cur != nil && copyCur != nil {
				ast.Inspect(loop.Body, func(n ast.Node) bool {
					as, ok := n.(*ast.AssignStmt)
					if ok && as.Pos() < call.Pos() && len(as.Lhs) == 1 && len(as.Rhs) == 1 && p.ExprObj(as.Lhs[0]) == copyCur && p.ExprObj(as.Rhs[0]) == cur {
						synced = true
					}
					return true
				})
			}
			c.Check(synced, "utf8.CorrectWith/P1-resync", call.Pos(), "copy cursor set from the scan cursor inside the loop before each native call",
				"the copy cursor is not re-synchronised with the scan cursor at the top of each round: when the native returns early because its position list (4096 entries) is full, the next round copies from a stale position and bytes are emitted twice")
			// reset of the position list: unconditional at the end of a round, or conditional on the native's result
			reset := false
			ast.Inspect(loop.Body, func(n ast.Node) bool {
				as, ok := n.(*ast.AssignStmt)
				if !ok || len(as.Lhs) != 1 || !strings.HasSuffix(exprStr(as.Lhs[0]), ".Sp") || as.Pos() < call.Pos() {
					return true
				}
				if v, ok := p.ConstInt(as.Rhs[0]); !ok || v != 0 {
					return true
				}
				conds := enclosingIfs(fd, as.Pos())
				inner := false
				for _, ic := range conds {
					if ic.stmt.Pos() > loop.Pos() {
						inner = true
						// the condition must be about the native's result
						var res types.Object
						ast.Inspect(loop.Body, func(m ast.Node) bool {
							if a2, ok := m.(*ast.AssignStmt); ok && len(a2.Rhs) == 1 && ast.Unparen(a2.Rhs[0]) == ast.Expr(call) {
								res = p.ExprObj(a2.Lhs[0])
							}
							return true
						})
						if res != nil && mentions(p, ic.stmt.Cond, res) {
							reset = true
						}
					}
				}
				if !inner {
					reset = true
				}
				return true
			})
			c.Check(reset, "utf8.CorrectWith/P1-reset", call.Pos(), "position list reset when the native reports it was full", "the invalid-position list is not reset after a full round: old positions are replayed")
		}
	} else {
		c.Undecided("utf8.CorrectWith", token.NoPos, "not found")
	}

	// x86 encode_string template
	if p.GOARCH == "amd64" {
		rel := "internal/encoder/x86"
		a := newAsmCtx(p, rel, "Assembler")
		a.noInline = map[string]bool{"add_text": true, "store_str": true, "check_size": true, "check_size_r": true, "check_size_rl": true, "slice_grow_ax": true, "save_c": true}
		fd := core.FuncDecl(a.pk, "Assembler", "encode_string")
		if fd == nil {
			c.Undecided("x86.(Assembler).encode_string", token.NoPos, "not found")
			return
		}
		c.Analysed("internal/encoder/x86.(Assembler).encode_string")
		RL := regOf(p, rel, "_RL")
		par := p.ObjectOf(fd.Type.Params.List[0].Names[0])
		for _, dq := range []bool{false, true} {
			seqs, ok := a.seqs(fd, asmEnv{par: envVal{isBool: true, b: dq}}, 1)
			tag := "x86.(Assembler).encode_string"
			if dq {
				tag += "(quote)"
			}
			if !ok || len(seqs) != 1 {
				c.Undecided(tag, fd.Pos(), "cannot extract the template (%d sequences)", len(seqs))
				continue
			}
			ops := seqs[0].Ops
			ci := findEmit(ops, 0, func(e EmitOp) bool {
				return e.Kind == "Helper" && e.Callee != nil && e.Callee.Name() == "call_c" && len(e.ArgVals) == 1 && e.ArgVals[0].sym != nil && e.ArgVals[0].sym.Name() == "_F_quote"
			})
			if ci < 0 {
				c.Bad(tag+"/P1-native", fd.Pos(), "no call of the native quoter in the template")
				continue
			}
			// end of the inlined call
			end := ci
			depth := 0
			for j := ci; j < len(ops); j++ {
				if ops[j].Kind == "Helper" {
					depth++
				}
				if ops[j].Kind == "HelperEnd" {
					depth--
					if depth == 0 {
						end = j
						break
					}
				}
			}
			isVar := func(o Operand, name string) bool { return o.Name == name }
			addDn := findEmit(ops, end, func(e EmitOp) bool {
				return e.Kind == "Emit" && e.Mnem == "ADDQ" && len(e.Ops) == 2 && isVar(e.Ops[0], "_VAR_dn") && isReg(e.Ops[1], RL)
			})
			js := findEmit(ops, end, func(e EmitOp) bool { return e.Kind == "Sjmp" && e.Mnem == "JS" })
			c.Check(addDn >= 0 && js >= 0 && addDn < js, tag+"/P1.1-count-added-first", ops[ci].Pos, "ADDQ dn, RL before the sign test", "the template does not add dn to RL before testing the native's result")
			if js < 0 {
				continue
			}
			sp := -1
			for j, o := range ops {
				if o.Kind == "Link" && o.Label == ops[js].Label {
					sp = j
				}
			}
			if sp < 0 {
				c.Bad(tag+"/P1-space-label", ops[js].Pos, "the buffer-full label %s is not linked in the template", ops[js].Label)
				continue
			}
			not := findEmit(ops, sp, func(e EmitOp) bool { return e.Kind == "Emit" && e.Mnem == "NOTQ" })
			upd := findEmit(ops, sp, func(e EmitOp) bool {
				return e.Kind == "Emit" && len(e.Ops) == 2 && isVar(e.Ops[1], "_VAR_sp")
			})
			grow := findEmit(ops, sp, func(e EmitOp) bool {
				return e.Kind == "Helper" && e.Callee != nil && e.Callee.Name() == "slice_grow_ax"
			})
			c.Check(not >= 0 && upd > not, tag+"/P1.4-complement", ops[sp].Pos, "NOTQ result before the cursor update", "the result is not complemented (NOTQ) before it updates the input cursor")
			if upd >= 0 && ops[upd].Mnem != "ADDQ" {
				c.Bad(tag+"/P1.4-additive", ops[upd].Pos, "the template updates the input cursor with %s instead of ADDQ: the consumed count of the last round overwrites the progress of earlier rounds, so from the second buffer growth inside one string already-quoted input is quoted again", ops[upd].Mnem)
			} else {
				c.Check(upd >= 0, tag+"/P1.4-additive", ops[sp].Pos, "ADDQ result, sp", "the consumed count never advances the input cursor _VAR_sp")
			}
			okGrow := grow > upd && grow >= 0 && len(ops[grow].ArgVals) == 1 && ops[grow].ArgVals[0].isStr
			loopLbl := ""
			if okGrow {
				loopLbl = ops[grow].ArgVals[0].s
			}
			// (5) the loop label precedes the call and the cursor is loaded after it
			li := -1
			for j, o := range ops {
				if o.Kind == "Link" && o.Label == loopLbl {
					li = j
				}
			}
			ld := findEmit(ops, li+1, func(e EmitOp) bool {
				return e.Kind == "Emit" && e.Mnem == "MOVQ" && len(e.Ops) == 2 && isVar(e.Ops[0], "_VAR_sp")
			})
			c.Check(okGrow && li >= 0 && li < ci && ld > li && ld < ci, tag+"/P1.5-reenter", ops[sp].Pos, "grow, then re-enter at the loop label where the cursor is reloaded", "after growing, the template does not re-enter the quoting loop at a point that reloads the advanced cursor")
		}
	}
}
