package rules

import (
	"go/ast"
	"go/token"
	"go/types"

	"verif/sa/core"
)

// O9: byte slices handed to API callers are fresh. A []byte result can be written by its
// receiver; when it is a zero-copy view of a string (rt.Str2Mem) or a package-level slice, that
// write changes the node's text, strings returned earlier, or what every later caller gets.

func init() {
	register(&core.Rule{ID: "O9", Min: 3, Arm64: true,
		Doc: "Fresh []byte results of the public API: in every exported function or method of the packages sonic, sonic/ast, sonic/encoder and internal/encoder whose first result is a []byte, no return statement yields (directly, or through a local whose every definition in the function is such a value) a zero-copy view of a string (rt.Str2Mem) or a package-level variable.",
		Run: runO9})
}

func runO9(c *core.Ctx) {
	p := c.Prog
	n := 0
	for _, rel := range []string{"", "ast", "encoder", "internal/encoder"} {
		pk := p.Pkg(rel)
		if pk == nil {
			continue
		}
		for _, fd := range core.FuncDecls(pk) {
			if fd.Body == nil || !fd.Name.IsExported() || fd.Type.Results == nil || len(fd.Type.Results.List) == 0 {
				continue
			}
			rt0 := p.TypeOf(fd.Type.Results.List[0].Type)
			sl, ok := rt0.(*types.Slice)
			if !ok {
				continue
			}
			if b, ok := sl.Elem().(*types.Basic); !ok || b.Kind() != types.Byte {
				continue
			}
			fn := core.FuncName(pk, fd)
			c.Analysed(fn)
			n++
			// classify an expression: "" fine, otherwise the reason
			var classify func(e ast.Expr, depth int) string
			classify = func(e ast.Expr, depth int) string {
				e = ast.Unparen(e)
				switch x := e.(type) {
				case *ast.CallExpr:
					if o := p.Callee(x); o != nil && o.Name() == "Str2Mem" {
						return "a zero-copy view of the string " + exprStr(x.Args[0]) + " (rt.Str2Mem)"
					}
				case *ast.Ident:
					o := p.ObjectOf(x)
					v, ok := o.(*types.Var)
					if !ok {
						return ""
					}
					if v.Parent() == pk.Types.Scope() {
						return "the package-level slice " + v.Name() + ", shared by all callers"
					}
					if depth > 2 {
						return ""
					}
					// local: all definitions
					why := ""
					ast.Inspect(fd.Body, func(nd ast.Node) bool {
						if as, ok := nd.(*ast.AssignStmt); ok && len(as.Lhs) == len(as.Rhs) {
							for i, l := range as.Lhs {
								if id, ok := l.(*ast.Ident); ok && p.ObjectOf(id) == o {
									if w := classify(as.Rhs[i], depth+1); w != "" {
										why = w
									}
								}
							}
						}
						return true
					})
					return why
				}
				return ""
			}
			bad := ""
			var badPos token.Pos
			ast.Inspect(fd.Body, func(nd ast.Node) bool {
				if _, lit := nd.(*ast.FuncLit); lit {
					return false
				}
				if r, ok := nd.(*ast.ReturnStmt); ok && len(r.Results) >= 1 {
					if w := classify(r.Results[0], 0); w != "" && bad == "" {
						bad = w
						badPos = r.Pos()
					}
				}
				return true
			})
			cn := fn + "/fresh-bytes"
			if bad != "" {
				c.Bad(cn, badPos, "%s returns %s: the caller owns a []byte result and may write to it, which here changes memory that the library or other callers still use", fd.Name.Name, bad)
			} else {
				c.OK(cn, fd.Pos(), "no return of a string view or of a package-level slice")
			}
		}
	}
	if n == 0 {
		c.Undecided("api/fresh-bytes", token.NoPos, "no exported []byte-returning function found")
	}
}
