package rules

import (
	"go/ast"
	"go/token"
	"go/types"
	"sort"
	"strings"

	"golang.org/x/tools/go/packages"

	"verif/sa/core"
)

// pkgVarAccess is one syntactic access to a package-level variable.
type pkgVarAccess struct {
	v      *types.Var
	write  bool   // assignment / inc-dec / append re-assignment / element or field store through it
	addr   bool   // &v taken
	fn     *ast.FuncDecl
	pk     *packages.Package
	pos    token.Pos
	inInit bool // inside func init or a package-level initialiser
	node   ast.Node
}

func rootIdent(e ast.Expr) *ast.Ident {
	for {
		switch x := ast.Unparen(e).(type) {
		case *ast.Ident:
			return x
		case *ast.SelectorExpr:
			// pkg.Var or var.field
			e = x.X
			if id, ok := ast.Unparen(x.X).(*ast.Ident); ok {
				_ = id
			}
			// qualified identifier: resolve on Sel
			return rootOfSelector(x)
		case *ast.IndexExpr:
			e = x.X
		case *ast.StarExpr:
			e = x.X
		case *ast.SliceExpr:
			e = x.X
		default:
			return nil
		}
	}
}

func rootOfSelector(x *ast.SelectorExpr) *ast.Ident {
	// returns the identifier that names the variable at the root of x
	switch b := ast.Unparen(x.X).(type) {
	case *ast.Ident:
		return b // either a package name (caller resolves Sel) or a variable
	case *ast.SelectorExpr:
		return rootOfSelector(b)
	case *ast.IndexExpr:
		return rootIdent(b.X)
	case *ast.StarExpr:
		return rootIdent(b.X)
	case *ast.CallExpr:
		return nil
	}
	return nil
}

// pkgVarOf resolves the package-level variable at the root of an lvalue/rvalue.
func pkgVarOf(p *core.Program, e ast.Expr) *types.Var {
	e = ast.Unparen(e)
	for {
		switch x := e.(type) {
		case *ast.Ident:
			return asPkgVar(p.ObjectOf(x))
		case *ast.SelectorExpr:
			if id, ok := ast.Unparen(x.X).(*ast.Ident); ok {
				if _, isPkg := p.ObjectOf(id).(*types.PkgName); isPkg {
					return asPkgVar(p.ObjectOf(x.Sel))
				}
			}
			e = ast.Unparen(x.X)
		case *ast.IndexExpr:
			e = ast.Unparen(x.X)
		case *ast.StarExpr:
			e = ast.Unparen(x.X)
		case *ast.SliceExpr:
			e = ast.Unparen(x.X)
		default:
			return nil
		}
	}
}

func asPkgVar(o types.Object) *types.Var {
	v, ok := o.(*types.Var)
	if !ok || v.IsField() || v.Pkg() == nil || v.Parent() != v.Pkg().Scope() || !core.IsSonic(v.Pkg()) {
		return nil
	}
	return v
}

// collectPkgVarAccesses scans all functions for accesses to package-level variables.
func collectPkgVarAccesses(p *core.Program) []pkgVarAccess {
	if v, ok := p.Cache["pkgVarAccesses"]; ok {
		return v.([]pkgVarAccess)
	}
	var out []pkgVarAccess
	for _, pk := range p.Pkgs {
		for _, f := range pk.Syntax {
			for _, d := range f.Decls {
				fd, ok := d.(*ast.FuncDecl)
				if !ok || fd.Body == nil {
					continue
				}
				inInit := fd.Recv == nil && fd.Name.Name == "init"
				written := map[ast.Expr]bool{}
				ast.Inspect(fd.Body, func(n ast.Node) bool {
					switch s := n.(type) {
					case *ast.AssignStmt:
						for _, l := range s.Lhs {
							if v := pkgVarOf(p, l); v != nil {
								written[l] = true
								out = append(out, pkgVarAccess{v: v, write: true, fn: fd, pk: pk, pos: l.Pos(), inInit: inInit, node: s})
							}
						}
					case *ast.IncDecStmt:
						if v := pkgVarOf(p, s.X); v != nil {
							written[s.X] = true
							out = append(out, pkgVarAccess{v: v, write: true, fn: fd, pk: pk, pos: s.Pos(), inInit: inInit, node: s})
						}
					case *ast.UnaryExpr:
						if s.Op == token.AND {
							if v := pkgVarOf(p, s.X); v != nil {
								out = append(out, pkgVarAccess{v: v, addr: true, fn: fd, pk: pk, pos: s.Pos(), inInit: inInit, node: s})
							}
						}
					}
					return true
				})
				// reads
				ast.Inspect(fd.Body, func(n ast.Node) bool {
					if e, ok := n.(ast.Expr); ok && written[e] {
						return false
					}
					if id, ok := n.(*ast.Ident); ok && p.IsUse(id) {
						if v := asPkgVar(p.ObjectOf(id)); v != nil {
							out = append(out, pkgVarAccess{v: v, fn: fd, pk: pk, pos: id.Pos(), inInit: inInit, node: id})
						}
					}
					return true
				})
			}
		}
	}
	if p.Cache == nil {
		p.Cache = map[string]interface{}{}
	}
	p.Cache["pkgVarAccesses"] = out
	return out
}

func isSelfSync(t types.Type) bool {
	if pt, ok := t.(*types.Pointer); ok {
		t = pt.Elem()
	}
	if n, ok := t.(*types.Named); ok && n.Obj().Pkg() != nil {
		switch n.Obj().Pkg().Path() + "." + n.Obj().Name() {
		case "sync.Pool", "sync.Mutex", "sync.RWMutex", "sync.Once", "sync.Map", "sync.WaitGroup":
			return true
		}
		if n.Obj().Pkg().Path() == "sync/atomic" {
			return true
		}
	}
	return false
}

func varName(v *types.Var) string { return core.Rel(v.Pkg().Path()) + "." + v.Name() }

// DumpPkgState prints every package-level variable with a write or &-use outside init.
func DumpPkgState(c *core.Ctx) {
	acc := collectPkgVarAccesses(c.Prog)
	type info struct {
		writes, addrs []string
	}
	m := map[string]*info{}
	typ := map[string]string{}
	for _, a := range acc {
		if a.inInit || (!a.write && !a.addr) {
			continue
		}
		n := varName(a.v)
		if m[n] == nil {
			m[n] = &info{}
		}
		typ[n] = a.v.Type().String()
		s := core.FuncName(a.pk, a.fn)
		if a.write {
			m[n].writes = append(m[n].writes, s)
		} else {
			m[n].addrs = append(m[n].addrs, s)
		}
	}
	var ks []string
	for k := range m {
		ks = append(ks, k)
	}
	sort.Strings(ks)
	for _, k := range ks {
		println(k, "  ::", strings.TrimPrefix(typ[k], core.ModPath+"/"), "\n    W:", strings.Join(uniq(m[k].writes), ", "), "\n    &:", strings.Join(uniq(m[k].addrs), ", "))
	}
}

func uniq(s []string) []string {
	sort.Strings(s)
	var out []string
	for i, x := range s {
		if i == 0 || x != s[i-1] {
			out = append(out, x)
		}
	}
	return out
}
