package rules

import (
	"go/ast"
	"go/token"
	"go/types"
	"sort"
	"strings"

	"golang.org/x/tools/go/cfg"
	"golang.org/x/tools/go/packages"

	"verif/sa/core"
)

// pkgVarAccess is one syntactic access to a package-level variable.
type pkgVarAccess struct {
	v      *types.Var
	write  bool // assignment / inc-dec / append re-assignment / element or field store through it
	addr   bool // &v taken
	fn     *ast.FuncDecl
	pk     *packages.Package
	pos    token.Pos
	inInit bool // inside func init or a package-level initialiser
	node   ast.Node
}

func rootIdent(e ast.Expr) *ast.Ident {
	for {
		switch x := ast.Unparen(e).(type) {
		case *ast.Ident:
			return x
		case *ast.SelectorExpr:
			// pkg.Var or var.field
			e = x.X
			if id, ok := ast.Unparen(x.X).(*ast.Ident); ok {
				_ = id
			}
			// qualified identifier: resolve on Sel
			return rootOfSelector(x)
		case *ast.IndexExpr:
			e = x.X
		case *ast.StarExpr:
			e = x.X
		case *ast.SliceExpr:
			e = x.X
		default:
			return nil
		}
	}
}

func rootOfSelector(x *ast.SelectorExpr) *ast.Ident {
	// returns the identifier that names the variable at the root of x
	switch b := ast.Unparen(x.X).(type) {
	case *ast.Ident:
		return b // either a package name (caller resolves Sel) or a variable
	case *ast.SelectorExpr:
		return rootOfSelector(b)
	case *ast.IndexExpr:
		return rootIdent(b.X)
	case *ast.StarExpr:
		return rootIdent(b.X)
	case *ast.CallExpr:
		return nil
	}
	return nil
}

// pkgVarOf resolves the package-level variable at the root of an lvalue/rvalue.
func pkgVarOf(p *core.Program, e ast.Expr) *types.Var {
	e = ast.Unparen(e)
	for {
		switch x := e.(type) {
		case *ast.Ident:
			return asPkgVar(p.ObjectOf(x))
		case *ast.SelectorExpr:
			if id, ok := ast.Unparen(x.X).(*ast.Ident); ok {
				if _, isPkg := p.ObjectOf(id).(*types.PkgName); isPkg {
					return asPkgVar(p.ObjectOf(x.Sel))
				}
			}
			e = ast.Unparen(x.X)
		case *ast.IndexExpr:
			e = ast.Unparen(x.X)
		case *ast.StarExpr:
			e = ast.Unparen(x.X)
		case *ast.SliceExpr:
			e = ast.Unparen(x.X)
		default:
			return nil
		}
	}
}

func asPkgVar(o types.Object) *types.Var {
	v, ok := o.(*types.Var)
	if !ok || v.IsField() || v.Pkg() == nil || v.Parent() != v.Pkg().Scope() || !core.IsSonic(v.Pkg()) {
		return nil
	}
	return v
}

// collectPkgVarAccesses scans all functions for accesses to package-level variables.
func collectPkgVarAccesses(p *core.Program) []pkgVarAccess {
	if v, ok := p.Cache["pkgVarAccesses"]; ok {
		return v.([]pkgVarAccess)
	}
	var out []pkgVarAccess
	for _, pk := range p.Pkgs {
		for _, f := range pk.Syntax {
			for _, d := range f.Decls {
				fd, ok := d.(*ast.FuncDecl)
				if !ok || fd.Body == nil {
					continue
				}
				inInit := fd.Recv == nil && fd.Name.Name == "init"
				written := map[ast.Expr]bool{}
				ast.Inspect(fd.Body, func(n ast.Node) bool {
					switch s := n.(type) {
					case *ast.AssignStmt:
						for _, l := range s.Lhs {
							if v := pkgVarOf(p, l); v != nil {
								written[l] = true
								out = append(out, pkgVarAccess{v: v, write: true, fn: fd, pk: pk, pos: l.Pos(), inInit: inInit, node: s})
							}
						}
					case *ast.IncDecStmt:
						if v := pkgVarOf(p, s.X); v != nil {
							written[s.X] = true
							out = append(out, pkgVarAccess{v: v, write: true, fn: fd, pk: pk, pos: s.Pos(), inInit: inInit, node: s})
						}
					case *ast.UnaryExpr:
						if s.Op == token.AND {
							if v := pkgVarOf(p, s.X); v != nil {
								out = append(out, pkgVarAccess{v: v, addr: true, fn: fd, pk: pk, pos: s.Pos(), inInit: inInit, node: s})
							}
						}
					}
					return true
				})
				// reads
				ast.Inspect(fd.Body, func(n ast.Node) bool {
					if e, ok := n.(ast.Expr); ok && written[e] {
						return false
					}
					if id, ok := n.(*ast.Ident); ok && p.IsUse(id) {
						if v := asPkgVar(p.ObjectOf(id)); v != nil {
							out = append(out, pkgVarAccess{v: v, fn: fd, pk: pk, pos: id.Pos(), inInit: inInit, node: id})
						}
					}
					return true
				})
			}
		}
	}
	if p.Cache == nil {
		p.Cache = map[string]interface{}{}
	}
	p.Cache["pkgVarAccesses"] = out
	return out
}

func isSelfSync(t types.Type) bool {
	if pt, ok := t.(*types.Pointer); ok {
		t = pt.Elem()
	}
	if n, ok := t.(*types.Named); ok && n.Obj().Pkg() != nil {
		switch n.Obj().Pkg().Path() + "." + n.Obj().Name() {
		case "sync.Pool", "sync.Mutex", "sync.RWMutex", "sync.Once", "sync.Map", "sync.WaitGroup":
			return true
		}
		if n.Obj().Pkg().Path() == "sync/atomic" {
			return true
		}
	}
	return false
}

func varName(v *types.Var) string { return core.Rel(v.Pkg().Path()) + "." + v.Name() }

// DumpPkgState prints every package-level variable with a write or &-use outside init.
func DumpPkgState(c *core.Ctx) {
	acc := collectPkgVarAccesses(c.Prog)
	type info struct {
		writes, addrs []string
	}
	m := map[string]*info{}
	typ := map[string]string{}
	for _, a := range acc {
		if a.inInit || (!a.write && !a.addr) {
			continue
		}
		n := varName(a.v)
		if m[n] == nil {
			m[n] = &info{}
		}
		typ[n] = a.v.Type().String()
		s := core.FuncName(a.pk, a.fn)
		if a.write {
			m[n].writes = append(m[n].writes, s)
		} else {
			m[n].addrs = append(m[n].addrs, s)
		}
	}
	var ks []string
	for k := range m {
		ks = append(ks, k)
	}
	sort.Strings(ks)
	for _, k := range ks {
		println(k, "  ::", strings.TrimPrefix(typ[k], core.ModPath+"/"), "\n    W:", strings.Join(uniq(m[k].writes), ", "), "\n    &:", strings.Join(uniq(m[k].addrs), ", "))
	}
}

func uniq(s []string) []string {
	sort.Strings(s)
	var out []string
	for i, x := range s {
		if i == 0 || x != s[i-1] {
			out = append(out, x)
		}
	}
	return out
}

// ---------------------------------------------------------------------------
// lockset over go/cfg

type lockState map[string]int // key -> 1 (read) | 2 (write)

func (a lockState) equal(b lockState) bool {
	if len(a) != len(b) {
		return false
	}
	for k, v := range a {
		if b[k] != v {
			return false
		}
	}
	return true
}

func meet(a, b lockState) lockState {
	out := lockState{}
	for k, v := range a {
		if w, ok := b[k]; ok {
			if w < v {
				v = w
			}
			out[k] = v
		}
	}
	return out
}

// lockCall classifies X.Lock()/RLock()/Unlock()/RUnlock() on a sync mutex (direct or
// promoted through an embedded field) and returns the key naming X.
func lockCall(p *core.Program, call *ast.CallExpr) (key string, op string) {
	se, ok := ast.Unparen(call.Fun).(*ast.SelectorExpr)
	if !ok {
		return "", ""
	}
	f, ok := p.ObjectOf(se.Sel).(*types.Func)
	if !ok || f.Pkg() == nil || f.Pkg().Path() != "sync" {
		// sonic helper wrappers are handled by callers (rlock/lock of ast.Node)
		return "", ""
	}
	switch f.Name() {
	case "Lock", "RLock", "Unlock", "RUnlock":
	default:
		return "", ""
	}
	return exprStr(se.X), f.Name()
}

// locksets computes, for every block, the lockset at block entry (must-hold).
func locksets(p *core.Program, g *cfg.CFG, classify func(*ast.CallExpr) (string, string)) map[*cfg.Block]lockState {
	in := map[*cfg.Block]lockState{}
	if len(g.Blocks) == 0 {
		return in
	}
	preds := map[*cfg.Block][]*cfg.Block{}
	for _, b := range g.Blocks {
		for _, s := range b.Succs {
			preds[s] = append(preds[s], b)
		}
	}
	out := map[*cfg.Block]lockState{}
	in[g.Blocks[0]] = lockState{}
	changed := true
	for iter := 0; changed && iter < 50; iter++ {
		changed = false
		for _, b := range g.Blocks {
			if !b.Live {
				continue
			}
			var st lockState
			if b == g.Blocks[0] {
				st = lockState{}
			} else {
				first := true
				for _, pr := range preds[b] {
					o, ok := out[pr]
					if !ok {
						continue
					}
					if first {
						st = meet(o, o)
						first = false
					} else {
						st = meet(st, o)
					}
				}
				if first {
					continue
				}
			}
			in[b] = st
			cur := meet(st, st)
			for _, n := range b.Nodes {
				applyLocks(p, n, cur, classify)
			}
			if o, ok := out[b]; !ok || !o.equal(cur) {
				out[b] = cur
				changed = true
			}
		}
	}
	return in
}

func applyLocks(p *core.Program, n ast.Node, st lockState, classify func(*ast.CallExpr) (string, string)) {
	if _, isDefer := n.(*ast.DeferStmt); isDefer {
		return // deferred unlock: held until exit
	}
	ast.Inspect(n, func(m ast.Node) bool {
		switch x := m.(type) {
		case *ast.FuncLit:
			return false
		case *ast.CallExpr:
			k, op := classify(x)
			switch op {
			case "Lock":
				st[k] = 2
			case "RLock":
				if st[k] < 1 {
					st[k] = 1
				}
			case "Unlock", "RUnlock":
				delete(st, k)
			}
		}
		return true
	})
}

// heldAt returns the lockset just before the node containing pos.
func heldAt(p *core.Program, g *cfg.CFG, in map[*cfg.Block]lockState, pos token.Pos, classify func(*ast.CallExpr) (string, string)) (lockState, bool) {
	b, i := locate(g, pos)
	if b == nil {
		return nil, false
	}
	st := meet(in[b], in[b])
	for j := 0; j < i; j++ {
		applyLocks(p, b.Nodes[j], st, classify)
	}
	// within the node itself, locks taken before pos (same statement) are rare: ignore
	return st, true
}

// ---------------------------------------------------------------------------
// L1

type stateClass struct {
	kind   string // mutex | atomic | initonly | hook | tunable | rotable
	mutex  string // for mutex: expression text naming the mutex
	reason string
}

var pkgStateTable = map[string]stateClass{
	"internal/resolver.fieldCache":        {"mutex", "fieldLock", "read under RLock, double-checked write under Lock"},
	"internal/decoder/jitdec.fieldCache":  {"mutex", "fieldCacheMux", "append under the mutex in freezeFields"},
	"loader.moduleCache":                  {"mutex", "moduleCache", "embedded sync.Mutex"},
	"loader.lastmoduledatap":              {"atomic", "", "registerModuleLockFree uses atomic helpers"},
	"loader.loadBatchSeq":                 {"atomic", "", "atomic.AddUint64"},
	"internal/decoder/jitdec.valueCache":  {"initonly", "", "sole writer freezeValue is called only while package variables are initialised"},
	"internal/encoder.encodeTypedPointer": {"hook", "", "ForceUseVM/ForceUseJit: called from init; otherwise exported test switches"},
	"internal/encoder.pretouchType":       {"hook", "", "ForceUseVM/ForceUseJit"},
	"internal/encoder/vars.UseVM":         {"hook", "", "ForceUseVM/ForceUseJit"},
	"internal/encoder/vm.compiler":        {"hook", "", "SetCompiler, called from encoder init"},
	"internal/encoder/x86.compiler":       {"hook", "", "SetCompiler, called from encoder init"},
	"internal/envs.UseFastMap":            {"tunable", "", "documented process-wide toggle"},
	"internal/envs.UseOptDec":             {"tunable", "", "documented process-wide toggle"},
	"internal/rt.EmptySlice":              {"rotable", "", "address taken, never written through"},
	"internal/rt.staticuint64s":           {"rotable", "", "address taken, never written through"},
	"internal/rt.zeroVal":                 {"rotable", "", "address taken, never written through"},
	"loader.emptyByte":                    {"rotable", "", "address taken, never written through"},
	"internal/decoder/jitdec._Instr_End":  {"rotable", "", "debug sentinel"},
	"internal/encoder/x86._Instr_End":     {"rotable", "", "debug sentinel"},
	"loader/internal/iasm/obj.zeroBytes":  {"rotable", "", "zero source for copy"},
}

// functions allowed to write hook variables
var hookWriters = map[string]bool{
	"internal/encoder.ForceUseJit": true, "internal/encoder.ForceUseVM": true,
	"internal/encoder/vm.SetCompiler": true, "internal/encoder/x86.SetCompiler": true,
	"internal/envs.EnableFastMap": true, "internal/envs.DisableFastMap": true,
	"internal/envs.EnableOptDec": true, "internal/envs.DisableOptDec": true,
}

func init() {
	register(&core.Rule{ID: "L1", Min: 20,
		Doc: "Guarded-by for package state: every package-level variable of the analysed packages that is written (or has its address taken) outside package initialisation is (a) of a self-synchronising type, or (b) in the frozen state table with a class whose condition is re-checked: mutex (every access lies in a region where the named mutex is held; writes need the write lock; lockset over go/cfg, defer Unlock understood), atomic (only used as &v argument of sync/atomic or the loader's atomic helpers), init-only (writers are called only from init/initialisers), hook/tunable (written only by the named switch functions), read-only table (address taken, never assigned). A variable not in the table is a violation naming the unguarded write.",
		Run: runL1})
}

// callersOf returns the functions (FuncName) that reference fn by name, and whether
// any reference is not a direct call.
func callersOf(p *core.Program, target types.Object) (callers map[string]bool, escapes bool, fromVarInit bool) {
	callers = map[string]bool{}
	for _, pk := range p.Pkgs {
		for _, f := range pk.Syntax {
			for _, d := range f.Decls {
				switch d := d.(type) {
				case *ast.FuncDecl:
					if d.Body == nil {
						continue
					}
					ast.Inspect(d.Body, func(n ast.Node) bool {
						if call, ok := n.(*ast.CallExpr); ok {
							if p.Callee(call) == target {
								callers[core.FuncName(pk, d)] = true
							}
						}
						return true
					})
				case *ast.GenDecl:
					ast.Inspect(d, func(n ast.Node) bool {
						if call, ok := n.(*ast.CallExpr); ok && p.Callee(call) == target {
							fromVarInit = true
						}
						return true
					})
				}
			}
		}
	}
	return
}

func runL1(c *core.Ctx) {
	p := c.Prog
	acc := collectPkgVarAccesses(p)
	byVar := map[*types.Var][]pkgVarAccess{}
	for _, a := range acc {
		byVar[a.v] = append(byVar[a.v], a)
	}
	var vars []*types.Var
	for v := range byVar {
		vars = append(vars, v)
	}
	sort.Slice(vars, func(i, j int) bool { return varName(vars[i]) < varName(vars[j]) })
	cfgs := map[*ast.FuncDecl]*cfg.CFG{}
	sets := map[*ast.FuncDecl]map[*cfg.Block]lockState{}
	classify := func(call *ast.CallExpr) (string, string) { return lockCall(p, call) }
	for _, v := range vars {
		name := varName(v)
		if strings.HasPrefix(name, "internal/native.") || strings.HasPrefix(name, "internal/native/") {
			continue // dispatch tables: decided by S2 + init-only check below
		}
		as := byVar[v]
		mutated := false
		for _, a := range as {
			if !a.inInit && (a.write || a.addr) {
				mutated = true
			}
		}
		if !mutated {
			continue
		}
		if isSelfSync(v.Type()) {
			c.OK(name, v.Pos(), "self-synchronising type %s", v.Type().String())
			continue
		}
		cl, ok := pkgStateTable[name]
		if !ok {
			var w pkgVarAccess
			for _, a := range as {
				if !a.inInit && (a.write || a.addr) {
					w = a
					break
				}
			}
			what := "written"
			if !w.write {
				what = "address-taken"
			}
			c.Bad(name, w.pos, "package-level variable %s is %s in %s but has no row in the shared-state table: unreviewed shared mutable state (no lock, atomic or init-only argument)", name, what, core.FuncName(w.pk, w.fn))
			continue
		}
		switch cl.kind {
		case "mutex":
			bad := ""
			var badPos token.Pos
			n := 0
			for _, a := range as {
				if a.inInit {
					continue
				}
				// accesses to the mutex itself (moduleCache.Lock()) are lock operations, not data accesses
				if a.addr {
					continue
				}
				if isLockOperand(p, a) {
					continue
				}
				g := cfgs[a.fn]
				if g == nil {
					g = funcCFG(p, a.fn.Body)
					cfgs[a.fn] = g
					sets[a.fn] = locksets(p, g, classify)
				}
				st, ok := heldAt(p, g, sets[a.fn], a.pos, classify)
				if !ok {
					bad, badPos = "access not located in CFG (closure?)", a.pos
					break
				}
				n++
				need := 1
				if a.write {
					need = 2
				}
				if st[cl.mutex] < need {
					kind := "read"
					if a.write {
						kind = "write"
					}
					bad = kind + " in " + core.FuncName(a.pk, a.fn) + " without holding " + cl.mutex
					badPos = a.pos
					break
				}
			}
			if bad != "" {
				c.Bad(name, badPos, "%s: %s", name, bad)
			} else {
				c.OK(name, v.Pos(), "all %d accesses hold %s (%s)", n, cl.mutex, cl.reason)
			}
		case "atomic":
			bad := ""
			var badPos token.Pos
			for _, a := range as {
				if a.inInit {
					continue
				}
				if !a.addr || !insideAtomicCall(p, a) {
					if a.addr {
						bad = "address passed to a non-atomic function in " + core.FuncName(a.pk, a.fn)
					} else if a.write {
						bad = "plain write in " + core.FuncName(a.pk, a.fn)
					} else if !insideAddr(a, as) {
						bad = "plain read in " + core.FuncName(a.pk, a.fn)
					}
					if bad != "" {
						badPos = a.pos
						break
					}
				}
			}
			if bad != "" {
				c.Bad(name, badPos, "%s must only be accessed atomically: %s", name, bad)
			} else {
				c.OK(name, v.Pos(), "only accessed through sync/atomic (%s)", cl.reason)
			}
		case "initonly":
			bad := ""
			var badPos token.Pos
			for _, a := range as {
				if a.inInit || !a.write {
					continue
				}
				fo := p.ObjectOf(a.fn.Name)
				callers, _, fromInit := callersOf(p, fo)
				for cn := range callers {
					if !strings.HasSuffix(cn, ".init") {
						// a caller that is itself only used in initialisers is fine (one level)
						co := lookupFunc(p, cn)
						cc, _, cinit := callersOf(p, co)
						if co == nil || len(cc) > 0 || !cinit {
							bad = "writer " + core.FuncName(a.pk, a.fn) + " is called from " + cn + " (not an initialiser)"
							badPos = a.pos
						}
					}
				}
				if len(callers) == 0 && !fromInit {
					// unused writer: harmless
				}
			}
			if bad != "" {
				c.Bad(name, badPos, "%s: %s", name, bad)
			} else {
				c.OK(name, v.Pos(), "written only during package initialisation (%s)", cl.reason)
			}
		case "hook", "tunable":
			bad := ""
			var badPos token.Pos
			for _, a := range as {
				if a.inInit || (!a.write && !a.addr) {
					continue
				}
				if !hookWriters[core.FuncName(a.pk, a.fn)] {
					bad = "written by " + core.FuncName(a.pk, a.fn) + ", which is not one of the named switch functions"
					badPos = a.pos
				}
			}
			if bad != "" {
				c.Bad(name, badPos, "%s: %s", name, bad)
			} else {
				c.OK(name, v.Pos(), "written only by the named switch functions (%s)", cl.reason)
			}
		case "rotable":
			bad := ""
			var badPos token.Pos
			for _, a := range as {
				if !a.inInit && a.write {
					bad = "assigned in " + core.FuncName(a.pk, a.fn)
					badPos = a.pos
				}
			}
			if bad != "" {
				c.Bad(name, badPos, "read-only table %s is %s", name, bad)
			} else {
				c.OK(name, v.Pos(), "address taken only, never assigned (%s)", cl.reason)
			}
		}
	}
	// native dispatch variables: writers are useSSE/useAVX2, called only from init
	nat := p.Pkg("internal/native")
	if nat != nil && core.FuncDecl(nat, "", "useSSE") != nil {
		for _, fn := range []string{"useSSE", "useAVX2"} {
			callers, _, _ := callersOf(p, core.Obj(nat, fn))
			good := true
			for cn := range callers {
				if !strings.HasSuffix(cn, ".init") {
					good = false
				}
			}
			c.Check(good && len(callers) > 0, "internal/native."+fn+"/init-only", token.NoPos, "called only from init", fn+" is called outside init: the dispatch tables would be rewritten while codecs run")
		}
		badW := ""
		for _, a := range acc {
			if a.write && !a.inInit && a.v.Pkg() == nat.Types {
				f := core.FuncName(a.pk, a.fn)
				if f != "internal/native.useSSE" && f != "internal/native.useAVX2" {
					badW = a.v.Name() + " written by " + f
				}
			}
		}
		c.Check(badW == "", "internal/native/dispatch-writers", token.NoPos, "dispatch variables written only by useSSE/useAVX2", badW)
	}
}

func lookupFunc(p *core.Program, name string) types.Object {
	i := strings.LastIndex(name, ".")
	if i < 0 || strings.Contains(name, "(") {
		return nil
	}
	rel, fn := name[:i], name[i+1:]
	if rel == "sonic" {
		rel = ""
	}
	return core.Obj(p.Pkg(rel), fn)
}

// isLockOperand: the access is the receiver of a Lock/Unlock call (moduleCache.Lock()).
func isLockOperand(p *core.Program, a pkgVarAccess) bool {
	found := false
	ast.Inspect(a.fn.Body, func(n ast.Node) bool {
		call, ok := n.(*ast.CallExpr)
		if !ok {
			return true
		}
		if k, op := lockCall(p, call); op != "" && k != "" {
			se := call.Fun.(*ast.SelectorExpr)
			if se.X.Pos() <= a.pos && a.pos < se.X.End() {
				found = true
			}
		}
		return !found
	})
	return found
}

func insideAtomicCall(p *core.Program, a pkgVarAccess) bool {
	found := false
	ast.Inspect(a.fn.Body, func(n ast.Node) bool {
		call, ok := n.(*ast.CallExpr)
		if !ok || a.pos < call.Pos() || a.pos >= call.End() {
			return true
		}
		for j, arg := range call.Args {
			if arg.Pos() <= a.pos && a.pos < arg.End() {
				if atomicSink(p, call, j, 0) {
					found = true
				}
			}
		}
		return true
	})
	return found
}

// atomicSink: argument j of call flows only into sync/atomic operations
// (directly, or through sonic helper functions that use the parameter only so).
func atomicSink(p *core.Program, call *ast.CallExpr, j int, depth int) bool {
	o := p.Callee(call)
	if o == nil || o.Pkg() == nil {
		// conversion such as (*unsafe.Pointer)(unsafe.Pointer(p)): not a sink by itself
		return false
	}
	if o.Pkg().Path() == "sync/atomic" {
		return true
	}
	if !core.IsSonic(o.Pkg()) || depth > 3 {
		return false
	}
	fd := p.DeclOf(o)
	if fd == nil || fd.Body == nil {
		return false
	}
	// parameter object at index j
	var params []types.Object
	for _, f := range fd.Type.Params.List {
		for _, n := range f.Names {
			params = append(params, p.ObjectOf(n))
		}
	}
	if j >= len(params) {
		return false
	}
	par := params[j]
	ok := true
	uses := 0
	var visit func(n ast.Node, stack []*ast.CallExpr)
	visit = func(n ast.Node, stack []*ast.CallExpr) {
		ast.Inspect(n, func(m ast.Node) bool {
			switch x := m.(type) {
			case *ast.CallExpr:
				for _, a := range x.Args {
					visit(a, append(stack, x))
				}
				visit(x.Fun, stack)
				return false
			case *ast.Ident:
				if p.ObjectOf(x) != par || !p.IsUse(x) {
					return true
				}
				uses++
				// innermost enclosing real call (skipping conversions)
				sunk := false
				for i := len(stack) - 1; i >= 0; i-- {
					cl := stack[i]
					co := p.Callee(cl)
					if _, isFn := co.(*types.Func); !isFn {
						continue // conversion
					}
					for k, a := range cl.Args {
						if a.Pos() <= x.Pos() && x.Pos() < a.End() {
							sunk = atomicSink(p, cl, k, depth+1)
						}
					}
					break
				}
				if !sunk {
					ok = false
				}
			}
			return true
		})
	}
	visit(fd.Body, nil)
	return ok && uses > 0
}

// insideAddr: a plain identifier access that is the operand of a recorded &v.
func insideAddr(a pkgVarAccess, all []pkgVarAccess) bool {
	for _, b := range all {
		if b.addr && b.fn == a.fn {
			if u, ok := b.node.(*ast.UnaryExpr); ok && u.Pos() <= a.pos && a.pos < u.End() {
				return true
			}
		}
	}
	return false
}
