package rules

import (
	"go/ast"
	"go/token"
	"go/types"
	"strings"

	"verif/sa/core"
)

// O6: recycled slots are fully written. MapIterator hands out _MapPair slots from pooled
// storage (add() only bumps the length; resetIterator only resets it), so a slot still holds
// the key/value of an earlier, unrelated encode. Every success path of append and its helpers
// must therefore assign the slot's key and value; otherwise the output depends on pool state.

func init() {
	register(&core.Rule{ID: "O6", Min: 4,
		Doc: "Recycled map-iterator slots are definitely assigned: on every enumerated path of alg.(*MapIterator).append and of the helpers it hands the slot to (appendGeneric, appendConcrete, appendInterface) that ends in a success return (result nil, or a bare/`err` return not inside an `err != nil` branch), the fields k and v of the *_MapPair slot obtained from add() have been assigned (in the function itself, before the call that delegates, or by the delegate, which is checked in turn). Failure returns (vars.Error_*, err under `err != nil`) are exempt.",
		Run: runO6})
}

func runO6(c *core.Ctx) {
	p := c.Prog
	pk := p.Pkg("internal/encoder/alg")
	if pk == nil {
		c.Undecided("alg", token.NoPos, "package not loaded")
		return
	}
	isPair := func(t types.Type) bool {
		pt, ok := t.(*types.Pointer)
		if !ok {
			return false
		}
		nt, ok := pt.Elem().(*types.Named)
		return ok && nt.Obj().Name() == "_MapPair"
	}
	// the family: methods/functions of the package with a *_MapPair parameter, plus the function that calls add()
	type fam struct {
		fd   *ast.FuncDecl
		slot types.Object // parameter or local holding the slot
		need []string
	}
	var family []*fam
	byObj := map[types.Object]*fam{}
	for _, fd := range core.FuncDecls(pk) {
		if fd.Body == nil {
			continue
		}
		var f *fam
		for _, fl := range fd.Type.Params.List {
			for _, nm := range fl.Names {
				if o := p.ObjectOf(nm); o != nil && isPair(o.Type()) {
					f = &fam{fd: fd, slot: o, need: []string{"k"}}
				}
			}
		}
		if f == nil {
			// p := self.add()
			ast.Inspect(fd.Body, func(n ast.Node) bool {
				as, ok := n.(*ast.AssignStmt)
				if !ok || len(as.Lhs) != 1 || len(as.Rhs) != 1 || f != nil {
					return true
				}
				call, ok := as.Rhs[0].(*ast.CallExpr)
				if !ok {
					return true
				}
				if se, ok := call.Fun.(*ast.SelectorExpr); ok && se.Sel.Name == "add" && isPair(p.TypeOf(as.Lhs[0])) {
					f = &fam{fd: fd, slot: p.ExprObj(as.Lhs[0]), need: []string{"k", "v"}}
				}
				return true
			})
		}
		if f != nil && f.slot != nil {
			family = append(family, f)
			if o := p.ObjectOf(fd.Name); o != nil {
				byObj[o] = f
			}
		}
	}
	for _, f := range family {
		fn := core.FuncName(pk, f.fd)
		c.Analysed(fn)
		paths, ok, why := EnumPaths(p, f.fd, 1, 4096)
		if !ok {
			c.Undecided(fn+"/slot-init", f.fd.Pos(), "cannot enumerate paths: %s", why)
			continue
		}
		var badPos token.Pos
		badWhy := ""
		nsucc := 0
		for _, pt := range paths {
			assigned := map[string]bool{}
			errNonNil := false // inside a branch where `err != nil` was taken
			for _, ev := range pt {
				switch {
				case ev.Cond != nil:
					if be, ok := ast.Unparen(ev.Cond).(*ast.BinaryExpr); ok && exprStr(be.X) == "err" && exprStr(be.Y) == "nil" {
						errNonNil = (be.Op == token.NEQ) == ev.Taken
					}
				case ev.Call != nil:
					// delegation: a family member receives the slot
					if g := byObj[p.Callee(ev.Call)]; g != nil {
						for _, a := range ev.Call.Args {
							if p.ExprObj(a) == f.slot {
								for _, fld := range g.need {
									assigned[fld] = true
								}
							}
						}
					}
				case ev.Stmt != nil:
					switch s := ev.Stmt.(type) {
					case *ast.AssignStmt:
						for _, l := range s.Lhs {
							if se, ok := ast.Unparen(l).(*ast.SelectorExpr); ok && p.ExprObj(se.X) == f.slot {
								assigned[se.Sel.Name] = true
							}
						}
					case *ast.ReturnStmt:
						// classify
						failure := false
						if n := len(s.Results); n > 0 {
							last := ast.Unparen(s.Results[n-1])
							if call, ok := last.(*ast.CallExpr); ok {
								if o := p.Callee(call); o != nil && strings.HasPrefix(strings.ToLower(o.Name()), "error") {
									failure = true
								}
								if g := byObj[p.Callee(call)]; g != nil {
									// `return self.appendX(p, ...)`: delegation handled by the Call event
									_ = g
								}
							}
							if id, ok := last.(*ast.Ident); ok && id.Name == "err" && errNonNil {
								failure = true
							}
						} else if errNonNil {
							failure = true
						}
						if failure {
							continue
						}
						nsucc++
						for _, fld := range f.need {
							if !assigned[fld] && badWhy == "" {
								badPos = s.Pos()
								badWhy = "field " + fld + " of the recycled slot `" + f.slot.Name() + "` is not assigned on a path to this success return"
							}
						}
					}
				}
			}
		}
		if badWhy != "" {
			c.Bad(fn+"/slot-init", badPos, "%s: the slot comes from pooled storage (add() does not clear it), so the entry keeps the key/value of an earlier encode and the output depends on the state of the iterator pool", badWhy)
		} else {
			c.OK(fn+"/slot-init", f.fd.Pos(), "%d path(s), %d success return(s): %s assigned on each", len(paths), nsucc, strings.Join(f.need, ","))
		}
	}
}
