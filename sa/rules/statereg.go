package rules

import (
	"go/ast"
	"go/token"
	"go/types"
	"sort"
	"strings"

	"verif/sa/core"
)

// S13: the two encoder executors keep the same frame state (x: counter, f: state flags,
// p: value pointer, q: auxiliary pointer). An opcode must change the same state registers in
// the interpreter (variables x, f, p, q of vm.Execute) and in the JIT (registers SP.x, SP.f,
// SP.p, SP.q written by its handler; saves/restores around calls do not count).

func init() {
	register(&core.Rule{ID: "S13", Min: 30,
		Doc: "Frame-state parity of the two encoder executors: for every opcode, the set of state registers the VM arm assigns (the outer variables x, f, p, q of vm.Execute, by object identity, so a shadowing `f := flags` does not count but `f = flags` does) equals the set of state registers the x86 handler writes (SP.x, SP.f, SP.p, SP.q as destination operands in the emitted template, outside save/load helper regions and XCHGQ pairs).",
		Run: runS13})
}

func runS13(c *core.Ctx) {
	p := c.Prog
	if p.GOARCH != "amd64" {
		return
	}
	vm := p.Pkg("internal/encoder/vm")
	x86 := p.Pkg("internal/encoder/x86")
	ex := core.FuncDecl(vm, "", "Execute")
	if ex == nil || x86 == nil {
		c.Undecided("vm.Execute", token.NoPos, "not found")
		return
	}
	c.Analysed("internal/encoder/vm.Execute")
	// state variables: locals named x, f, p, q declared at function level
	state := map[types.Object]string{}
	ast.Inspect(ex.Body, func(n ast.Node) bool {
		switch d := n.(type) {
		case *ast.ValueSpec:
			for _, nm := range d.Names {
				switch nm.Name {
				case "x", "f", "p", "q":
					if o := p.ObjectOf(nm); o != nil {
						if _, dup := findName(state, nm.Name); !dup {
							state[o] = nm.Name
						}
					}
				}
			}
		case *ast.SwitchStmt:
			return false // only function-level declarations
		}
		return true
	})
	for _, fl := range ex.Type.Params.List {
		for _, nm := range fl.Names {
			if nm.Name == "p" {
				if o := p.ObjectOf(nm); o != nil {
					state[o] = "p"
				}
			}
		}
	}
	if len(state) < 4 {
		c.Undecided("vm.Execute/state", ex.Pos(), "state variables x, f, p, q not all found (%d)", len(state))
		return
	}
	vmW := map[string]map[string]bool{}
	ast.Inspect(ex.Body, func(n ast.Node) bool {
		cc, ok := n.(*ast.CaseClause)
		if !ok {
			return true
		}
		var ops []string
		for _, e := range cc.List {
			if o, ok := p.ExprObj(e).(*types.Const); ok && strings.HasPrefix(o.Name(), "OP_") {
				ops = append(ops, o.Name())
			}
		}
		if len(ops) == 0 {
			return true
		}
		w := map[string]bool{}
		for _, st := range cc.Body {
			ast.Inspect(st, func(m ast.Node) bool {
				switch a := m.(type) {
				case *ast.AssignStmt:
					for _, l := range a.Lhs {
						if id, ok := ast.Unparen(l).(*ast.Ident); ok {
							if nm, ok := state[p.ObjectOf(id)]; ok && a.Tok != token.DEFINE {
								w[nm] = true
							} else if ok && a.Tok == token.DEFINE && p.IsUse(id) {
								w[nm] = true // `:=` re-using the outer variable
							}
						}
					}
				case *ast.IncDecStmt:
					if id, ok := ast.Unparen(a.X).(*ast.Ident); ok {
						if nm, ok := state[p.ObjectOf(id)]; ok {
							w[nm] = true
						}
					}
				}
				return true
			})
		}
		for _, op := range ops {
			vmW[op] = w
		}
		return false
	})
	// x86 side
	regName := map[string]string{}
	for _, nm := range []string{"x", "f", "p", "q"} {
		if r := regOf(p, "internal/encoder/x86", "_SP_"+nm); r != "" {
			regName[r] = nm
		}
	}
	if len(regName) != 4 {
		c.Undecided("x86/_SP_*", token.NoPos, "state registers not found")
		return
	}
	a := newAsmCtx(p, "internal/encoder/x86", "Assembler")
	neutral := map[string]bool{"xsave": true, "xload": true, "save": true, "load": true, "save_c": true, "load_c": true, "save_callc": true, "load_callc": true, "call_go": true, "call_c": true, "call": true, "callc": true, "call_more_space": true, "call_encoder": true, "call_marshaler": true}
	for _, fd := range sortedFuncDecls(a.methods()) {
		if !strings.HasPrefix(fd.Name.Name, "_asm_OP_") {
			continue
		}
		op := strings.TrimPrefix(fd.Name.Name, "_asm_")
		cn := "encoder/" + op + "/state-writes"
		vw, ok := vmW[op]
		if !ok {
			continue // opcode totality is S1's business
		}
		seqs, ok := a.seqs(fd, asmEnv{}, 0)
		if !ok {
			c.Undecided(cn, fd.Pos(), "cannot enumerate emitted sequences")
			continue
		}
		if anyTrunc(seqs) {
			c.Undecided(cn, fd.Pos(), "a helper could not be inlined within the path budget")
			continue
		}
		c.Analysed(handlerName(a.pk, fd))
		xw := map[string]bool{}
		for _, sq := range seqs {
			depth := 0
			var stack []bool
			for _, o := range sq.Ops {
				switch o.Kind {
				case "Helper":
					n := o.Callee != nil && neutral[o.Callee.Name()]
					stack = append(stack, n)
					if n {
						depth++
					}
				case "HelperEnd":
					if len(stack) > 0 {
						if stack[len(stack)-1] {
							depth--
						}
						stack = stack[:len(stack)-1]
					}
				case "Emit":
					if depth > 0 || len(o.Ops) == 0 || nonWriting[o.Mnem] || o.Mnem == "XCHGQ" {
						continue
					}
					dst := o.Ops[len(o.Ops)-1]
					if dst.Kind == "reg" {
						if nm, ok := regName[dst.Reg]; ok {
							xw[nm] = true
						}
					}
				}
			}
		}
		if setStr(vw) == setStr(xw) {
			c.OK(cn, fd.Pos(), "both executors write {%s}", setStr(vw))
		} else {
			c.Bad(cn, fd.Pos(), "the VM arm of %s assigns the state registers {%s} but the x86 handler writes {%s}: the executors leave different frame state behind (e.g. option bits leaking into the comma/cursor flags)", op, setStr(vw), setStr(xw))
		}
	}
}

func findName(m map[types.Object]string, n string) (types.Object, bool) {
	for o, s := range m {
		if s == n {
			return o, true
		}
	}
	return nil, false
}

func setStr(m map[string]bool) string {
	var ks []string
	for k, v := range m {
		if v {
			ks = append(ks, k)
		}
	}
	sort.Strings(ks)
	return strings.Join(ks, ",")
}
