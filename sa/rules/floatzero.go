package rules

import (
	"go/ast"
	"go/constant"
	"go/token"
	"go/types"
	"strings"

	"verif/sa/core"
)

// S19: -0.0 == 0. A float formatter that short-cuts "the value is zero" on `v == 0` writes "0"
// for negative zero, while the native formatter the JIT calls (and encoding/json) writes "-0":
// the two back ends then differ and the float does not round-trip bit for bit.

func init() {
	register(&core.Rule{ID: "S19", Min: 2, Arm64: true,
		Doc: "Float zero tests in the encoder implementation (internal/encoder/...; non-test, non-debug files; the ast package converts numbers to booleans with such tests, where -0 is rightly false, and is not in scope): every comparison `x == 0` / `x != 0` whose operand has a floating-point type stands in a condition that also calls math.Signbit on the same operand (so that -0.0 is not conflated with +0.0); comparisons on integer bit patterns are not concerned.",
		Run: runS19})
}

func runS19(c *core.Ctx) {
	p := c.Prog
	n := 0
	for _, pk := range p.Pkgs {
		rel := core.Rel(pk.PkgPath)
		if !strings.HasPrefix(rel, "internal/encoder") {
			continue
		}
		for _, f := range pk.Syntax {
			fname := p.Fset.Position(f.Pos()).Filename
			if strings.HasSuffix(fname, "_test.go") || strings.Contains(fname, "debug") {
				continue
			}
			for _, d := range f.Decls {
				fd, ok := d.(*ast.FuncDecl)
				if !ok || fd.Body == nil {
					continue
				}
				var stack []ast.Node
				ast.Inspect(fd.Body, func(nd ast.Node) bool {
					if nd == nil {
						stack = stack[:len(stack)-1]
						return true
					}
					stack = append(stack, nd)
					be, ok := nd.(*ast.BinaryExpr)
					if !ok || (be.Op != token.EQL && be.Op != token.NEQ) {
						return true
					}
					var opnd ast.Expr
					for _, pr := range [][2]ast.Expr{{be.X, be.Y}, {be.Y, be.X}} {
						tv, ok := pk.TypesInfo.Types[pr[1]]
						if !ok || tv.Value == nil || (tv.Value.Kind() != constant.Int && tv.Value.Kind() != constant.Float) || constant.Sign(tv.Value) != 0 {
							continue
						}
						if t := pk.TypesInfo.TypeOf(pr[0]); t != nil {
							if b, ok := t.Underlying().(*types.Basic); ok && b.Info()&types.IsFloat != 0 {
								if otv := pk.TypesInfo.Types[pr[0]]; otv.Value == nil {
									opnd = pr[0]
								}
							}
						}
					}
					if opnd == nil {
						return true
					}
					n++
					fn := core.FuncName(pk, fd)
					c.Analysed(fn)
					cn := fn + "/float-zero-test(" + exprStr(opnd) + ")"
					// outermost boolean expression containing the comparison
					var cond ast.Expr = be
					for k := len(stack) - 2; k >= 0; k-- {
						if e, ok := stack[k].(ast.Expr); ok {
							switch e.(type) {
							case *ast.BinaryExpr, *ast.ParenExpr, *ast.UnaryExpr:
								cond = e
								continue
							}
						}
						break
					}
					signed := false
					ast.Inspect(cond, func(x ast.Node) bool {
						if call, ok := x.(*ast.CallExpr); ok {
							if o := p.Callee(call); o != nil && o.Pkg() != nil && o.Pkg().Path() == "math" && o.Name() == "Signbit" && len(call.Args) == 1 {
								a := ast.Unparen(call.Args[0])
								if cv, ok := a.(*ast.CallExpr); ok && len(cv.Args) == 1 { // float64(v)
									a = ast.Unparen(cv.Args[0])
								}
								if exprStr(a) == exprStr(opnd) {
									signed = true
								}
							}
						}
						return true
					})
					if signed {
						c.OK(cn, be.Pos(), "the zero test also examines the sign bit")
					} else {
						c.Bad(cn, be.Pos(), "`%s` is true for -0.0 as well: the branch treats negative zero as zero (the VM encoder wrote \"0\" where the JIT encoder and encoding/json write \"-0\"); test math.Signbit too", exprStr(be))
					}
					return true
				})
			}
		}
	}
	if n == 0 {
		c.Undecided("float-zero-test", token.NoPos, "no float zero comparison found on the encoding side")
	}
}
