package rules

import (
	"fmt"
	"go/ast"
	"go/token"
	"go/types"
	"sort"
	"strings"

	"golang.org/x/tools/go/callgraph"
	"golang.org/x/tools/go/callgraph/cha"
	"golang.org/x/tools/go/callgraph/vta"
	"golang.org/x/tools/go/ssa"
	"golang.org/x/tools/go/ssa/ssautil"

	"verif/sa/core"
)

// sonicCallGraph builds the VTA call graph restricted to functions of the analysed modules.
func sonicCallGraph(p *core.Program) (*callgraph.Graph, *ssa.Program) {
	if v, ok := p.Cache["cg"]; ok {
		return v.(*callgraph.Graph), p.Cache["ssa"].(*ssa.Program)
	}
	prog, _ := p.SSA()
	all := ssautil.AllFunctions(prog)
	g := vta.CallGraph(all, cha.CallGraph(prog))
	if p.Cache == nil {
		p.Cache = map[string]interface{}{}
	}
	p.Cache["cg"] = g
	p.Cache["ssa"] = prog
	return g, prog
}

func isSonicFn(f *ssa.Function) bool {
	return f != nil && f.Pkg != nil && f.Pkg.Pkg != nil && core.IsSonic(f.Pkg.Pkg)
}

// sccs returns the strongly connected components (size > 1, or self-recursive) among sonic functions.
func recursionSCCs(g *callgraph.Graph) [][]*ssa.Function {
	index := map[*ssa.Function]int{}
	low := map[*ssa.Function]int{}
	on := map[*ssa.Function]bool{}
	var stack []*ssa.Function
	var out [][]*ssa.Function
	n := 0
	succ := func(f *ssa.Function) []*ssa.Function {
		nd := g.Nodes[f]
		if nd == nil {
			return nil
		}
		var ss []*ssa.Function
		seen := map[*ssa.Function]bool{}
		for _, e := range nd.Out {
			c := e.Callee.Func
			if isSonicFn(c) && !seen[c] {
				seen[c] = true
				ss = append(ss, c)
			}
		}
		return ss
	}
	var strong func(v *ssa.Function)
	strong = func(v *ssa.Function) {
		index[v] = n
		low[v] = n
		n++
		stack = append(stack, v)
		on[v] = true
		for _, w := range succ(v) {
			if _, seen := index[w]; !seen {
				strong(w)
				if low[w] < low[v] {
					low[v] = low[w]
				}
			} else if on[w] && index[w] < low[v] {
				low[v] = index[w]
			}
		}
		if low[v] == index[v] {
			var comp []*ssa.Function
			for {
				w := stack[len(stack)-1]
				stack = stack[:len(stack)-1]
				on[w] = false
				comp = append(comp, w)
				if w == v {
					break
				}
			}
			self := false
			for _, w := range succ(v) {
				if w == v {
					self = true
				}
			}
			if len(comp) > 1 || self {
				out = append(out, comp)
			}
		}
	}
	var fns []*ssa.Function
	for f := range g.Nodes {
		if isSonicFn(f) {
			fns = append(fns, f)
		}
	}
	sort.Slice(fns, func(i, j int) bool { return fns[i].String() < fns[j].String() })
	for _, f := range fns {
		if _, seen := index[f]; !seen {
			strong(f)
		}
	}
	return out
}

// DumpSCCs prints recursion cycles (developer aid).
func DumpSCCs(c *core.Ctx) {
	g, _ := sonicCallGraph(c.Prog)
	for _, comp := range recursionSCCs(g) {
		var names []string
		for _, f := range comp {
			names = append(names, strings.TrimPrefix(f.String(), core.ModPath+"/"))
		}
		sort.Strings(names)
		fmt.Printf("SCC(%d): %s\n", len(comp), strings.Join(names, " | "))
	}
}

var _ = token.NoPos

type recurClass struct {
	rep    string // a function that identifies the cycle
	class  string // guarded | bounded | types | internal | UNBOUNDED
	reason string
	guard  string // class guarded: the function of the cycle that holds the depth guard
	limit  string // class guarded: the named constant the depth counter is compared with
}

// Triage of every recursion cycle among sonic functions (confirmed by reading;
// the deep-nesting behaviour of the ast cycles was also confirmed by running them).
//
//	guarded   a function that every cycle passes through compares a depth counter with a
//	          named limit, returns on overflow, and increments the counter before each
//	          recursive call (checked structurally below)
//	bounded   the recursion walks a structure whose depth an earlier, bounded pass limited
//	types     the recursion follows the static structure of a Go type, not the input
//	internal  never fed with user input
//	UNBOUNDED the depth follows the input and nothing limits it
var recurTable = []recurClass{
	{rep: "(*ast.Parser).Parse", class: "guarded", guard: "(*ast.Parser).Parse", limit: "MAX_RECURSE",
		reason: "eager (noLazy) parsing recurses once per nesting level on text no bounded scanner has seen"},
	{rep: "(*ast.traverser).decodeValue", class: "guarded", guard: "(*ast.traverser).decodeValue", limit: "MAX_RECURSE",
		reason: "ast.Preorder recurses once per nesting level directly on caller input"},
	{rep: "(*ast.Node).Interface", class: "UNBOUNDED",
		reason: "after Node.Load() children are raw nodes; Interface() parses one level per recursion step (checkRaw -> parseRaw -> loadOnce), so the Go recursion depth follows the nesting depth of the input with no limit and every level re-skips the rest of the text (quadratic)"},
	{rep: "(*ast.Node).InterfaceUseNumber", class: "UNBOUNDED",
		reason: "same as Interface: one level parsed per recursion step on raw children, no depth limit"},
	{rep: "(*ast.Node).sortKeys", class: "UNBOUNDED",
		reason: "SortKeys(true) loads one level per recursion step (skipAllKey/skipAllIndex leave raw children), so the recursion depth follows the input with no limit and every level re-skips the rest of the text (quadratic)"},
	{rep: "(*ast.Node).encode", class: "bounded",
		reason: "lazy and raw children are copied as text (encodeRaw), recursion only descends levels that are already parsed"},
	{rep: "ast.skipValue", class: "UNBOUNDED",
		reason: "the pure-Go skipper used by Parser.skip on builds without native code (api_compat.go) recurses once per nesting level with no limit; not called on amd64/arm64"},
	{rep: "(*optdec.compiler).compile", class: "types", reason: "recursion over the static structure of a Go type, cut by the `enter` depth check (_CompileMaxDepth)"},
	{rep: "(*optdec.compiler).assertStringOptTypes", class: "types", reason: "recursion over pointer levels of a type"},
	{rep: "(*optdec.compiler).compileFieldStringOption", class: "types", reason: "recursion over pointer levels of a type"},
	{rep: "(*encoder.Compiler).compileOne", class: "types", reason: "recursion over a Go type, cut by the visited-type table / inline depth (OP_recurse)"},
	{rep: "(*jitdec._Compiler).compileOne", class: "types", reason: "recursion over a Go type, cut by the visited-type table / inline depth (_OP_recurse)"},
	{rep: "alg.radixQsort", class: "bounded", reason: "depth bounded by the key length; small ranges fall back to insertion sort"},
	{rep: "vm.Execute", class: "bounded", reason: "value recursion (OP_recurse) only follows pointer, slice, map or interface indirections, each of which the program enters through OP_save, which fails with ERR_too_deep at MaxStack (rules K5, I1 decide the save/drop discipline)"},
	{rep: "(*optdec.Node).AsEfaceFallback", class: "bounded", reason: "walks the DOM built by native parse_with_padding, whose depth is limited to 4096 (SONIC_STACK_OVERFLOW)"},
	{rep: "(*optdec.ptrStrDecoder).FromDom", class: "types", reason: "recursion over pointer levels of a type"},
	{rep: "(*optdec.arrayDecoder).FromDom", class: "bounded", reason: "walks the DOM built by native parse_with_padding (depth <= 4096) along the static type"},
	{rep: "(*expr.Expr).Evaluate", class: "internal", reason: "expression trees of the loader's internal assembler; never fed with user input"},
	{rep: "(*expr.Expr).Free", class: "internal", reason: "loader-internal"},
	{rep: "(*expr.Parser).expr", class: "internal", reason: "loader-internal"},
	{rep: "x86_64.hcode", class: "internal", reason: "loader-internal"},
	{rep: "x86_64.lcode", class: "internal", reason: "loader-internal"},
	{rep: "x86_64.hlcode", class: "internal", reason: "loader-internal"},
	{rep: "x86_64.ecode", class: "internal", reason: "loader-internal"},
	{rep: "x86_64.ehcode", class: "internal", reason: "loader-internal"},
	{rep: "x86_64.vcode", class: "internal", reason: "loader-internal"},
	{rep: "encoder.pretouchRec", class: "types", reason: "bounded by opts.RecursiveDepth"},
	{rep: "optdec.pretouchRec", class: "types", reason: "bounded by opts.RecursiveDepth"},
}

func shortFn(f *ssa.Function) string {
	s := f.String()
	s = strings.ReplaceAll(s, core.ModPath+"/internal/decoder/", "")
	s = strings.ReplaceAll(s, core.ModPath+"/internal/encoder/", "")
	s = strings.ReplaceAll(s, core.ModPath+"/internal/", "")
	s = strings.ReplaceAll(s, core.ModPath+"/loader/internal/iasm/", "")
	s = strings.ReplaceAll(s, core.ModPath+"/", "")
	s = strings.ReplaceAll(s, "internal/decoder/", "")
	s = strings.ReplaceAll(s, "internal/encoder/", "")
	s = strings.ReplaceAll(s, "loader/internal/iasm/", "")
	s = strings.ReplaceAll(s, "internal/", "")
	return s
}

func init() {
	register(&core.Rule{ID: "R9", Min: 15,
		Doc: "Recursion cycles are reviewed: every strongly connected component of the VTA call graph among sonic functions is in the triage table with its bound (depth guard on the cycle, an earlier bounded pass, the static structure of a Go type, or loader-internal code that never sees user input); a cycle that is not in the table, or is classified UNBOUNDED, is reported: unbounded recursion on input depth ends in a fatal stack overflow, not an error value.",
		Run: runR9})
}

func runR9(c *core.Ctx) {
	g, _ := sonicCallGraph(c.Prog)
	comps := recursionSCCs(g)
	for _, comp := range comps {
		var names []string
		for _, f := range comp {
			names = append(names, shortFn(f))
		}
		sort.Strings(names)
		var row *recurClass
		for i := range recurTable {
			for _, n := range names {
				if n == recurTable[i].rep {
					row = &recurTable[i]
				}
			}
		}
		cn := "cycle:" + names[0]
		if row != nil {
			cn = "cycle:" + row.rep
		}
		pos := token.NoPos
		for _, f := range comp {
			if "cycle:"+shortFn(f) == cn {
				pos = f.Pos()
			}
		}
		switch {
		case row == nil:
			c.Bad(cn, pos, "recursion cycle {%s} has no row in the triage table: unreviewed recursion (if its depth follows the input it ends in a fatal stack overflow instead of an error)", strings.Join(names, ", "))
		case row.class == "UNBOUNDED":
			c.Bad(cn, pos, "recursion cycle {%s}: %s", strings.Join(names, ", "), row.reason)
		case row.class == "guarded":
			if why := checkDepthGuard(c, g, comp, row); why != "" {
				c.Bad(cn, pos, "recursion cycle {%s} (%s): %s", strings.Join(names, ", "), row.reason, why)
			} else {
				c.OK(cn, pos, "guarded: %s; every cycle passes through %s, which returns once its depth counter reaches %s increments it before each recursive call and decrements it afterwards", row.reason, row.guard, row.limit)
			}
		default:
			c.OK(cn, pos, "%s: %s", row.class, row.reason)
		}
	}
	if len(comps) < 15 {
		c.Undecided("cycles", token.NoPos, "only %d recursion cycles found (call graph incomplete?)", len(comps))
	}
}

// checkDepthGuard decides the structural clauses of a "guarded" cycle; "" means they hold.
func checkDepthGuard(c *core.Ctx, g *callgraph.Graph, comp []*ssa.Function, row *recurClass) string {
	var gf *ssa.Function
	in := map[*ssa.Function]bool{}
	for _, f := range comp {
		in[f] = true
		if shortFn(f) == row.guard {
			gf = f
		}
	}
	if gf == nil {
		return "guard function " + row.guard + " is not part of the cycle any more"
	}
	// (1) every cycle passes through the guard function: without it the component is acyclic.
	state := map[*ssa.Function]int{}
	var cyc func(f *ssa.Function) *ssa.Function
	cyc = func(f *ssa.Function) *ssa.Function {
		state[f] = 1
		if nd := g.Nodes[f]; nd != nil {
			for _, e := range nd.Out {
				t := e.Callee.Func
				if !in[t] || t == gf {
					continue
				}
				if state[t] == 1 {
					return t
				}
				if state[t] == 0 {
					if r := cyc(t); r != nil {
						return r
					}
				}
			}
		}
		state[f] = 2
		return nil
	}
	for _, f := range comp {
		if f != gf && state[f] == 0 {
			if r := cyc(f); r != nil {
				return "there is a recursion cycle through " + shortFn(r) + " that does not pass through the guard function " + row.guard
			}
		}
	}
	// (2) in the guard function every call of a member of the cycle is preceded, in the same
	// or an enclosing statement list, by `if ctr >= LIMIT { return ... }` and then `ctr++`.
	fd, _ := gf.Syntax().(*ast.FuncDecl)
	if fd == nil || fd.Body == nil {
		return "no syntax for guard function " + row.guard
	}
	members := map[types.Object]bool{}
	want := map[*ssa.Function]bool{}
	for _, f := range comp {
		if f.Object() != nil {
			members[f.Object()] = true
		}
	}
	if nd := g.Nodes[gf]; nd != nil {
		for _, e := range nd.Out {
			if in[e.Callee.Func] {
				want[e.Callee.Func] = true
			}
		}
	}
	found := map[types.Object]bool{}
	var bad string
	var walk func(list []ast.Stmt, outer [][]ast.Stmt)
	checkCall := func(call *ast.CallExpr, lists [][]ast.Stmt, idx []int) {
		o := c.Prog.Callee(call)
		if o == nil || !members[o] {
			return
		}
		found[o] = true
		// search the preceding statements, innermost list first
		for li := len(lists) - 1; li >= 0; li-- {
			ctr := ""
			inc := false
			for _, st := range lists[li][:idx[li]] {
				if is, ok := st.(*ast.IfStmt); ok {
					if x := depthGuardCounter(c.Prog, is, row.limit); x != "" {
						ctr, inc = x, false
						if is.Init != nil && incrementsExpr(is.Init, x) {
							inc = true // `if ctr++; ctr > LIMIT { return ... }`
						}
					}
				}
				if ctr != "" && incrementsExpr(st, ctr) {
					inc = true
				}
			}
			if ctr != "" && inc {
				// the counter must come back down once the recursive call has returned,
				// otherwise it counts containers instead of nesting depth
				dec := false
				for _, st := range lists[li][:idx[li]] {
					if ds, ok := st.(*ast.DeferStmt); ok && strings.Contains(exprStr(ds.Call.Fun), ctr+"--") {
						dec = true
					}
				}
				for _, st := range lists[li][idx[li]+1:] {
					if decrementsExpr(st, ctr) {
						dec = true
					}
				}
				if _, isRet := lists[li][idx[li]].(*ast.ReturnStmt); isRet && !dec {
					bad = fmt.Sprintf("%s: the depth counter %s is incremented before the recursive call of %s but the call's result is returned directly, so the counter is never decremented: it counts every container ever parsed instead of the nesting depth, and wide shallow documents fail with a depth error", c.Prog.Fset.Position(call.Pos()), ctr, o.Name())
					return
				}
				if !dec {
					bad = fmt.Sprintf("%s: the depth counter %s is not decremented after the recursive call of %s returns", c.Prog.Fset.Position(call.Pos()), ctr, o.Name())
				}
				return
			}
			if ctr != "" && !inc {
				bad = fmt.Sprintf("%s: the depth counter %s is compared with %s but not incremented before the recursive call of %s", c.Prog.Fset.Position(call.Pos()), ctr, row.limit, o.Name())
				return
			}
		}
		bad = fmt.Sprintf("%s: recursive call of %s is not preceded by a depth check against %s", c.Prog.Fset.Position(call.Pos()), o.Name(), row.limit)
	}
	var lists [][]ast.Stmt
	var idx []int
	var visitStmt func(st ast.Stmt)
	visitExpr := func(n ast.Node) {
		if n == nil {
			return
		}
		ast.Inspect(n, func(m ast.Node) bool {
			switch x := m.(type) {
			case *ast.FuncLit:
				return false
			case *ast.CallExpr:
				checkCall(x, lists, idx)
			}
			return true
		})
	}
	walk = func(list []ast.Stmt, _ [][]ast.Stmt) {
		lists = append(lists, list)
		idx = append(idx, 0)
		for i, st := range list {
			idx[len(idx)-1] = i
			visitStmt(st)
		}
		lists = lists[:len(lists)-1]
		idx = idx[:len(idx)-1]
	}
	visitStmt = func(st ast.Stmt) {
		switch x := st.(type) {
		case *ast.BlockStmt:
			walk(x.List, nil)
		case *ast.IfStmt:
			if x.Init != nil {
				visitStmt(x.Init)
			}
			visitExpr(x.Cond)
			walk(x.Body.List, nil)
			if x.Else != nil {
				visitStmt(x.Else)
			}
		case *ast.ForStmt:
			if x.Init != nil {
				visitStmt(x.Init)
			}
			visitExpr(x.Cond)
			if x.Post != nil {
				visitStmt(x.Post)
			}
			walk(x.Body.List, nil)
		case *ast.RangeStmt:
			visitExpr(x.X)
			walk(x.Body.List, nil)
		case *ast.SwitchStmt:
			if x.Init != nil {
				visitStmt(x.Init)
			}
			visitExpr(x.Tag)
			for _, cc := range x.Body.List {
				cl := cc.(*ast.CaseClause)
				for _, e := range cl.List {
					visitExpr(e)
				}
				walk(cl.Body, nil)
			}
		case *ast.TypeSwitchStmt:
			if x.Init != nil {
				visitStmt(x.Init)
			}
			visitStmt(x.Assign)
			for _, cc := range x.Body.List {
				walk(cc.(*ast.CaseClause).Body, nil)
			}
		case *ast.SelectStmt:
			for _, cc := range x.Body.List {
				walk(cc.(*ast.CommClause).Body, nil)
			}
		case *ast.LabeledStmt:
			visitStmt(x.Stmt)
		default:
			visitExpr(st)
		}
	}
	walk(fd.Body.List, nil)
	if bad != "" {
		return bad
	}
	for f := range want {
		if f.Object() == nil || !found[f.Object()] {
			return "the call graph has an edge from " + row.guard + " to " + shortFn(f) + " that is not a direct call in its body (cannot check the guard)"
		}
	}
	return ""
}

// depthGuardCounter recognises `if X >= LIMIT { ...; return ... }` (also `>`), and returns X's text.
func depthGuardCounter(p *core.Program, is *ast.IfStmt, limit string) string {
	be, ok := ast.Unparen(is.Cond).(*ast.BinaryExpr)
	if !ok {
		return ""
	}
	var ctr ast.Expr
	isLimit := func(e ast.Expr) bool {
		k, ok := p.ExprObj(ast.Unparen(e)).(*types.Const)
		return ok && k.Name() == limit
	}
	switch {
	case (be.Op == token.GEQ || be.Op == token.GTR) && isLimit(be.Y):
		ctr = be.X
	case (be.Op == token.LEQ || be.Op == token.LSS) && isLimit(be.X):
		ctr = be.Y
	default:
		return ""
	}
	if n := len(is.Body.List); n == 0 {
		return ""
	} else if _, ok := is.Body.List[n-1].(*ast.ReturnStmt); !ok {
		return ""
	}
	return exprStr(ctr)
}

func decrementsExpr(st ast.Stmt, x string) bool {
	switch s := st.(type) {
	case *ast.IncDecStmt:
		return s.Tok == token.DEC && exprStr(s.X) == x
	case *ast.AssignStmt:
		if s.Tok == token.SUB_ASSIGN && len(s.Lhs) == 1 && exprStr(s.Lhs[0]) == x {
			return true
		}
	}
	return false
}

func incrementsExpr(st ast.Stmt, x string) bool {
	switch s := st.(type) {
	case *ast.IncDecStmt:
		return s.Tok == token.INC && exprStr(s.X) == x
	case *ast.AssignStmt:
		if s.Tok == token.ADD_ASSIGN && len(s.Lhs) == 1 && exprStr(s.Lhs[0]) == x {
			return true
		}
	}
	return false
}
