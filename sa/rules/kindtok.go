package rules

import (
	"go/ast"
	"go/token"
	"regexp"
	"strings"

	"verif/sa/core"
)

// S14: kind rows. Wherever a compiler switches on a reflect.Kind and a clause is for exactly one
// sized numeric kind, the identifiers in that clause that carry a width token (i8..u64, f32, f64:
// opcodes _OP_u64 / ir.OP_u64 / _OP_map_key_u64, decoder types u64Decoder, key functions
// decodeKeyU64) must carry the token of that kind.

func init() {
	register(&core.Rule{ID: "S14", Min: 60,
		Doc: "Kind rows of the compilers: in every `case reflect.<K>:` clause for exactly one sized numeric kind (Int8..Int64, Uint8..Uint64, Float32, Float64) in jitdec, the encoder compiler, optdec and the map-key iterator, each identifier with a width token (i8|i16|i32|i64|u8|u16|u32|u64|f32|f64, case-insensitive, delimited) names the width and signedness of K: `case reflect.Uint64: p.add(_OP_i64)` parses a uint64 with the signed parser.",
		Run: runS14})
}

var kindTok = map[string]string{
	"Int8": "i8", "Int16": "i16", "Int32": "i32", "Int64": "i64",
	"Uint8": "u8", "Uint16": "u16", "Uint32": "u32", "Uint64": "u64",
	"Float32": "f32", "Float64": "f64",
}

var widthIdent = regexp.MustCompile(`(?i)(?:^|_|[a-z])([iuf])(8|16|32|64)(?:[A-Z_]|Decoder|$)`)

func runS14(c *core.Ctx) {
	p := c.Prog
	n := 0
	for _, rel := range []string{"internal/decoder/jitdec", "internal/encoder", "internal/decoder/optdec", "internal/encoder/alg", "internal/encoder/vm"} {
		pk := p.Pkg(rel)
		if pk == nil {
			continue
		}
		for _, fd := range core.FuncDecls(pk) {
			if fd.Body == nil || strings.HasSuffix(p.Fset.Position(fd.Pos()).Filename, "_test.go") {
				continue
			}
			fn := core.FuncName(pk, fd)
			ord := map[string]int{}
			ast.Inspect(fd.Body, func(nd ast.Node) bool {
				cc, ok := nd.(*ast.CaseClause)
				if !ok || len(cc.List) != 1 {
					return true
				}
				se, ok := ast.Unparen(cc.List[0]).(*ast.SelectorExpr)
				if !ok || exprStr(se.X) != "reflect" {
					return true
				}
				want, ok := kindTok[se.Sel.Name]
				if !ok {
					return true
				}
				var wrong []string
				seen := 0
				for _, st := range cc.Body {
					ast.Inspect(st, func(m ast.Node) bool {
						var nm string
						switch x := m.(type) {
						case *ast.Ident:
							nm = x.Name
						case *ast.SelectorExpr:
							nm = x.Sel.Name
						default:
							return true
						}
						if strings.HasPrefix(nm, "Int") || strings.HasPrefix(nm, "Uint") || strings.HasPrefix(nm, "Float") {
							_, isSel := m.(*ast.SelectorExpr)
							return !isSel // reflect.Int64 etc. are kinds/types, judged by A4 where relevant
						}
						for _, mm := range widthIdent.FindAllStringSubmatch(nm, -1) {
							tok := strings.ToLower(mm[1] + mm[2])
							seen++
							if tok != want {
								wrong = append(wrong, nm)
							}
						}
						_, isSel := m.(*ast.SelectorExpr)
						return !isSel
					})
				}
				if seen == 0 {
					return true
				}
				n++
				cn := fn + "/case " + se.Sel.Name
				ord[cn]++
				if ord[cn] > 1 {
					cn += "#" + itoa(ord[cn])
				}
				c.Analysed(fn)
				if len(wrong) > 0 {
					c.Bad(cn, cc.Pos(), "the clause for reflect.%s uses %s, which belong to another width/signedness (expected token %s): values of this kind are parsed, range-checked or formatted as the wrong type", se.Sel.Name, strings.Join(wrong, ", "), want)
				} else {
					c.OK(cn, cc.Pos(), "width tokens name %s", want)
				}
				return true
			})
		}
	}
	if n == 0 {
		c.Undecided("kind-rows", token.NoPos, "no kind rows found")
	}
}
