package rules

import (
	"go/ast"
	"go/token"
	"go/types"

	"verif/sa/core"
)

// Structured path enumeration over a function body. The emitter DSL functions
// are goto-free structured code; for those the enumeration below visits
// exactly the paths of the go/cfg graph (loops unrolled a bounded number of
// times). A function using goto/labels/select makes the enumeration report
// "unsupported" so that the calling rule can declare the obligation undecided.

// Event is one step on a Go-level path.
type Event struct {
	Call  *ast.CallExpr // a call evaluated at this point (inner calls first)
	Cond  ast.Expr      // a branch condition decided at this point
	Taken bool          // for Cond: outcome
	Case  *ast.CaseClause
	Stmt  ast.Stmt       // an assignment / other simple statement (for def-use rules)
	Exit  string         // "return" | "panic" at the end of a path
	Loop  int            // >0: entering iteration #Loop of a loop body; -1 leaving loop
	Range *ast.RangeStmt // with Loop > 0: the range statement whose iteration starts (exact trip counts only)
	Frag  ast.Stmt       // an isolated loop (analysed separately)
}

type pathCfg struct {
	p        *core.Program
	maxPaths int
	unroll   int // max loop iterations explored (0..unroll)
	stable   map[types.Object]bool
	// expand, when non-nil, may inline a call: it returns the callee body to
	// splice (with its own path alternatives) or nil.
	unsupported string
	count       int
	// classKey, when set, lets equivalent switch clauses be explored once: clauses
	// with the same non-empty key are represented by the first of them.
	classKey func(cc *ast.CaseClause) string
	// isolate, when set and true for a loop statement, replaces the loop by one
	// Fragment event (the loop body is analysed separately as its own fragment).
	isolate func(loop ast.Stmt) bool
	// loopCount, when set and known for a loop, makes the enumeration run the body
	// exactly n times (constant-trip loops such as `for i := 0; i < 3; i++`).
	loopCount func(loop ast.Stmt) (int, bool)
	// decide, when set, resolves a branch condition statically (1/0) or not (-1).
	decide func(cond ast.Expr) int
}

type path struct {
	ev    []Event
	conds map[string]bool
	done  bool
}

func (pt *path) clone() *path {
	n := &path{ev: append([]Event(nil), pt.ev...), conds: map[string]bool{}, done: pt.done}
	for k, v := range pt.conds {
		n.conds[k] = v
	}
	return n
}

// EnumPaths enumerates paths of fd's body. ok=false when the function uses
// unsupported control flow or exceeds maxPaths.
func EnumPaths(p *core.Program, fd *ast.FuncDecl, unroll, maxPaths int) (paths [][]Event, ok bool, why string) {
	return EnumPathsOpt(p, fd, fd.Body.List, unroll, maxPaths, nil, nil)
}

// EnumPathsOpt enumerates the paths of a statement list of fd with optional
// clause merging and loop isolation.
func EnumPathsOpt(p *core.Program, fd *ast.FuncDecl, list []ast.Stmt, unroll, maxPaths int, classKey func(*ast.CaseClause) string, isolate func(ast.Stmt) bool) (paths [][]Event, ok bool, why string) {
	return EnumPathsFull(p, fd, list, unroll, maxPaths, classKey, isolate, nil, nil)
}

// EnumPathsFull additionally takes a trip-count oracle for loops and a
// condition oracle (1 true, 0 false, -1 unknown) that prunes decided branches.
func EnumPathsFull(p *core.Program, fd *ast.FuncDecl, list []ast.Stmt, unroll, maxPaths int, classKey func(*ast.CaseClause) string, isolate func(ast.Stmt) bool, loopCount func(ast.Stmt) (int, bool), decide func(ast.Expr) int) (paths [][]Event, ok bool, why string) {
	cfg := &pathCfg{p: p, maxPaths: maxPaths, unroll: unroll, stable: singleAssigned(p, fd), classKey: classKey, isolate: isolate, loopCount: loopCount, decide: decide}
	start := []*path{{conds: map[string]bool{}}}
	out := cfg.block(list, start)
	if cfg.unsupported != "" {
		return nil, false, cfg.unsupported
	}
	for _, pt := range out {
		if !pt.done {
			pt.ev = append(pt.ev, Event{Exit: "return"})
		}
		paths = append(paths, pt.ev)
	}
	return paths, true, ""
}

// singleAssigned returns the local objects (params included) that are never
// re-assigned after their definition, so conditions over them are stable.
func singleAssigned(p *core.Program, fd *ast.FuncDecl) map[types.Object]bool {
	assigns := map[types.Object]int{}
	ast.Inspect(fd, func(n ast.Node) bool {
		switch s := n.(type) {
		case *ast.AssignStmt:
			for _, l := range s.Lhs {
				if id, ok := ast.Unparen(l).(*ast.Ident); ok {
					if o := p.ObjectOf(id); o != nil {
						assigns[o]++
					}
				}
			}
		case *ast.IncDecStmt:
			if id, ok := ast.Unparen(s.X).(*ast.Ident); ok {
				if o := p.ObjectOf(id); o != nil {
					assigns[o] += 2
				}
			}
		case *ast.RangeStmt:
			for _, e := range []ast.Expr{s.Key, s.Value} {
				if id, ok := e.(*ast.Ident); ok {
					if o := p.ObjectOf(id); o != nil {
						assigns[o] += 2
					}
				}
			}
		case *ast.UnaryExpr:
			if s.Op == token.AND {
				if id, ok := ast.Unparen(s.X).(*ast.Ident); ok {
					if o := p.ObjectOf(id); o != nil {
						assigns[o] += 2
					}
				}
			}
		}
		return true
	})
	st := map[types.Object]bool{}
	ast.Inspect(fd, func(n ast.Node) bool {
		if id, ok := n.(*ast.Ident); ok {
			if o, ok := p.ObjectOf(id).(*types.Var); ok && !o.IsField() {
				if assigns[o] <= 1 {
					st[o] = true
				}
			}
		}
		return true
	})
	return st
}

func (c *pathCfg) stableCond(e ast.Expr) bool {
	ok := true
	ast.Inspect(e, func(n ast.Node) bool {
		switch x := n.(type) {
		case *ast.Ident:
			switch o := c.p.ObjectOf(x).(type) {
			case *types.Var:
				if !o.IsField() && o.Parent() != nil && o.Parent() != o.Pkg().Scope() && !c.stable[o] {
					ok = false
				}
			}
		case *ast.CallExpr:
			// method calls on stable receivers such as vt.Kind() are treated as pure;
			// calls on the emitter/compiler receiver are not conditions in this code base.
		}
		return ok
	})
	return ok
}

// calls appends the calls inside e in evaluation order (arguments first).
func (c *pathCfg) calls(e ast.Node, pts []*path) []*path {
	if e == nil {
		return pts
	}
	var list []*ast.CallExpr
	var walk func(n ast.Node)
	walk = func(n ast.Node) {
		ast.Inspect(n, func(m ast.Node) bool {
			switch x := m.(type) {
			case *ast.FuncLit:
				return false
			case *ast.CallExpr:
				for _, a := range x.Args {
					walk(a)
				}
				walk(x.Fun)
				list = append(list, x)
				return false
			}
			return true
		})
	}
	walk(e)
	for _, call := range list {
		isPanic := false
		if id, ok := call.Fun.(*ast.Ident); ok && id.Name == "panic" {
			if _, isB := c.p.ObjectOf(id).(*types.Builtin); isB {
				isPanic = true
			}
		}
		for _, pt := range pts {
			if pt.done {
				continue
			}
			pt.ev = append(pt.ev, Event{Call: call})
			if isPanic {
				pt.ev = append(pt.ev, Event{Exit: "panic"})
				pt.done = true
			}
		}
	}
	return pts
}

func live(pts []*path) (l, d []*path) {
	for _, p := range pts {
		if p.done {
			d = append(d, p)
		} else {
			l = append(l, p)
		}
	}
	return
}

func (c *pathCfg) branch(pts []*path, cond ast.Expr, thenF, elseF func([]*path) []*path) []*path {
	lv, dn := live(pts)
	lv = c.calls(cond, lv)
	lv, dn2 := live(lv)
	dn = append(dn, dn2...)
	key := ""
	if cond != nil && c.stableCond(cond) {
		key = types.ExprString(cond)
	}
	var tIn, eIn []*path
	if c.decide != nil && cond != nil {
		if v := c.decide(cond); v != -1 {
			for _, pt := range lv {
				pt.ev = append(pt.ev, Event{Cond: cond, Taken: v == 1})
			}
			if v == 1 {
				return append(dn, thenF(lv)...)
			}
			return append(dn, elseF(lv)...)
		}
	}
	for _, pt := range lv {
		if key != "" {
			if v, seen := pt.conds[key]; seen {
				pt.ev = append(pt.ev, Event{Cond: cond, Taken: v})
				if v {
					tIn = append(tIn, pt)
				} else {
					eIn = append(eIn, pt)
				}
				continue
			}
		}
		q := pt.clone()
		pt.ev = append(pt.ev, Event{Cond: cond, Taken: true})
		q.ev = append(q.ev, Event{Cond: cond, Taken: false})
		if key != "" {
			pt.conds[key] = true
			q.conds[key] = false
		}
		tIn = append(tIn, pt)
		eIn = append(eIn, q)
	}
	out := dn
	out = append(out, thenF(tIn)...)
	out = append(out, elseF(eIn)...)
	c.count = len(out)
	if len(out) > c.maxPaths && c.unsupported == "" {
		c.unsupported = "too many paths"
	}
	return out
}

func (c *pathCfg) block(list []ast.Stmt, pts []*path) []*path {
	for _, s := range list {
		if c.unsupported != "" {
			return pts
		}
		pts = c.stmt(s, pts)
	}
	return pts
}

func (c *pathCfg) stmt(s ast.Stmt, pts []*path) []*path {
	lv, dn := live(pts)
	if len(lv) == 0 {
		return pts
	}
	switch s := s.(type) {
	case *ast.BlockStmt:
		return append(dn, c.block(s.List, lv)...)
	case *ast.ExprStmt:
		return append(dn, c.calls(s.X, lv)...)
	case *ast.AssignStmt, *ast.IncDecStmt, *ast.DeclStmt:
		lv = c.calls(s, lv)
		for _, pt := range lv {
			if !pt.done {
				pt.ev = append(pt.ev, Event{Stmt: s})
			}
		}
		return append(dn, lv...)
	case *ast.ReturnStmt:
		lv = c.calls(s, lv)
		for _, pt := range lv {
			if !pt.done {
				pt.ev = append(pt.ev, Event{Stmt: s}, Event{Exit: "return"})
				pt.done = true
			}
		}
		return append(dn, lv...)
	case *ast.IfStmt:
		if s.Init != nil {
			lv = c.stmt(s.Init, lv)
		}
		res := c.branch(lv, s.Cond,
			func(in []*path) []*path { return c.block(s.Body.List, in) },
			func(in []*path) []*path {
				if s.Else != nil {
					return c.stmt(s.Else, in)
				}
				return in
			})
		return append(dn, res...)
	case *ast.SwitchStmt:
		if s.Init != nil {
			lv = c.stmt(s.Init, lv)
		}
		lv = c.calls(s.Tag, lv)
		return append(dn, c.cases(s.Body.List, lv, s.Tag)...)
	case *ast.TypeSwitchStmt:
		if s.Init != nil {
			lv = c.stmt(s.Init, lv)
		}
		lv = c.calls(s.Assign, lv)
		return append(dn, c.cases(s.Body.List, lv, nil)...)
	case *ast.ForStmt:
		if c.isolate != nil && c.isolate(s) {
			for _, pt := range lv {
				pt.ev = append(pt.ev, Event{Frag: s})
			}
			return append(dn, lv...)
		}
		if s.Init != nil {
			lv = c.stmt(s.Init, lv)
		}
		if c.loopCount != nil {
			if n, ok := c.loopCount(s); ok {
				return append(dn, c.exact(lv, n, s.Body, s.Post)...)
			}
		}
		return append(dn, c.loop(lv, s.Cond, s.Body, s.Post)...)
	case *ast.RangeStmt:
		if c.isolate != nil && c.isolate(s) {
			for _, pt := range lv {
				pt.ev = append(pt.ev, Event{Frag: s})
			}
			return append(dn, lv...)
		}
		lv = c.calls(s.X, lv)
		if c.loopCount != nil {
			if n, ok := c.loopCount(s); ok {
				return append(dn, c.exact(lv, n, s.Body, nil, s)...)
			}
		}
		return append(dn, c.loop(lv, nil, s.Body, nil)...)
	case *ast.BranchStmt:
		switch s.Tok {
		case token.BREAK, token.CONTINUE:
			if s.Label == nil {
				for _, pt := range lv {
					pt.ev = append(pt.ev, Event{Stmt: s})
				}
				// handled by loop/cases via marker: we mark the path as "broken"
				for _, pt := range lv {
					pt.done = true
					pt.ev = append(pt.ev, Event{Exit: s.Tok.String()})
				}
				return append(dn, lv...)
			}
		case token.FALLTHROUGH:
			c.unsupported = "fallthrough"
			return pts
		}
		c.unsupported = "goto/labelled branch"
		return pts
	case *ast.EmptyStmt:
		return pts
	case *ast.DeferStmt:
		for _, pt := range lv {
			pt.ev = append(pt.ev, Event{Stmt: s})
		}
		return append(dn, lv...)
	case *ast.LabeledStmt, *ast.SelectStmt, *ast.GoStmt, *ast.SendStmt:
		c.unsupported = "unsupported statement"
		return pts
	}
	c.unsupported = "unknown statement"
	return pts
}

// reopen turns paths that ended with break/continue back into live ones.
func reopen(pts []*path, toks ...string) {
	for _, pt := range pts {
		if !pt.done || len(pt.ev) == 0 {
			continue
		}
		last := pt.ev[len(pt.ev)-1]
		for _, t := range toks {
			if last.Exit == t {
				pt.ev = pt.ev[:len(pt.ev)-1]
				pt.done = false
			}
		}
	}
}

func (c *pathCfg) cases(clauses []ast.Stmt, in []*path, tag ast.Expr) []*path {
	var out []*path
	hasDefault := false
	n := 0
	for _, cl := range clauses {
		cc := cl.(*ast.CaseClause)
		if cc.List == nil {
			hasDefault = true
		}
		n++
	}
	// a switch over a stable tag is keyed so that repeated switches agree
	key := ""
	if tag != nil && c.stableCond(tag) {
		key = "switch:" + types.ExprString(tag)
	}
	seenClass := map[string]bool{}
	for i, cl := range clauses {
		cc := cl.(*ast.CaseClause)
		if c.classKey != nil && cc.List != nil {
			if k := c.classKey(cc); k != "" {
				if seenClass[k] {
					continue
				}
				seenClass[k] = true
			}
		}
		var br []*path
		for _, pt := range in {
			if key != "" {
				if v, seen := pt.conds[key+"#"]; seen && v {
					// already decided on this path: only the remembered arm
					if !pt.conds[key+"="+itoa(i)] {
						continue
					}
				}
			}
			q := pt.clone()
			q.ev = append(q.ev, Event{Case: cc})
			if key != "" {
				q.conds[key+"#"] = true
				q.conds[key+"="+itoa(i)] = true
			}
			br = append(br, q)
		}
		for _, e := range cc.List {
			br = c.calls(e, br)
		}
		br = c.block(cc.Body, br)
		reopen(br, "break")
		out = append(out, br...)
		if len(out) > c.maxPaths && c.unsupported == "" {
			c.unsupported = "too many paths"
			return out
		}
	}
	if !hasDefault {
		for _, pt := range in {
			if key != "" {
				if v, seen := pt.conds[key+"#"]; seen && v {
					if !pt.conds[key+"=none"] {
						continue
					}
				}
			}
			q := pt.clone()
			if key != "" {
				q.conds[key+"#"] = true
				q.conds[key+"=none"] = true
			}
			out = append(out, q)
		}
	}
	return out
}

func itoa(i int) string {
	if i == 0 {
		return "0"
	}
	s := ""
	for i > 0 {
		s = string(rune('0'+i%10)) + s
		i /= 10
	}
	return s
}

func (c *pathCfg) loop(in []*path, cond ast.Expr, body *ast.BlockStmt, post ast.Stmt) []*path {
	var out []*path
	cur := in
	for it := 0; ; it++ {
		cur = c.calls(cond, cur)
		// exit alternative
		for _, pt := range cur {
			if pt.done {
				out = append(out, pt)
				continue
			}
			q := pt.clone()
			if it >= c.unroll {
				q.ev = append(q.ev, Event{Loop: -2}) // unrolling bound reached: loop state unknown from here
			} else {
				if cond != nil {
					q.ev = append(q.ev, Event{Cond: cond, Taken: false})
				}
				q.ev = append(q.ev, Event{Loop: -1})
			}
			out = append(out, q)
		}
		if it >= c.unroll {
			break
		}
		var next []*path
		for _, pt := range cur {
			if !pt.done {
				if cond != nil {
					pt.ev = append(pt.ev, Event{Cond: cond, Taken: true})
				}
				pt.ev = append(pt.ev, Event{Loop: it + 1})
				next = append(next, pt)
			}
		}
		next = c.block(body.List, next)
		// break leaves the loop; continue proceeds to post
		var cont []*path
		for _, pt := range next {
			if pt.done && len(pt.ev) > 0 && pt.ev[len(pt.ev)-1].Exit == "break" {
				pt.ev = pt.ev[:len(pt.ev)-1]
				pt.ev = append(pt.ev, Event{Loop: -1})
				pt.done = false
				out = append(out, pt)
				continue
			}
			cont = append(cont, pt)
		}
		reopen(cont, "continue")
		if post != nil {
			cont = c.stmt(post, cont)
		}
		cur = cont
		if len(out)+len(cur) > c.maxPaths && c.unsupported == "" {
			c.unsupported = "too many paths"
			break
		}
		if c.unsupported != "" {
			break
		}
	}
	return out
}

// exact runs a loop body exactly n times.
func (c *pathCfg) exact(in []*path, n int, body *ast.BlockStmt, post ast.Stmt, rs ...*ast.RangeStmt) []*path {
	var rng *ast.RangeStmt
	if len(rs) > 0 {
		rng = rs[0]
	}
	cur := in
	var out []*path
	for it := 0; it < n; it++ {
		for _, pt := range cur {
			if !pt.done {
				pt.ev = append(pt.ev, Event{Loop: it + 1, Range: rng})
			}
		}
		cur = c.block(body.List, cur)
		var cont []*path
		for _, pt := range cur {
			if pt.done && len(pt.ev) > 0 && pt.ev[len(pt.ev)-1].Exit == "break" {
				pt.ev = pt.ev[:len(pt.ev)-1]
				pt.ev = append(pt.ev, Event{Loop: -1})
				pt.done = false
				out = append(out, pt)
				continue
			}
			cont = append(cont, pt)
		}
		reopen(cont, "continue")
		if post != nil {
			cont = c.stmt(post, cont)
		}
		cur = cont
		if c.unsupported != "" {
			break
		}
	}
	for _, pt := range cur {
		if !pt.done {
			pt.ev = append(pt.ev, Event{Loop: -1})
		}
	}
	return append(out, cur...)
}
