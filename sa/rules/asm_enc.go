package rules

import (
	"go/token"
	"strings"

	"verif/sa/core"
)

func init() {
	register(&core.Rule{ID: "A1", Min: 40,
		Doc: "Output-space budget of the x86 encoder: in every emitted template, each store through (RP)(RL)+d of width w, each add_text(s) and each native writer (i64toa/u64toa/f64toa/f32toa) is covered by spare bytes reserved by check_size(n)/check_size_r(R,d) since RL last advanced: budget = n after a check, minus k after ADDQ $k,RL, min at labels; a native writer needs budget >= its longest output for the operand width (int8 4, int16 6, int32 17, int64 20, uint8 3, uint16 5, uint32 16, uint64 20 - the 16-byte vector store of the 9..16 digit path counts, float64 24, float32 15). Runtime-sized reservations (check_size_r) cover the stores that follow them; the quote loop hands the native dn = RC-RL.",
		Run: runA1})
}

// write footprint of the native formatters, not just the text length: for values of 9..16
// digits i64toa/u64toa store a whole 16-byte vector (digits + zero padding) and report only the
// digit count, so a 32-bit operand (up to 10 digits) needs 16 bytes (+1 for the sign).
var nativeNeed = map[string]int64{
	"_F_i64toa|MOVBQSX": 4, "_F_i64toa|MOVWQSX": 6, "_F_i64toa|MOVLQSX": 17, "_F_i64toa|MOVQ": 20,
	"_F_u64toa|MOVBQZX": 3, "_F_u64toa|MOVWQZX": 5, "_F_u64toa|MOVLQZX": 16, "_F_u64toa|MOVQ": 20,
	"_F_f64toa|": 24, "_F_f32toa|": 15,
}

// stripHelpers removes the inlined bodies of summarised helpers, keeping their markers.
func stripHelpers(ops []EmitOp, names map[string]bool) []EmitOp {
	var out []EmitOp
	depth := 0
	for _, o := range ops {
		if o.Kind == "Helper" && o.Callee != nil && names[o.Callee.Name()] {
			if depth == 0 {
				out = append(out, o)
			}
			depth++
			continue
		}
		if o.Kind == "HelperEnd" && o.Callee != nil && names[o.Callee.Name()] {
			depth--
			continue
		}
		if depth == 0 {
			out = append(out, o)
		}
	}
	return out
}

func runA1(c *core.Ctx) {
	p := c.Prog
	if p.GOARCH != "amd64" {
		return
	}
	rel := "internal/encoder/x86"
	RP, RL := regOf(p, rel, "_RP"), regOf(p, rel, "_RL")
	if RP == "" || RL == "" {
		c.Undecided("x86/_RP,_RL", token.NoPos, "register variables not found")
		return
	}
	a := newAsmCtx(p, rel, "Assembler")
	a.noInline = map[string]bool{"add_text": true, "store_str": true, "check_size": true, "check_size_r": true, "check_size_rl": true, "slice_grow_ax": true}
	summar := map[string]bool{"check_size": true, "check_size_r": true, "check_size_rl": true, "add_text": true, "store_str": true, "slice_grow_ax": true, "more_space": true}
	const dynBase = int64(1) << 20 // a runtime-sized reservation is active
	for _, fd := range sortedFuncDecls(a.methods()) {
		if !strings.HasPrefix(fd.Name.Name, "_asm_OP_") {
			continue
		}
		fn := handlerName(a.pk, fd)
		seqs, ok := a.seqs(fd, asmEnv{}, 0)
		if !ok {
			c.Undecided(fn+"/budget", fd.Pos(), "cannot enumerate emitted sequences")
			continue
		}
		c.Analysed(fn)
		reported := map[string]bool{}
		sites := 0
		for _, sq := range seqs {
			ops := stripHelpers(sq.Ops, summar)
			g := buildSeqCFG(ops)
			// slice_grow_ax(label): jump back to label with no reservation
			for i, o := range ops {
				if o.Kind == "Helper" && o.Callee != nil && o.Callee.Name() == "slice_grow_ax" && len(o.ArgVals) == 1 && o.ArgVals[0].isStr {
					lbl := o.ArgVals[0].s
					if t, ok := g.label[lbl]; ok {
						g.succ[i] = []int{t}
					} else {
						g.succ[i] = nil
					}
				}
			}
			inSave := make([]bool, len(ops))
			saving := false
			for i, o := range ops {
				if o.Kind == "Helper" && o.Callee != nil && (o.Callee.Name() == "save_c" || o.Callee.Name() == "xsave") {
					saving = true
				}
				inSave[i] = saving
				if o.Kind == "HelperEnd" && o.Callee != nil && (o.Callee.Name() == "call_c" || o.Callee.Name() == "xload" || o.Callee.Name() == "call_go" || o.Callee.Name() == "call_b64") {
					saving = false
				}
			}
			lastIns := make([]string, len(ops)) // mnemonic of the last load into SI/X0 before a native call
			transfer := func(i int, in int64) (int64, int64) {
				o := ops[i]
				switch o.Kind {
				case "Helper":
					if o.Callee == nil {
						return in, in
					}
					switch o.Callee.Name() {
					case "check_size":
						if len(o.ArgVals) == 1 && o.ArgVals[0].isInt {
							return o.ArgVals[0].i, o.ArgVals[0].i
						}
						return dynBase, dynBase // check_size(len(x)): matched with add_text(x) below
					case "check_size_r":
						d := int64(0)
						if len(o.ArgVals) == 2 && o.ArgVals[1].isInt {
							d = o.ArgVals[1].i
						}
						return dynBase + d, dynBase + d
					case "check_size_rl":
						return dynBase, dynBase
					case "add_text", "store_str":
						if len(o.ArgVals) == 1 && o.ArgVals[0].isStr {
							n := int64(len(o.ArgVals[0].s))
							if o.Callee.Name() == "add_text" {
								v := in - n
								if v < 0 {
									v = 0
								}
								return v, v
							}
						}
						return in, in
					case "slice_grow_ax":
						return 0, 0
					}
					// other helpers (save_c, call_c, call_go ...) are inlined
					return in, in
				case "Emit":
					if len(o.Ops) == 2 && isReg(o.Ops[1], RL) && !nonWriting[o.Mnem] {
						dyn := in >= dynBase
						if o.Mnem == "ADDQ" && o.Ops[0].Kind == "imm" && o.Ops[0].ImmOK {
							if dyn {
								return in, in // inside a runtime-sized reservation
							}
							v := in - o.Ops[0].Imm
							if v < 0 {
								v = 0
							}
							return v, v
						}
						if inSave[i] && o.Mnem != "ADDQ" && o.Mnem != "SUBQ" {
							return in, in // RL's register is a scratch argument register between save_c and the native call
						}
						if dyn {
							return in, in // the runtime-sized reservation was made for this advance
						}
						return 0, 0 // RL advanced by a runtime amount: nothing is reserved any more
					}
				}
				return in, in
			}
			in := g.forward(0, transfer)
			for i, o := range ops {
				have := in[i]
				if have >= int64(1)<<39 {
					continue
				}
				dyn := have >= dynBase
				num := have
				if dyn {
					num = have - dynBase
				}
				bad := func(need int64, what string) {
					key := what + "@" + p.Pos(o.Pos)
					if !reported[key] {
						reported[key] = true
						c.Bad(fn+"/budget:"+what, o.Pos, "%s needs %d spare byte(s) at (RP)(RL) but only %d are reserved on some emitted path (check_size too small, or missing since RL advanced): the store lands past the slice capacity of the output buffer (a caller-supplied buffer or a pooled one) when exactly that much room is left", what, need, num)
					}
				}
				switch o.Kind {
				case "Emit":
					if len(o.Ops) >= 1 {
						dst := o.Ops[len(o.Ops)-1]
						if dst.Kind == "mem" && dst.Reg == RP && dst.Index == RL && dst.DispOK && strings.HasPrefix(o.Mnem, "MOV") {
							sites++
							need := dst.Disp + accessWidth(o.Mnem)
							if !dyn && num < need {
								bad(need, o.Mnem+" store")
							}
						}
						if len(o.Ops) == 2 && (isReg(o.Ops[1], "SI") || isReg(o.Ops[1], "X0")) {
							lastIns[i] = o.Mnem
						}
					}
				case "Helper":
					if o.Callee == nil {
						continue
					}
					switch o.Callee.Name() {
					case "add_text":
						sites++
						if len(o.ArgVals) == 1 && o.ArgVals[0].isStr {
							if need := int64(len(o.ArgVals[0].s)); !dyn && num < need {
								bad(need, "add_text("+o.ArgVals[0].s+")")
							}
						} else if !dyn {
							bad(1, "add_text of a runtime string")
						}
					case "call_c":
						if len(o.ArgVals) == 1 && o.ArgVals[0].sym != nil {
							fname := o.ArgVals[0].sym.Name()
							ins := ""
							for j := i - 1; j >= 0 && j > i-6; j-- {
								if lastIns[j] != "" {
									ins = lastIns[j]
									break
								}
							}
							need, known := nativeNeed[fname+"|"+ins]
							if !known {
								need, known = nativeNeed[fname+"|"]
							}
							if known {
								sites++
								if dyn || num < need {
									if !(dyn) {
										bad(need, "native "+strings.TrimPrefix(fname, "_F_")+" ("+ins+")")
									}
								}
							}
						}
					}
				}
			}
		}
		if len(reported) == 0 {
			c.OK(fn+"/budget", fd.Pos(), "%d sequence(s), %d write site(s), all inside a reservation", len(seqs), sites)
		}
	}
}
