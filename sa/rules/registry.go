// Package rules holds the repository-specific rule engines.
package rules

import "verif/sa/core"

var all []*core.Rule

func register(r *core.Rule) { all = append(all, r) }

// All returns every registered rule.
func All() []*core.Rule { return all }
