package rules

import (
	"go/ast"
	"go/token"
	"strings"

	"verif/sa/core"
)

// A12: a spare-capacity test is still true where it is used. `if cap(b)-len(b) < need { grow }`
// proves that need bytes fit *at that point*. An `append` to the same slice between the test and
// the raw write into b[len(b):cap(b)] (or the reslice b[:len(b)+need]) uses up part of the room
// that was proved: with exactly need spare bytes the write overruns (base64x.Encode panics
// "output buffer is too small", a native routine would write past the slice).

func init() {
	register(&core.Rule{ID: "A12", Min: 1, Arm64: true,
		Doc: "Spare-capacity proofs are not invalidated (internal/rt, internal/encoder/...): after an `if cap(X)-len(X) < N { ... }` growth test, no statement appends to X before the first statement that writes into the proved room (an expression `X[len(X):cap(X)]`, `X[len(X):]` or the reslice `X[:len(X)+N]`); appends made before the test are counted by it.",
		Run: runA12})
}

func runA12(c *core.Ctx) {
	p := c.Prog
	n := 0
	for _, pk := range p.Pkgs {
		rel := core.Rel(pk.PkgPath)
		if rel != "internal/rt" && !strings.HasPrefix(rel, "internal/encoder") {
			continue
		}
		for _, fd := range core.FuncDecls(pk) {
			if fd.Body == nil || strings.HasSuffix(p.Fset.Position(fd.Pos()).Filename, "_test.go") {
				continue
			}
			fn := core.FuncName(pk, fd)
			k := 0
			ast.Inspect(fd.Body, func(nd ast.Node) bool {
				blk, ok := nd.(*ast.BlockStmt)
				if !ok {
					return true
				}
				for i, st := range blk.List {
					is, ok := st.(*ast.IfStmt)
					if !ok {
						continue
					}
					be, ok := ast.Unparen(is.Cond).(*ast.BinaryExpr)
					if !ok || be.Op != token.LSS {
						continue
					}
					sub, ok := ast.Unparen(be.X).(*ast.BinaryExpr)
					if !ok || sub.Op != token.SUB {
						continue
					}
					capc, ok1 := ast.Unparen(sub.X).(*ast.CallExpr)
					lenc, ok2 := ast.Unparen(sub.Y).(*ast.CallExpr)
					if !ok1 || !ok2 || exprStr(capc.Fun) != "cap" || exprStr(lenc.Fun) != "len" || len(capc.Args) != 1 || exprStr(capc.Args[0]) != exprStr(lenc.Args[0]) {
						continue
					}
					x := exprStr(capc.Args[0])
					// first later statement that uses the proved room
					use := -1
					for j := i + 1; j < len(blk.List) && use < 0; j++ {
						ast.Inspect(blk.List[j], func(y ast.Node) bool {
							if se, ok := y.(*ast.SliceExpr); ok && exprStr(se.X) == x {
								lo, hi := "", ""
								if se.Low != nil {
									lo = exprStr(se.Low)
								}
								if se.High != nil {
									hi = exprStr(se.High)
								}
								if lo == "len("+x+")" || strings.HasPrefix(hi, "len("+x+") +") || strings.HasPrefix(hi, "len("+x+")+") {
									use = j
								}
							}
							return use < 0
						})
					}
					if use < 0 {
						continue
					}
					k++
					n++
					c.Analysed(fn)
					cn := fn + "/spare-capacity#" + itoa(k)
					var bad token.Pos
					for j := i + 1; j < use; j++ {
						ast.Inspect(blk.List[j], func(y ast.Node) bool {
							if call, ok := y.(*ast.CallExpr); ok && exprStr(call.Fun) == "append" && len(call.Args) >= 1 && exprStr(call.Args[0]) == x && bad == token.NoPos {
								bad = call.Pos()
							}
							return true
						})
					}
					if bad != token.NoPos {
						c.Bad(cn, bad, "%s is appended to between the test `%s` and the write into the room it proved: with exactly %s spare bytes the appended bytes take part of that room and the write that follows overruns the slice (the VM's []byte encoder panics where the JIT succeeds)", x, exprStr(is.Cond), exprStr(be.Y))
					} else {
						c.OK(cn, is.Pos(), "the room proved by `%s` is used before anything else is appended to %s", exprStr(is.Cond), x)
					}
				}
				return true
			})
		}
	}
	if n == 0 {
		c.Undecided("spare-capacity", token.NoPos, "no spare-capacity test followed by a raw write found")
	}
}
