package rules

import (
	"go/ast"
	"go/token"
	"go/types"
	"strings"

	"verif/sa/core"
)

// X2: interface values built by hand in generated code. The JIT assemblers return errors by
// loading two immediates: ET <- itab(error, *T) and EP <- the address of a T. The compiler
// cannot check that pair: a data word of the wrong type still satisfies `err != nil` and type
// assertions and only faults when the error is used.

func init() {
	register(&core.Rule{ID: "X2", Min: 5,
		Doc: "Hand-built interface values are well-typed: (a) every pointer immediate jit.Imm(int64(uintptr(unsafe.Pointer(E)))) of the two JIT assemblers has a single level of indirection (typeof(E) = *T with T not a pointer: the address of a pointer variable is never what generated code wants); (b) wherever an emitter function loads the error pair `MOVQ _V_x, EP` / `MOVQ _I_y, ET`, typeof(E_x) is identical to the concrete type the itab _I_y was built for (resolved through reflect.TypeOf(new(T)) / reflect.TypeOf((*T)(nil))).",
		Run: runX2})
}

// ptrImmExpr returns E for jit.Imm(int64(uintptr(unsafe.Pointer(E)))).
func ptrImmExpr(p *core.Program, e ast.Expr) ast.Expr {
	call, ok := ast.Unparen(e).(*ast.CallExpr)
	if !ok || !isJitFunc(p.Callee(call), "Imm") || len(call.Args) != 1 {
		return nil
	}
	x := call.Args[0]
	for k := 0; k < 4; k++ {
		c, ok := ast.Unparen(x).(*ast.CallExpr)
		if !ok || len(c.Args) != 1 {
			return nil
		}
		if se, ok := ast.Unparen(c.Fun).(*ast.SelectorExpr); ok && se.Sel.Name == "Pointer" && exprStr(se.X) == "unsafe" {
			return c.Args[0]
		}
		x = c.Args[0]
	}
	return nil
}

// reflectTypeOfStatic resolves reflect.TypeOf(new(T)) / reflect.TypeOf((*T)(nil)) (possibly
// through a package-level variable) to the static type *T.
func reflectTypeOfStatic(p *core.Program, e ast.Expr, depth int) types.Type {
	if depth > 4 {
		return nil
	}
	e = ast.Unparen(e)
	switch x := e.(type) {
	case *ast.Ident, *ast.SelectorExpr:
		if v, ok := p.ExprObj(x).(*types.Var); ok && !v.IsField() {
			if init := p.VarInit(v); init != nil {
				return reflectTypeOfStatic(p, init, depth+1)
			}
		}
	case *ast.CallExpr:
		if se, ok := ast.Unparen(x.Fun).(*ast.SelectorExpr); ok && se.Sel.Name == "TypeOf" && len(x.Args) == 1 {
			if o := p.Callee(x); o != nil && o.Pkg() != nil && o.Pkg().Path() == "reflect" {
				return p.TypeOf(x.Args[0])
			}
		}
	}
	return nil
}

func runX2(c *core.Ctx) {
	p := c.Prog
	if p.GOARCH != "amd64" {
		return
	}
	for _, tg := range []struct{ rel, recv, ep, et string }{
		{"internal/encoder/x86", "Assembler", "_EP", "_ET"},
		{"internal/decoder/jitdec", "_Assembler", "_EP", "_ET"},
	} {
		pk := p.Pkg(tg.rel)
		if pk == nil {
			c.Undecided(tg.rel, token.NoPos, "package not loaded")
			continue
		}
		// (a) all pointer immediates of the package
		ptrType := map[types.Object]types.Type{} // _V_x -> typeof(E)
		itabType := map[types.Object]types.Type{}
		for _, f := range core.SortedFiles(pk) {
			for _, d := range f.Decls {
				gd, ok := d.(*ast.GenDecl)
				if !ok || gd.Tok != token.VAR {
					continue
				}
				for _, sp := range gd.Specs {
					vs := sp.(*ast.ValueSpec)
					for i, nm := range vs.Names {
						if i >= len(vs.Values) {
							continue
						}
						o := p.ObjectOf(nm)
						if e := ptrImmExpr(p, vs.Values[i]); e != nil {
							t := p.TypeOf(e)
							cn := tg.rel + "." + nm.Name + "/pointer-immediate"
							pt, isPtr := t.Underlying().(*types.Pointer)
							switch {
							case !isPtr:
								if _, isUP := t.Underlying().(*types.Basic); isUP && t.String() == "unsafe.Pointer" {
									c.OK(cn, nm.Pos(), "unsafe.Pointer value %s", exprStr(e))
								} else {
									c.Bad(cn, nm.Pos(), "%s is not a pointer (type %s)", exprStr(e), t)
								}
							default:
								if _, pp := pt.Elem().Underlying().(*types.Pointer); pp {
									c.Bad(cn, nm.Pos(), "the immediate is the address of a pointer (%s has type %s): generated code that loads it as a *%s reads the pointer variable's own memory as the object - an error built from it passes `err != nil` and type assertions but its fields alias neighbouring globals and Error() faults", exprStr(e), t, strings.TrimPrefix(pt.Elem().String(), "*"))
								} else {
									c.OK(cn, nm.Pos(), "%s has type %s", exprStr(e), t)
								}
							}
							ptrType[o] = t
						}
						if call, ok := ast.Unparen(vs.Values[i]).(*ast.CallExpr); ok && isJitFunc(p.Callee(call), "Itab") && len(call.Args) == 2 {
							if t := reflectTypeOfStatic(p, call.Args[1], 0); t != nil {
								itabType[o] = t
							}
						}
					}
				}
			}
		}
		// (b) error pairs in emitter functions
		em := emitModel{p}
		for _, fd := range core.FuncDecls(pk) {
			if fd.Body == nil || fd.Recv == nil {
				continue
			}
			recv := recvObj(p, fd)
			// statement lists: pair within the same block
			ast.Inspect(fd.Body, func(n ast.Node) bool {
				blk, ok := n.(*ast.BlockStmt)
				if !ok {
					return true
				}
				var vObj, iObj types.Object
				var pos token.Pos
				flush := func() {
					if vObj != nil && iObj != nil {
						cn := core.FuncName(pk, fd) + "/error-pair:" + vObj.Name() + "+" + iObj.Name()
						vt, it := ptrType[vObj], itabType[iObj]
						switch {
						case vt == nil || it == nil:
							// not both resolvable: nothing to compare
						case types.Identical(vt, it):
							c.OK(cn, pos, "data word %s and itab for %s agree", vt, it)
						default:
							c.Bad(cn, pos, "the error value is assembled from an itab for %s and a data word of type %s: the interface value is ill-typed and using it (Error(), fields) reads unrelated memory", it, vt)
						}
					}
					vObj, iObj = nil, nil
				}
				for _, st := range blk.List {
					es, ok := st.(*ast.ExprStmt)
					if !ok {
						flush()
						continue
					}
					call, ok := es.X.(*ast.CallExpr)
					if !ok {
						flush()
						continue
					}
					op, isSelf := em.classify(call, recv)
					if !isSelf || op.Kind != "Emit" || op.Mnem != "MOVQ" || len(op.Ops) != 2 {
						if isSelf && op.Kind == "Emit" {
							continue
						}
						flush()
						continue
					}
					src, dst := op.Ops[0], op.Ops[1]
					if dst.Name == tg.ep {
						for _, o := range src.Objs {
							if _, ok := ptrType[o]; ok {
								vObj, pos = o, call.Pos()
							}
						}
						if src.Name != "" {
							if o := core.Obj(pk, src.Name); o != nil {
								if _, ok := ptrType[o]; ok {
									vObj, pos = o, call.Pos()
								}
							}
						}
					}
					if dst.Name == tg.et && src.Name != "" {
						if o := core.Obj(pk, src.Name); o != nil {
							if _, ok := itabType[o]; ok {
								iObj = o
							}
						}
					}
				}
				flush()
				return true
			})
		}
	}
}

// X3: an error's position and its source text are in the same coordinate system. The stream
// decoder keeps a window (self.buf, re-based after every value) and an absolute stream offset
// (self.scanned + self.scanp = InputOffset()). A SyntaxError whose Src is the window must carry
// a window-relative Pos; an absolute one lies outside Src, and the excerpt code then prints the
// whole window.

func init() {
	register(&core.Rule{ID: "X3", Min: 2,
		Doc: "Error position and source agree in the stream decoder: every SyntaxError literal in internal/decoder/api whose Src is taken from the read-ahead window (string(self.buf)) has a Pos built from the window cursor (self.scanp / locals), never from the absolute stream offset (self.scanned, InputOffset()); a literal whose Src is the decoder's own text (self.s) takes the position the decoder reported for that text.",
		Run: runX3})
}

func runX3(c *core.Ctx) {
	p := c.Prog
	pk := p.Pkg("internal/decoder/api")
	if pk == nil {
		c.Undecided("internal/decoder/api", token.NoPos, "package not loaded")
		return
	}
	n := 0
	for _, fd := range core.FuncDecls(pk) {
		if fd.Body == nil || core.RecvName(fd) != "StreamDecoder" {
			continue
		}
		fn := core.FuncName(pk, fd)
		k := 0
		ast.Inspect(fd.Body, func(nd ast.Node) bool {
			cl, ok := nd.(*ast.CompositeLit)
			if !ok {
				return true
			}
			t := p.TypeOf(cl)
			if t == nil {
				return true
			}
			nt, ok := types.Unalias(t).(*types.Named)
			if !ok || nt.Obj().Name() != "SyntaxError" {
				return true
			}
			var pos, src ast.Expr
			for i, el := range cl.Elts {
				if kv, ok := el.(*ast.KeyValueExpr); ok {
					switch exprStr(kv.Key) {
					case "Pos":
						pos = kv.Value
					case "Src":
						src = kv.Value
					}
				} else {
					if i == 0 {
						pos = el
					}
					if i == 1 {
						src = el
					}
				}
			}
			if pos == nil || src == nil {
				return true
			}
			n++
			k++
			cn := fn + "/syntax-error#" + itoa(k)
			c.Analysed(fn)
			ps, ss := exprStr(pos), exprStr(src)
			absolute := strings.Contains(ps, "InputOffset") || strings.Contains(ps, "scanned")
			switch {
			case strings.Contains(ss, ".buf") && absolute:
				c.Bad(cn, cl.Pos(), "SyntaxError{Pos: %s, Src: %s}: the position is the absolute stream offset but the source is the current read-ahead window, which is re-based after every decoded value: Pos lies outside Src, and Error()/Description() print the whole window (unbounded message)", ps, ss)
			case strings.Contains(ss, ".buf"):
				c.OK(cn, cl.Pos(), "window-relative position %s with window source", ps)
			default:
				c.OK(cn, cl.Pos(), "position %s reported for source %s", ps, ss)
			}
			return true
		})
	}
	if n < 2 {
		c.Undecided("internal/decoder/api/syntax-errors", token.NoPos, "only %d SyntaxError literals found in StreamDecoder", n)
	}
}
