package rules

import (
	"go/ast"
	"go/token"
	"go/types"
	"sort"

	"verif/sa/core"
)

// W12: the decode entry keeps the caller's text. The back-end entry points stored in
// api.decodeImpl take the decoder's source string and position by pointer and report the end
// position through *i. That position is handed to the user (Decoder.Pos, the stream decoder's
// scan pointer, the trailing-characters check) as an offset into the text the user supplied,
// so the entry may not replace *s by a different text: with ValidateString the corrected copy
// has three bytes for every invalid input byte and every offset after the first one shifts.

func init() {
	register(&core.Rule{ID: "W12", Min: 1, Arm64: true,
		Doc: "Source text of the decode entry points: every function stored in internal/decoder/api.decodeImpl (initialiser and assignments, resolved through the type checker) whose first parameter is a *string must not assign through that parameter (`*s = ...`): the option ValidateString is documented to replace invalid bytes in decoded strings, not to change what Decoder.Pos() and error offsets refer to. The rule decides only that the caller's text is left in place; that the reported offset is then an offset into it follows from the templates (B-rules).",
		Run: runW12})
}

func runW12(c *core.Ctx) {
	p := c.Prog
	api := p.Pkg("internal/decoder/api")
	if api == nil {
		c.Undecided("internal/decoder/api", token.NoPos, "package not loaded")
		return
	}
	impls := map[*types.Func]bool{}
	note := func(lhs, rhs ast.Expr) {
		id, ok := lhs.(*ast.Ident)
		if !ok || id.Name != "decodeImpl" {
			return
		}
		var obj types.Object
		switch r := ast.Unparen(rhs).(type) {
		case *ast.SelectorExpr:
			obj = p.ObjectOf(r.Sel)
		case *ast.Ident:
			obj = p.ObjectOf(r)
		}
		if f, ok := obj.(*types.Func); ok {
			impls[f] = true
		}
	}
	for _, f := range api.Syntax {
		ast.Inspect(f, func(nd ast.Node) bool {
			switch s := nd.(type) {
			case *ast.ValueSpec:
				for i, nm := range s.Names {
					if i < len(s.Values) {
						note(nm, s.Values[i])
					}
				}
			case *ast.AssignStmt:
				if len(s.Lhs) == len(s.Rhs) {
					for i := range s.Lhs {
						note(s.Lhs[i], s.Rhs[i])
					}
				}
			}
			return true
		})
	}
	var fs []*types.Func
	for f := range impls {
		fs = append(fs, f)
	}
	sort.Slice(fs, func(i, j int) bool { return fs[i].FullName() < fs[j].FullName() })
	n := 0
	for _, f := range fs {
		fd := p.DeclOf(f)
		cn := f.Pkg().Name() + "." + f.Name() + "/keeps-source"
		if fd == nil || fd.Body == nil {
			c.Undecided(cn, token.NoPos, "declaration not found")
			continue
		}
		if fd.Type.Params.NumFields() == 0 || len(fd.Type.Params.List[0].Names) == 0 {
			continue
		}
		if st, ok := fd.Type.Params.List[0].Type.(*ast.StarExpr); !ok || exprStr(st.X) != "string" {
			continue
		}
		sv := p.ObjectOf(fd.Type.Params.List[0].Names[0])
		n++
		c.Analysed(f.FullName())
		var at token.Pos
		ast.Inspect(fd.Body, func(nd ast.Node) bool {
			if as, ok := nd.(*ast.AssignStmt); ok {
				for _, l := range as.Lhs {
					if st, ok := ast.Unparen(l).(*ast.StarExpr); ok {
						if id, ok := ast.Unparen(st.X).(*ast.Ident); ok && p.ObjectOf(id) == sv && at == token.NoPos {
							at = as.Pos()
						}
					}
				}
			}
			return true
		})
		if at != token.NoPos {
			c.Bad(cn, at, "%s replaces the caller's source text through its *string parameter: the end position it reports (Decoder.Pos, error offsets, where the next value of a stream starts) is then an offset into the replacement, not into the text the user supplied - with ValidateString every invalid byte before it shifts it by two", f.Name())
		} else {
			c.OK(cn, fd.Pos(), "the caller's source text is never assigned")
		}
	}
	if n == 0 {
		c.Undecided("api.decodeImpl", token.NoPos, "no implementation with a *string source found")
	}
}
