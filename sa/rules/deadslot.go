package rules

import (
	"go/ast"
	"go/token"
	"strings"

	"verif/sa/core"
)

// S23: key scans skip tombstones. Removing an object member leaves the zero Pair in its slot
// (the chunks are never compacted), and the zero Pair's Key is "". A scan over the slots that
// compares keys must therefore also ask whether the slot is live, or the removed slot answers
// to the empty key.

func init() {
	register(&core.Rule{ID: "S23", Min: 1, Arm64: true,
		Doc: "Key scans over pair slots: in every method of ast.linkedPairs, a comparison `<slot>.Key == k` that stands inside a for loop over the slots is conjoined (same condition) with a liveness test of the slot (removed(), Exists(), or a type test against _V_NONE); the hash-index fast path is exempt because removals delete the index entry (S8).",
		Run: runS23})
}

func runS23(c *core.Ctx) {
	p := c.Prog
	pk := p.Pkg("ast")
	n := 0
	for _, fd := range core.FuncDecls(pk) {
		if fd.Body == nil || core.RecvName(fd) != "linkedPairs" {
			continue
		}
		fn := core.FuncName(pk, fd)
		var stack []ast.Node
		k := 0
		ast.Inspect(fd.Body, func(nd ast.Node) bool {
			if nd == nil {
				stack = stack[:len(stack)-1]
				return true
			}
			stack = append(stack, nd)
			be, ok := nd.(*ast.BinaryExpr)
			if !ok || be.Op != token.EQL {
				return true
			}
			isKey := func(e ast.Expr) bool {
				se, ok := ast.Unparen(e).(*ast.SelectorExpr)
				return ok && se.Sel.Name == "Key"
			}
			if !isKey(be.X) && !isKey(be.Y) {
				return true
			}
			inLoop := false
			var cond ast.Expr = be
			climbing := true
			for i := len(stack) - 2; i >= 0; i-- {
				switch x := stack[i].(type) {
				case *ast.ForStmt, *ast.RangeStmt:
					inLoop = true
				case *ast.BinaryExpr:
					if climbing {
						cond = x
					}
				case *ast.ParenExpr:
				default:
					climbing = false
				}
			}
			if !inLoop {
				return true
			}
			k++
			n++
			c.Analysed(fn)
			cn := fn + "/key-scan#" + itoa(k)
			live := false
			ast.Inspect(cond, func(x ast.Node) bool {
				switch y := x.(type) {
				case *ast.CallExpr:
					if se, ok := y.Fun.(*ast.SelectorExpr); ok && (se.Sel.Name == "removed" || se.Sel.Name == "Exists") {
						live = true
					}
				case *ast.Ident:
					if strings.HasSuffix(y.Name, "V_NONE") {
						live = true
					}
				}
				return true
			})
			if live {
				c.OK(cn, be.Pos(), "the key comparison is conjoined with a liveness test of the slot")
			} else {
				c.Bad(cn, be.Pos(), "`%s` scans the slots without asking whether the slot is live: the zero pair left by a removal has Key \"\", so after any Unset the real key \"\" resolves to the removed slot (Get misses the live member, Set appends a duplicate)", exprStr(be))
			}
			return true
		})
	}
	if n == 0 {
		c.Undecided("ast.linkedPairs/key-scan", token.NoPos, "no key scan found")
	}
}
