package core

import (
	"fmt"
	"runtime/debug"
	"sort"
	"time"
)

// PropSpec says which rules decide (clauses of) a property.
type PropSpec struct {
	ID          string
	Rules       []string
	Explanation string // what the static check decides and what it does not
	Assumptions []string
}

// Programs caches loaded programs per GOARCH.
type Programs struct {
	Repo string
	m    map[string]*Program
}

func NewPrograms(repo string) *Programs { return &Programs{Repo: repo, m: map[string]*Program{}} }

func (ps *Programs) Get(arch string) (*Program, error) {
	if p, ok := ps.m[arch]; ok {
		return p, nil
	}
	p, err := Load(ps.Repo, arch)
	if err != nil {
		return nil, err
	}
	ps.m[arch] = p
	return p, nil
}

// RuleResult memoises one rule's obligations for one arch so that several
// properties evaluated in one process share the work.
type ruleKey struct{ id, arch string }

type Runner struct {
	Progs *Programs
	Rules map[string]*Rule
	Tier  string
	memo  map[ruleKey]*ruleOut
}

type ruleOut struct {
	obs   []Obligation
	errs  []string
	funcs map[string]bool
}

func NewRunner(progs *Programs, rules []*Rule, tier string) *Runner {
	m := map[string]*Rule{}
	for _, r := range rules {
		if _, dup := m[r.ID]; dup {
			panic("duplicate rule id " + r.ID)
		}
		m[r.ID] = r
	}
	return &Runner{Progs: progs, Rules: m, Tier: tier, memo: map[ruleKey]*ruleOut{}}
}

func (rn *Runner) runRule(r *Rule, arch string) *ruleOut {
	k := ruleKey{r.ID, arch}
	if o, ok := rn.memo[k]; ok {
		return o
	}
	out := &ruleOut{funcs: map[string]bool{}}
	rn.memo[k] = out
	prog, err := rn.Progs.Get(arch)
	if err != nil {
		out.errs = append(out.errs, fmt.Sprintf("rule %s: load failed: %v", r.ID, err))
		return out
	}
	c := &Ctx{Prog: prog, Tier: rn.Tier, rule: r, out: &out.obs, Funcs: out.funcs}
	func() {
		defer func() {
			if e := recover(); e != nil {
				out.errs = append(out.errs, fmt.Sprintf("rule %s (%s) panicked: %v\n%s", r.ID, arch, e, debug.Stack()))
			}
		}()
		r.Run(c)
	}()
	if arch == "amd64" {
		if len(out.obs) < r.Min {
			out.errs = append(out.errs, fmt.Sprintf("rule %s matched %d instances, fewer than the %d confirmed by hand (vacuity guard)", r.ID, len(out.obs), r.Min))
		}
		if r.SelfTest != nil {
			if err := r.SelfTest(); err != nil {
				out.errs = append(out.errs, fmt.Sprintf("rule %s self-test: %v", r.ID, err))
			}
		}
	}
	return out
}

// RunProperty evaluates all rules of a property.
func (rn *Runner) RunProperty(spec PropSpec, seed int64) *Result {
	res := &Result{Property: spec.ID, Tier: rn.Tier, Seed: seed, Start: time.Now(),
		RuleDocs: map[string]string{}, RuleCounts: map[string]int{},
		Explanation: spec.Explanation, Assumptions: spec.Assumptions}
	funcs := map[string]bool{}
	for _, id := range spec.Rules {
		r := rn.Rules[id]
		if r == nil {
			res.Errors = append(res.Errors, "unknown rule "+id)
			continue
		}
		if r.Thorough && rn.Tier != "thorough" {
			continue
		}
		archs := []string{"amd64"}
		if r.Arm64 && rn.Tier == "thorough" {
			archs = append(archs, "arm64")
		}
		res.RuleDocs[id] = r.Doc
		for _, a := range archs {
			o := rn.runRule(r, a)
			res.Obligations = append(res.Obligations, o.obs...)
			res.Errors = append(res.Errors, o.errs...)
			res.RuleCounts[id] += len(o.obs)
			for f := range o.funcs {
				funcs[f] = true
			}
		}
	}
	if p, err := rn.Progs.Get("amd64"); err == nil {
		res.Packages = len(p.Pkgs)
		for _, pk := range p.Pkgs {
			res.Files += len(pk.Syntax)
		}
	} else {
		res.Errors = append(res.Errors, err.Error())
	}
	for f := range funcs {
		res.Funcs = append(res.Funcs, f)
	}
	sort.Strings(res.Funcs)
	if len(res.Obligations) == 0 {
		res.Errors = append(res.Errors, "no obligations produced")
	}
	return res
}
