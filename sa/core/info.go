package core

import (
	"go/ast"
	"go/constant"
	"go/token"
	"go/types"
	"strings"

	"golang.org/x/tools/go/packages"
)

type merged struct {
	uses      map[*ast.Ident]types.Object
	defs      map[*ast.Ident]types.Object
	typs      map[ast.Expr]types.TypeAndValue
	sels      map[*ast.SelectorExpr]*types.Selection
	constInit map[types.Object]ast.Expr
	varInit   map[types.Object]ast.Expr
	localInit map[types.Object]ast.Expr
	declOf    map[types.Object]*ast.FuncDecl
	pkgOfFile map[*ast.File]*packages.Package
}

func (p *Program) m() *merged {
	if p.mg != nil {
		return p.mg
	}
	m := &merged{
		uses: map[*ast.Ident]types.Object{}, defs: map[*ast.Ident]types.Object{},
		typs: map[ast.Expr]types.TypeAndValue{}, sels: map[*ast.SelectorExpr]*types.Selection{},
		constInit: map[types.Object]ast.Expr{}, varInit: map[types.Object]ast.Expr{},
		localInit: map[types.Object]ast.Expr{},
		declOf:    map[types.Object]*ast.FuncDecl{}, pkgOfFile: map[*ast.File]*packages.Package{},
	}
	for _, pk := range p.Pkgs {
		if pk.TypesInfo == nil {
			continue
		}
		for k, v := range pk.TypesInfo.Uses {
			m.uses[k] = v
		}
		for k, v := range pk.TypesInfo.Defs {
			m.defs[k] = v
		}
		for k, v := range pk.TypesInfo.Types {
			m.typs[k] = v
		}
		for k, v := range pk.TypesInfo.Selections {
			m.sels[k] = v
		}
		for _, f := range pk.Syntax {
			m.pkgOfFile[f] = pk
			for _, d := range f.Decls {
				switch d := d.(type) {
				case *ast.FuncDecl:
					if o := pk.TypesInfo.Defs[d.Name]; o != nil {
						m.declOf[o] = d
					}
					if d.Body != nil {
						collectLocalInits(pk, d.Body, m.localInit)
					}
				case *ast.GenDecl:
					if d.Tok != token.CONST && d.Tok != token.VAR {
						continue
					}
					for _, s := range d.Specs {
						vs := s.(*ast.ValueSpec)
						if len(vs.Values) != len(vs.Names) {
							continue
						}
						for i, n := range vs.Names {
							o := pk.TypesInfo.Defs[n]
							if o == nil {
								continue
							}
							if d.Tok == token.CONST {
								m.constInit[o] = vs.Values[i]
							} else {
								m.varInit[o] = vs.Values[i]
							}
						}
					}
				}
			}
		}
	}
	p.mg = m
	return m
}

// collectLocalInits records, for every local variable of a function body that is defined once with an
// initialiser (`x := e`, `var x = e`) and never assigned, incremented or address-taken afterwards, that
// initialiser: such a local is a name for the expression.
func collectLocalInits(pk *packages.Package, body *ast.BlockStmt, out map[types.Object]ast.Expr) {
	cand := map[types.Object]ast.Expr{}
	spoiled := map[types.Object]bool{}
	spoil := func(e ast.Expr) {
		if id, ok := ast.Unparen(e).(*ast.Ident); ok {
			if o := pk.TypesInfo.Uses[id]; o != nil {
				spoiled[o] = true
			}
		}
	}
	ast.Inspect(body, func(n ast.Node) bool {
		switch x := n.(type) {
		case *ast.AssignStmt:
			for i, l := range x.Lhs {
				id, ok := l.(*ast.Ident)
				if !ok {
					continue
				}
				if x.Tok == token.DEFINE {
					if o := pk.TypesInfo.Defs[id]; o != nil {
						if len(x.Rhs) == len(x.Lhs) {
							cand[o] = x.Rhs[i]
						} else {
							spoiled[o] = true
						}
						continue
					}
				}
				spoil(id) // plain assignment, or a redeclared name in a mixed :=
			}
		case *ast.ValueSpec:
			for i, id := range x.Names {
				if o := pk.TypesInfo.Defs[id]; o != nil {
					if len(x.Values) == len(x.Names) {
						cand[o] = x.Values[i]
					} else {
						spoiled[o] = true
					}
				}
			}
		case *ast.IncDecStmt:
			spoil(x.X)
		case *ast.UnaryExpr:
			if x.Op == token.AND {
				spoil(x.X)
			}
		case *ast.RangeStmt:
			if x.Key != nil {
				spoil(x.Key)
			}
			if x.Value != nil {
				spoil(x.Value)
			}
		}
		return true
	})
	for o, e := range cand {
		if !spoiled[o] {
			out[o] = e
		}
	}
}

// LocalInit returns the initialiser of a function-local variable that is defined once and never modified.
func (p *Program) LocalInit(o types.Object) ast.Expr { return p.m().localInit[o] }

// ObjectOf resolves an identifier (use or definition).
func (p *Program) ObjectOf(id *ast.Ident) types.Object {
	if id == nil {
		return nil
	}
	if o := p.m().uses[id]; o != nil {
		return o
	}
	return p.m().defs[id]
}

// ExprObj resolves an identifier or a qualified/field selector to its object.
func (p *Program) ExprObj(e ast.Expr) types.Object {
	switch x := e.(type) {
	case *ast.Ident:
		return p.ObjectOf(x)
	case *ast.SelectorExpr:
		return p.ObjectOf(x.Sel)
	case *ast.ParenExpr:
		return p.ExprObj(x.X)
	}
	return nil
}

func (p *Program) TypeOf(e ast.Expr) types.Type {
	if tv, ok := p.m().typs[e]; ok {
		return tv.Type
	}
	if id, ok := e.(*ast.Ident); ok {
		if o := p.ObjectOf(id); o != nil {
			return o.Type()
		}
	}
	return nil
}

// ConstOf returns the constant value of an expression, or nil.
func (p *Program) ConstOf(e ast.Expr) constant.Value {
	if tv, ok := p.m().typs[e]; ok {
		return tv.Value
	}
	return nil
}

// ConstInt returns the int64 value of a constant expression.
func (p *Program) ConstInt(e ast.Expr) (int64, bool) {
	v := p.ConstOf(e)
	if v == nil {
		return 0, false
	}
	v = constant.ToInt(v)
	if v.Kind() != constant.Int {
		return 0, false
	}
	return constant.Int64Val(v)
}

func (p *Program) Selection(s *ast.SelectorExpr) *types.Selection { return p.m().sels[s] }

// ConstInit returns the explicit initialiser of a declared constant.
func (p *Program) ConstInit(o types.Object) ast.Expr { return p.m().constInit[o] }

// VarInit returns the explicit initialiser of a package-level variable.
func (p *Program) VarInit(o types.Object) ast.Expr { return p.m().varInit[o] }

// DeclOf returns the declaration of a function object (nil for externals).
func (p *Program) DeclOf(o types.Object) *ast.FuncDecl {
	if f, ok := o.(*types.Func); ok {
		o = f.Origin()
	}
	return p.m().declOf[o]
}

// Callee resolves the static callee of a call (function, method, or
// package-level func variable), or nil.
func (p *Program) Callee(call *ast.CallExpr) types.Object {
	fun := ast.Unparen(call.Fun)
	switch f := fun.(type) {
	case *ast.IndexExpr:
		fun = f.X
	case *ast.IndexListExpr:
		fun = f.X
	}
	switch f := fun.(type) {
	case *ast.Ident:
		return p.ObjectOf(f)
	case *ast.SelectorExpr:
		return p.ObjectOf(f.Sel)
	}
	return nil
}

// ObjName renders "pkg.Name" or "pkg.(Recv).Name" for an object.
func ObjName(o types.Object) string {
	if o == nil {
		return "<nil>"
	}
	pk := ""
	if o.Pkg() != nil {
		pk = Rel(o.Pkg().Path()) + "."
	}
	if f, ok := o.(*types.Func); ok {
		if sig, ok := f.Type().(*types.Signature); ok && sig.Recv() != nil {
			t := sig.Recv().Type()
			if pt, ok := t.(*types.Pointer); ok {
				t = pt.Elem()
			}
			if n, ok := t.(*types.Named); ok {
				return pk + "(" + n.Obj().Name() + ")." + f.Name()
			}
		}
	}
	if v, ok := o.(*types.Var); ok && v.IsField() {
		return pk + "field." + v.Name()
	}
	return pk + o.Name()
}

// IsCallTo reports whether call's static callee is the named object of the
// given sonic package (rel path), e.g. ("internal/rt", "Mem2Str").
func (p *Program) IsCallTo(call *ast.CallExpr, rel, name string) bool {
	o := p.Callee(call)
	if o == nil || o.Pkg() == nil || o.Name() != name {
		return false
	}
	path := o.Pkg().Path()
	if rel == "" {
		return path == ModPath
	}
	return path == ModPath+"/"+rel || (!strings.Contains(rel, "/") && path == rel)
}

// FileOf returns the file containing pos within the package.
func FileOf(pk *packages.Package, pos token.Pos) *ast.File {
	for _, f := range pk.Syntax {
		if f.Pos() <= pos && pos <= f.End() {
			return f
		}
	}
	return nil
}

// IsUse reports whether the identifier is a use (not a definition).
func (p *Program) IsUse(id *ast.Ident) bool { _, ok := p.m().uses[id]; return ok }
