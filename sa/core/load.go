// Package core holds the loader, the obligation model, the known-findings
// matching and the evidence writer shared by all rule engines.
package core

import (
	"fmt"
	"go/ast"
	"go/token"
	"go/types"
	"os"
	"path/filepath"
	"sort"
	"strings"

	"golang.org/x/tools/go/packages"
	"golang.org/x/tools/go/ssa"
	"golang.org/x/tools/go/ssa/ssautil"
)

const ModPath = "github.com/bytedance/sonic"

// Program is the type-checked view of /repo for one GOOS/GOARCH.
type Program struct {
	Repo   string
	GOARCH string
	Fset   *token.FileSet
	Pkgs   []*packages.Package
	ByPath map[string]*packages.Package

	ssaProg *ssa.Program
	ssaPkgs []*ssa.Package
	mg      *merged
	Cache   map[string]interface{}
}

// Load type-checks every production package of the two production modules
// ("." and "loader") in workspace mode through a scratch go.work, so that
// /repo/go.work.sum is never rewritten.
func Load(repo, goarch string) (*Program, error) {
	repo, err := filepath.Abs(repo)
	if err != nil {
		return nil, err
	}
	scratch, err := os.MkdirTemp("", "sonicsa-work-")
	if err != nil {
		return nil, err
	}
	defer os.RemoveAll(scratch)
	work := "go 1.18\n\nuse (\n\t" + repo + "\n\t" + filepath.Join(repo, "loader") + "\n)\n"
	if err := os.WriteFile(filepath.Join(scratch, "go.work"), []byte(work), 0o644); err != nil {
		return nil, err
	}
	if sum, err := os.ReadFile(filepath.Join(repo, "go.work.sum")); err == nil {
		_ = os.WriteFile(filepath.Join(scratch, "go.work.sum"), sum, 0o644)
	}
	env := []string{}
	for _, kv := range os.Environ() {
		k := kv
		if i := strings.IndexByte(kv, '='); i >= 0 {
			k = kv[:i]
		}
		switch k {
		case "GOFLAGS", "GOWORK", "GOARCH", "GOOS", "GOPROXY", "GOSUMDB", "GOTOOLCHAIN", "CGO_ENABLED":
			continue
		}
		env = append(env, kv)
	}
	env = append(env,
		"GOFLAGS=", "GOWORK="+filepath.Join(scratch, "go.work"),
		"GOOS=linux", "GOARCH="+goarch, "GOPROXY=off", "GOSUMDB=off",
		"GOTOOLCHAIN=local", "CGO_ENABLED=0")
	fset := token.NewFileSet()
	cfg := &packages.Config{
		Mode: packages.NeedName | packages.NeedFiles | packages.NeedCompiledGoFiles |
			packages.NeedImports | packages.NeedDeps | packages.NeedTypes |
			packages.NeedSyntax | packages.NeedTypesInfo | packages.NeedTypesSizes | packages.NeedModule,
		Dir:  repo,
		Env:  env,
		Fset: fset,
	}
	patterns := []string{ModPath + "/..."}
	if goarch != "amd64" {
		// packages that only build on amd64 (jitdec, x86, native/avx2...) are not part of this
		// configuration: load what the public packages import, transitively
		patterns = nil
		for _, r := range []string{"", "/ast", "/encoder", "/decoder", "/utf8", "/unquote", "/option"} {
			patterns = append(patterns, ModPath+r)
		}
	}
	pkgs, err := packages.Load(cfg, patterns...)
	if err != nil {
		return nil, fmt.Errorf("packages.Load: %w", err)
	}
	if goarch != "amd64" {
		seen := map[string]bool{}
		var all []*packages.Package
		packages.Visit(pkgs, func(pk *packages.Package) bool {
			if !seen[pk.PkgPath] && (pk.PkgPath == ModPath || strings.HasPrefix(pk.PkgPath, ModPath+"/")) {
				seen[pk.PkgPath] = true
				all = append(all, pk)
			}
			return true
		}, nil)
		pkgs = all
	}
	p := &Program{Repo: repo, GOARCH: goarch, Fset: fset, ByPath: map[string]*packages.Package{}}
	var errs []string
	for _, pk := range pkgs {
		for _, e := range pk.Errors {
			errs = append(errs, pk.PkgPath+": "+e.Error())
		}
		p.Pkgs = append(p.Pkgs, pk)
		p.ByPath[pk.PkgPath] = pk
	}
	sort.Slice(p.Pkgs, func(i, j int) bool { return p.Pkgs[i].PkgPath < p.Pkgs[j].PkgPath })
	if len(errs) > 0 {
		sort.Strings(errs)
		if len(errs) > 10 {
			errs = errs[:10]
		}
		return nil, fmt.Errorf("type/load errors in %s (GOARCH=%s):\n  %s", repo, goarch, strings.Join(errs, "\n  "))
	}
	if len(p.Pkgs) < 20 {
		return nil, fmt.Errorf("only %d packages loaded from %s (expected >= 30)", len(p.Pkgs), repo)
	}
	return p, nil
}

// Pkg returns the package with import path ModPath+"/"+rel ("" for the root).
func (p *Program) Pkg(rel string) *packages.Package {
	path := ModPath
	if rel != "" {
		path += "/" + rel
	}
	return p.ByPath[path]
}

// Rel shortens an import path to its module-relative form.
func Rel(path string) string {
	if path == ModPath {
		return "sonic"
	}
	return strings.TrimPrefix(path, ModPath+"/")
}

// Pos renders a position relative to the repository root.
func (p *Program) Pos(pos token.Pos) string {
	if !pos.IsValid() {
		return "-"
	}
	ps := p.Fset.Position(pos)
	f := ps.Filename
	if r, err := filepath.Rel(p.Repo, f); err == nil && !strings.HasPrefix(r, "..") {
		f = r
	}
	return fmt.Sprintf("%s:%d", f, ps.Line)
}

// FuncDecl finds a top-level function or method declaration.
// recv is "" for functions, else the receiver's type name (without '*').
func FuncDecl(pk *packages.Package, recv, name string) *ast.FuncDecl {
	if pk == nil {
		return nil
	}
	for _, f := range pk.Syntax {
		for _, d := range f.Decls {
			fd, ok := d.(*ast.FuncDecl)
			if !ok || fd.Name.Name != name {
				continue
			}
			if RecvName(fd) == recv {
				return fd
			}
		}
	}
	return nil
}

// RecvName returns the receiver's base type name of a method declaration.
func RecvName(fd *ast.FuncDecl) string {
	if fd.Recv == nil || len(fd.Recv.List) == 0 {
		return ""
	}
	t := fd.Recv.List[0].Type
	for {
		switch x := t.(type) {
		case *ast.StarExpr:
			t = x.X
		case *ast.ParenExpr:
			t = x.X
		case *ast.IndexExpr:
			t = x.X
		case *ast.Ident:
			return x.Name
		default:
			return ""
		}
	}
}

// FuncDecls lists all function declarations of a package in source order
// (files sorted by name).
func FuncDecls(pk *packages.Package) []*ast.FuncDecl {
	var out []*ast.FuncDecl
	for _, f := range SortedFiles(pk) {
		for _, d := range f.Decls {
			if fd, ok := d.(*ast.FuncDecl); ok {
				out = append(out, fd)
			}
		}
	}
	return out
}

func SortedFiles(pk *packages.Package) []*ast.File {
	fs := append([]*ast.File(nil), pk.Syntax...)
	sort.Slice(fs, func(i, j int) bool {
		return pk.Fset.Position(fs[i].Pos()).Filename < pk.Fset.Position(fs[j].Pos()).Filename
	})
	return fs
}

// FuncName renders "pkg.(Recv).Name" for a declaration.
func FuncName(pk *packages.Package, fd *ast.FuncDecl) string {
	r := RecvName(fd)
	if r != "" {
		return Rel(pk.PkgPath) + ".(" + r + ")." + fd.Name.Name
	}
	return Rel(pk.PkgPath) + "." + fd.Name.Name
}

// Obj looks up a package-level object.
func Obj(pk *packages.Package, name string) types.Object {
	if pk == nil || pk.Types == nil {
		return nil
	}
	return pk.Types.Scope().Lookup(name)
}

// SSA builds (once) the SSA form of all loaded sonic packages.
func (p *Program) SSA() (*ssa.Program, []*ssa.Package) {
	if p.ssaProg == nil {
		prog, pkgs := ssautil.Packages(p.Pkgs, ssa.InstantiateGenerics)
		prog.Build()
		p.ssaProg, p.ssaPkgs = prog, pkgs
	}
	return p.ssaProg, p.ssaPkgs
}

// IsSonic reports whether a types.Package belongs to the analysed modules.
func IsSonic(pk *types.Package) bool {
	return pk != nil && (pk.Path() == ModPath || strings.HasPrefix(pk.Path(), ModPath+"/"))
}
